/-
  Audit tool (not part of the library):  lake env lean --run Audit.lean D2V.Props.C43 …
  For every theorem declared in the named modules prints one line
      THEOREM <module> <name> AXIOMS <comma separated axioms>
  so the check can (a) count proof obligations from what the kernel actually accepted and
  (b) refuse any axiom outside {propext, Classical.choice, Quot.sound}.
-/
import Lean
open Lean

def isUserTheorem (n : Name) : Bool :=
  !n.isInternalDetail && !n.isInternal &&
  !(n.components.any fun c => let s := c.toString
      s.startsWith "eq_" || s.startsWith "match_" || s.startsWith "_" || s == "eq_def" || s.startsWith "proof_"
        || s == "induct" || s == "induct_unfolding" || s == "fun_cases" || s == "fun_cases_unfolding"
        || s.startsWith "congr_simp" || s == "sizeOf_spec" || s == "injEq" || s == "inj" || s == "noConfusion")

unsafe def main (args : List String) : IO UInt32 := do
  initSearchPath (← findSysroot)
  let mods := args.map String.toName
  let env ← importModules (mods.toArray.map fun m => { module := m }) {} (loadExts := false)
  let mut bad : UInt32 := 0
  for m in mods do
    let some idx := env.getModuleIdx? m | do IO.eprintln s!"module {m} not found"; return 2
    let names := env.constants.fold (init := (#[] : Array Name)) fun acc n ci =>
      match ci with
      | .thmInfo _ => if env.getModuleIdxFor? n == some idx && isUserTheorem n then acc.push n else acc
      | _ => acc
    let names := names.qsort (fun a b => a.toString < b.toString)
    for n in names do
      let ctx : Core.Context := { fileName := "<audit>", fileMap := default }
      let st : Core.State := { env }
      let (axs, _) ← (collectAxioms n : CoreM (Array Name)).toIO ctx st
      let axs := axs.qsort (fun a b => a.toString < b.toString)
      IO.println s!"THEOREM {m} {n} AXIOMS {",".intercalate (axs.toList.map toString)}"
      for a in axs do
        if a != ``propext && a != ``Classical.choice && a != ``Quot.sound then bad := 1
  return bad
