import D2V.Drv.Common
import D2V.Drv.SemX
import D2V.Model.Glob
import D2V.Model.GlobExpand
import D2V.Model.GlobSem
open Lean D2V.Drv D2V.Drv.SemX D2V.SemAst D2V.Glob D2V.GlobExpand D2V.GlobSem

/-!
  C12 driver.

  `--xform`: `{"body": AST}` ↦ `{"p": text, "q": text | null, "qerr": why}` with `q = render (expand body)`.

  kinds
    `keywords`  the live `d2ast.ReservedKeywords` against the model's table
    `lower`     `unicode.ToLower` on the harness alphabet against `lowerRune`
    `match`     (name, pattern) pairs observed through the real compiler: model `matchPattern` must agree
                (mismatch otherwise) and the outcome must be the specification `wildcard` (specfalse otherwise)
    `globdiff`  compile(p) = compile(expand p), both by the real compiler; `expand` is the Lean reference
-/

def unhexL (s : String) : Except String Bytes :=
  match unhex s with
  | some b => pure b
  | none => throw "not hex"

/-- all non-glob key segments of a program (candidate object names) and all glob segments -/
partial def segsOf (body : Body) : List String × List String :=
  body.foldl (fun (acc : List String × List String) s =>
    let keys : List Key × Val := match s with
      | .field _ k _ v => ([k], v)
      | .edge c a _ d _ ek _ v => ([c, a, d, ek], v)
      | _ => ([], .none)
    let segs := keys.1.flatten
    let ns := (segs.filter (!segHasGlob ·)).map (·.s)
    let gl := (segs.filter segHasGlob).map (·.s)
    let inner := match keys.2 with
      | .map b => segsOf b
      | _ => ([], [])
    (acc.1 ++ ns ++ inner.1, acc.2 ++ gl ++ inner.2)) ([], [])

/-- the program contains a (pattern, name) pair on which the model of `matchPattern` and `wildcard` differ -/
def matchDiffers (body : Body) : Bool :=
  let (ns, gl) := segsOf body
  gl.any fun g => g != "**" && g != "***" && ns.any fun n =>
    match matchPatternCur (bytesOf n) (patternOf g) with
    | .ok b => b != wildcard kwBytes (bytesOf n) (patternOf g)
    | .error _ => true

partial def hasNull (body : Body) : Bool :=
  body.any fun s => match s with
    | .field _ _ _ .null => true
    | .edge _ _ _ _ _ _ _ .null => true
    | .field _ _ _ (.map b) => hasNull b
    | .edge _ _ _ _ _ _ _ (.map b) => hasNull b
    | _ => false

/-- attribute paths set by the map body of a field glob -/
def mapGlobAttrs : Stmt → Option (List String)
  | .field _ k _ (.map b) =>
    if keyHasGlob k then some (b.filterMap fun s => match s with
      | .field _ k' _ _ => some (renderKey k')
      | _ => none) else none
  | _ => none

partial def allStmts (body : Body) : List Stmt :=
  body.flatMap fun s => s :: (match s with
    | .field _ _ _ (.map b) => allStmts b
    | .edge _ _ _ _ _ _ _ (.map b) => allStmts b
    | _ => [])

/-- two map-valued field globs that set a common attribute, the first of them with more than one entry (the
    nested re-application in the middle of the first glob's body interleaves the two) -/
def mapGlobOverlap (body : Body) : Bool :=
  let gs := (allStmts body).filterMap mapGlobAttrs
  let idx := gs.zipIdx
  idx.any fun (a, i) => a.length > 1 && idx.any fun (b, j) => i != j && a.any fun k => b.contains k

/-- two textually identical glob declarations in one block (the compiler treats them as one glob) -/
partial def duplicateGlob (body : Body) : Bool :=
  let gl := (body.filter fun s => match s with
    | .field _ k _ _ => keyHasGlob k
    | .edge c a _ d _ _ _ _ => keyHasGlob c || keyHasGlob a || keyHasGlob d
    | _ => false).map (Stmt.render 0)
  (gl.zipIdx.any fun (a, i) => gl.zipIdx.any fun (b, j) => i < j && a == b) ||
    body.any fun s => match s with
      | .field _ _ _ (.map b) => duplicateGlob b
      | _ => false

/-- two globs that assign a label (primary value) -/
def labelGlobs (body : Body) : Bool :=
  ((allStmts body).filter fun s => match s with
    | .field _ [k] _ (.scal _) => segHasGlob k
    | _ => false).length ≥ 2

/-- two connection-index globs that set the same attribute (their order of application on a connection created by a
    third glob depends on the nesting of the re-application passes) -/
def indexGlobOverlap (body : Body) : Bool :=
  let ks := (allStmts body).filterMap fun s => match s with
    | .edge _ a _ d (some _) ek _ _ => if keyHasGlob a || keyHasGlob d then some (renderKey ek) else none
    | _ => none
  ks.zipIdx.any fun (a, i) => ks.zipIdx.any fun (b, j) => i < j && a == b

def classOf (body : Body) : String :=
  if matchDiffers body then ":match-differs" else if hasNull body then ":redeclared-after-null"
  else if duplicateGlob body then ":duplicate-glob"
  else if labelGlobs body then ":label-glob-order"
  else if mapGlobOverlap body then ":map-glob-overlap"
  else if indexGlobOverlap body then ":index-glob-overlap" else ""

/-! one-block attribute-glob programs: the operational model `GlobSem.run` against the compiled graph -/

def attrOfKey : Key → Option String
  | [] => some "Label"
  | [a] => if a.q == 0 && a.s == "shape" then some "Shape" else none
  | [s, a] => if s.q == 0 && s.s == "style" && a.q == 0 && a.s == "fill" then some "style.Fill" else none
  | _ => none

def gstmtOf : Stmt → Option GStmt
  | .field 0 (n :: rest) none v =>
    if n.q != 0 || isKw n then none else
    match attrOfKey rest, v with
    | some "Label", .none => if segHasGlob n then none else some (.decl n.s)
    | some "Label", .null => if segHasGlob n then none else some (.del n.s)
    | some k, .scal sv =>
      match sv.text? with
      | some t => if sv.q != 0 then none else if segHasGlob n then some (.glob n.s k t) else some (.set n.s k t)
      | none => none
    | _, _ => none
  | _ => none

/-- the matcher of the tree under test (`**` in a single block selects every object) -/
def implMatch (pat name : String) : Bool :=
  if pat == "**" then true else matchPatternCur (bytesOf name) (patternOf pat) == .ok true

def xform (j : Json) : Except String Json := do
  let body ← decBody (← getObj j "body")
  let p := renderBody 0 body
  match expand body with
  | .ok q => pure (Json.mkObj [("p", p), ("q", renderBody 0 q)])
  | .error e => pure (Json.mkObj [("p", p), ("q", Json.null), ("qerr", e)])

def handleC12 (j : Json) : Except String Verdict := do
  let k ← getStr j "k"
  let i ← getObj j "in"
  let o ← getObj j "out"
  match k with
  | "keywords" =>
    let live ← (← getArr o "kw").toList.mapM (·.getStr?)
    let a := (live.toArray.qsort (· < ·)).toList
    let b := (reservedKeywords.toArray.qsort (· < ·)).toList
    if a == b then return .ok else return .mismatch "keyword-table" s!"live {a} vs model {b}"
  | "lower" =>
    let rs ← getNats i "runes"
    let ls ← getNats o "lower"
    for (r, l) in rs.zip ls do
      if lowerRune r != l then return .mismatch "lower-table" s!"U+{r}: model {lowerRune r} vs unicode.ToLower {l}"
    return .ok
  | "match" =>
    let name ← unhexL (← getStr i "name")
    let pat ← (← getArr i "pattern").toList.mapM fun x => do unhexL (← x.getStr?)
    let res ← getStr o "res"
    let model := matchPatternCur name pat
    let spec := wildcard kwBytes name pat
    let modelStr := match model with
      | .ok true => "true" | .ok false => "false"
      | .error (.sliceOOB lo len) => s!"panic: runtime error: slice bounds out of range [{lo}:{len}]"
    let specStr := if spec then "true" else "false"
    -- Spec-on-impl first: the implementation's answer must be the anchored, case-insensitive wildcard match
    if res == specStr then
      if modelStr != res then
        return .mismatch "matchPattern" s!"name {hex name} pattern {pat.map hex}: model {modelStr} vs impl {res}"
      return .ok
    if modelStr != res then
      -- the implementation deviates from the specification in a way the model of the pinned code does not explain
      return .specfalse "match-deviates" s!"name {hex name} pattern {pat.map hex}: impl {res}, wildcard {spec}, model of the code {modelStr}"
    -- which known deviation explains it?  Lower-casing once differs from the specification only by the missing end
    -- anchor (`matchLoop_eq_wildP`), and that can only make the code match *more*.
    let fixedOk := matchPattern true kwBytes name pat == .ok spec
    let sig :=
      if res.startsWith "panic" then "match-panic"
      else if fixedOk && kwBytes.contains (lower name) then "match-keyword-case"
      else if fixedOk then "match-case-length"
      else if pat.getLast? != some star && res == "true" && !spec then "match-unanchored"
      else "match-not-wildcard"
    return .specfalse sig s!"name {hex name} pattern {pat.map hex}: impl {res}, wildcard {spec}"
  | "globdiff" =>
    let body ← decBody (← getObj i "body")
    if renderBody 0 body != (← getStr o "ptext") then return .mismatch "xform-drift" "p"
    let gp ← decOutcome (← getObj o "gp")
    let cls := classOf body
    match expand body with
    | .error e => return .bad s!"generated program outside the expand fragment: {e}"
    | .ok q =>
      if renderBody 0 q != (← getStr o "qtext") then return .mismatch "xform-drift" "q"
      let gq ← decOutcome (← getObj o "gq")
      -- model vs implementation on one-block attribute-glob programs
      match body.mapM gstmtOf, gp with
      | some prog, .graph a =>
        let c := (run implMatch prog).c
        let exp := sortEnts (c.map fun (n, av) => { id := n, attrs := expectedAttrs n av })
        if exp != a.objs then
          return .mismatch "glob-model" s!"GlobSem.run {repr exp} vs compiled {repr a.objs}"
      | _, _ => pure ()
      match gp, gq with
      | .graph a, .graph b =>
        match boardDiff "root" a b with
        | none => return .ok
        | some d => return .specfalse ("graph-differs" ++ cls) d
      | .errs a, .errs b => if a == b then return .ok else return .specfalse ("errors-differ" ++ cls) s!"{a} vs {b}"
      | .panic m, _ => return .specfalse ("panic" ++ cls) m
      | a, b => return .specfalse ("outcome-differs:" ++ a.kindStr ++ "-vs-" ++ b.kindStr ++ cls) s!"{a.brief} vs expanded {b.brief}"
  | _ => return .bad s!"unknown kind {k}"

def main (args : List String) : IO Unit :=
  if args.contains "--xform" then xformLoop xform else runDriver (single handleC12)
