/-
  JSON decoding shared by the drivers of the layout group (C17–C20, C23): the canonical geometry the harness
  package `harness/lay` dumps (exact rationals "a/b"; "nan", "+inf", "-inf" for non-finite floats).
-/
import D2V.Drv.Common
import D2V.Model.LaySpec
open Lean

namespace D2V.Drv.Lay
open D2V.Drv D2V.Lay

/-- a geometry number; a non-finite float is reported with the prefix `nonfinite` -/
def geoRat (j : Json) (k : String) : Except String Rat := do
  let s ← getStr j k
  if s == "nan" || s == "+inf" || s == "-inf" then throw s!"nonfinite {k}={s}"
  match parseRat s with
  | some r => pure r
  | none => throw s!"field {k}: not a rational: {s}"

def geoBox (j : Json) : Except String Box := do
  pure { x := ← geoRat j "x", y := ← geoRat j "y", w := ← geoRat j "w", h := ← geoRat j "h" }

def optBox (j : Json) (k : String) : Except String (Option Box) :=
  match j.getObjVal? k with
  | .ok b => do pure (some (← geoBox b))
  | .error _ => pure none

def geoPt (j : Json) : Except String Pt := do
  match j with
  | .arr #[a, b] =>
    let f (x : Json) (k : String) : Except String Rat := do
      let s ← x.getStr?
      if s == "nan" || s == "+inf" || s == "-inf" then throw s!"nonfinite route {k}={s}"
      match parseRat s with
      | some r => pure r
      | none => throw s!"route point: not a rational: {s}"
    pure { x := ← f a "x", y := ← f b "y" }
  | _ => throw "route point: not a pair"

def boolD (j : Json) (k : String) : Bool :=
  match j.getObjValAs? Bool k with
  | .ok b => b
  | .error _ => false

def strD (j : Json) (k : String) : String :=
  match j.getObjValAs? String k with
  | .ok b => b
  | .error _ => ""

def intD (j : Json) (k : String) : Int :=
  match j.getObjValAs? Int k with
  | .ok b => b
  | .error _ => 0

/-- objects that have a box (`nobox` entries — none after a successful layout — are reported as an error) -/
def geoObj (j : Json) : Except String Obj := do
  let id ← getStr j "id"
  if boolD j "nobox" then throw s!"nonfinite object {id} has no box"
  let b ← match j.getObjVal? "box" with
    | .ok b => geoBox b |>.mapError (fun e => s!"{e} (object {id})")
    | .error e => throw e
  pure { id := id, parent := strD j "parent", shape := strD j "shape", box := b,
         olabel := ← optBox j "olabel", oicon := ← optBox j "oicon", oiconMax := ← optBox j "oiconMax",
         is3d := boolD j "3d", multiple := boolD j "multiple", inSeq := boolD j "inSeq", isSeq := boolD j "isSeq", isGrid := boolD j "isGrid",
         constNear := boolD j "constNear", container := boolD j "container", near := strD j "near", labelPos := strD j "labelPos", labelH := intD j "labelH",
         labelW := intD j "labelW", hasLabel := boolD j "hasLabel",
         preW := (match geoRat j "preW" with | .ok r => r | .error _ => b.w),
         seqGroup := boolD j "seqGroup", seqNote := boolD j "seqNote", line := intD j "line" }

def geoEdge (j : Json) : Except String Edge := do
  let id ← getStr j "id"
  let r ← (← getArr j "route").toList.mapM (fun p => geoPt p |>.mapError (fun e => s!"{e} (edge {id})"))
  pure { id := id, src := strD j "src", dst := strD j "dst", route := r, lifeline := boolD j "lifeline",
         inSeq := boolD j "inSeq", labelH := intD j "labelH", labelW := intD j "labelW", line := intD j "line",
         srcPerim := strD j "srcPerim", dstPerim := strD j "dstPerim" }

def geoOf (g : Json) : Except String (List Obj × List Edge) := do
  let os ← (← getArr g "objects").toList.mapM geoObj
  let es ← (← getArr g "edges").toList.mapM geoEdge
  pure (os, es)

def isNonfinite (e : String) : Bool := e.startsWith "nonfinite"

def findObj (os : List Obj) (id : String) : Option Obj := os.find? (·.id == id)

def ratStr (r : Rat) : String :=
  if r.den == 1 then toString r.num else s!"{r.num}/{r.den}"

def boxStr (b : Box) : String := s!"[x={ratStr b.x} y={ratStr b.y} w={ratStr b.w} h={ratStr b.h}]"
def ptStr (p : Pt) : String := s!"({ratStr p.x},{ratStr p.y})"

/-- verdict lines are one line each: names may contain line breaks -/
def oneLine (s : String) : String :=
  String.ofList (s.toList.flatMap fun c => if c == '\n' then ['\\', 'n'] else if c == '\r' then ['\\', 'r'] else [c])

def sanitize : Verdict → Verdict
  | .mismatch s d => .mismatch (oneLine s) (oneLine d)
  | .specfalse s d => .specfalse (oneLine s) (oneLine d)
  | .bad w => .bad (oneLine w)
  | .skip w => .skip (oneLine w)
  | .ok => .ok

def runSanitized (f : Json → Except String Verdict) : IO Unit :=
  runDriver fun j => match f j with
    | .ok v => .ok (sanitize v)
    | .error e => .error (oneLine e)

/-- short stable token for signatures: engine + a tag -/
def sigOf (engine tag : String) : String := s!"{tag}:{engine}"

end D2V.Drv.Lay
