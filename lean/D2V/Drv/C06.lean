import D2V.Drv.Common
import D2V.Model.Ids
open Lean D2V.Drv D2V.Quote D2V.Gen.Quote

/-!
  C06 driver: one compiled board per line.

  Spec-on-impl `idsOk` (the property sentence on what the real code returned):
    * every object's ID parses back (real d2parser.ParseKey) to exactly one segment equal to the object's name
      in the source, and its AbsID parses back to the names of its ancestors followed by its own;
    * the AbsIDs of the board's objects are pairwise distinct after strings.ToLower;
    * every connection ID parses back (real d2parser.ParseMapKey) to container / source / arrow / destination /
      index that resolve to this connection's endpoints, no two connections of the board share an ID (ignoring
      case), and no two connections share (source, destination, arrows, index).
  Model-vs-impl: ID = fmtKey name, AbsID = IDs joined with ".", Edge.AbsID = model `edgeAbsID`, and the model of
  ParseMapKey on connection IDs (`parseEdgeID`) against the real one, on the board's IDs and on edge-like texts (`pmk`).
-/

namespace D2V.Drv.C06

def strOfNats (ns : List Nat) : Str := ns.map Char.ofNat
def getS (j : Json) (k : String) : Except String Str := do return strOfNats (← getNats j k)

def show' (s : Str) : String :=
  let t := String.ofList (s.take 80)
  (repr t).pretty ++ (if s.length > 80 then s!"…(+{s.length - 80})" else "")

def clean (d : String) : String :=
  String.ofList ((d.toList.map fun c => if c == '\n' || c == '\r' then '⏎' else c).take 700)

def hazardClass (s : Str) : String :=
  if equalFold s "null" && s != "null".toList then "null-fold"
  else if kwCase s then "keyword-case"
  else "none"

structure Obj where
  id : Str
  absid : Str
  lower : Str
  name : Option Str
  nameKind : String
  parent : Int
  idparse : Json
  absparse : Json
  deriving Inhabited

structure EdgeO where
  absid : Str
  lower : Str
  src : Int
  dst : Int
  srcArrow : Bool
  dstArrow : Bool
  index : Nat
  parse : Json
  deriving Inhabited

def getObjO (j : Json) : Except String Obj := do
  return { id := ← getS j "id", absid := ← getS j "absid", lower := ← getS j "lower",
           name := (getS j "name").toOption, nameKind := (getStr j "nameKind").toOption.getD "",
           parent := ← getInt j "parent", idparse := ← getObj j "idparse", absparse := ← getObj j "absparse" }

def getEdgeO (j : Json) : Except String EdgeO := do
  return { absid := ← getS j "absid", lower := ← getS j "lower", src := ← getInt j "src", dst := ← getInt j "dst",
           srcArrow := ← getBool j "srcArrow", dstArrow := ← getBool j "dstArrow", index := ← getNat j "index",
           parse := ← getObj j "parse" }

def pathVals (j : Json) (k : String) : Except String (List Str) := do
  let a ← getArr j k
  a.toList.mapM fun x => getS x "val"

/-- chain of object indices from the board root down to `i` (fuel = number of objects) -/
def chain (objs : Array Obj) : Nat → Int → Option (List Nat)
  | 0, _ => none
  | fuel + 1, i =>
    if i < 0 then none
    else
      match objs[i.toNat]? with
      | none => none
      | some o =>
        if o.parent == -1 then some [i.toNat]
        else (chain objs fuel o.parent).map (· ++ [i.toNat])

def firstDup (xs : List Str) : Option Str :=
  let rec go : List Str → List Str → Option Str
    | [], _ => none
    | x :: rest, seen => if seen.contains x then some x else go rest (x :: seen)
  go xs []

/-- all failures of the Spec on one board; the caller reports one that is not a known fold hazard first -/
def idsFails (objs : Array Obj) (edges : Array EdgeO) : Except String (Array (String × String)) := do
  let n := objs.size
  let mut fails : Array (String × String) := #[]
  -- names along the chain of every object (none when the object has no source name, e.g. created by a glob)
  let mut names : Array (Option (List Str)) := #[]
  for i in [0:n] do
    let ch := chain objs (n + 1) (Int.ofNat i)
    names := names.push (ch.bind fun c => c.mapM fun k => objs[k]!.name)
  -- objects
  for i in [0:n] do
    let o := objs[i]!
    if o.parent == -2 then fails := fails.push ("obj-parent", s!"object {show' o.absid} has a parent outside the board")
    match o.name with
    | none => pure ()
    | some nm =>
      let cls := hazardClass nm
      if utf8LenStr nm ≤ maxKeyLen then
        let res ← getStr o.idparse "res"
        if res != "ok" then
          fails := fails.push ("id-unparsable", s!"class={cls} name={show' nm} id={show' o.id}: {res} {(getStr o.idparse "msg").toOption.getD ""}")
        else
          let vals ← pathVals o.idparse "path"
          if vals != [nm] then
            let sig := if vals.length == 1 && (vals.map lowerStr == [lowerStr nm] || vals.map (·.map foldKey) == [nm.map foldKey]) then "id-case" else "id-value"
            fails := fails.push (sig, s!"class={cls} name={show' nm} id={show' o.id} parses back as {vals.map show'}")
    match names[i]! with
    | none => pure ()
    | some chainNames =>
      if chainNames.all (fun nm => utf8LenStr nm ≤ maxKeyLen) then
        let cls := (chainNames.map hazardClass).foldl (fun a b => if a == "none" then b else a) "none"
        let res ← getStr o.absparse "res"
        if res != "ok" then
          fails := fails.push ("absid-unparsable", s!"class={cls} absid={show' o.absid}: {res} {(getStr o.absparse "msg").toOption.getD ""}")
        else
          let vals ← pathVals o.absparse "path"
          if vals != chainNames then
            let sig := if vals.map lowerStr == chainNames.map lowerStr || vals.map (·.map foldKey) == chainNames.map (·.map foldKey) then "absid-case" else "absid-path"
            fails := fails.push (sig, s!"class={cls} absid={show' o.absid} parses back as {vals.map show'}, the name path is {chainNames.map show'}")
  -- distinct ignoring case
  if let some d := firstDup (objs.toList.map (·.lower)) then
    fails := fails.push ("absid-duplicate", s!"two objects of the board share the absolute ID {show' d} (ignoring case)")
  -- connections
  if let some d := firstDup (edges.toList.map (·.lower)) then
    fails := fails.push ("edge-id-duplicate", s!"two connections of the board share the ID {show' d} (ignoring case)")
  let mut tuples : List (Int × Int × Bool × Bool × Nat) := []
  for e in edges do
    if e.src < 0 || e.dst < 0 then fails := fails.push ("edge-endpoint", s!"connection {show' e.absid} has an endpoint outside the board")
    let t := (e.src, e.dst, e.srcArrow, e.dstArrow, e.index)
    if tuples.contains t then fails := fails.push ("edge-tuple-duplicate", s!"two connections share endpoints, arrows and index: {show' e.absid}")
    tuples := t :: tuples
    let res ← getStr e.parse "res"
    if res != "ok" then
      fails := fails.push ("edge-id-unparsable", s!"connection ID {show' e.absid}: {res} {(getStr e.parse "msg").toOption.getD ""}")
    else
      if (getBool e.parse "odd").toOption.getD false then fails := fails.push ("edge-id-arrow", s!"connection ID {show' e.absid} parses with a * arrowhead")
      let common ← pathVals e.parse "common"
      let ps ← pathVals e.parse "src"
      let pd ← pathVals e.parse "dst"
      let psa ← getBool e.parse "srcArrow"
      let pda ← getBool e.parse "dstArrow"
      let pidx ← getNat e.parse "index"
      if psa != e.srcArrow || pda != e.dstArrow || pidx != e.index then
        fails := fails.push ("edge-id-arrow-index", s!"connection ID {show' e.absid} parses back with other arrows or index")
      match names[e.src.toNat]!, names[e.dst.toNat]! with
      | some sn, some dn =>
        if (sn ++ dn).all (fun nm => utf8LenStr nm ≤ maxKeyLen) then
          let cls := ((sn ++ dn).map hazardClass).foldl (fun a b => if a == "none" then b else a) "none"
          if common ++ ps != sn || common ++ pd != dn then
            let cf := fun (l : List Str) => l.map lowerStr
            let sig := if cf (common ++ ps) == cf sn && cf (common ++ pd) == cf dn then "edge-id-case" else "edge-id-resolve"
            fails := fails.push (sig, s!"class={cls} connection ID {show' e.absid} names {(common ++ ps).map show'} -> {(common ++ pd).map show'}, the endpoints are {sn.map show'} -> {dn.map show'}")
      | _, _ => pure ()
  return fails

def idsOk (objs : Array Obj) (edges : Array EdgeO) : Except String (Option (String × String)) := do
  let fails ← idsFails objs edges
  let known := fun (f : String × String) => (f.2.splitOn "class=null-fold").length > 1 || (f.2.splitOn "class=keyword-case").length > 1
  match fails.find? (fun f => !known f) with
  | some f => return some f
  | none => return fails[0]?

/-- model `parseEdgeID` on `text` against the observation of d2parser.ParseMapKey; `none` = agree (or the text is
    outside the model) -/
def cmpParseEdge (text : Str) (o : Json) : Except String (Option String) := do
  let res ← getStr o "res"
  match parseEdgeID text with
  | .unsupported => return none
  | .err => if res == "err" then return none else return some s!"model: error, go: {res} on {show' text}"
  | .ok common src dst sa da idx _ =>
    if res != "ok" then return some s!"model: ok, go: {res} {(getStr o "msg").toOption.getD ""} on {show' text}"
    if (getBool o "odd").toOption.getD false then return some s!"go parsed a * arrowhead, the model did not, on {show' text}"
    let gc ← pathVals o "common"
    let gs ← pathVals o "src"
    let gd ← pathVals o "dst"
    let gsa ← getBool o "srcArrow"
    let gda ← getBool o "dstArrow"
    let gi ← getNat o "index"
    if gc == common.map (·.val) && gs == src.map (·.val) && gd == dst.map (·.val) && gsa == sa && gda == da && gi == idx then
      return none
    return some s!"model {common.map (fun g => show' g.val)}.({src.map (fun g => show' g.val)} {sa}/{da} {dst.map (fun g => show' g.val)})[{idx}] vs go {gc.map show'}.({gs.map show'} {gsa}/{gda} {gd.map show'})[{gi}] on {show' text}"

def handleBoard (j : Json) : Except String Verdict := do
  let o ← getObj j "out"
  if let .ok p := getStr o "panic" then return .specfalse "observe-panic" (clean p)
  let objs ← (← getArr o "objects").mapM getObjO
  let edges ← (← getArr o "edges").mapM getEdgeO
  if let some (sig, d) ← idsOk objs edges then return .specfalse sig (clean d)
  -- model vs implementation
  let n := objs.size
  for i in [0:n] do
    let ob := objs[i]!
    if let some nm := ob.name then
      if objID nm != ob.id then return .mismatch "objid" (clean s!"model {show' (objID nm)} vs go {show' ob.id} for the name {show' nm}")
    if let some ch := chain objs (n + 1) (Int.ofNat i) then
      let ids := ch.map fun k => objs[k]!.id
      if joinDot ids != ob.absid then return .mismatch "absid" (clean s!"model {show' (joinDot ids)} vs go {show' ob.absid}")
  for e in edges do
    match chain objs (n + 1) e.src, chain objs (n + 1) e.dst with
    | some cs, some cd =>
      let m := edgeAbsID (cs.map fun k => objs[k]!.id) (cd.map fun k => objs[k]!.id) e.srcArrow e.dstArrow e.index
      if m != e.absid then return .mismatch "edgeid" (clean s!"model {show' m} vs go {show' e.absid}")
    | _, _ => pure ()
    if let some d ← cmpParseEdge e.absid e.parse then return .mismatch "parse-edge-id" (clean d)
  return .ok

def handle (j : Json) : Except String Verdict := do
  let k ← getStr j "k"
  match k with
  | "board" => handleBoard j
  | "pmk" =>
    let t ← getS (← getObj j "in") "t"
    if parseEdgeID t == .unsupported then return .skip "outside-the-parser-model"
    match ← cmpParseEdge t (← getObj j "out") with
    | some d => return .mismatch "parse-map-key" (clean d)
    | none => return .ok
  | "compile-panic" =>
    let o ← getObj j "out"
    return .skip s!"compile-panic(C07): {clean ((getStr o "msg").toOption.getD "")}"
  | _ => return .bad s!"unknown kind {k}"

end D2V.Drv.C06

def main : IO Unit := runDriver D2V.Drv.C06.handle
