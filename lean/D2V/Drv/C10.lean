import D2V.Drv.SemIO
open Lean D2V.Drv D2V.SemIO D2V.Sem D2V.SemSpec

def violToVerdict : Viol → Verdict
  | none => .ok
  | some (sig, detail) => .specfalse sig detail

def obsOf (o : Json) (k : String) : Except String Obs := do decodeObs (← getObj o k)

/-- differential programs: the sentences of C10 evaluated on what the real compiler returned -/
def handleDiff (i o : Json) : Except String Verdict := do
  let k ← getStr i "key"
  let base ← obsOf o "base"
  match base with
  | .graph b =>
    let need (name : String) (f : Dump → Viol) : Except String Viol := do
      match ← obsOf o name with
      | .graph d => pure (f d)
      | .errors cls msg => pure (some ("redeclaration-rejected", s!"variant {name} of key {k}: {cls} {msg}"))
      | .panic => pure (some ("compile-panic", s!"variant {name}"))
    let v1 ← need "null" fun d => nullRemoves k b d
    let v2 ← need "renull" fun d => redeclareFresh k d
    let v3 ← need "relabel" fun d => redeclareMerges k "ZZlbl" b d
    let v4 ← need "twin" fun d => redeclareMerges k "ZZtwin" b d
    let v5 ← need "primary" fun d => primaryLastWins k "ZZprim" b d
    let v6 ← match ← obsOf o "oattr" with
      | .graph w => need "oattrnull" fun d => attrNullRemovesAttr k w d
      | _ => pure (some ("redeclaration-rejected", s!"{k}.style.opacity: 0.35"))
    let eref := match getStr i "eref" with | .ok s => s | .error _ => ""
    let v7 ← if eref.isEmpty then pure none else
      match ← obsOf o "eattr" with
      | .graph w => do
        let a ← need "eattrnull" fun d => edgeAttrNullRemovesAttr s!"`{eref}.style.opacity: null`" w d
        let b ← need "emapnull" fun d => edgeAttrNullRemovesAttr ("`" ++ eref ++ ": {style.opacity: null}`") w d
        pure (firstViol [a, b])
      | _ => pure (some ("redeclaration-rejected", s!"{eref}.style.opacity: 0.35"))
    let v8 ← match ← obsOf o "chain" with
      | .graph w => do
        let a ← need "chainnull" fun d => chainNullRemovesAll "`ZZa -> ZZb -> ZZc: null`" b w d
        let c ← need "chainnullidx" fun d => chainNullRemovesAll "`(ZZa -> ZZb -> ZZc)[0]: null`" b w d
        pure (firstViol [a, c])
      | _ => pure (some ("redeclaration-rejected", "ZZa -> ZZb -> ZZc: ZZl"))
    return violToVerdict (firstViol [v8, v1, v2, v3, v4, v5, v6, v7])
  | _ => return .bad "base program of a differential case does not compile"

def handleC10 (j : Json) : Except String Verdict := do
  let k ← getStr j "k"
  let i ← getObj j "in"
  let o ← getObj j "out"
  if k == "core" then
    let prog ← decodeProg i
    let obs ← decodeObs o
    return compareCore prog obs
  if k == "diff" then return ← handleDiff i o
  return .bad s!"unknown case kind {k}"

def main : IO Unit := runDriver handleC10
