import D2V.Drv.SemIO
open Lean D2V.Drv D2V.SemIO D2V.Sem

def handleC10 (j : Json) : Except String Verdict := do
  let k ← getStr j "k"
  let i ← getObj j "in"
  let o ← getObj j "out"
  if k == "core" then
    let prog ← decodeProg i
    let obs ← decodeObs o
    return compareCore prog obs
  return .bad s!"unknown case kind {k}"

def main : IO Unit := runDriver handleC10
