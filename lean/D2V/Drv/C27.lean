import D2V.Drv.Common
import D2V.Model.Shape
open Lean D2V.Drv D2V.Shape

namespace C27

def absR (a : Rat) : Rat := if a < 0 then -a else a
def close (a b : Rat) : Bool := decide (absR (a - b) ≤ (1 + absR a) / 1000000)

def rats (x : Json) : Except String (List Rat) := do
  match x with
  | .arr a => a.toList.mapM ratOfJson
  | _ => throw "not an array"

/-- is the first element a rational (else it is an outcome string such as a panic message) -/
def firstStr (x : Json) : Option String :=
  match x with
  | .arr a => match (a[0]? : Option Json) with
    | some (Json.str s) => if (parseRat s).isSome then none else some s
    | _ => some "empty"
  | _ => some "not-an-array"

/-- the shapes whose fit the theorems cover exactly; the others are judged with the pixel tolerance the property
    allows for curved outlines -/
def slackFor (typ : String) : Rat :=
  match Kind.ofType typ with
  | some _ => 1 / 1000000
  | none =>
    -- oval, circle, cloud place the inner box's corner with `math.Ceil` on both offsets and subtract twice the offset
    -- from the size: up to 2 px are lost to pixel rounding (the idealised statement is `ellipse_contains_rect`)
    if typ == "Oval" || typ == "Circle" || typ == "Cloud" then 2 else 1 / 1000000

def handleFit (i o : Json) : Except String Verdict := do
  let typ ← getStr i "type"
  let cases ← getArr i "cases"
  let res ← getArr o "res"
  if cases.size != res.size then throw "cases/res length"
  let k := Kind.ofType typ
  -- the first failure of the property's predicate is remembered and reported at the end, so that the model is still
  -- compared on every tuple of the batch (a model mismatch is only reported when the predicate holds everywhere)
  let mut specFail : Option Verdict := none
  let mut mism : Option Verdict := none
  for (cj, rj) in cases.toList.zip res.toList do
    let c ← rats cj
    if let some s := firstStr rj then
      return .specfalse s!"fit-panics:{typ}" s!"{c}: {s}"
    let r ← rats rj
    match c, r with
    | [w, h, px, py], [W, H, ix, iy, iw, ih] =>
      -- Spec-on-impl: the inner box of the fitted shape holds the padded content and lies inside the box
      -- (for the shapes the theorems cover: the *padded* content, exactly; for oval / circle / cloud / c4 person, whose
      --  fit applies the padding along the diagonal or through ratio tables: the content itself)
      let t := slackFor typ
      let (cw, ch) := if k.isSome then (w + px, h + py) else (w, h)
      if specFail.isNone && !decide (innerOK ⟨ix, iy, iw, ih⟩ W H cw ch t) then
        specFail := some (.specfalse s!"inner-does-not-contain:{typ}"
          s!"content {w}x{h} padding {px},{py}: fitted {W}x{H}, inner box x={ix} y={iy} w={iw} h={ih}")
      -- `pre`: the exact values under the four `math.Ceil`s of the cloud formulas (divisions / products by decimal
      -- ratios): where the exact value is an integer the float64 value may sit one ulp above it and Ceil adds 1
      let model : Option ((Rat × Rat) × IBox × Option (Rat × Rat × Rat × Rat)) :=
        match k with
        | some kind => some (fit kind w h px py, inner kind W H, none)
        | none =>
          if typ == "Cloud" then
            let hint := (getBool i "hint").toOption.getD false
            let hv := if hint && h != 0 then some (cloudHint w h) else none
            let c := cloudInnerCat hv W H
            let p := cloudFitPre w h px py
            some (cloudFit w h px py, cloudInner hv W H, some (p.1, p.2, W * c.innerX, H * c.innerY))
          else none
      if let some ((mW, mH), mi, pre) := model then
        let cc (m v : Rat) (p : Option Rat) : Bool :=
          close m v || (match p with | some q => ceilR q == q && close (m + 1) v | none => false)
        if mism.isNone && !(cc mW W (pre.map (·.1)) && cc mH H (pre.map (·.2.1))) then
          mism := some (.mismatch s!"fit:{typ}" s!"content {w}x{h} padding {px},{py}: model {mW}x{mH} vs impl {W}x{H}")
        if mism.isNone && !(cc mi.x ix (pre.map (·.2.2.1)) && cc mi.y iy (pre.map (·.2.2.2)) && close mi.w iw && close mi.h ih) then
          mism := some (.mismatch s!"inner:{typ}" s!"box {W}x{H}: model x={mi.x} y={mi.y} w={mi.w} h={mi.h} vs impl x={ix} y={iy} w={iw} h={ih}")
    | _, _ => throw "bad tuple"
  match specFail, mism with
  | some v, _ => return v
  | none, some v => return v
  | none, none => return .ok

/-- squared distance from `p` to the segment `a b` -/
def dist2 (px py ax ay bx b_y : Rat) : Rat :=
  let dx := bx - ax
  let dy := b_y - ay
  let l2 := dx * dx + dy * dy
  if l2 == 0 then (px - ax) * (px - ax) + (py - ay) * (py - ay)
  else
    let t0 := ((px - ax) * dx + (py - ay) * dy) / l2
    let t := if t0 < 0 then 0 else if t0 > 1 then 1 else t0
    let qx := ax + t * dx
    let qy := ay + t * dy
    (px - qx) * (px - qx) + (py - qy) * (py - qy)

/-- the property's tolerance for a traced end: the result is rounded to whole pixels (≤ 0.71 px off) after a float32
    truncation, and curved outlines are compared through a polyline -/
/- both the traced end (`math.Round` after a float32 truncation) and the points of the drawn SVG path (`chopPrecision`)
   are whole pixels: 0.71 px each -/
def traceTol : Rat := 3 / 2

def handleTrace (i o : Json) : Except String Verdict := do
  let typ ← getStr i "type"
  let box ← rats (← getObj i "box")
  let aps ← getArr i "approaches"
  let res ← getArr o "res"
  let per ← (← getArr o "perimeter").toList.mapM rats
  let rect ← getBool o "rectangular"
  let (bx, b_y, bw, bh) ← match box with
    | [a, b, c, d] => pure (a, b, c, d)
    | _ => throw "box"
  for (aj, rj) in aps.toList.zip res.toList do
    let a ← rats aj
    if let some s := firstStr rj then
      if s == "none" then continue
      return .specfalse s!"trace-panics:{typ}" s!"box {box} approach {a}: {s}"
    let r ← rats rj
    match r with
    | [x, y, rx, ry] =>
      if rect || per.isEmpty then
        -- rectangular outline: the outline is the box border
        let onBorder := decide ((absR (x - bx) ≤ traceTol ∨ absR (x - (bx + bw)) ≤ traceTol) ∧ b_y - traceTol ≤ y ∧ y ≤ b_y + bh + traceTol) ||
          decide ((absR (y - b_y) ≤ traceTol ∨ absR (y - (b_y + bh)) ≤ traceTol) ∧ bx - traceTol ≤ x ∧ x ≤ bx + bw + traceTol)
        if !onBorder then
          return .specfalse s!"trace-off-outline:{typ}" s!"box {box} approach {a}: traced ({x},{y}) from border point ({rx},{ry})"
      else
        let best := per.foldl (fun m s => match s with
          | [ax, ay, cx, cy] => let d := dist2 x y ax ay cx cy; if d < m then d else m
          | _ => m) (1000000000 : Rat)
        if !decide (best ≤ traceTol * traceTol) then
          -- the function fell back to the (rounded) point on the box: its extended segment met no outline element
          -- (known finding: the segment is extended by the box WIDTH, too short on shapes that are taller than wide;
          --  on any other box the fallback is reported as an ordinary off-outline violation)
          let sig := if x == roundR rx && y == roundR ry && decide (bw < bh) then "trace-no-intersection" else "trace-off-outline"
          return .specfalse s!"{sig}:{typ}" s!"box {box} approach {a}: traced ({x},{y}) from border point ({rx},{ry}), squared distance to the outline {best}"
    | _ => throw "bad trace result"
  return .ok

def handle (j : Json) : Except String Verdict := do
  let kind ← getStr j "k"
  let i ← getObj j "in"
  let o ← getObj j "out"
  if kind == "fit" then handleFit i o else handleTrace i o

end C27

def main : IO Unit := runDriver C27.handle
