import D2V.Drv.Common
import D2V.Model.Lsp
open Lean D2V.Drv D2V.Lsp

def decRng (j : Json) : Except String Rng := do
  match (← j.getArr?).toList with
  | [a, b, c, d] => pure ⟨⟨← a.getNat?, ← b.getNat?⟩, ⟨← c.getNat?, ← d.getNat?⟩⟩
  | _ => throw "range"

partial def decNode (j : Json) : Except String Node := do
  let kids ← (← getArr j "kids").toList.mapM decNode
  pure (.mk (← getStr j "name") (← decRng (← getObj j "r")) kids)

def decPath (j : Json) : Except String (Option (List String)) :=
  match j with
  | .null => pure none
  | _ => do pure (some (← (← j.getArr?).toList.mapM fun x => x.getStr?))

def showPath (p : Option (List String)) : String :=
  match p with
  | none => "nil"
  | some l => "[" ++ ", ".intercalate l ++ "]"

def sameSet (a b : List (List String)) : Bool := a.all (b.contains ·) && b.all (a.contains ·)

def lowerEq (a b : String) : Bool := a.toLower == b.toLower

/-- `suffix` (dot-joined, lower-cased) names the tail of `full` at a segment boundary -/
def isSegSuffix (suffix full : String) : Bool :=
  let s := suffix.toLower
  let f := full.toLower
  s == f || f.endsWith ("." ++ s)

def handleBoardPos (i o : Json) : Except String Verdict := do
  if (o.getObjValAs? Bool "noast").toOption == some true then return .skip "no ast"
  let text ← getStr i "text"
  let panics ← (← getArr o "panics").toList.mapM fun x => x.getStr?
  if let p :: _ := panics then
    return .specfalse "board-at-position-panics" p
  let root ← decRng (← getObj o "root")
  let tree ← (← getArr o "tree").toList.mapM decNode
  let paths ← (← getArr o "paths").toList.mapM decPath
  let grid ← (← getArr o "grid").toList.mapM fun row => do (← row.getArr?).toList.mapM fun x => x.getNat?
  let boards : Option (List Block) ← match o.getObjVal? "boards" with
    | .ok b => do
      let bs ← (← b.getArr?).toList.mapM fun x => do
        pure (Block.mk (← (← getArr x "path").toList.mapM fun y => y.getStr?) (← decRng (← getObj x "r")))
      pure (some bs)
    | .error _ => pure none
  -- ground truth sanity: the blocks read off the AST are the boards the compiler builds
  if let some bs := boards then
    let cb ← (← getArr o "compilerBoards").toList.mapM fun x => do (← x.getArr?).toList.mapM fun y => y.getStr?
    if !sameSet (bs.map (·.path)) cb then
      return .mismatch "board-set" s!"AST walk {bs.map (·.path)} vs compiler {cb}"
  let conts := containersList tree []
  let mut line := 0
  for row in grid do
    let mut col := 0
    for ix in row do
      let impl := (paths.getD ix none)
      let p : Pos := ⟨line, col⟩
      -- the theorem's hypothesis on this tree (well nested at p): checked when the parser accepted the text
      if boards.isSome && !(wnListB p tree && tree.all fun k => !k.r.has p || root.has p) then
        return .mismatch "tree-not-well-nested" s!"{line}:{col}"
      -- (i) the property: innermost board whose block contains the position
      if let some bs := boards then
        let want := innermostBoard bs p
        if impl != want then
          if impl.isNone && betweenBoards conts p want then
            return .specfalse "between-boards-answers-root" s!"{line}:{col} innermost board {showPath want}, reported nil"
          return .specfalse "board-at-position-not-innermost" s!"{line}:{col} innermost board {showPath want}, reported {showPath impl}"
      -- (ii) model vs implementation
      let m := boardAtPos root tree p
      if m != impl then
        return .mismatch "board-at-position" s!"{line}:{col} model {showPath m} impl {showPath impl} (text of {text.length} bytes)"
      col := col + 1
    line := line + 1
  return .ok

def handleRefs (i o : Json) : Except String Verdict := do
  let key ← getStr i "key"
  let oc ← getStr o "outcome"
  if oc != "ok" then
    return .specfalse (if oc == "err" then "ref-ranges-refused" else "ref-ranges-panics") s!"key {key}: {(o.getObjValAs? String "err").toOption.getD oc}"
  let isEdge ← getBool o "edge"
  let want ← (← getArr o "want").toList.mapM fun x => x.getStr?
  let slices ← getArr o "slices"
  if slices.isEmpty then
    return .specfalse "no-reference-returned" s!"key {key}"
  let mut got : List (Nat × Nat) := []
  for s in slices.toList do
    let r ← (← getArr s "r").toList.mapM fun x => x.getNat?
    let (a, b) := match r with | [a, b] => (a, b) | _ => (0, 0)
    got := (a, b) :: got
    if !(← getBool s "valid") then
      return .specfalse "ref-range-outside-source" s!"key {key}: bytes {a}-{b}"
    let txt ← getStr s "text"
    if !(← getBool s "parses") then
      return .specfalse "ref-range-does-not-parse" s!"key {key}: slice {txt.quote}"
    if isEdge then
      match (s.getObjVal? "edge").toOption with
      | some e =>
        let parts ← (← e.getArr?).toList.mapM fun x => x.getStr?
        match parts, want with
        | [s1, a1, d1], [s2, a2, d2] =>
          if !(isSegSuffix s1 s2 && a1 == a2 && isSegSuffix d1 d2) then
            return .specfalse "ref-range-does-not-name-key" s!"key {key}: slice {txt.quote}"
        | _, _ => return .bad "edge shape"
      | none => return .specfalse "ref-range-does-not-name-key" s!"key {key}: slice {txt.quote} is not a connection"
    else
      match (s.getObjVal? "path").toOption with
      | some pth =>
        let segs ← (← pth.getArr?).toList.mapM fun x => x.getStr?
        match segs.getLast?, want.getLast? with
        | some a, some b => if !lowerEq a b then
            return .specfalse "ref-range-does-not-name-key" s!"key {key}: slice {txt.quote}"
        | _, _ => return .specfalse "ref-range-does-not-name-key" s!"key {key}: slice {txt.quote}"
      | none => return .specfalse "ref-range-does-not-name-key" s!"key {key}: slice {txt.quote} is not a key"
  match (o.getObjVal? "decls").toOption with
  | some ds =>
    for d in (← ds.getArr?).toList do
      let r ← (← d.getArr?).toList.mapM fun x => x.getNat?
      match r with
      | [a, b] => if !got.contains (a, b) then
          return .specfalse "declaration-not-returned" s!"key {key}: the declaration at bytes {a}-{b} is not among the returned ranges"
      | _ => return .bad "decl shape"
  | none => pure ()
  return .ok

def handleC42 (j : Json) : Except String Verdict := do
  let k ← getStr j "k"
  let i ← getObj j "in"
  let o ← getObj j "out"
  match k with
  | "boardpos" => handleBoardPos i o
  | "refs" => handleRefs i o
  | "completion" =>
    let panics ← (← getArr o "panics").toList.mapM fun x => x.getStr?
    match panics with
    | p :: _ => return .specfalse "completion-panics" p
    | [] => return .ok
  | _ => throw s!"unknown kind {k}"

def main : IO Unit := runDriver handleC42
