import D2V.Drv.Common
import D2V.Model.Fold
open Lean D2V.Drv D2V.Fold

/-- C25 driver.  `render` lines: SHA-1 of the SVG bytes of every render of one (program, engine, sketch) in the
    run (sequential, concurrent with the other diagrams of the batch, GOMAXPROCS 1/2/16) and of two separate CLI
    processes.  Spec-on-impl: all in-process renders byte-identical; both processes byte-identical.
    `history` lines: SHA-1 of diagram B rendered after a feature-rich diagram A in one fresh process, and of B
    rendered alone in a fresh process — they must agree (no state survives a render).
    `race` lines: a data-race report of the -race build. -/
def handleC25 (j : Json) : Except String Verdict := do
  let k ← getStr j "k"
  let o ← getObj j "out"
  match k with
  | "render" =>
    let strs (a : Array Json) : Except String (List String) := a.toList.mapM fun x => match x with | .str s => pure s | _ => throw "hash"
    let hs ← strs (← getArr o "runs")
    if hs.length < 2 then return .bad "fewer than two renders"
    let kind := (getStr o "kind").toOption.getD "?"
    if !allSame hs then
      return .specfalse s!"nondeterministic-{kind}" s!"{(getStr o "diff").toOption.getD ""} differing runs: {(getArr o "differing").toOption.getD #[]}"
    match getArr o "cli" with
    | .ok c =>
      let cs ← strs c
      if !allSame cs then return .specfalse "nondeterministic-across-processes" ((getStr o "clidiff").toOption.getD "")
      return .ok
    | .error _ => return .ok
  | "history" =>
    -- diagram B rendered after diagram A in one fresh process vs B rendered alone in a fresh process
    let after ← getStr o "after"
    let fresh ← getStr o "fresh"
    if !allSame [fresh, after] then
      return .specfalse s!"history-dependent-{(getStr o "kind").toOption.getD "?"}" ((getStr o "diff").toOption.getD "")
    return .ok
  | "race" => return .specfalse "data-race" ((getStr o "report").toOption.getD "")
  | _ => return .bad s!"unknown kind {k}"

def main : IO Unit := runDriver handleC25
