import D2V.Drv.Common
import D2V.Drv.SemX
import D2V.Model.Import
open Lean D2V.Drv D2V.Drv.SemX D2V.SemAst D2V.Import D2V.ImportFlat D2V.Boards

/-!
  C14 driver.

  `--xform`: `{"prog": file set}` ↦ `{"files": {name: text}, "q": text | null}` — the rendered file set and the
  rendered single-file twin `inline prog` (a Lean function).

  kind `impdiff`: `in.prog`, `out.files`, `out.qtext`, `out.gp` (real compiler on the file set, in-memory FS),
  `out.gq` (real compiler on the inlined text).  Model: `walk` (import stack, normalisation, cycle test) predicts
  the cyclic chains and the missing files; Spec-on-impl: cycles are reported as errors; otherwise the graph of
  the file set equals the graph of the inlined program.
  kind `path`: `normalise` against the path the real `pushImportStack` computed (read off the error text).
-/

def xform (j : Json) : Except String Json := do
  let prog ← decProg (← getObj j "prog")
  let files := filesJson (renderProg prog)
  match D2V.Import.inline prog with
  | .ok q => pure (Json.mkObj [("files", files), ("q", renderBody 0 q)])
  | .error _ => pure (Json.mkObj [("files", files), ("q", Json.null)])

/-! flat fragment with imports at the top of files: the model `evalF` (compile the imported file in its own map,
    overlay it) against the compiled graph -/

def flatItems (prog : Prog) (fileName : String) (body : Body) : Option (List FItem) :=
  body.zipIdx.mapM fun (s, i) => match s with
    | .spreadImp raw =>
      if i != 0 || !(parseImp raw).keys.isEmpty then none
      else
        let p := normalise [fileName] raw
        (prog.findIdx? (·.name == p)).map FItem.spread
    | s => match opOfStmt s with
      | some [o] => (match s with
          | .field _ [n] _ _ => if (boardKw [n]).isSome || n.s == "classes" || n.s == "vars" then none else some (FItem.op o)
          | _ => some (FItem.op o))
      | _ => none

def flatFiles (prog : Prog) : Option Files := prog.mapM fun f => flatItems prog f.name f.body

def isPrefixOf (p s : String) : Bool := s.startsWith p

def cycleMsgs (msgs : List String) : List String := msgs.filter (isPrefixOf "detected cyclic import chain: ")

def handleC14 (j : Json) : Except String Verdict := do
  let k ← getStr j "k"
  let i ← getObj j "in"
  let o ← getObj j "out"
  match k with
  | "impdiff" =>
    let prog ← decProg (← getObj i "prog")
    let files ← getObj o "files"
    for (n, t) in renderProg prog do
      if (files.getObjValAs? String n).toOption != some t then
        return .mismatch "xform-drift" s!"render of {n} differs from the compiled text"
    let gp ← decOutcome (← getObj o "gp")
    let entry := (prog.head?.map (·.name)).getD ""
    let fs := fsOf prog
    let evs := walk (fuelFor fs) fs entry
    if evs.contains .outOfFuel then return .mismatch "model-fuel" "import walk ran out of fuel (import_terminates violated in the model)"
    let cyc := evs.filterMap fun e => match e with | .cycle m => some m | _ => none
    let miss := evs.filterMap fun e => match e with | .missing p => some p | _ => none
    if !cyc.isEmpty then
      -- clause: an import chain that leads back to a file already being imported is reported as an error
      match gp with
      | .errs msgs =>
        let got := cycleMsgs msgs
        if got.isEmpty then return .specfalse "cycle-not-reported" s!"cyclic file set; errors: {msgs}"
        if got != cyc then return .mismatch "cycle-chain" s!"model {cyc} vs impl {got}"
        return .ok
      | .panic m => return .specfalse "cycle-panic" m
      | .graph _ => return .specfalse "cycle-not-reported" s!"cyclic file set compiled; model chains: {cyc}"
    if !miss.isEmpty then
      match gp with
      | .errs msgs =>
        let ok := miss.all fun p => msgs.any fun m => isPrefixOf ("failed to import \"" ++ p ++ "\"") m
        if ok then return .ok else return .mismatch "missing-path" s!"model {miss} vs impl {msgs}"
      | other => return .mismatch "missing-path" s!"model: missing {miss}; impl: {other.brief}"
    match D2V.Import.inline prog with
    | .error e => return .bad s!"inline failed on an acyclic complete file set: {repr e}"
    | .ok q =>
      let qtext ← getStr o "qtext"
      if renderBody 0 q != qtext then return .mismatch "xform-drift" "render(inline prog) differs from the compiled text"
      let gq ← decOutcome (← getObj o "gq")
      match gp, gq with
      | .graph a, .graph b =>
        match boardDiff "root" a b with
        | some d => return .specfalse "graph-differs" d
        | none =>
          -- model vs implementation on the flat fragment
          match flatFiles prog with
          | none => return .ok
          | some fs =>
            let c := evalF (fs.length + 1) fs (fs.headD []) []
            let exp := sortEnts (c.map fun (n, av) => { id := n, attrs := expectedAttrs n av })
            if exp == a.objs then return .ok
            else return .mismatch "import-model" s!"evalF {repr exp} vs compiled {repr a.objs}"
      | .errs a, .errs b =>
        if a == b then return .ok else return .specfalse "errors-differ" s!"{a} vs {b}"
      | a, b => return .specfalse ("outcome-differs:" ++ a.kindStr ++ "-vs-" ++ b.kindStr) s!"{a.brief} vs inlined {b.brief}"
  | "path" =>
    let top ← getStr i "top"
    let raw ← getStr i "raw"
    let got ← getStr o "path"
    let m := normalise [top] raw
    if m == got then return .ok else return .mismatch "normalise" s!"top={top} raw={raw}: model {m} vs impl {got}"
  | _ => return .bad s!"unknown kind {k}"

def main (args : List String) : IO Unit :=
  if args.contains "--xform" then xformLoop xform else runDriver (single handleC14)
