import D2V.Drv.SemIO
open Lean D2V.Drv D2V.SemIO D2V.Sem D2V.SemSpec

def handleC09 (j : Json) : Except String Verdict := do
  let k ← getStr j "k"
  let i ← getObj j "in"
  let o ← getObj j "out"
  let obs ← decodeObs o
  -- Spec-on-impl: the property's sentences on every board the real compiler returned
  let spec : Viol := match obs with
    | .graph d => C09spec d
    | .panic => some ("compile-panic", "the compiler panicked")
    | .errors _ _ => none
  match spec with
  | some (sig, detail) => return .specfalse sig detail
  | none =>
    if k == "core" then
      let prog ← decodeProg i
      return compareCore prog obs
    return .ok

def main : IO Unit := runDriver handleC09
