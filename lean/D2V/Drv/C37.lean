import D2V.Drv.EditIO
open D2V.Drv D2V.EditIO

/-- C37 driver: the shared editing-API step decoder and clause evaluator, restricted to the clauses of C37 -/
def main : IO Unit := runDriver (handleEdit "C37")
