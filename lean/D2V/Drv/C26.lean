import D2V.Drv.Common
import D2V.Model.Serde
open Lean D2V.Drv D2V.Serde

/-- C26 driver.
    `serde` lines — model vs implementation: AbsIDs / ChildrenArray / Src / Dst computed by the model's `serialize` from
    the arena view of the real graph = those in the JSON Go wrote; the model's `deserialize` of that = the arena view of
    the graph Go read back (Parent, ChildrenArray, Src, Dst as indices).
    Spec on the implementation: the graph read back equals the original — ids, hierarchy and order, Children map,
    edge endpoints, and the hash of everything json carries per object / edge (attributes, geometry, index, arrows).
    `svg` lines — the SVG rendered after an in-process layout = the SVG rendered after a layout on the far side of the
    wire format = the SVG rendered after a layout (and post-processing) by an external plugin binary driven through the
    real plugin protocol (d2plugin exec.go ↔ serve.go; the plugin is the bundled dagre engine and logs to stderr). -/

def optNat (j : Json) (k : String) : Except String (Option Nat) :=
  match j.getObjVal? k with
  | .ok .null => pure none
  | .ok v => match v.getInt? with
    | .ok n => if n < 0 then throw s!"{k}: dangling pointer (object not in g.Objects)" else pure (some n.toNat)
    | .error e => throw e
  | .error _ => pure none

def optS (j : Json) (k : String) : Option String :=
  match j.getObjVal? k with
  | .ok (.str s) => some s
  | _ => none

structure NodeX where
  node : Node
  map : List String
  deriving BEq

def parseNodes (j : Json) : Except String (List NodeX) := do
  let a ← getArr j "nodes"
  a.toList.mapM fun x => do
    let kids ← getArr x "kids"
    let kidsN ← kids.toList.mapM fun k => match k.getInt? with
      | .ok n => if n < 0 then throw "kids: dangling pointer" else pure n.toNat
      | .error e => throw e
    let m ← getArr x "map"
    let ms ← m.toList.mapM fun k => match k with | .str s => pure s | _ => throw "map: not a string"
    pure { node := { id := ← getStr x "id", attrs := ← getStr x "attrs", parent := ← optNat x "parent", kids := kidsN }, map := ms }

def parseEdges (j : Json) : Except String (List Edge) := do
  let a ← getArr j "edges"
  a.toList.mapM fun x => do
    pure { attrs := ← getStr x "attrs", src := ← optNat x "src", dst := ← optNat x "dst" }

def mkGraph (ns : List NodeX) (es : List Edge) : Graph :=
  let arr := ns.toArray
  { n := ns.length, node := fun i => (arr[i]?.map (·.node)).getD default, edges := es }

def strList (j : Json) (k : String) : Except String (List String) := do
  let a ← getArr j k
  a.toList.mapM fun x => match x with | .str s => pure s | _ => throw s!"{k}: not a string"

/-- the property's predicate on what the real code returned -/
def specSerde (i o : Json) : Except String Verdict := do
  if (o.getObjValAs? Bool "compileErr").toOption == some true then return .ok
  let stage ← getStr i "stage"
  let origJ ← getObj o "orig"
  let ons ← parseNodes origJ
  let oes ← parseEdges origJ
  if let some e := optS o "serErr" then return .specfalse "serialize-failed" s!"{stage}: {e}"
  let deser ← getStr o "deser"
  if deser != "ok" then
    let det := (optS o "deserDetail").getD ""
    return .specfalse "deserialize-failed" s!"{stage}: DeserializeGraph {deser}: {det}"
  let backJ ← getObj o "back"
  let bns ← parseNodes backJ
  let bes ← parseEdges backJ
  -- the property on the implementation
  if ons.length != bns.length then return .specfalse "roundtrip-object-count" s!"{stage}: {ons.length} objects before, {bns.length} after"
  for (k, (a, b)) in (List.range ons.length).zip (ons.zip bns) do
    if a.node.id != b.node.id then return .specfalse "roundtrip-id" s!"{stage}: node {k}: {a.node.id} vs {b.node.id}"
    if a.node.parent != b.node.parent then return .specfalse "roundtrip-parent" s!"{stage}: node {k} ({a.node.id}): parent {a.node.parent} before, {b.node.parent} after"
    if a.node.kids != b.node.kids then return .specfalse "roundtrip-children-order" s!"{stage}: node {k} ({a.node.id}): ChildrenArray {a.node.kids} before, {b.node.kids} after"
    if a.map != b.map then return .specfalse "roundtrip-children-map" s!"{stage}: node {k} ({a.node.id}): Children {a.map} before, {b.map} after"
    if a.node.attrs != b.node.attrs then return .specfalse "roundtrip-attributes" s!"{stage}: node {k} ({a.node.id}): the JSON of the object (attributes, geometry) differs after the round trip"
  if oes.length != bes.length then return .specfalse "roundtrip-edge-count" s!"{stage}: {oes.length} edges before, {bes.length} after"
  for (k, (a, b)) in (List.range oes.length).zip (oes.zip bes) do
    if a.src != b.src || a.dst != b.dst then return .specfalse "roundtrip-endpoints" s!"{stage}: edge {k}: {a.src}->{a.dst} before, {b.src}->{b.dst} after"
    if a.attrs != b.attrs then return .specfalse "roundtrip-edge-attributes" s!"{stage}: edge {k}: the JSON of the edge (index, arrows, route, attributes) differs after the round trip"
  if (o.getObjValAs? Bool "rootLevel").toOption == some false then return .specfalse "roundtrip-rootlevel" s!"{stage}: RootLevel differs"
  let cmp ← getStr o "compare"
  if cmp != "" then return .specfalse "compare-serialized-graph" s!"{stage}: CompareSerializedGraph: {cmp}"
  return .ok


/-- model vs implementation -/
def corrSerde (i o : Json) : Except String Verdict := do
  if (o.getObjValAs? Bool "compileErr").toOption == some true then return .ok
  let stage ← getStr i "stage"
  let origJ ← getObj o "orig"
  let ons ← parseNodes origJ
  let oes ← parseEdges origJ
  let g := mkGraph ons oes
  if (optS o "serErr").isSome then return .ok
  -- serialize: model vs Go
  let wire ← getObj o "wire"
  let sg := serialize g
  let wroot ← getObj wire "root"
  let wobjs ← getArr wire "objs"
  let chk (what : String) (so : SObj) (w : Json) : Except String (Option String) := do
    let a := optS w "absID"
    let ks ← strList w "kids"
    if a != some so.absID then return some s!"{what}: AbsID model {so.absID} vs go {a}"
    if ks != so.kids then return some s!"{what}: ChildrenArray model {so.kids} vs go {ks}"
    return none
  if let some d ← chk "root" sg.root wroot then return .mismatch "serialize-root" d
  if wobjs.size != sg.objs.length then return .mismatch "serialize-count" s!"model {sg.objs.length} objects vs go {wobjs.size}"
  for (so, w) in sg.objs.zip wobjs.toList do
    if let some d ← chk s!"object {so.id}" so w then return .mismatch "serialize-object" d
  let wedges ← getArr wire "edges"
  if wedges.size != sg.edges.length then return .mismatch "serialize-edges" s!"model {sg.edges.length} edges vs go {wedges.size}"
  for (se, w) in sg.edges.zip wedges.toList do
    if optS w "src" != se.src || optS w "dst" != se.dst then
      return .mismatch "serialize-edge" s!"model {se.src}->{se.dst} vs go {optS w "src"}->{optS w "dst"}"
  -- deserialize
  let deser ← getStr o "deser"
  let md := deserialize sg
  if deser != "ok" then
    if md.isSome then
      return .mismatch "deserialize-go-failed" s!"{stage}: DeserializeGraph {deser}, the model reads the graph back"
    return .ok
  let backJ ← getObj o "back"
  let bns ← parseNodes backJ
  let bes ← parseEdges backJ
  let gb := mkGraph bns bes
  match md with
  | none => return .mismatch "deserialize-model-crash" s!"{stage}: the model hits a missing table entry, Go read the graph back"
  | some m =>
    if !(m.sameAsB gb) then
      let bad := (List.range (max m.n gb.n)).find? fun k => m.node k != gb.node k
      return .mismatch "deserialize" s!"{stage}: model and Go disagree on the graph read back (first node {bad}: model {repr (bad.map m.node)} vs go {repr (bad.map gb.node)}; edges equal: {m.edges == gb.edges})"
  return .ok

def handleSerde (i o : Json) : Except String Verdict := do
  match ← specSerde i o with
  | .specfalse s d => return .specfalse s d
  | _ => corrSerde i o

def handleSvg (o : Json) : Except String Verdict := do
  let d ← getStr o "direct"
  let w ← getStr o "wire"
  let de ← getStr o "directErr"
  let we ← getStr o "wireErr"
  if de != "" && we != "" then return .ok
  if de != we then return .specfalse "wire-layout-fails" s!"in-process: {de} / through the wire format: {we}"
  if d != w then return .specfalse "svg-differs" s!"SVG sha1 in-process {d} vs through the wire format {w}"
  -- the real plugin protocol: d2plugin's exec plugin spawning an external plugin binary that also writes to stderr
  match optS o "execErr", optS o "exec" with
  | some xe, some x =>
    if xe != "" then
      return .specfalse "plugin-exec-fails" s!"layout through the external plugin (d2plugin exec ↔ serve, plugin logs to stderr) fails: {xe.take 300}; in-process layout succeeds"
    if x != d then
      return .specfalse "svg-differs-exec" s!"SVG sha1 in-process {d} vs through the external plugin {x}"
    return .ok
  | _, _ => return .ok

def handleC26 (j : Json) : Except String Verdict := do
  let k ← getStr j "k"
  let i ← getObj j "in"
  let o ← getObj j "out"
  match k with
  | "serde" => handleSerde i o
  | "svg" => handleSvg o
  | _ => return .bad s!"unknown kind {k}"

def main : IO Unit := runDriver handleC26
