import D2V.Drv.Common
import D2V.Model.Links
open Lean D2V.Drv D2V.Path D2V.Links

/-- C35 driver.  One line = one generated board tree with link-bearing objects, compiled and rendered by the CLI.
    model vs implementation
      * the Link each object defined in a root/layer board ends up with after d2compiler.Compile
        = validateLink ∘ compileLink of the model on (scope, written value)
      * the href of every linked shape in every written SVG = relinkOne over the model's board ↦ file map
    Spec on the implementation (the property)
      * every surviving non-remote Link is `root` followed by (kind, name) pairs of boards that exist, and is not the
        object's own board
      * every such link's href, resolved against the directory of the SVG that contains it, is the SVG written for the
        linked board (files are identified by a marker shape unique to each board) -/

structure OLink where
  id : String
  link : String
  segs : Option (List Seg)
  remote : Bool

structure BoardX where
  ida : List String
  goIDA : List String
  objs : List OLink

def parseSegs (j : Json) : Except String (Option (List Seg)) :=
  match j with
  | .null => pure none
  | .arr a => do
    let l ← a.toList.mapM fun x => do pure ({ s := ← getStr x "s", unq := ← getBool x "unq" } : Seg)
    pure (some l)
  | _ => throw "segs: not an array"

def strArr' (j : Json) (k : String) : Except String (List String) := do
  let a ← getArr j k
  a.toList.mapM fun x => match x with | .str s => pure s | _ => throw s!"{k}: not a string"

partial def parseTree (j : Json) : Except String (Board × List BoardX) := do
  let name ← getStr j "name"
  let fo ← getBool j "folderOnly"
  let idaJ ← getArr j "ida"
  let ida ← idaJ.toList.mapM fun x => match x with | .str s => pure s | _ => throw "ida"
  let objsJ ← getArr j "objs"
  let objs ← objsJ.toList.mapM fun x => do
    pure ({ id := ← getStr x "id", link := ← getStr x "link", segs := ← parseSegs ((x.getObjVal? "segs").toOption.getD .null),
            remote := ← getBool x "remote" } : OLink)
  let sub (k : String) : Except String (List Board × List BoardX) := do
    let a ← getArr j k
    let rs ← a.toList.mapM parseTree
    pure (rs.map (·.1), rs.flatMap (·.2))
  let (l, lx) ← sub "layers"
  let (s, sx) ← sub "scenarios"
  let (t, tx) ← sub "steps"
  let goIDA ← strArr' j "goIDA"
  return (.mk name.toList fo l s t, { ida := ida, goIDA := goIDA, objs := objs } :: (lx ++ sx ++ tx))

structure FileX where
  path : String
  markers : List String
  hrefs : List (String × String)

def sortS (l : List String) : List String := (l.toArray.qsort (· < ·)).toList

def strArr (j : Json) (k : String) : Except String (List String) := do
  let a ← getArr j k
  a.toList.mapM fun x => match x with | .str s => pure s | _ => throw s!"{k}: not a string"

def showSegs (l : List Seg) : String := ".".intercalate (l.map fun x => if x.unq then x.s else s!"\"{x.s}\"")

def handleC35 (j : Json) : Except String Verdict := do
  let i ← getObj j "in"
  let o ← getObj j "out"
  if (o.getObjVal? "compileErr").toOption.isSome then return .ok
  let out := (← getStr i "out").toList
  let (root, boards) ← parseTree (← getObj o "tree")
  let cliErr ← getStr o "cliErr"
  let filesJ ← getArr o "files"
  let files ← filesJ.toList.mapM fun f => do
    let hs ← getArr f "hrefs"
    let hrefs ← hs.toList.mapM fun h => do pure (← getStr h "id", ← getStr h "href")
    pure ({ path := ← getStr f "path", markers := sortS (← strArr f "markers"), hrefs := hrefs } : FileX)
  let gboards ← getArr i "boards"
  -- generator knowledge per board: ida, marker set expected in its file, objects with their written link
  let mut fileOf : List (List String × String) := []     -- board ida ↦ file (by markers)
  for gb in gboards.toList do
    let idaSegs ← parseSegs (← getObj gb "ida")
    let ida := (idaSegs.getD []).map (·.s)
    let want := sortS ((← getStr gb "marker") :: (← strArr gb "inherit"))
    match files.filter (fun f => f.markers == want) with
    | [f] => fileOf := fileOf ++ [(ida, f.path)]
    | _ => pure ()
  let lookupBoard (ida : List String) : Option BoardX := boards.find? (fun b => b.ida == ida)
  -- a line with a focus evaluates the property for that one linked object; a line without one is the correspondence
  let focus : Option (List String × String) := match i.getObjVal? "focus" with
    | .ok f => match strArr' f "board", getStr f "id" with
      | .ok b, .ok id => some (b, id)
      | _, _ => none
    | .error _ => none
  let inFocus (b : BoardX) (x : OLink) : Bool := match focus with
    | some (fb, fid) => b.ida == fb && x.id == fid
    | none => false
  -- model vs implementation: compile stage --------------------------------------------------------------
  for gb in (if focus.isNone then gboards.toList else []) do
    if (← getBool gb "inherits") then continue
    let ida := ((← parseSegs (← getObj gb "ida")).getD []).map (·.s)
    let some bx := lookupBoard ida | return .mismatch "board-missing" s!"board {ida} not in the compiled tree"
    if graphIDA ida != bx.goIDA then
      return .mismatch "graph-ida" s!"board {ida}: model Graph.IDA {graphIDA ida} vs go {bx.goIDA}"
    for go in (← getArr gb "objs").toList do
      let path ← getStr go "path"
      let raw ← getStr go "raw"
      let remote ← getBool go "remote"
      let scope := (← parseSegs (← getObj go "scope")).getD []
      let rawSegs ← parseSegs ((go.getObjVal? "rawSegs").toOption.getD .null)
      let obs := bx.objs.find? (fun x => x.id == path)
      match rawSegs with
      | none => pure ()     -- the written value is not a key path: neither function touches it the modelled way
      | some rs =>
        let abs := (compileLink scope rs).getD rs
        -- validateBoardLinks looks at the stored string: remote is judged on it
        let absRemote := if (compileLink scope rs).isSome then false else remote
        let keep := validateLink root (graphIDA ida) absRemote abs
        match obs, keep with
        | none, false => pure ()
        | some x, true =>
          if !absRemote then
            match x.segs with
            | some xs =>
              if xs.map (·.s) != abs.map (·.s) then
                return .mismatch "compiled-link" s!"board {ida} object {path} link {raw}: model {showSegs abs} vs go {x.link}"
            | none => return .mismatch "compiled-link" s!"board {ida} object {path}: go link {x.link} does not parse"
        | none, true => return .mismatch "link-dropped" s!"board {ida} object {path} link {raw}: model keeps {showSegs abs}, go dropped it"
        | some x, false => return .mismatch "link-kept" s!"board {ida} object {path} link {raw}: model drops {showSegs abs}, go kept {x.link}"
  -- the property on the compiled links -------------------------------------------------------------------------
  for bx in boards do
    for x in bx.objs do
      if !(inFocus bx x) then continue
      if x.remote then continue
      match x.segs with
      | none => return .specfalse "link-not-a-board-path" s!"board {bx.ida} object {x.id}: surviving link {x.link}"
      | some xs =>
        if !(existsStrict root xs) then
          let odd := xs.length % 2 == 0
          return .specfalse (if odd then "link-to-missing-board/odd-tail" else "link-to-missing-board")
            s!"board {bx.ida} object {x.id}: surviving link {x.link} names no board"
        if xs.map (·.s) == bx.ida then
          return .specfalse (if bx.ida.length > 3 then "self-link-kept/nested-board" else "self-link-kept")
            s!"board {bx.ida} object {x.id}: link {x.link} is the object's own board"
  if cliErr != "" then return .ok
  -- CLI stage ---------------------------------------------------------------------------------------------------
  let m := linkMapB "root".toList out root
  for bx in boards do
    let some fB := (fileOf.find? (fun p => p.1 == bx.ida)).map (·.2) | continue
    let some fx := files.find? (fun f => f.path == fB) | continue
    let cur := ".".intercalate bx.ida
    for x in bx.objs do
      let hOpt := (fx.hrefs.find? (fun p => p.1 == x.id)).map (·.2)
      if hOpt.isNone && inFocus bx x then
        return .specfalse "href-missing" s!"board {bx.ida} file {fB}: linked shape {x.id} has no <a href>"
      let some h := hOpt | continue
      -- model vs implementation
      if focus.isNone then
        let mh := (relinkOne m cur.toList x.link.toList).map String.ofList
        if mh != some h then
          return .mismatch "href" s!"board {bx.ida} shape {x.id} link {x.link}: model href {mh} vs CLI {h}"
      -- the property
      if !(inFocus bx x) then continue
      if x.remote then
        if h != x.link then return .specfalse "remote-link-rewritten" s!"{x.link} became {h}"
        continue
      let some xs := x.segs | continue
      let target := xs.map (·.s)
      let some fT := (fileOf.find? (fun p => p.1 == target)).map (·.2)
        | continue
      let resolved := String.ofList (join [dir fB.toList, h.toList])
      if resolved != fT then
        let quoted := xs.any (fun s => !s.unq)
        let sig := if h == x.link then (if quoted then "href-not-rewritten/quoted-board-name" else "href-not-rewritten") else "href-wrong-file"
        return .specfalse sig s!"board {bx.ida} file {fB}: shape {x.id} links to {x.link} (file {fT}) but its href {h} resolves to {resolved}"
  return .ok

def main : IO Unit := runDriver handleC35
