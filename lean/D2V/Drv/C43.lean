import D2V.Drv.Common
import D2V.Model.B64
open Lean D2V.Drv D2V.B64

/-- C43 driver.  `urlenc` lines: Spec-on-impl (Decode∘Encode = id, URL-safe alphabet) and model-vs-impl of the
    base64 layer on the real compressed bytes.  `b64dec` lines: decoder model vs Go on arbitrary text. -/
def handleC43 (j : Json) : Except String Verdict := do
  let k ← getStr j "k"
  let i ← getObj j "in"
  let o ← getObj j "out"
  match k with
  | "urlenc" =>
    let raw ← getBytes i "raw"
    match getBytes o "enc" with
    | .error _ => return .specfalse "encode-error" s!"Encode failed on {hex raw}"
    | .ok enc =>
      if !(enc.all urlSafe) then return .specfalse "alphabet" s!"non URL-safe byte in {hex enc}"
      match getBytes o "dec" with
      | .error _ => return .specfalse "decode-error" s!"Decode(Encode s) failed for s={hex raw}"
      | .ok dec =>
        if dec != raw then return .specfalse "roundtrip" s!"Decode(Encode s)={hex dec} for s={hex raw}"
        match getBytes o "z" with
        | .error _ => return .mismatch "b64-decode" s!"Go could not base64-decode its own output {hex enc}"
        | .ok z =>
          if encode z != enc then return .mismatch "b64-encode" s!"model encode {hex (encode z)} vs {hex enc}"
          if decode enc != some z then return .mismatch "b64-decode" s!"model decode differs on {hex enc}"
          return .ok
  | "b64dec" =>
    let s ← getBytes i "s"
    let goDec : Option (List UInt8) := (getBytes o "dec").toOption
    if decode s != goDec then
      return .mismatch "b64-decoder" s!"model {(decode s).map hex} vs go {goDec.map hex} on {hex s}"
    return .ok
  | _ => return .bad s!"unknown kind {k}"

def main : IO Unit := runDriver handleC43
