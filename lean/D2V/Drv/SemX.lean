/-
  Driver-side plumbing shared by the C12–C15 drivers (agent semext): JSON decoding of the small AST
  (`Model/SemAst.lean`) and of canonical graphs, the `--xform` co-process loop through which the harness
  obtains the Lean-defined source transformations, and the Lean-defined graph predicates.
-/
import D2V.Drv.Common
import D2V.Model.SemAst
import D2V.Model.Boards
open Lean

namespace D2V.Drv.SemX
open D2V.SemAst D2V.Drv

/-! ### AST decoding -/

def decKSeg (j : Json) : Except String KSeg := do
  let s ← j.getStr?
  match s.toList with
  | c :: r => pure { q := c.toNat - '0'.toNat, s := String.ofList r }
  | [] => throw "empty key segment"

def decKey (j : Json) : Except String Key := do
  let a ← j.getArr?
  a.toList.mapM decKSeg

def decPart (j : Json) : Except String Part := do
  let s ← j.getStr?
  match s.toList with
  | 'L' :: r => pure (.lit (String.ofList r))
  | 'S' :: r => pure (.sub ((String.ofList r).splitOn "."))
  | _ => throw "bad scalar part"

def decScal (j : Json) : Except String Scal := do
  let a ← j.getArr?
  match a.toList with
  | q :: ps => do
    let qs ← q.getStr?
    let parts ← ps.mapM decPart
    pure { q := qs.toNat?.getD 0, parts := parts }
  | [] => throw "empty scalar"

def optField (j : Json) (k : String) : Option Json :=
  match j.getObjVal? k with
  | .ok .null => none
  | .ok v => some v
  | .error _ => none

def decIdx (s : String) : Option Idx :=
  if s == "" then none else if s == "*" then some .star else (s.toNat?.map Idx.n)

mutual
partial def decVal (j : Option Json) : Except String Val := do
  match j with
  | none => pure .none
  | some j =>
    if let some s := optField j "s" then return .scal (← decScal s)
    if (optField j "n").isSome then return .null
    if let some m := optField j "m" then return .map (← decBody m)
    if let some i := optField j "i" then return .imp (← i.getStr?)
    if let some a := optField j "a" then return .arr (← (← a.getArr?).toList.mapM decScal)
    throw "bad value"
partial def decStmt (j : Json) : Except String Stmt := do
  let t ← getStr j "t"
  let prim ← match optField j "p" with
    | some p => (decScal p).map some
    | none => pure none
  match t with
  | "f" =>
    let amp ← getNat j "amp"
    let k ← decKey (← getObj j "k")
    pure (.field amp k prim (← decVal (optField j "v")))
  | "e" =>
    let c ← decKey (← getObj j "c")
    let s ← decKey (← getObj j "src")
    let d ← decKey (← getObj j "dst")
    let ar ← getStr j "ar"
    let ix ← getStr j "ix"
    let ek ← decKey (← getObj j "ek")
    pure (.edge c s ar d (decIdx ix) ek prim (← decVal (optField j "v")))
  | "si" => pure (.spreadImp (← getStr j "path"))
  | "ss" => pure (.spreadSub ((← getStr j "path").splitOn "."))
  | _ => throw s!"bad statement kind {t}"
partial def decBody (j : Json) : Except String Body := do
  let a ← j.getArr?
  a.toList.mapM decStmt
end

def decProg (j : Json) : Except String Prog := do
  let a ← j.getArr?
  a.toList.mapM fun f => do
    pure { name := ← getStr f "name", body := ← decBody (← getObj f "body") }

def filesJson (fs : List (String × String)) : Json :=
  Json.mkObj (fs.map fun (n, t) => (n, Json.str t))

/-! ### canonical graphs (what `semx.Canon` prints) -/

structure CEnt where
  id : String
  attrs : List (String × String)
deriving Repr, BEq, DecidableEq, Inhabited

inductive CBoard where
  | mk (name kind : String) (objs edges : List CEnt) (boards : List CBoard)
deriving Repr, Inhabited

def CBoard.name : CBoard → String | .mk n _ _ _ _ => n
def CBoard.kind : CBoard → String | .mk _ k _ _ _ => k
def CBoard.objs : CBoard → List CEnt | .mk _ _ o _ _ => o
def CBoard.edges : CBoard → List CEnt | .mk _ _ _ e _ => e
def CBoard.boards : CBoard → List CBoard | .mk _ _ _ _ b => b

/-- what the real compiler returned for one file set -/
inductive Outcome where
  | graph (b : CBoard)
  | errs (msgs : List String)
  | panic (msg : String)
deriving Repr, Inhabited

def decEnt (j : Json) : Except String CEnt := do
  let id ← getStr j "id"
  let a ← getArr j "a"
  let attrs ← a.toList.mapM fun kv => do
    match (← kv.getArr?).toList with
    | [k, v] => pure (← k.getStr?, ← v.getStr?)
    | _ => throw "bad attribute pair"
  pure { id := id, attrs := attrs }

partial def decBoard (j : Json) : Except String CBoard := do
  let n ← getStr j "name"
  let k ← getStr j "kind"
  let os ← (← getArr j "objs").toList.mapM decEnt
  let es ← (← getArr j "edges").toList.mapM decEnt
  let bs ← (← getArr j "boards").toList.mapM decBoard
  pure (.mk n k os es bs)

def decOutcome (j : Json) : Except String Outcome := do
  if let some g := optField j "g" then return .graph (← decBoard g)
  if let some e := optField j "err" then return .errs (← (← e.getArr?).toList.mapM (·.getStr?))
  if let some p := optField j "panic" then return .panic (← p.getStr?)
  throw "bad outcome"

/-! ### Lean-defined graph predicates -/

/-- board equality on content only (objects, connections, attributes), recursively; the name of the root is
    ignored by `sameContent`, nested boards must agree in name, kind and order -/
partial def CBoard.beq : CBoard → CBoard → Bool
  | .mk n k o e b, .mk n' k' o' e' b' =>
    n == n' && k == k' && o == o' && e == e' && b.length == b'.length &&
      (b.zip b').all fun (x, y) => CBoard.beq x y
instance : BEq CBoard := ⟨CBoard.beq⟩

/-- objects and connections of this board only (no nested boards) -/
def CBoard.sameLocal (a b : CBoard) : Bool := a.objs == b.objs && a.edges == b.edges

def entDiff (what : String) (a b : List CEnt) : Option String :=
  let missing := a.filter fun x => !(b.any fun y => y.id == x.id)
  let extra := b.filter fun y => !(a.any fun x => x.id == y.id)
  match missing, extra with
  | m :: _, _ => some s!"{what} {m.id} only on the left"
  | _, x :: _ => some s!"{what} {x.id} only on the right"
  | [], [] =>
    (a.findSome? fun x => do
      let y ← b.find? (·.id == x.id)
      if x.attrs == y.attrs then none
      else
        let d := x.attrs.find? fun kv => !(y.attrs.contains kv)
        let d' := y.attrs.find? fun kv => !(x.attrs.contains kv)
        some s!"{what} {x.id}: left {repr d} right {repr d'}")

/-- first difference between two boards, as text (for the verdict detail) -/
partial def boardDiff (path : String) (a b : CBoard) : Option String :=
  match entDiff "object" a.objs b.objs with
  | some d => some s!"board {path}: {d}"
  | none =>
  match entDiff "connection" a.edges b.edges with
  | some d => some s!"board {path}: {d}"
  | none =>
    if a.boards.length != b.boards.length then
      some s!"board {path}: {a.boards.length} vs {b.boards.length} nested boards"
    else
      (a.boards.zip b.boards).findSome? fun (x, y) =>
        if x.name != y.name || x.kind != y.kind then some s!"board {path}: nested board {x.kind} {x.name} vs {y.kind} {y.name}"
        else boardDiff (path ++ "/" ++ x.name) x y

def Outcome.kindStr : Outcome → String
  | .graph _ => "graph"
  | .errs _ => "error"
  | .panic _ => "panic"

def Outcome.brief : Outcome → String
  | .graph _ => "graph"
  | .errs m => "error " ++ (m.head?.getD "")
  | .panic m => "panic " ++ m

/-- the board reached from the root by a list of (kind, name) steps -/
def CBoard.sub? (b : CBoard) : List (String × String) → Option CBoard
  | [] => some b
  | (k, n) :: r => do
    let c ← b.boards.find? fun x => x.kind == k && x.name == n
    c.sub? r

/-! ### the flat fragment on which the functional specifications (boards, imports) are compared -/

open D2V.Boards in
def opOfStmt : Stmt → Option (List Op)
  | .field 0 [n] none .none => if n.q == 0 then some [.decl n.s] else none
  | .field 0 [n] none (.scal v) => do let t ← v.text?; if v.q == 0 && n.q == 0 then some [.set n.s "Label" t] else none
  | .field 0 [n] none .null => if n.q == 0 then some [.del n.s] else none
  | .field 0 [n, a] none (.scal v) => do
    let t ← v.text?
    if n.q == 0 && a.q == 0 && a.s == "shape" then some [.set n.s "Shape" t] else none
  | .field 0 [n, s, a] none (.scal v) => do
    let t ← v.text?
    if n.q == 0 && s.s == "style" && a.s == "fill" then some [.set n.s "style.Fill" t] else none
  | _ => none


open D2V.Boards in
def expectedAttrs (name : String) (a : Attrs) : List (String × String) :=
  let label := ((a.find? (·.1 == "Label")).map (·.2)).getD name
  let shape := ((a.find? (·.1 == "Shape")).map (·.2)).getD "rectangle"
  let fill := (a.find? (·.1 == "style.Fill")).map (·.2)
  [("Label", label), ("Shape", shape)] ++ (match fill with | some f => [("style.Fill", f)] | none => [])

def sortEnts (l : List CEnt) : List CEnt := (l.toArray.qsort (fun a b => a.id < b.id)).toList


/-! ### verdict lines must be single lines (`repr` of long values breaks lines) -/

def flat (s : String) : String := s.map fun c => if c == '\n' || c == '\r' then ' ' else c

def oneLine : Verdict → Verdict
  | .mismatch s d => .mismatch (flat s) (flat d)
  | .specfalse s d => .specfalse (flat s) (flat d)
  | .bad w => .bad (flat w)
  | .skip w => .skip (flat w)
  | .ok => .ok

def single (f : Json → Except String Verdict) (j : Json) : Except String Verdict :=
  match f j with
  | .ok v => .ok (oneLine v)
  | .error e => .error (flat e)

/-! ### co-process loop: one JSON request per line in, one JSON answer per line out -/

partial def xformLoop (f : Json → Except String Json) : IO Unit := do
  let i ← IO.getStdin
  let o ← IO.getStdout
  let rec loop : IO Unit := do
    let line ← i.getLine
    if line.isEmpty then return ()
    let ans : Json :=
      match Json.parse line with
      | .error e => Json.mkObj [("fail", Json.str s!"json: {e}")]
      | .ok j => match f j with
        | .ok a => a
        | .error e => Json.mkObj [("fail", Json.str e)]
    o.putStrLn ans.compress
    o.flush
    loop
  loop

end D2V.Drv.SemX
