import D2V.Drv.Common
import D2V.Drv.FmtJson
import D2V.Model.Fmt
import D2V.Model.FmtSem
open Lean D2V.Drv D2V.Fmt D2V.Drv.FmtJson

/-!
C04 driver.  One `sem` case = one compilable source text `s` with
  g1/cfg1 = canonical projection of Compile(s), f1 = Format(Parse s), g2/cfg2 = projection of Compile(f1)
  (or c2err when the formatted text does not compile).

Spec-on-impl: Compile(f1) succeeds and the two projections are equal — boards recursively (name, kind lists in
order), per board the objects (id + attribute list), the connections (endpoints, arrows, index, attribute list),
legend, configuration data.  The equality is evaluated here.

Signature of a violation: `graphdiff/<cause>[+model]` / `recompile-error/<cause>[+model]`.  <cause> names the root
cause from the place of the first difference (root|layer|scenario|step, what differs) and source features:
  value-case        a value became its own lower-casing and is a reserved keyword, the source holds an unquoted
                    keyword-like value in odd case and no odd-case keyword KEY (the printer lower-casing VALUES — fixed
                    in /repo by 065a7fd9a, so this cause is no longer a listed finding and is reported),
  board-order       the difference is in or below a scenario/step and the source declares something after a
                    scenarios/steps block in the same map (formatter moves boards last; design-level),
  board-order-glob  a declaration follows a board block and the source uses globs (lazy glob application),
  board-order-flat  a flat key into a board (`steps.b.y`) follows a board block: the block is moved behind it, which
                    changes the order of the boards (and what a step inherits),
  empty-board-map, quoted-board-key, key-case, backslash-crlf   (see props/C04/findings.json),
  declaration-lost / declaration-gained   the formatted text does not hold the same declarations (map keys with their
                    context, case-folded) as the source, apart from the empty board keys Format drops on purpose:
                    never a listed finding, always reported,
  unexplained:<where>/<what>   none of the above: always reported.
`+model` is appended when the abstract evaluator disagrees with the real compile on that case.
Model-vs-impl: on the evaluator sub-fragment (FmtSem) the abstract evaluator's board/object tree is compared with g1.
-/

/-- the evaluator's rendering, computed from the projection of the real compile -/
partial def renderJson (g : Json) : Except String String := do
  let objs ← g.getObjValAs? (Array Json) "objs"
  let ids ← objs.toList.mapM fun o => o.getObjValAs? String "id"
  let sub (k : String) : Except String String := do
    let a ← g.getObjValAs? (Array Json) k
    let parts ← a.toList.mapM fun b => do
      let n ← b.getObjValAs? String "name"
      pure (n ++ (← renderJson b))
    pure (D2V.FmtSem.joinWith "," parts)
  pure ("{" ++ D2V.FmtSem.joinWith "," (D2V.FmtSem.sortStrings ids) ++ "|L:" ++ (← sub "layers") ++ "|S:" ++ (← sub "scenarios") ++ "|T:" ++ (← sub "steps") ++ "}")

structure Diff where
  whereK : String     -- root | layer | scenario | step
  what : String
  detail : String

def strList (j : Json) (k : String) : Except String (List String) := do
  let a ← getArr j k
  a.toList.mapM fun x => match x with
    | .str s => pure s
    | _ => throw s!"{k}: not a string"

def lowerS (s : String) : String := String.ofList (lower s.toList)

/-- `k=v` split at the first `=` -/
def splitKV (s : String) : String × String :=
  match s.splitOn "=" with
  | [] => (s, "")
  | k :: rest => (k, "=".intercalate rest)

/-- the two attribute lists differ only by values that were lower-cased into a reserved keyword -/
def onlyValueCase : List String → List String → Bool
  | [], [] => true
  | a :: as, b :: bs =>
    (a == b ||
      (let (ka, va) := splitKV a
       let (kb, vb) := splitKV b
       ka == kb && vb == lowerS va && isReserved vb.toList)) && onlyValueCase as bs
  | _, _ => false

def firstListDiff (a b : List String) : String :=
  let rec go : List String → List String → String
    | x :: xs, y :: ys => if x == y then go xs ys else s!"{x.quote} vs {y.quote}"
    | x :: _, [] => s!"{x.quote} vs (absent)"
    | [], y :: _ => s!"(absent) vs {y.quote}"
    | [], [] => "(equal)"
  go a b

def cmpAttrs (whereK what ctx : String) (a b : List String) : Option Diff :=
  if a == b then none
  else if a.length == b.length && onlyValueCase a b then
    some ⟨whereK, "value-case", s!"{ctx}: {firstListDiff a b}"⟩
  else some ⟨whereK, what, s!"{ctx}: {firstListDiff a b}"⟩

def cmpObjs (whereK what : String) : List Json → List Json → Except String (Option Diff)
  | [], [] => pure none
  | x :: xs, y :: ys => do
    let ix ← getStr x "id"
    let iy ← getStr y "id"
    if ix != iy then
      let w := if iy == lowerS ix && isReserved iy.toList then "value-case" else what ++ "-id"
      return some ⟨whereK, w, s!"object {ix.quote} vs {iy.quote}"⟩
    match cmpAttrs whereK (what ++ "-attr") s!"object {ix}" (← strList x "a") (← strList y "a") with
    | some d => return some d
    | none => cmpObjs whereK what xs ys
  | x :: _, [] => do return some ⟨whereK, what ++ "-count", s!"object {(← getStr x "id").quote} only before formatting"⟩
  | [], y :: _ => do return some ⟨whereK, what ++ "-count", s!"object {(← getStr y "id").quote} only after formatting"⟩

def edgeKey (e : Json) : Except String String := do
  let s ← getStr e "src"
  let d ← getStr e "dst"
  let sa ← getBool e "sa"
  let da ← getBool e "da"
  let i ← getInt e "idx"
  pure s!"({s} {if sa then "<" else ""}-{if da then ">" else ""} {d})[{i}]"

def cmpEdges (whereK : String) : List Json → List Json → Except String (Option Diff)
  | [], [] => pure none
  | x :: xs, y :: ys => do
    let kx ← edgeKey x
    let ky ← edgeKey y
    if kx != ky then return some ⟨whereK, "edge-ends", s!"connection {kx} vs {ky}"⟩
    match cmpAttrs whereK "edge-attr" s!"connection {kx}" (← strList x "a") (← strList y "a") with
    | some d => return some d
    | none => cmpEdges whereK xs ys
  | x :: _, [] => do return some ⟨whereK, "edge-count", s!"connection {← edgeKey x} only before formatting"⟩
  | [], y :: _ => do return some ⟨whereK, "edge-count", s!"connection {← edgeKey y} only after formatting"⟩

def insertBy (key : Json → String) (x : Json) : List Json → List Json
  | [] => [x]
  | y :: ys => if key x ≤ key y then x :: y :: ys else y :: insertBy key x ys

/-- stable sort by a string key (object order / connection order inside a board is not part of the property:
    d2 orders objects by source position, which formatting legitimately changes relative to imported files) -/
def sortBy (key : Json → String) (l : List Json) : List Json := l.foldr (insertBy key) []

def objKey (j : Json) : String := (getStr j "id").toOption.getD ""
def edgeSortKey (j : Json) : String := (edgeKey j).toOption.getD ""

partial def cmpBoard (whereK path : String) (a b : Json) : Except String (Option Diff) := do
  let na ← getStr a "name"
  let nb ← getStr b "name"
  if na != nb then return some ⟨whereK, "board-name", s!"{path}: board {na.quote} vs {nb.quote}"⟩
  let here := s!"{path}/{na}"
  match cmpAttrs whereK "root-attr" s!"{here} root" (← strList a "root") (← strList b "root") with
  | some d => return some d
  | none => pure ()
  match ← cmpObjs whereK "object" (sortBy objKey (← getArr a "objs").toList) (sortBy objKey (← getArr b "objs").toList) with
  | some d => return some { d with detail := s!"{here}: {d.detail}" }
  | none => pure ()
  match ← cmpEdges whereK (sortBy edgeSortKey (← getArr a "edges").toList) (sortBy edgeSortKey (← getArr b "edges").toList) with
  | some d => return some { d with detail := s!"{here}: {d.detail}" }
  | none => pure ()
  match ← cmpObjs whereK "legend" (← getArr a "legend").toList (← getArr b "legend").toList with
  | some d => return some { d with detail := s!"{here}: {d.detail}" }
  | none => pure ()
  match cmpAttrs whereK "data" s!"{here} data" (← strList a "data") (← strList b "data") with
  | some d => return some d
  | none => pure ()
  if (← getBool a "folder") != (← getBool b "folder") then
    return some ⟨whereK, "folder-only", s!"{here}: isFolderOnly differs"⟩
  for (kind, wk) in [("layers", "layer"), ("scenarios", "scenario"), ("steps", "step")] do
    let xs := (← getArr a kind).toList
    let ys := (← getArr b kind).toList
    if xs.length != ys.length then
      return some ⟨whereK, "board-count", s!"{here}: {xs.length} vs {ys.length} {kind}"⟩
    for (x, y) in xs.zip ys do
      match ← cmpBoard wk s!"{here}/{kind}" x y with
      | some d => return some d
      | none => pure ()
  return none

def handleC04 (j : Json) : Except String Verdict := do
  let k ← getStr j "k"
  if k != "sem" then return .bad s!"unknown kind {k}"
  let i ← getObj j "in"
  let o ← getObj j "out"
  let src ← getBytes i "src"
  match getStr o "cerr" with
  | .ok _ => return .ok        -- not in the property's domain (input does not compile)
  | .error _ => pure ()
  let f1 ← getBytes o "f1"
  let g1 ← getObj o "g1"
  let tail := s!"; s={showBytes (src.take 300)}; formatted={showBytes (f1.take 300)}"
  -- model-vs-impl: the abstract evaluator on its sub-fragment
  let prog : Option (List D2V.FmtSem.Decl) := match o.getObjVal? "ast" with
    | .error _ => none
    | .ok ja => match nodeOf ja with
        | .ok a => D2V.FmtSem.ofAst a
        | .error _ => none
  let modelMis : Option String ← (do
    match prog with
    | none => pure none
    | some p =>
      let want := D2V.FmtSem.render (D2V.FmtSem.evalRoot p)
      let got ← renderJson g1
      if want != got then pure (some s!"evaluator {want} vs Compile(s) {got}")
      else match o.getObjVal? "g2" with
        | .error _ => pure none
        | .ok g2 =>
          -- the evaluator on the program with its board blocks moved last vs the compile of the formatted text
          let want2 := D2V.FmtSem.render (D2V.FmtSem.evalRoot (D2V.FmtSem.blDecls p))
          let got2 ← renderJson g2
          if want2 != got2 then pure (some s!"evaluator(boardsLast) {want2} vs Compile(Format s) {got2}") else pure none)
  -- a known-finding entry keyed to a cause never hides a disagreement between the evaluator and the real compile
  let modelTag := match modelMis with | some _ => "+model" | none => ""
  let kwAny := hasFeat o "sf" "kwcase:value" || hasFeat o "sf" "kwcase:key-segment" || hasFeat o "sf" "kwcase:import"
  -- root cause named from the place of the first difference and the source features (see the header)
  let causeOf (whereK what : String) (under : Bool) : String :=
    if hasFeat o "sf" "text:backslash-crlf" then "backslash-crlf"
    else if hasFeat o "sf" "decl:lost" then "declaration-lost"
    else if hasFeat o "sf" "decl:gained" then "declaration-gained"
    else if hasFeat o "sf" "boards:flat-key-after-block" && (what == "board-name" || what == "board-count" || whereK != "root") then "board-order-flat"
    else if what == "value-case" && kwAny && !hasFeat o "sf" "kwcase:key-segment" then "value-case"
    else if (whereK == "scenario" || whereK == "step" || under) && hasFeat o "sf" "boards:decl-after-scenarios-or-steps" then "board-order"
    else if (hasFeat o "sf" "boards:decl-after-layers" || hasFeat o "sf" "boards:decl-after-scenarios-or-steps")
        && hasFeat o "sf" "glob:any" then "board-order-glob"
    else if whereK != "root" && hasFeat o "sf" "boards:empty-entry" then "empty-board-map"
    else if hasFeat o "sf" "boards:quoted-key" then "quoted-board-key"
    else if hasFeat o "sf" "kwcase:key-segment" then "key-case"
    else s!"unexplained:{whereK}/{what}"
  match getStr o "c2err" with
  | .ok e =>
    let cause :=
      if hasFeat o "sf" "text:backslash-crlf" then "backslash-crlf"
      else if hasFeat o "sf" "decl:lost" then "declaration-lost"
      else if hasFeat o "sf" "decl:gained" then "declaration-gained"
      else if hasFeat o "sf" "boards:flat-key-after-block" then "board-order-flat"
      else if hasFeat o "sf" "boards:decl-after-scenarios-or-steps" then "board-order"
      else if hasFeat o "sf" "boards:quoted-key" then "quoted-board-key"
      else if hasFeat o "sf" "kwcase:key-segment" then "key-case"
      else if hasFeat o "sf" "boards:empty-entry" then "empty-board-map"
      else if hasFeat o "sf" "text:backslash-crlf" then "backslash-crlf"
      else "unexplained"
    return .specfalse s!"recompile-error/{cause}{modelTag}" s!"Compile(Format(Parse s)) fails: {e}{tail}"
  | .error _ => pure ()
  let g2 ← getObj o "g2"
  match ← cmpBoard "root" "" g1 g2 with
  | some d =>
    -- `under`: the difference lies in a board below some scenario / step (it inherits through that board)
    let under := (d.detail.splitOn "/scenarios/").length > 1 || (d.detail.splitOn "/steps/").length > 1
    return .specfalse s!"graphdiff/{causeOf d.whereK d.what under}{modelTag}" (s!"[{d.whereK}/{d.what}] " ++ d.detail ++ tail)
  | none => pure ()
  let c1 ← strList o "cfg1"
  let c2 ← strList o "cfg2"
  if c1 != c2 then
    let what := if c1.length == c2.length && onlyValueCase c1 c2 && kwAny then "value-case" else "config"
    return .specfalse s!"graphdiff/config/{what}" (firstListDiff c1 c2 ++ tail)
  match modelMis with
  | some d => return .mismatch "eval-model" (d ++ tail)
  | none => return .ok

def main : IO Unit := runDriver handleC04
