import D2V.Drv.Common
import D2V.Drv.LayCommon
import D2V.Model.Nest
open Lean D2V.Drv D2V.Nest

def strList (j : Json) (k : String) : Except String (List String) := do
  (← getArr j k).toList.mapM fun x => x.getStr?

/-- arena snapshot written by the harness with pointer identity ("key") -/
def nObj (j : Json) : Except String NObj := do
  pure { key := ← getStr j "key", parent := ← getStr j "parent", kids := ← strList j "kids" }

def nEdge (j : Json) : Except String NEdge := do
  pure { key := ← getStr j "key", src := ← getStr j "src", dst := ← getStr j "dst" }

def nGraph (j : Json) : Except String NGraph := do
  pure { objs := ← (← getArr j "objs").toList.mapM nObj,
         edges := ← (← getArr j "edges").toList.mapM nEdge,
         rootKids := ← strList j "rootKids" }

/-- board snapshot written by `lay.Structure` (AbsIDs as seen at snapshot time) -/
def sObj (j : Json) : Except String NObj := do
  pure { key := ← getStr j "id", parent := ← getStr j "parent", kids := ← strList j "kids" }

def sEdge (j : Json) : Except String NEdge := do
  pure { key := ← getStr j "id", src := ← getStr j "src", dst := ← getStr j "dst" }

def sGraph (j : Json) : Except String NGraph := do
  pure { objs := ← (← getArr j "objects").toList.mapM sObj,
         edges := ← (← getArr j "edges").toList.mapM sEdge,
         rootKids := ← strList j "rootKids" }

def firstDiff {α} [BEq α] (f : α → String) : List α → List α → Nat → Option String
  | [], [], _ => none
  | a :: r, b :: s, i => if a == b then firstDiff f r s (i + 1) else some s!"#{i}: {f a} vs {f b}"
  | a :: _, [], i => some s!"#{i}: {f a} vs <missing>"
  | [], b :: _, i => some s!"#{i}: <missing> vs {f b}"

def objStr (o : NObj) : String := s!"{o.key}(parent={o.parent},kids={o.kids})"
def edgeStr (e : NEdge) : String := s!"{e.key}({e.src}->{e.dst})"

/-- the first difference between two structures, as (clause, detail) -/
def diffGraph (a b : NGraph) : Option (String × String) :=
  match firstDiff objStr a.objs b.objs 0 with
  | some d => some ("objects", d)
  | none => match firstDiff edgeStr a.edges b.edges 0 with
    | some d => some ("edges", d)
    | none => match firstDiff id a.rootKids b.rootKids 0 with
      | some d => some ("root-children", d)
      | none => none

def handleStruct (j : Json) : Except String Verdict := do
  let i ← getObj j "in"
  let o ← getObj j "out"
  let engine ← getStr i "engine"
  if (← getStr o "compile") != "ok" then return .ok
  for b in (← getArr o "boards") do
    let path ← getStr b "path"
    let lay ← getStr b "layout"
    if lay != "ok" then
      -- a layout error is C17's subject; here it only means there is no "after" to compare.  A crash (panic, fatal
      -- runtime error, no return) while the structure is being taken apart and put together is reported here too.
      if lay.startsWith "panic" || lay.startsWith "fatal" || lay.startsWith "timeout" then
        return .specfalse s!"layout-crashed:{engine}" s!"board {path}: {lay}"
      continue
    let before ← sGraph (← getObj b "before")
    let after ← sGraph (← getObj b "after")
    -- Spec-on-impl: exactly the objects, parent relations, endpoints and order it had after compilation
    match diffGraph before after with
    | some (clause, d) => return .specfalse s!"structure-{clause}:{engine}" s!"board {path}: before vs after layout {d}"
    | none => pure ()
    if !sameStructure before after then
      return .specfalse s!"structure:{engine}" s!"board {path}"
    let bad ← strList (← getObj b "after") "bad"
    if !bad.isEmpty then
      return .specfalse s!"links-inconsistent:{engine}" s!"board {path}: {bad}"
    let breaks ← strList b "coreBreaks"
    if !breaks.isEmpty then
      return .specfalse s!"core-layout-contract:{engine}" s!"board {path}: {breaks}"
  return .ok

def handleNest (j : Json) : Except String Verdict := do
  let i ← getObj j "in"
  let o ← getObj j "out"
  if (← getStr o "compile") != "ok" then return .ok
  if (o.getObjValAs? Bool "none").toOption == some true then return .ok
  let includeSelf ← getBool i "includeSelf"
  let c ← getStr o "c"
  let outcome ← getStr o "outcome"
  if outcome != "ok" then
    return .specfalse "extract-inject-panic" s!"container {c} includeSelf={includeSelf}: {outcome}"
  let g0 ← nGraph (← getObj o "g0")
  let g1 ← nGraph (← getObj o "g1")
  let nested ← nGraph (← getObj o "nested")
  let ext ← (← getArr o "external").toList.mapM nEdge
  let fin ← nGraph (← getObj o "final")
  -- Spec-on-impl: extraction followed by injection and order restore is the identity on the structure
  match diffGraph g0 fin with
  | some (clause, d) => return .specfalse s!"extract-inject-{clause}" s!"container {c} includeSelf={includeSelf}: {d}"
  | none => pure ()
  -- model vs implementation
  let ex := extract g0 c includeSelf
  match diffGraph ex.rest g1 with
  | some (clause, d) => return .mismatch s!"extract-rest-{clause}" s!"container {c} includeSelf={includeSelf}: model vs impl {d}"
  | none => pure ()
  match diffGraph ex.nested nested with
  | some (clause, d) => return .mismatch s!"extract-nested-{clause}" s!"container {c} includeSelf={includeSelf}: model vs impl {d}"
  | none => pure ()
  match firstDiff edgeStr ex.external ext 0 with
  | some d => return .mismatch "extract-external" s!"container {c} includeSelf={includeSelf}: model vs impl {d}"
  | none => pure ()
  match diffGraph (extractInject g0 c includeSelf) fin with
  | some (clause, d) => return .mismatch s!"extract-inject-{clause}" s!"container {c} includeSelf={includeSelf}: model vs impl {d}"
  | none => pure ()
  return .ok

def handleC18 (j : Json) : Except String Verdict := do
  match ← getStr j "k" with
  | "struct" => handleStruct j
  | "nest" => handleNest j
  | k => throw s!"unknown kind {k}"

def main : IO Unit := D2V.Drv.Lay.runSanitized handleC18
