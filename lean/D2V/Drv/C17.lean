import D2V.Drv.LayCommon
import D2V.Model.JsTemplate
open Lean D2V.Drv D2V.Drv.Lay D2V.Lay D2V.JsTemplate

def cpsToChars (ns : List Nat) : List Char := ns.map Char.ofNat

def showCps (cs : List Char) : String := (String.ofList cs).quote

/-- the JS engine's reading: `some s` = evaluated to the plain string `s`; `none` = syntax error, substitution,
    invalid escape … -/
def jsOutcome (j : Json) : Except String (Option (List Char) × String) := do
  match j.getObjVal? "ok" with
  | .ok _ => pure (some (cpsToChars (← getNats j "ok")), "ok")
  | .error _ => pure (none, ← getStr j "err")

def handleEsc (j : Json) : Except String Verdict := do
  let i ← getObj j "in"
  let o ← getObj j "out"
  let id := cpsToChars (← getNats i "id")
  let esc := cpsToChars (← getNats o "esc")
  let (js, why) ← jsOutcome (← getObj o "js")
  -- Spec-on-impl: the literal built from the implementation's escapeID evaluates (in the real goja) to the ID
  if js != some id then
    return .specfalse "bridge-roundtrip" s!"id {showCps id}: escapeID gives {showCps esc}, which JS reads as {match js with | some s => showCps s | none => why}"
  -- model vs implementation
  if escapeID id != esc then
    return .mismatch "escapeID" s!"id {showCps id}: model {showCps (escapeID id)} impl {showCps esc}"
  if jsTemplateDecode esc != js then
    return .mismatch "jsTemplateDecode" s!"body {showCps esc}: model {repr (jsTemplateDecode esc)} goja {why}"
  return .ok

def handleTmpl (j : Json) : Except String Verdict := do
  let i ← getObj j "in"
  let o ← getObj j "out"
  let body := cpsToChars (← getNats i "body")
  let (js, why) ← jsOutcome (← getObj o "js")
  if jsTemplateDecode body != js then
    return .mismatch "jsTemplateDecode" s!"body {showCps body}: model {match jsTemplateDecode body with | some s => showCps s | none => "none"} goja {match js with | some s => showCps s | none => why}"
  return .ok

def errKind (s : String) : String :=
  if s.startsWith "panic" then "panic"
  else if s.startsWith "fatal" then "fatal"
  else if s.startsWith "timeout" then "timeout"
  else if (s.splitOn "SyntaxError").length > 1 then "js-syntax-error"
  else if (s.splitOn "ReferenceError").length > 1 then "js-reference-error"
  else if (s.splitOn "TypeError").length > 1 then "js-type-error"
  else "error"

def handleLay (j : Json) : Except String Verdict := do
  let i ← getObj j "in"
  let o ← getObj j "out"
  let engine ← getStr i "engine"
  let compile ← getStr o "compile"
  if compile != "ok" then return .ok   -- not a compilable diagram: outside the property's quantifier
  for b in (← getArr o "boards") do
    let path ← getStr b "path"
    let lay ← getStr b "layout"
    if lay != "ok" then
      return .specfalse (sigOf engine ("layout-" ++ errKind lay)) s!"board {path}: {lay}"
    let ex ← getStr b "export"
    if ex != "ok" then
      return .specfalse (sigOf engine ("export-" ++ errKind ex)) s!"board {path}: {ex}"
    match geoOf (← getObj b "geo") with
    | .error e =>
      if isNonfinite e then return .specfalse (sigOf engine "non-finite") s!"board {path}: {e}"
      else throw e
    | .ok (os, es) =>
      for ob in os do
        if !(decide (0 ≤ ob.box.w ∧ 0 ≤ ob.box.h)) then
          return .specfalse (sigOf engine "negative-size") s!"board {path}: {ob.id} {boxStr ob.box}"
      for e in es do
        if e.route.length < 2 then
          return .specfalse (sigOf engine "short-route") s!"board {path}: edge {e.id} has {e.route.length} route points"
      if !finiteGeometry os es then
        return .specfalse (sigOf engine "finite-geometry") s!"board {path}"
  let render ← getStr o "render"
  if render != "ok" then
    return .specfalse (sigOf engine ("render-" ++ errKind render)) render
  return .ok

def handleC17 (j : Json) : Except String Verdict := do
  match ← getStr j "k" with
  | "esc" => handleEsc j
  | "tmpl" => handleTmpl j
  | "lay" => handleLay j
  | k => throw s!"unknown kind {k}"

def main : IO Unit := D2V.Drv.Lay.runSanitized handleC17
