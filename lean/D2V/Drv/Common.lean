/-
  Line-protocol plumbing shared by every per-property driver (core Lean + Lean.Data.Json only,
  so a `lean_exe` links).  One JSON object per input line, one verdict line per output line:

    ok                          model agrees with the implementation and the Spec holds on the observation
    skip <why>                  line carries no case (statistics, comments)
    mismatch <sig> :: <detail>  model output differs from the implementation's observation
    specfalse <sig> :: <detail> the property's own predicate is false on the implementation's observation
    bad <why>                   the line could not be decoded (counts as a harness error)

  `<sig>` is a short stable signature (no spaces) used to match known findings.
-/
import Lean.Data.Json
open Lean

namespace D2V.Drv

inductive Verdict where
  | ok
  | skip (why : String)
  | mismatch (sig detail : String)
  | specfalse (sig detail : String)
  | bad (why : String)

def Verdict.render : Verdict → String
  | .ok => "ok"
  | .skip w => s!"skip {w}"
  | .mismatch s d => s!"mismatch {s} :: {d}"
  | .specfalse s d => s!"specfalse {s} :: {d}"
  | .bad w => s!"bad {w}"

def hexVal (c : Char) : Option Nat :=
  if '0' ≤ c ∧ c ≤ '9' then some (c.toNat - '0'.toNat)
  else if 'a' ≤ c ∧ c ≤ 'f' then some (c.toNat - 'a'.toNat + 10)
  else if 'A' ≤ c ∧ c ≤ 'F' then some (c.toNat - 'A'.toNat + 10)
  else none

/-- decode a hex string into bytes; `none` on odd length or a non-hex digit -/
def unhex (s : String) : Option (List UInt8) :=
  let rec go : List Char → List UInt8 → Option (List UInt8)
    | [], acc => some acc.reverse
    | [_], _ => none
    | a :: b :: rest, acc =>
      match hexVal a, hexVal b with
      | some x, some y => go rest (UInt8.ofNat (x * 16 + y) :: acc)
      | _, _ => none
  go s.toList []

def hexDigit (n : Nat) : Char :=
  if n < 10 then Char.ofNat ('0'.toNat + n) else Char.ofNat ('a'.toNat + n - 10)

def hex (bs : List UInt8) : String :=
  String.ofList (bs.flatMap fun b => [hexDigit (b.toNat / 16), hexDigit (b.toNat % 16)])

def getStr (j : Json) (k : String) : Except String String := j.getObjValAs? String k
def getNat (j : Json) (k : String) : Except String Nat := j.getObjValAs? Nat k
def getInt (j : Json) (k : String) : Except String Int := j.getObjValAs? Int k
def getBool (j : Json) (k : String) : Except String Bool := j.getObjValAs? Bool k
def getArr (j : Json) (k : String) : Except String (Array Json) := j.getObjValAs? (Array Json) k
def getObj (j : Json) (k : String) : Except String Json := j.getObjVal? k

def getBytes (j : Json) (k : String) : Except String (List UInt8) := do
  let s ← getStr j k
  match unhex s with
  | some b => pure b
  | none => throw s!"field {k}: not hex"

/-- code points of a string field that the harness wrote as a JSON array of numbers -/
def getNats (j : Json) (k : String) : Except String (List Nat) := do
  let a ← getArr j k
  a.toList.mapM fun x => match x.getNat? with
    | .ok n => pure n
    | .error e => throw e

def parseIntStr (s : String) : Option Int :=
  match s.toList with
  | '-' :: r => (String.ofList r).toNat?.map fun n => - (Int.ofNat n)
  | '+' :: r => (String.ofList r).toNat?.map Int.ofNat
  | _ => s.toNat?.map Int.ofNat

/-- exact rational written by Go's `big.Rat.String()` ("a/b") or an integer literal -/
def parseRat (s : String) : Option Rat :=
  match s.splitOn "/" with
  | [a] => (parseIntStr a).map fun n => (n : Rat)
  | [a, b] => do
      let n ← parseIntStr a
      let d ← b.toNat?
      if d = 0 then none else some ((n : Rat) / (d : Rat))
  | _ => none

def getRat (j : Json) (k : String) : Except String Rat := do
  let s ← getStr j k
  match parseRat s with
  | some r => pure r
  | none => throw s!"field {k}: not a rational: {s}"

def ratOfJson (x : Json) : Except String Rat :=
  match x with
  | .str s => match parseRat s with
      | some r => pure r
      | none => throw s!"not a rational: {s}"
  | .num n => pure ((n.mantissa : Rat) / ((10 ^ n.exponent : Nat) : Rat))
  | _ => throw "not a rational"

def getRats (j : Json) (k : String) : Except String (List Rat) := do
  let a ← getArr j k
  a.toList.mapM ratOfJson

/-- run a per-line handler over stdin; every input line yields exactly one output line -/
partial def lineLoop (h : IO.FS.Stream) (out : IO.FS.Stream) (f : Json → Except String Verdict) : IO Unit := do
  let line ← h.getLine
  if line.isEmpty then return ()
  let v : Verdict :=
    match Json.parse line with
    | .error e => .bad s!"json: {e}"
    | .ok j =>
      match j.getObjValAs? String "k" with
      | .ok "_stats" => .skip "stats"
      | _ => match f j with
        | .ok v => v
        | .error e => .bad e
  out.putStrLn v.render
  lineLoop h out f

def runDriver (f : Json → Except String Verdict) : IO Unit := do
  let i ← IO.getStdin
  let o ← IO.getStdout
  lineLoop i o f
  o.flush

end D2V.Drv
