import D2V.Drv.Common
import D2V.Model.Grid
open Lean D2V.Drv D2V.Grid

namespace C22

def optStr (j : Json) (k : String) : Except String (Option String) :=
  match j.getObjVal? k with
  | .ok .null => pure none
  | .ok (.str s) => pure (some s)
  | .ok _ => throw s!"field {k}: not a string or null"
  | .error _ => pure none

def optInt (j : Json) (k : String) : Except String (Option Int) :=
  match j.getObjVal? k with
  | .ok .null => pure none
  | .ok v => match v.getInt? with
    | .ok n => pure (some n)
    | .error e => throw e
  | .error _ => pure none

def box4 (j : Json) (k : String) : Except String Box := do
  match ← getRats j k with
  | [x, y, w, h] => pure ⟨x, y, w, h⟩
  | _ => throw s!"field {k}: not 4 numbers"

structure Obs where
  box : Box
  deco : Deco
  nkids : Nat

instance : Inhabited Obs := ⟨⟨⟨0, 0, 0, 0⟩, ⟨false, none, 0, 0, false, none, 0, 0⟩, 0⟩⟩

def parseObs (j : Json) : Except String Obs := do
  pure { box := ← box4 j "box"
         deco := { hasLabel := ← getBool j "has_label", labelPos := ← optStr j "lp", lw := ← getInt j "lw", lh := ← getInt j "lh",
                   hasIcon := ← getBool j "has_icon", iconPos := ← optStr j "ip", modDx := ← getRat j "mod_dx", modDy := ← getRat j "mod_dy" }
         nkids := ← getNat j "nkids" }

def showBox (b : Box) : String := s!"[x={b.x} y={b.y} w={b.w} h={b.h}]"

def absR (a : Rat) : Rat := if a < 0 then -a else a

/-- float64 vs exact arithmetic -/
def close (a b : Rat) : Bool := decide (absR (a - b) ≤ (1 + absR a) / 1000000)

def tol : Rat := 1 / 1000

/-- a cell whose margin is zero whatever its size: no outside label, no outside icon, no 3d/multiple offset -/
def decoPlain (d : Deco) : Bool :=
  (!d.hasLabel || (match d.labelPos with | some p => (outsidePos p).isNone | none => true)) &&
  (!d.hasIcon || (match d.iconPos with | some p => (outsidePos p).isNone | none => true)) &&
  d.modDx == 0 && d.modDy == 0

/-- box in line coordinates -/
def toB (rowDirected : Bool) (b : Box) : B := if rowDirected then ⟨b.x, b.y, b.w, b.h⟩ else ⟨b.y, b.x, b.h, b.w⟩

/-- line index and position in the line of every cell, from the line lengths -/
def lineIdx (runs : List Nat) : List (Nat × Nat) :=
  (runs.zipIdx).flatMap fun (len, i) => (List.range len).map fun j => (i, j)

def chunkRuns (L n : Nat) : List Nat :=
  if L = 0 then [] else (List.range ((n + L - 1) / L)).map fun i => min L (n - i * L)

structure Ctx where
  rowDirected : Bool
  gm : Rat
  gc : Rat

def pairsLt (n : Nat) : List (Nat × Nat) :=
  (List.range n).flatMap fun a => ((List.range n).filter (fun b => a < b)).map fun b => (a, b)

/-- Spec S1: interiors of two boxes are disjoint -/
def disjoint (a b : Box) : Bool :=
  decide (a.x + a.w ≤ b.x + tol ∨ b.x + b.w ≤ a.x + tol ∨ a.y + a.h ≤ b.y + tol ∨ b.y + b.h ≤ a.y + tol)

/-- "inside the container" is judged to half a pixel: non-rectangular containers (cloud, oval, …) place their content
    through float32/ratio arithmetic that is off by hundredths of a pixel (seen: 0.0105 px on a cloud) -/
def tolInside : Rat := 1 / 2

def inside (root b : Box) : Bool :=
  decide (root.x ≤ b.x + tolInside ∧ root.y ≤ b.y + tolInside ∧ b.x + b.w ≤ root.x + root.w + tolInside ∧ b.y + b.h ≤ root.y + root.h + tolInside)

/-- Spec-on-impl for a grid whose lines are known -/
def specLines (cx : Ctx) (evenly exactKids : Bool) (obs : Array Obs) (idx : Array (Nat × Nat)) : Option (String × String) := Id.run do
  let n := obs.size
  for (a, b) in pairsLt n do
    let oa := obs[a]!
    let ob := obs[b]!
    let ba := toB cx.rowDirected oa.box
    let bb := toB cx.rowDirected ob.box
    let (la, pa) := idx[a]!
    let (lb, pb) := idx[b]!
    if !disjoint oa.box ob.box then
      return some ("cells-overlap", s!"cells {a} and {b}: {showBox oa.box} {showBox ob.box}")
    -- declaration order along the lines + the configured gap between neighbours (at least; exactly below)
    if la == lb then
      if !decide (ba.m + ba.ms + cx.gm ≤ bb.m + tol) then
        return some ("order-or-gap-in-line", s!"cells {a},{b} of line {la}: {showBox oa.box} {showBox ob.box} gap {cx.gm}")
    else if la < lb then
      if !decide (ba.c + ba.cs + cx.gc ≤ bb.c + tol) then
        return some ("order-or-gap-across-lines", s!"cells {a} (line {la}) and {b} (line {lb}): {showBox oa.box} {showBox ob.box} gap {cx.gc}")
    else
      return some ("line-order", s!"cell {a} in line {la} after cell {b} in line {lb}")
    if decoPlain oa.deco && decoPlain ob.deco && (exactKids || (oa.nkids == 0 && ob.nkids == 0)) then
      -- undecorated cells: the raw boxes are the slots, so the exact clauses apply to them
      if la == lb then
        if !(close ba.c bb.c && close ba.cs bb.cs) then
          return some ("line-not-uniform", s!"cells {a},{b} of line {la} differ across the line: {showBox oa.box} {showBox ob.box}")
        if pb == pa + 1 && !close (ba.m + ba.ms + cx.gm) bb.m then
          return some ("gap-not-exact", s!"neighbours {a},{b} of line {la}: {showBox oa.box} {showBox ob.box} gap {cx.gm}")
      if evenly && pa == pb then
        if !(close ba.m bb.m && close ba.ms bb.ms) then
          return some ("column-not-uniform", s!"cells {a},{b} at position {pa} of lines {la},{lb}: {showBox oa.box} {showBox ob.box}")
  return none

/-- Spec-on-impl when the lines are not known (dynamic grid seen only through its final boxes) -/
def specWeak (cx : Ctx) (obs : Array Obs) : Option (String × String) := Id.run do
  for (a, b) in pairsLt obs.size do
    let oa := obs[a]!
    let ob := obs[b]!
    let ba := toB cx.rowDirected oa.box
    let bb := toB cx.rowDirected ob.box
    if !disjoint oa.box ob.box then
      return some ("cells-overlap", s!"cells {a} and {b}: {showBox oa.box} {showBox ob.box}")
    if !decide (ba.m + ba.ms + cx.gm ≤ bb.m + tol ∨ ba.c + ba.cs + cx.gc ≤ bb.c + tol) then
      return some ("order-or-gap", s!"cells {a},{b}: {showBox oa.box} {showBox ob.box} gaps {cx.gm} {cx.gc}")
  return none

def handle (j : Json) : Except String Verdict := do
  let kind ← getStr j "k"
  let i ← getObj j "in"
  let o ← getObj j "out"
  if let .ok e := getStr o "err" then
    return .skip ("pipeline error " ++ String.ofList ((e.toList.take 60).map fun c => if c == '\n' then ' ' else c))
  let outcome ← getStr o "outcome"
  if outcome != "ok" then
    return .specfalse "grid-layout-panics" outcome
  let rowsA ← getNat i "rows"
  let colsA ← getNat i "cols"
  let rowsFirst ← getBool i "rows_first"
  let obs ← (← getArr o "cells").toList.mapM parseObs
  let n := obs.length
  let root ← box4 o "root"
  if n == 0 then return .ok
  let d := derive rowsA colsA rowsFirst n
  let (vg, hg) := gaps (← optInt i "grid_gap") (← optInt i "v_gap") (← optInt i "h_gap")
  let cx : Ctx := { rowDirected := d.rowDirected, gm := if d.rowDirected then (hg : Rat) else (vg : Rat),
                    gc := if d.rowDirected then (vg : Rat) else (hg : Rat) }
  let evenly := d.rows != 0 && d.cols != 0
  -- every cell inside the grid container
  let explW := (getBool i "explicit_w").toOption.getD false
  let explH := (getBool i "explicit_h").toOption.getD false
  for (ob, k) in obs.zipIdx do
    if !inside root ob.box then
      -- an explicit `width`/`height` on the grid container is honoured even when the cells need more (known finding):
      -- separate signature, only when the overflow is along an axis whose size the user fixed
      let okX := decide (root.x ≤ ob.box.x + tolInside ∧ ob.box.x + ob.box.w ≤ root.x + root.w + tolInside)
      let okY := decide (root.y ≤ ob.box.y + tolInside ∧ ob.box.y + ob.box.h ≤ root.y + root.h + tolInside)
      let shape := (getStr i "shape").toOption.getD ""
      let sig := if (okX || explW) && (okY || explH) then "cell-outside-container:explicit-size"
        else if shape == "person" then "cell-outside-container:person-shape" else "cell-outside-container"
      return .specfalse sig s!"cell {k} {showBox ob.box} vs container {showBox root} explicit width={explW} height={explH}"
  if evenly && d.rows * d.cols < n then
    return .specfalse "capacity" s!"{d.rows}x{d.cols} < {n} cells"
  if kind == "e2e" then
    if evenly then
      let L := if d.rowDirected then d.cols else d.rows
      match specLines cx true false obs.toArray (lineIdx (chunkRuns L n)).toArray with
      | some (sig, det) => return .specfalse sig det
      | none => return .ok
    else
      match specWeak cx obs.toArray with
      | some (sig, det) => return .specfalse sig det
      | none => return .ok
  -- unit: newGridDiagram's result, the partition contract, the full Spec and the model
  let od ← getObj o "dims"
  let gd : Dims := ⟨← getNat od "rows", ← getNat od "cols", ← getBool od "row_directed"⟩
  if gd != d then
    return .mismatch "dims" s!"model {repr d} vs impl {repr gd} for rows={rowsA} cols={colsA} rowsFirst={rowsFirst} n={n}"
  if (← getInt od "v_gap") != vg || (← getInt od "h_gap") != hg then
    return .mismatch "gaps" s!"model ({vg},{hg})"
  let runs : List Nat ←
    if evenly then pure (chunkRuns (if d.rowDirected then d.cols else d.rows) n)
    else do
      let rs ← getNats o "runs"
      if !(← getBool o "runs_in_order") || rs.foldl (· + ·) 0 != n then
        return .specfalse "best-layout-contract" s!"getBestLayout returned lines {rs} that are not consecutive runs of the {n} cells"
      if rs.length != (if d.rowDirected then d.rows else d.cols) then
        return .specfalse "best-layout-contract" s!"getBestLayout returned {rs.length} lines for rows={d.rows} cols={d.cols}"
      pure rs
  if (lineIdx runs).length != n then throw "line index"
  match specLines cx evenly true obs.toArray (lineIdx runs).toArray with
  | some (sig, det) => return .specfalse sig det
  | none => pure ()
  if let .ok false := getBool o "kids_ok" then
    return .specfalse "descendants-left-behind" "a cell's descendants did not move with it"
  -- model
  let cin ← (← getArr i "cells").toList.mapM fun c => do pure (← getRat c "w", ← getRat c "h")
  if cin.length != n then throw "cells length"
  let cells : List CellIn := (cin.zip obs).map fun ((w, h), ob) => ⟨w, h, ob.deco⟩
  let m := layoutGrid cells d vg hg (if evenly then [] else runs)
  if m.cells.length != n then
    return .mismatch "cell-count" s!"model placed {m.cells.length} of {n}"
  match m.cells, obs with
  | m0 :: _, o0 :: _ =>
    let tx := o0.box.x - m0.box.x
    let ty := o0.box.y - m0.box.y
    for ((mc, ob), k) in (m.cells.zip obs).zipIdx do
      if !(close (mc.box.x + tx) ob.box.x && close (mc.box.y + ty) ob.box.y && close mc.box.w ob.box.w && close mc.box.h ob.box.h) then
        return .mismatch "box" s!"cell {k}: model {showBox mc.box} shifted by ({tx},{ty}) vs impl {showBox ob.box}"
      -- glue lemma instance: the box lies inside its slot
      if !decide (mc.slot.x ≤ mc.box.x ∧ mc.slot.y ≤ mc.box.y ∧ mc.box.x + mc.box.w ≤ mc.slot.x + mc.slot.w ∧ mc.box.y + mc.box.h ≤ mc.slot.y + mc.slot.h) then
        return .mismatch "box-outside-slot" s!"cell {k}: model box {showBox mc.box} slot {showBox mc.slot}"
  | _, _ => pure ()
  return .ok

end C22

def main : IO Unit := runDriver C22.handle
