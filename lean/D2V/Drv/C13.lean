import D2V.Drv.Common
import D2V.Drv.SemX
import D2V.Model.Vars
open Lean D2V.Drv D2V.Drv.SemX D2V.SemAst D2V.Vars

/-!
  C13 driver.

  `--xform` (co-process of the harness): `{"body": AST}` ↦ `{"p": text, "q": text | null, "qerr": …}` where
  `p = render body` and `q = render (substText body)` — the two texts the harness feeds to the real compiler.

  verdict mode, kind `varsdiff`: `in.body` (AST), `out.ptext/qtext` (texts that were compiled), `out.gp/gq`
  (outcomes of the real compiler).  Spec-on-impl = the property sentence: the compiled graph of the program
  equals the compiled graph of its textually substituted twin; an undefined reference is an error.
  Kind `resolve`: the model's `resolve` against the value the real compiler put in a label.
-/

def errPath (e : Err) : String :=
  match e with
  | .undefined p => ".".intercalate p
  | .cyclic p => ".".intercalate p

/-! classification used only to give known findings a narrow signature -/
mutual
partial def anyScalV (f : Scal → Bool) : Val → Bool
  | .scal v => f v
  | .map b => b.any (anyScalS f)
  | .arr vs => vs.any f
  | _ => false
partial def anyScalS (f : Scal → Bool) : Stmt → Bool
  | .field _ _ p v => (p.map f).getD false || anyScalV f v
  | .edge _ _ _ _ _ _ p v => (p.map f).getD false || anyScalV f v
  | _ => false
end

/-- some definition inside a `vars` block contains a substitution -/
partial def hasChainedDef (inVars : Bool) : Body → Bool
  | [] => false
  | .field 0 k p v :: r =>
    (if isVarsKey k && !inVars then (match v with | .map b => hasChainedDef true b | _ => false)
     else if inVars then ((p.map Scal.hasSub).getD false || (match v with
        | .scal s => s.hasSub
        | .map b => hasChainedDef true b
        | _ => false))
     else (match v with | .map b => hasChainedDef false b | _ => false)) || hasChainedDef inVars r
  | .edge _ _ _ _ _ _ _ v :: r => (match v with | .map b => hasChainedDef false b | _ => false) || hasChainedDef inVars r
  | _ :: r => hasChainedDef inVars r

/-- a `vars` block that is not the first statement of its map, or a definition that refers to a later sibling -/
partial def orderSensitive : Body → Bool
  | body =>
    let idxs := (body.zipIdx.filterMap fun (s, i) => match s with
      | .field 0 k _ (.map _) => if isVarsKey k then some i else none
      | _ => none)
    let late := idxs.any (· != 0)
    let fwd := body.any fun s => match s with
      | .field 0 k _ (.map defs) =>
        isVarsKey k && (defs.zipIdx.any fun (d, i) => match d with
          | .field 0 _ p v =>
            let refs := ((p.map (·.parts)).getD [] ++ (match v with | .scal s => s.parts | _ => [])).filterMap fun x =>
              match x with | .sub q => q.head? | _ => none
            refs.any fun name => defs.zipIdx.any fun (d', j) => j > i && (match d' with
              | .field 0 [k'] _ _ => k'.s == name
              | _ => false)
          | _ => false)
      | _ => false
    late || fwd || body.any fun s => match s with
      | .field _ k _ (.map b) => !isVarsKey k && orderSensitive b
      | .edge _ _ _ _ _ _ _ (.map b) => orderSensitive b
      | _ => false

def classOf (body : Body) : String :=
  if hasChainedDef false body && orderSensitive body then ":chained-order"
  else if body.any (anyScalS keywordPrefix) then ":keyword-prefix"
  else ""

def xform (j : Json) : Except String Json := do
  let body ← decBody (← getObj j "body")
  let p := renderBody 0 body
  match substText body with
  | .ok q => pure (Json.mkObj [("p", p), ("q", renderBody 0 q)])
  | .error e => pure (Json.mkObj [("p", p), ("q", Json.null), ("qerr", errPath e)])

def mentionsUnresolved (msgs : List String) (path : String) : Bool :=
  msgs.any fun m => (m.splitOn ("could not resolve variable \"" ++ path ++ "\"")).length > 1

def handleC13 (j : Json) : Except String Verdict := do
  let k ← getStr j "k"
  let i ← getObj j "in"
  let o ← getObj j "out"
  match k with
  | "varsdiff" =>
    let body ← decBody (← getObj i "body")
    let ptext ← getStr o "ptext"
    if renderBody 0 body != ptext then return .mismatch "xform-drift" "render(body) differs from the compiled text"
    let gp ← decOutcome (← getObj o "gp")
    let cls := classOf body
    match substText body with
    | .error (.cyclic _) => return .ok    -- definitions that refer to each other: no value to substitute, outside the property
    | .error e =>
      -- clause: a reference to an undefined variable is an error
      match gp with
      | .errs msgs =>
        if mentionsUnresolved msgs (errPath e) then return .ok
        else return .specfalse ("undefined-other-error" ++ cls) s!"expected: could not resolve variable {errPath e}; got {msgs}"
      | .panic m => return .specfalse ("undefined-panic" ++ cls) s!"reference to undefined {errPath e} panics: {m}"
      | .graph _ => return .specfalse ("undefined-accepted" ++ cls) s!"reference to undefined variable {errPath e} compiled"
    | .ok q =>
      let qtext ← getStr o "qtext"
      if renderBody 0 q != qtext then return .mismatch "xform-drift" "render(substText body) differs from the compiled text"
      let gq ← decOutcome (← getObj o "gq")
      match gp, gq with
      | .graph a, .graph b =>
        match boardDiff "root" a b with
        | none => return .ok
        | some d => return .specfalse ("graph-differs" ++ cls) d
      | .errs a, .errs b =>
        -- both texts rejected for the same reason (e.g. an attribute value out of its domain): nothing to compare
        if a == b then return .ok
        else return .specfalse ("errors-differ" ++ cls) s!"{a} vs {b}"
      | a, b => return .specfalse ("outcome-differs:" ++ a.kindStr ++ "-vs-" ++ b.kindStr ++ cls) s!"{a.brief} vs substituted {b.brief}"
  | "resolve" =>
    -- model of the scope-stack resolution against the label the real compiler produced
    let stack ← (← getArr i "stack").toList.mapM fun b => do
      (← b.getArr?).toList.mapM fun e => do
        pure ((← getStr e "p").splitOn ".", ← decScal (← getObj e "v"))
    let path := (← getStr i "path").splitOn "."
    let got ← getStr o "label"
    let okFlag ← getBool o "ok"
    match resolve (Stack.fuel stack) stack none path with
    | .ok v =>
      let text := String.join (v.parts.map fun x => match x with | .lit s => s | .sub _ => "")
      if okFlag && text == got then return .ok
      else return .mismatch "resolve" s!"model {text} vs impl ok={okFlag} {got}"
    | .error _ =>
      if okFlag then return .mismatch "resolve" s!"model: undefined, impl: {got}" else return .ok
  | _ => return .bad s!"unknown kind {k}"

def main (args : List String) : IO Unit :=
  if args.contains "--xform" then xformLoop xform else runDriver (single handleC13)
