import D2V.Drv.ParserLib
open Lean D2V.Drv D2V.Text

/-- C01 driver.  Spec-on-impl: the real parser terminated without panic and returned tree + error list.
    Model-vs-impl: outcome, syntax tree (kinds, values, raw strings, patterns) and error messages; ranges are
    C02's business and ignored here. -/
def handleC01 (j : Json) : Except String Verdict := do
  let c ← readCase j
  match specTotal c with
  | some (sig, d) => return .specfalse sig d
  | none => return compareModel c false

def main : IO Unit := runDriver fun j => match handleC01 j with
  | .ok v => .ok (sanitize v)
  | .error e => .error (oneLine e)
