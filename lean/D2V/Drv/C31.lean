import D2V.Drv.Common
import D2V.Model.Themes
open Lean D2V.Drv D2V.Themes D2V.Gen.Themes

/-! Driver of C31: model-vs-implementation on stylesheet rules / inline colours / rejection, and the property's own
    predicate evaluated on what the real renderer printed. -/

abbrev Triple := String × String × String

def getTriples (j : Json) (k : String) : Except String (List Triple) := do
  let a ← getArr j k
  a.toList.mapM fun x => do
    match x with
    | .arr #[.str p, .str c, .str v] => pure (p, c, v)
    | _ => throw s!"{k}: not a triple"

def getPairs (j : Json) (k : String) : Except String (List (String × String)) := do
  let a ← getArr j k
  a.toList.mapM fun x => do
    match x with
    | .arr #[.str p, .str v] => pure (p, v)
    | _ => throw s!"{k}: not a pair"

def getOverrides (j : Json) (k : String) : Except String Overrides := do
  let o ← getObj j k
  match o with
  | .obj kvs =>
    let l := kvs.toList.filterMap fun (k, v) => match v with | .str s => some (k, s) | _ => none
    pure fun c => l.lookup c.name
  | .null => pure Overrides.none
  | _ => throw s!"{k}: not an object"

def optInt (j : Json) (k : String) : Option Int :=
  match j.getObjValAs? Int k with
  | .ok v => some v
  | .error _ => none

/-! ### Spec, written from the property sentence over the regenerated catalog only (no `applyOverrides`,
    no `resolve`, no `rulesets`): a used code resolves to the override if one was given, else to the colour the
    catalog lists for that theme. -/

def builtinThemes : List ThemeRec := lightCatalog ++ darkCatalog

def specColor (id : Int) (ov : Overrides) (c : Code) : Option String :=
  match ov c with
  | some v => some v
  | none => (builtinThemes.find? (fun t => t.id == id)).map fun t => t.colors.get c

/-- values the sheet gives to (prop, code) -/
def sheetValues (sheet : List Triple) (prop code : String) : List String :=
  sheet.filterMap fun (p, c, v) => if p == prop && c == code then some v else none

def showT (t : Triple) : String := s!"{t.1}-{t.2.1}={t.2.2}"

def handleRender (i o : Json) : Except String Verdict := do
  let id ← getInt i "theme"
  let dark := optInt i "dark"
  let ov ← getOverrides i "ov"
  let dov ← getOverrides i "dov"
  let err ← getStr o "err"
  let ctx := s!"theme={id} dark={dark}"
  if err != "" then
    return .specfalse "render-failed" s!"{ctx}: a built-in theme with valid overrides did not render: {err}"
  let light ← getTriples o "light"
  let darkSheet ← getTriples o "dark"
  let hasDark ← getBool o "hasDark"
  let inline ← getTriples o "inline"
  let hashOK ← getBool o "hashOK"
  -- Spec-on-impl -------------------------------------------------------------------------------------------
  if dark.isSome && !hasDark then
    return .specfalse "no-dark-block" s!"{ctx}: dark theme requested but the stylesheet has no prefers-color-scheme:dark block"
  for t in inline do
    let (prop, code, v) := t
    match Code.ofName? code with
    | none => return .specfalse "unknown-code" s!"{ctx}: class {prop}-{code} is not a theme colour code"
    | some c =>
      let want := specColor id ov c
      let got := sheetValues light prop code
      if got.isEmpty || !got.all (fun g => some g == want) then
        return .specfalse "sheet-light" s!"{ctx}: used class {prop}-{code}: stylesheet gives {got}, theme/override colour is {want}"
      match dark with
      | some d =>
        let wantD := specColor d dov c
        let gotD := sheetValues darkSheet prop code
        if gotD.isEmpty || !gotD.all (fun g => some g == wantD) then
          return .specfalse "sheet-dark" s!"{ctx}: used class {prop}-{code}: dark stylesheet gives {gotD}, dark theme/override colour is {wantD}"
      | none =>
        if v != "<absent>" && some v != want then
          return .specfalse "inline" s!"{ctx}: element with class {prop}-{code} has inline {prop}=\"{v}\", theme/override colour is {want}"
  -- model vs implementation ----------------------------------------------------------------------------------
  if !hashOK then
    return .mismatch "sheet-scope" s!"{ctx}: a rule is not scoped by the diagram hash or sets another property than its class names"
  let m := themeCSS id dark ov dov
  if m.light != light then
    let diff := (m.light.zip light).filter fun (a, b) => a != b
    return .mismatch "rulesets-light" s!"{ctx}: model {m.light.length} rules, impl {light.length}; first differences (model,impl): {(diff.take 3).map fun (a, b) => (showT a, showT b)}"
  match m.dark with
  | some md =>
    if md != darkSheet then
      let diff := (md.zip darkSheet).filter fun (a, b) => a != b
      return .mismatch "rulesets-dark" s!"{ctx}: model {md.length} rules, impl {darkSheet.length}; first differences: {(diff.take 3).map fun (a, b) => (showT a, showT b)}"
  | none =>
    if hasDark then return .mismatch "rulesets-dark" s!"{ctx}: impl printed a dark block, model none"
  let mdL ← getPairs o "mdLight"
  let mdWant := mdRules (themed id ov)
  if !(mdWant.all fun kv => mdL.contains kv) || mdL.length != mdWant.length + mdLiterals.length then
    return .mismatch "md-light" s!"{ctx}: model {mdWant} impl {mdL}"
  match dark with
  | some d =>
    let mdD ← getPairs o "mdDark"
    let mdWantD := mdRules (themed d dov)
    if !(mdWantD.all fun kv => mdD.contains kv) then
      return .mismatch "md-dark" s!"{ctx}: model {mdWantD} impl {mdD}"
    let appD ← getStr o "appDark"
    if appD != appendixRule (themed d dov) then
      return .mismatch "appendix-dark" s!"{ctx}: model {appendixRule (themed d dov)} impl {appD}"
  | none => pure ()
  let appL ← getStr o "appLight"
  if appL != appendixRule (themed id ov) then
    return .mismatch "appendix-light" s!"{ctx}: model {appendixRule (themed id ov)} impl {appL}"
  for t in inline do
    let (prop, code, v) := t
    match inlineColor id dark ov code with
    | none =>
      if v != "<absent>" then
        return .mismatch "inline-with-dark" s!"{ctx}: {prop}-{code} has inline {v} although a dark theme is requested"
    | some w =>
      if v != "<absent>" && v != w then
        return .mismatch "inline" s!"{ctx}: {prop}-{code}: model {w} impl {v}"
  return .ok

def handleReject (i o : Json) : Except String Verdict := do
  let id ← getInt i "id"
  let via ← getStr i "via"
  let rej ← getBool o "rejected"
  let known := (builtinThemes.map (·.id)).contains id
  -- Spec-on-impl: unknown IDs are refused, built-in ones are not
  if !known && !rej then
    return .specfalse s!"unknown-theme-accepted:{via}" s!"theme id {id} is not in the catalog but entry point '{via}' accepted it"
  if known && rej then
    return .specfalse s!"builtin-theme-rejected:{via}" s!"theme id {id} is a built-in theme but entry point '{via}' refused it"
  if rejected id != rej then
    return .mismatch s!"rejected:{via}" s!"id {id}: model {rejected id} impl {rej}"
  return .ok

def handleC31 (j : Json) : Except String Verdict := do
  let k ← getStr j "k"
  let i ← getObj j "in"
  let o ← getObj j "out"
  match k with
  | "render" => handleRender i o
  | "reject" => handleReject i o
  | _ => throw s!"unknown kind {k}"

/-- a verdict is one line: user-derived text (error messages, labels) may carry line breaks -/
def oneLine (s : String) : String := s.map fun c => if c == '\n' || c == '\r' then ' ' else c

def cleanVerdict : Verdict → Verdict
  | .mismatch s d => .mismatch (oneLine s) (oneLine d)
  | .specfalse s d => .specfalse (oneLine s) (oneLine d)
  | .bad w => .bad (oneLine w)
  | v => v

def main : IO Unit := runDriver fun j =>
  match handleC31 j with
  | .ok v => .ok (cleanVerdict v)
  | .error e => .error (oneLine e)
