import D2V.Drv.Common
import D2V.Drv.SemX
import D2V.Model.Boards
open Lean D2V.Drv D2V.Drv.SemX D2V.SemAst D2V.Boards

/-!
  C15 driver.

  `--xform`: `{"body": AST, "pick": n, "mode": m}` ↦ the texts the harness must compile:
     p      the program,
     strip  the program without any board block (what the root board must equal),
     flat   for every board path π the single-board program `flatten p π` (its root must equal board π),
     p2     the program with the body of one board (the `pick`-th path) emptied (mode 0) or changed (mode 1).
  kind `boards`: `in` = the request, `out.gp/gstrip/gflat/gp2` = outcomes of the real compiler.  Spec-on-impl:
     root of p = root of strip;  board π of p = root of flatten p π  (scenario = base-as-of-declaration + own,
     step i ⊇ step i−1, layer starts empty but sees classes/vars/board-wide globs);
     no leak: every board whose reference program does not mention the victim's body is identical in p and p2.
  Model-vs-impl: on programs of the flat fragment the functional specification `evalProg` is compared board by board.
-/

def pathJson (p : List (String × String)) : Json := Json.arr (p.map fun (k, n) => Json.arr #[k, n]).toArray

def changedBody : Body := [.field 0 [useg "zz_new"] none (.scal (litScal 0 "changed")), .field 0 [useg "a", useg "shape"] none (.scal (litScal 0 "hexagon"))]

structure Plan where
  p : Body
  paths : List (List (String × String))
  flats : List (Option Body)
  victim : Option (List (String × String))
  p2 : Body

def plan (body : Body) (pick mode : Nat) : Plan :=
  let paths := boardPaths body
  let victim := if paths.isEmpty then none else paths[pick % paths.length]?
  let p2 := match victim with
    | some v => replaceBoard body v (if mode == 0 then [] else changedBody)
    | none => body
  { p := body, paths := paths, flats := paths.map (flatten body), victim := victim, p2 := p2 }

def xform (j : Json) : Except String Json := do
  let body ← decBody (← getObj j "body")
  let pl := plan body (← getNat j "pick") (← getNat j "mode")
  pure (Json.mkObj [
    ("p", renderBody 0 pl.p),
    ("strip", renderBody 0 (stripBoards pl.p)),
    ("paths", Json.arr (pl.paths.map pathJson).toArray),
    ("flat", Json.arr (pl.flats.map fun f => match f with
      | some b => Json.str (renderBody 0 b)
      | none => Json.null).toArray),
    ("p2", renderBody 0 pl.p2)])

def kindOf (kw : String) : Kind := if kw == "layers" then .layer else if kw == "scenarios" then .scenario else .step

partial def itemsOf (body : Body) : Option (List Item) :=
  body.foldr (fun s acc => do
    let rest ← acc
    match s with
    | .field 0 k none (.map b) =>
      match boardKw k with
      | some kw => do
        let bs ← (blockBoards b).mapM fun (n, bb) => do pure (n, ← itemsOf bb)
        if (blockBoards b).length != b.length then none else
        pure (.boards (kindOf kw) bs :: rest)
      | none => none
    | s => do
      let ops ← opOfStmt s
      if (match s with | .field _ [n] _ _ => (boardKw [n]).isSome || n.s == "classes" || n.s == "vars" | _ => false) then none
      else pure (ops.map Item.op ++ rest)) (some [])

def kindStr : Kind → String
  | .layer => "layer" | .scenario => "scenario" | .step => "step"

/-- first disagreement between the specification's board tree and the compiled one -/
partial def modelDiff (path : String) (m : Board) (g : CBoard) : Option String :=
  let exp := sortEnts (m.content.map fun (n, a) => { id := n, attrs := expectedAttrs n a })
  if exp != g.objs then some s!"board {path}: specification {repr (exp.map (·.id))} vs compiled {repr (g.objs.map (·.id))} / {repr exp} vs {repr g.objs}"
  else
    m.children.findSome? fun (k, n, b) =>
      match g.boards.find? fun x => x.kind == kindStr k && x.name == n with
      | some gb => modelDiff (path ++ "/" ++ n) b gb
      | none => some s!"board {path}: nested board {n} missing in the compiled graph"

/-! classification of programs that hit defects recorded as findings (signature suffix only) -/
mutual
partial def anyStmtV (f : Stmt → Bool) : Val → Bool
  | .map b => b.any (anyStmtS f)
  | _ => false
partial def anyStmtS (f : Stmt → Bool) : Stmt → Bool
  | s@(.field _ _ _ v) => f s || anyStmtV f v
  | s@(.edge _ _ _ _ _ _ _ v) => f s || anyStmtV f v
  | s => f s
end

def isPlainGlob : Stmt → Bool
  | .field _ (k :: _) _ _ => k.q == 0 && k.s != "***" && k.s.any (· == '*')
  | .edge _ a _ d _ _ _ _ => (a ++ d).any fun k => k.q == 0 && k.s.any (· == '*')
  | _ => false

def isBlock (kw : String) : Stmt → Bool
  | .field _ k _ _ => boardKw k == some kw
  | _ => false

def isClassesDecl : Stmt → Bool
  | .field _ [k] _ _ => k.q == 0 && k.s == "classes"
  | _ => false

/-- a layer that itself contains scenarios or steps -/
def layerWithInheritingBoards : Stmt → Bool
  | .field _ k _ (.map b) =>
    boardKw k == some "layers" && (blockBoards b).any fun (_, bb) => bb.any fun s => isBlock "scenarios" s || isBlock "steps" s
  | _ => false

def classOf (body : Body) : String :=
  if body.any (anyStmtS isPlainGlob) && body.any (anyStmtS (isBlock "steps")) then ":glob+steps"
  else if body.any (anyStmtS isClassesDecl) && body.any (anyStmtS layerWithInheritingBoards) then ":classes+layer-boards"
  else ""

def pathStr (p : List (String × String)) : String := "/".intercalate (p.map fun (k, n) => k ++ ":" ++ n)

def handleC15 (j : Json) : Except String Verdict := do
  let k ← getStr j "k"
  let i ← getObj j "in"
  let o ← getObj j "out"
  match k with
  | "boards" =>
    let body ← decBody (← getObj i "body")
    let pl := plan body (← getNat i "pick") (← getNat i "mode")
    if renderBody 0 pl.p != (← getStr o "ptext") then return .mismatch "xform-drift" "p"
    if renderBody 0 (stripBoards pl.p) != (← getStr o "striptext") then return .mismatch "xform-drift" "strip"
    if renderBody 0 pl.p2 != (← getStr o "p2text") then return .mismatch "xform-drift" "p2"
    let flatTexts ← getArr o "flattext"
    if flatTexts.size != pl.flats.length then return .mismatch "xform-drift" "flat count"
    for (f, t) in pl.flats.zip flatTexts.toList do
      match f with
      | some b => if Json.str (renderBody 0 b) != t then return .mismatch "xform-drift" "flat"
      | none => if t != Json.null then return .mismatch "xform-drift" "flat none"
    let gp ← decOutcome (← getObj o "gp")
    match gp with
    | .panic m => return .specfalse "panic" m
    | .errs _ => return .ok          -- the generated program is not a valid diagram: nothing to compare
    | .graph g =>
      let cls := classOf body
      -- (a) nothing leaks into the base: the root board is the program without its boards
      match ← decOutcome (← getObj o "gstrip") with
      | .graph gs =>
        if !g.sameLocal gs then
          return .specfalse ("root-differs" ++ cls) ((boardDiff "root" (.mk "" "root" g.objs g.edges []) (.mk "" "root" gs.objs gs.edges [])).getD "")
      | other => return .specfalse "root-differs" s!"program without boards: {other.brief}"
      -- (b) every board is its reference program
      let gflats ← (← getArr o "gflat").toList.mapM fun x => if x == Json.null then pure none else (decOutcome x).map some
      for (path, gf) in pl.paths.zip gflats do
        match g.sub? path, gf with
        | some b, some (.graph r) =>
          if !b.sameLocal r then
            let kind := (path.getLast?.map (·.1)).getD ""
            return .specfalse ("board-differs:" ++ kind ++ cls)
              (s!"{pathStr path}: " ++ ((boardDiff "board" (.mk "" "" b.objs b.edges []) (.mk "" "" r.objs r.edges [])).getD ""))
        | some _, some other => return .specfalse ("board-reference-fails" ++ cls) s!"{pathStr path}: reference program: {other.brief}"
        | none, _ => return .specfalse "board-missing" s!"{pathStr path} not in the compiled graph"
        | _, none => return .bad "no reference program for a listed board"
      -- (c) no leak: boards whose reference does not mention the victim's body are unchanged in p2
      match pl.victim with
      | none => pure ()
      | some v =>
        match ← decOutcome (← getObj o "gp2") with
        | .graph g2 =>
          if flatten pl.p [] == flatten pl.p2 [] then pure ()   -- (always different at the root: p2 ≠ p textually)
          if (stripBoards pl.p) == (stripBoards pl.p2) && !g.sameLocal g2 then
            return .specfalse ("leak-into-root" ++ cls) s!"emptying/changing {pathStr v} changed the root board"
          for path in pl.paths do
            if path != v then
              match flatten pl.p path, flatten pl.p2 path with
              | some a, some b =>
                if a == b then
                  match g.sub? path, g2.sub? path with
                  | some x, some y =>
                    if !x.sameLocal y then
                      return .specfalse ("leak:" ++ (v.getLast?.map (·.1)).getD "" ++ "->" ++ (path.getLast?.map (·.1)).getD "" ++ cls)
                        s!"emptying/changing {pathStr v} changed {pathStr path}"
                  | _, _ => return .specfalse "leak-board-missing" s!"{pathStr path}"
              | _, _ => pure ()
        | .errs _ => pure ()     -- the changed program is not valid (e.g. refers to an object that is gone)
        | .panic m => return .specfalse "panic" m
      -- (d) the functional specification, on the flat fragment
      match itemsOf body with
      | none => return .ok
      | some items =>
        match modelDiff "root" (evalProg items) g with
        | none => return .ok
        | some d => return .mismatch "spec-model" d
  | _ => return .bad s!"unknown kind {k}"

def main (args : List String) : IO Unit :=
  if args.contains "--xform" then xformLoop xform else runDriver (single handleC15)
