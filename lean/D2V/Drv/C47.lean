import D2V.Drv.Common
import D2V.Model.Corpus
open Lean D2V.Drv D2V.Corpus

/-! C47 driver.
  `corpus` lines: tie K — the corpus model against `GetCorpus` of every board and `GetNestedCorpus` of the root, and the
                  Spec `covered (drawn b) corpus` evaluated on Go's corpus string.
  `fonts`  lines: Spec-on-impl — for every embedded subset font: every rune drawn in its font class that the full font has
                  must be in the subset's cmap (both cmaps decoded by the harness from the real SVG / TTF). -/

def cps (j : Json) : Except String (List Char) := do
  let a ← (j.getArr? : Except String (Array Json))
  a.toList.mapM fun x => do
    let n ← (x.getNat? : Except String Nat)
    pure (Char.ofNat n)

def fld (j : Json) (k : String) : Except String (List Char) := do cps (← getObj j k)

def optFld (j : Json) (k : String) : Except String (Option (List Char)) :=
  match j.getObjVal? k with
  | .ok v => do pure (some (← cps v))
  | .error _ => pure none

def rowOf (j : Json) : Except String Row := do
  pure ⟨← fld j "name", ← fld j "type", ← getStr j "vis"⟩

def colOf (j : Json) : Except String Column := do
  let cs ← getArr j "cons"
  pure ⟨← fld j "name", ← fld j "type", ← cs.toList.mapM cps⟩

def shapeOf (j : Json) : Except String Shape := do
  let fs ← getArr j "fields"
  let ms ← getArr j "methods"
  let cs ← getArr j "cols"
  pure ⟨← fld j "label", ← fld j "tooltip", ← fld j "link", ← fld j "pretty", ← getStr j "type",
        ← fs.toList.mapM rowOf, ← ms.toList.mapM rowOf, ← cs.toList.mapM colOf⟩

def connOf (j : Json) : Except String Conn := do
  pure ⟨← fld j "label", ← optFld j "src", ← optFld j "dst"⟩

def legendOf (j : Json) : Except String Legend := do
  let ss ← getArr j "shapes"
  let cs ← getArr j "conns"
  pure ⟨← fld j "label", ← ss.toList.mapM cps, ← cs.toList.mapM cps⟩

def vis (s : List Char) : String := String.ofList ((s.take 300).map fun c => if c.toNat < 32 then '·' else c)

/-- returns the tree and, per board (pre-order), Go's corpus -/
partial def treeOf (j : Json) : Except String (Tree × List (Board × List Char)) := do
  let ss ← getArr j "shapes"
  let cs ← getArr j "conns"
  let lg ← match j.getObjVal? "legend" with
    | .ok l => do pure (some (← legendOf l))
    | .error _ => pure none
  let b : Board := ⟨← ss.toList.mapM shapeOf, ← cs.toList.mapM connOf, lg⟩
  let goCorpus ← fld j "corpus"
  let kids ← getArr j "kids"
  let ks ← kids.toList.mapM treeOf
  pure (.node b (ks.map (·.1)), (b, goCorpus) :: (ks.map (·.2)).flatten)

def handleCorpus (o : Json) : Except String Verdict := do
  let (t, boards) ← treeOf (← getObj o "board")
  let nested ← fld o "nested"
  for (b, goc) in boards do
    if corpus b != goc then
      return .mismatch "corpus" s!"model {vis (corpus b)} vs go {vis goc}"
    if !covered (drawn b) goc then
      return .specfalse "corpus-misses-drawn" s!"a drawn text has a character outside GetCorpus: {vis goc}"
  if nestedCorpus t != nested then
    return .mismatch "nested-corpus" s!"model {vis (nestedCorpus t)} vs go {vis nested}"
  if !covered (nestedDrawn t) nested then
    return .specfalse "nested-corpus-misses-drawn" "a drawn text has a character outside GetNestedCorpus"
  return .ok

def hex4 (n : Nat) : String := String.ofList (Nat.toDigits 16 n)

def handleFonts (o : Json) : Except String Verdict := do
  match o.getObjVal? "xmlerr" with
  | .ok _ => return .ok      -- not well-formed: C30's finding, nothing to read here
  | .error _ =>
    let derr := (getArr o "decodeErr").toOption.getD #[]
    if derr.size > 0 then
      return .specfalse "font-undecodable" s!"an embedded font could not be decoded: {derr}"
    let classes := (getArr o "classes").toOption.getD #[]
    -- all missing glyphs; a rune other than the two whitespace characters the renderer adds itself is reported first
    let mut missing : Array (String × Nat) := #[]
    for c in classes do
      let style ← getStr c "style"
      let emb ← getBool c "embedded"
      if !emb then continue   -- drawn with a font that is not an embedded subset: outside the property
      let runes ← getArr c "runes"
      let sub ← getArr c "sub"
      let full ← getArr c "full"
      for i in [0:runes.size] do
        let r ← (runes[i]!.getNat? : Except String Nat)
        let s ← (sub[i]!.getBool? : Except String Bool)
        let f ← (full[i]!.getBool? : Except String Bool)
        if f && !s then missing := missing.push (style, r)
    let pick := match missing.find? (fun m => m.2 != 0x20 && m.2 != 0xA0) with
      | some m => some m
      | none => missing[0]?
    match pick with
    | some (style, r) =>
      return .specfalse s!"missing-glyph:{style}" s!"the {style} subset has no glyph for U+{hex4 r}, which the SVG draws in that font and the full font has ({missing.size} missing in this document)"
    | none => return .ok

def handleC47 (j : Json) : Except String Verdict := do
  let k ← getStr j "k"
  let o ← getObj j "out"
  match k with
  | "corpus" => handleCorpus o
  | "fonts" => handleFonts o
  | _ => return .bad s!"unknown kind {k}"

def main : IO Unit := runDriver handleC47
