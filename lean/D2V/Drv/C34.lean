import D2V.Drv.Common
import D2V.Model.Path
open Lean D2V.Drv D2V.Path

/-- C34 driver.
    `path` lines: Go's filepath.Clean/Ext/Dir/Base/Join/Rel vs the model.
    `tree` lines: one real CLI run on a board tree inside a sandbox.
      model vs implementation: the files the model's event list (RemoveAll / write, in order) leaves behind = the files
        the CLI left behind (created ∪ changed, deleted);
      Spec on the implementation (the property): nothing outside the output location was created, changed or deleted,
        and the number of files written equals the number of boards that are not folder-only. -/

def optStr (j : Json) (k : String) : Option String :=
  match j.getObjVal? k with
  | .ok (.str s) => some s
  | _ => none

partial def parseBoard (j : Json) : Except String Board := do
  let name ← getStr j "name"
  let fo ← getBool j "folderOnly"
  let sub (k : String) : Except String (List Board) := do
    let a ← getArr j k
    a.toList.mapM parseBoard
  return .mk name.toList fo (← sub "layers") (← sub "scenarios") (← sub "steps")

def strs (j : Json) (k : String) : Except String (List String) := do
  let a ← getArr j k
  a.toList.mapM fun x => match x with
    | .str s => pure s
    | _ => throw s!"{k}: not a string"

def sortStrs (l : List String) : List String := (l.toArray.qsort (· < ·)).toList

def dedup (l : List String) : List String := l.foldl (fun acc x => if acc.contains x then acc else acc ++ [x]) []

partial def boardNames : Board → List Str
  | .mk n _ ls ss st => n :: ((ls ++ ss ++ st).flatMap boardNames)

/-- some board name has a `..` element -/
def hasDotDotName (b : Board) : Bool := (boardNames b).any fun n => (splitSlash n).contains dotdot

/-- why do the model's writes not give one surviving file per board?  (used only to label the violation) -/
def shareCause (out : Str) (b : Board) (evs : List Ev) : String :=
  let ws := writesOf evs
  let e := ext out
  let dupIndex := ws.any fun w => ws.count w > 1 && (lastElemRev w).reverse == sIndex ++ e
  let rec removedLater : List Ev → Bool
    | [] => false
    | .write w :: r => (removesOf r).any (fun d => underOrEq d w) || removedLater r
    | _ :: r => removedLater r
  let unclean := (boardNames b).drop 1 |>.any fun n => n.isEmpty || n.contains '/' || n == dot || n == dotdot
  if unclean then "/unclean-name"
  else if dupIndex && (boardNames b).contains sIndex then "/index-name"
  else if removedLater evs && (boardNames b).any (fun n => e.isSuffixOf n) then "/ext-named-dir"
  else ""

def handlePath (i o : Json) : Except String Verdict := do
  let a := (← getStr i "a").toList
  let b := (← getStr i "b").toList
  let c := (← getStr i "c").toList
  let chk (name : String) (model : Str) : Except String (Option String) := do
    let g ← getStr o name
    if String.ofList model != g then return some s!"{name}: model {String.ofList model} vs go {g} on a={String.ofList a} b={String.ofList b} c={String.ofList c}"
    return none
  for (n, m) in [("clean", clean a), ("ext", ext a), ("dir", dir a), ("base", base a), ("join2", join [a, b]), ("join3", join [a, b, c])] do
    if let some d ← chk n m then return .mismatch s!"path-{n}" d
  let goRel := optStr o "rel"
  let mRel := (rel a b).map String.ofList
  if goRel != mRel then return .mismatch "path-rel" s!"rel: model {mRel} vs go {goRel} on a={String.ofList a} b={String.ofList b}"
  return .ok

def handleTree (i o : Json) : Except String Verdict := do
  if (o.getObjValAs? Bool "compileErr").toOption == some true then return .ok
  let out := (← getStr i "out").toList
  let tree ← parseBoard (← getObj o "tree")
  let cliErr ← getStr o "cliErr"
  let files ← strs o "files"
  let created ← strs o "created"
  let changed ← strs o "changed"
  let deleted ← strs o "deleted"
  let createdDirs ← strs o "createdDirs"
  let evs := renderB out tree
  let loc := stripExt out
  -- the property on what the CLI did --------------------------------------------------------------------
  let inside (p : String) : Bool := p.toList == out || underOrEq loc p.toList
  let outside := (created ++ changed ++ deleted ++ createdDirs).filter (fun p => !inside p)
  if !outside.isEmpty then
    let what (l : List String) := l.filter (fun p => !inside p)
    return .specfalse (if hasDotDotName tree then "outside-output-location/dotdot-name" else "outside-output-location")
      s!"output {String.ofList out}: created {what (created ++ createdDirs)} changed {what changed} deleted {what deleted} outside {String.ofList loc}/"
  if cliErr != "" then
    -- the CLI refused or failed: nothing outside was touched (checked above); nothing more to compare
    return .ok
  let nBoards := countBoards tree
  let written := (created ++ changed).filter inside
  if written.length != nBoards then
    return .specfalse ("boards-share-file" ++ shareCause out tree evs)
      s!"{nBoards} boards to write but {written.length} files written: {written}; model writes {(writesOf evs).map String.ofList}"
  -- model vs implementation --------------------------------------------------------------------------------
  let final := (applyEvs (files.map String.toList) evs).map String.ofList
  let mCreated := sortStrs (final.filter fun f => !files.contains f)
  let mDeleted := sortStrs (files.filter fun f => !final.contains f)
  let mWritten := sortStrs (dedup ((writesOf evs).map String.ofList) |>.filter fun f => final.contains f)
  let delFiles := sortStrs (deleted.filter fun f => files.contains f)
  if mCreated != sortStrs created then
    return .mismatch "created" s!"model creates {mCreated}, CLI created {created}"
  if mDeleted != delFiles then
    return .mismatch "deleted" s!"model deletes {mDeleted}, CLI deleted {delFiles}"
  if mWritten != sortStrs (created ++ changed) then
    return .mismatch "written" s!"model writes {mWritten}, CLI wrote {sortStrs (created ++ changed)}"
  return .ok

def handleC34 (j : Json) : Except String Verdict := do
  let k ← getStr j "k"
  let i ← getObj j "in"
  let o ← getObj j "out"
  match k with
  | "path" => handlePath i o
  | "tree" => handleTree i o
  | _ => return .bad s!"unknown kind {k}"

def main : IO Unit := runDriver handleC34
