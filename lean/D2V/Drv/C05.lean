import D2V.Drv.Common
import D2V.Model.Quote
open Lean D2V.Drv D2V.Quote D2V.Gen.Quote

/-!
  C05 driver.

  `str` / `bytes`  Spec-on-impl: the key text parses back (ParseKey and as a whole file) to exactly one segment
                   equal to `s`; the value text parses back (ParseValue and as `k: <text>`) to a scalar whose
                   string is `s` and which is not a null / suspension, and a boolean only when `s` is
                   literally true/false.  Model-vs-impl: quoting kind, formatted text, and the model parser
                   run on the implementation's text.
  `pkey` / `pval`  model parser vs d2parser on arbitrary text.
  `oracle`         Spec-on-impl: a label written with d2oracle.Set
                   on a shape and on a connection reads back equal to `s` from the recompiled graph.
  `unitab`         the Unicode facts behind `isSpace`, `lowerChar`, `foldKey`.
  `fixflags`       the closed Boolean hypotheses of the full theorems (`keyFixApplied`, `valueFixApplied`).
-/

namespace D2V.Drv.C05

def strOfNats (ns : List Nat) : Str := ns.map Char.ofNat

def getS (j : Json) (k : String) : Except String Str := do
  return strOfNats (← getNats j k)

def show' (s : Str) : String :=
  let t := String.ofList (s.take 60)
  (repr t).pretty ++ (if s.length > 60 then s!"…(+{s.length - 60})" else "")

/-- one line, bounded -/
def clean (d : String) : String :=
  String.ofList ((d.toList.map fun c => if c == '\n' || c == '\r' then '⏎' else c).take 600)

/-- which known fold hazard a string falls into (independent of the tree under test) -/
def hazardClass (s : Str) : String :=
  if equalFold s "null" && s != "null".toList then "null-fold"
  else if (equalFold s "suspend" && s != "suspend".toList) || (equalFold s "unsuspend" && s != "unsuspend".toList) then "suspend-fold"
  else if (equalFold s "true" && s != "true".toList) || (equalFold s "false" && s != "false".toList) then "bool-fold"
  else if kwCase s then "keyword-case"
  else "none"

def sameFold (a b : Str) : Bool := a.map foldKey == b.map foldKey || lowerStr a == lowerStr b

structure SegObs where
  kind : String
  val : Str
  subst : Bool

def getSeg (j : Json) : Except String SegObs := do
  let kind ← getStr j "kind"
  let val ← getS j "val"
  let subst := (getBool j "subst").toOption.getD false
  return { kind, val, subst }

def getPath (j : Json) : Except String (List SegObs) := do
  let a ← getArr j "path"
  a.toList.mapM getSeg

def quotingOfName (s : String) : Option Quoting :=
  match s with
  | "unq" => some .unq | "dq" => some .dq | "sq" => some .sq | _ => none

/-- model ParseKey on `text` against the observation `o` of d2parser.ParseKey -/
def cmpParseKey (text : Str) (o : Json) : Except String (Option (String × String)) := do
  let res ← getStr o "res"
  let m := parseKey text
  match m with
  | .unsupported => return none
  | .empty => if res == "empty" then return none else return some ("parsekey", s!"model: empty key, go: {res} on {show' text}")
  | .err => if res == "err" then return none else return some ("parsekey", s!"model: error, go: {res} on {show' text}")
  | .ok path _ =>
    if res != "ok" then return some ("parsekey", s!"model: ok {path.map (fun g => show' g.val)}, go: {res} {(getStr o "msg").toOption.getD ""} on {show' text}")
    let gp ← getPath o
    if gp.any (·.subst) then return some ("parsekey", s!"go found a substitution, model did not, on {show' text}")
    let ok := gp.length == path.length && (gp.zip path).all fun (g, p) => g.val == p.val && some p.kind == quotingOfName g.kind
    if ok then return none
    return some ("parsekey", s!"model {path.map (fun g => (g.kind.name, show' g.val))} vs go {gp.map (fun g => (g.kind, show' g.val))} on {show' text}")

def cmpParseValue (text : Str) (o : Json) : Except String (Option (String × String)) := do
  let res ← getStr o "res"
  match parseValue isNumeral text with
  | .unsupported => return none
  | .empty => if res == "empty" then return none else return some ("parsevalue", s!"model: empty value, go: {res} on {show' text}")
  | .err => if res == "err" then return none else return some ("parsevalue", s!"model: error, go: {res} on {show' text}")
  | .ok k sc _ =>
    if res != "ok" then return some ("parsevalue", s!"model: ok {k.name} {show' sc}, go: {res} {(getStr o "msg").toOption.getD ""} on {show' text}")
    let gk ← getStr o "kind"
    if (getBool o "subst").toOption.getD false then return some ("parsevalue", s!"go found a substitution, model did not, on {show' text}")
    let gsc := (getS o "scalar").toOption.getD []
    if gk == k.name && gsc == sc then return none
    return some ("parsevalue", s!"model {k.name} {show' sc} vs go {gk} {show' gsc} on {show' text}")

/-- Spec of the key clause on one observation of ParseKey / whole-file parse -/
def keySpec (pfx : String) (s : Str) (o : Json) (isFile : Bool) : Except String (Option (String × String)) := do
  let res ← getStr o "res"
  let cls := hazardClass s
  if res != "ok" then
    return some (s!"{pfx}-error", s!"class={cls} s={show' s}: {res} {(getStr o "msg").toOption.getD ""}")
  if isFile then
    let nodes ← getNat o "nodes"
    let plain := (getBool o "plain").toOption.getD false
    if nodes != 1 || !plain then
      return some (s!"{pfx}-shape", s!"class={cls} s={show' s}: the text is not one plain key (nodes={nodes})")
  let gp ← getPath o
  match gp with
  | [g] =>
    if g.subst then return some (s!"{pfx}-subst", s!"class={cls} s={show' s}: read back with a substitution")
    if g.val == s then return none
    if sameFold g.val s then return some (s!"{pfx}-case", s!"class={cls} s={show' s} read back as {show' g.val}")
    return some (s!"{pfx}-value", s!"class={cls} s={show' s} read back as {show' g.val}")
  | _ => return some (s!"{pfx}-segments", s!"class={cls} s={show' s}: read back as {gp.length} segments {gp.map (fun g => show' g.val)}")

def keyTooLong (s : Str) (o : Json) : Except String (Option (String × String)) := do
  let res ← getStr o "res"
  if res == "err" then return none
  return some ("key-limit", s!"a {utf8LenStr s}-byte key was accepted: {res}")

def valSpec (pfx : String) (s : Str) (o : Json) (isFile : Bool) : Except String (Option (String × String)) := do
  let res ← getStr o "res"
  let cls := hazardClass s
  if res != "ok" then
    return some (s!"{pfx}-error", s!"class={cls} s={show' s}: {res} {(getStr o "msg").toOption.getD ""}")
  if isFile then
    let nodes ← getNat o "nodes"
    let plain := (getBool o "plain").toOption.getD false
    if nodes != 1 || !plain then
      return some (s!"{pfx}-shape", s!"class={cls} s={show' s}: `k: <text>` is not one key with one scalar (nodes={nodes})")
  let kind := (getStr o "kind").toOption.getD "none"
  if kind == "null" then return some (s!"{pfx}-null", s!"class={cls} s={show' s} read back as null")
  if kind == "suspend" || kind == "unsuspend" then return some (s!"{pfx}-suspension", s!"class={cls} s={show' s} read back as {kind}")
  if !(["unq", "dq", "sq", "number", "boolean"].contains kind) then
    return some (s!"{pfx}-kind", s!"class={cls} s={show' s} read back as a {kind}")
  if (getBool o "subst").toOption.getD false then return some (s!"{pfx}-subst", s!"class={cls} s={show' s}: read back with a substitution")
  let sc ← getS o "scalar"
  if sc == s then return none
  if kind == "boolean" then return some (s!"{pfx}-boolean", s!"class={cls} s={show' s} read back as boolean {show' sc}")
  if sameFold sc s then return some (s!"{pfx}-case", s!"class={cls} s={show' s} read back as {show' sc}")
  return some (s!"{pfx}-value", s!"class={cls} s={show' s} read back as {kind} {show' sc}")

def firstSome (xs : List (Except String (Option (String × String)))) : Except String (Option (String × String)) := do
  for x in xs do
    match ← x with
    | some v => return some v
    | none => pure ()
  return none

def handleStr (j : Json) (specToo : Bool) : Except String Verdict := do
  let i ← getObj j "in"
  let o ← getObj j "out"
  let s ← getS i "s"
  let key ← getObj o "key"
  let val ← getObj o "val"
  -- Spec on the implementation
  -- ParseKey refuses segments longer than 518 bytes: part of the statement, not a failure of quoting
  let tooLong := utf8LenStr s > maxKeyLen
  let kparse ← getObj key "parse"
  let kfile ← getObj key "file"
  let spec ← firstSome [
    (if tooLong then keyTooLong s kparse else keySpec "key" s kparse false),
    (if tooLong then pure none else keySpec "file-key" s kfile true),
    valSpec "val" s (← getObj val "parse") false,
    valSpec "file-val" s (← getObj val "file") true]
  if specToo then
    if let some (sig, d) := spec then return .specfalse sig (clean d)
  -- model vs implementation
  let kq ← getStr key "q"
  let kt ← getS key "text"
  let mq := rawString s true
  if mq.name != kq then return .mismatch "rawstring-key" s!"model {mq.name} vs go {kq} for {show' s}"
  let mt := fmtKey s
  if mt != kt then return .mismatch "format-key" s!"model {show' mt} vs go {show' kt} for {show' s}"
  let vq ← getStr val "q"
  let vt ← getS val "text"
  let mvq := rawString s false
  if mvq.name != vq then return .mismatch "rawstring-value" s!"model {mvq.name} vs go {vq} for {show' s}"
  let mvt := fmtValue s
  if mvt != vt then return .mismatch "format-value" s!"model {show' mvt} vs go {show' vt} for {show' s}"
  if let some (sig, d) ← cmpParseKey kt (← getObj key "parse") then return .mismatch sig (clean d)
  if let some (sig, d) ← cmpParseValue vt (← getObj val "parse") then return .mismatch sig (clean d)
  return .ok

def oracleSpec (name : String) (s : Str) (o : Json) : Except String (Option (String × String)) := do
  let res ← getStr o "res"
  let cls := hazardClass s
  if res != "ok" then
    let txt := (getS o "text").toOption.map show' |>.getD ""
    return some (s!"oracle-{name}-{res}", s!"class={cls} s={show' s}: {(getStr o "msg").toOption.getD ""} {txt}")
  let got ← getS o "got"
  if got == s then return none
  let txt := (getS o "text").toOption.map show' |>.getD ""
  if sameFold got s then return some (s!"oracle-{name}-case", s!"class={cls} s={show' s} read back as {show' got} from {txt}")
  return some (s!"oracle-{name}-value", s!"class={cls} s={show' s} read back as {show' got} from {txt}")

def handleOracle (j : Json) : Except String Verdict := do
  let i ← getObj j "in"
  let o ← getObj j "out"
  let s ← getS i "s"
  let spec ← firstSome [
    oracleSpec "label" s (← getObj o "label"),
    oracleSpec "elabel" s (← getObj o "elabel")]
  if let some (sig, d) := spec then return .specfalse sig (clean d)
  return .ok

def pairs : List Nat → List (Nat × Nat)
  | a :: b :: rest => (a, b) :: pairs rest
  | _ => []

/-- every scalar value: 0 … 0x10FFFF without the surrogates -/
def allScalars : List Nat := (List.range 0xD800) ++ (List.range (0x110000 - 0xE000)).map (· + 0xE000)

def handleUnitab (j : Json) : Except String Verdict := do
  let o ← getObj j "out"
  let lower := pairs (← getNats o "lowerToASCII")
  let fold := pairs (← getNats o "foldToASCII")
  let spaces ← getNats o "spaces"
  let mLower := allScalars.filterMap fun n =>
    let c := Char.ofNat n
    if n ≥ 0x80 && (lowerChar c).toNat < 0x80 then some (n, (lowerChar c).toNat) else none
  let mFold := allScalars.filterMap fun n =>
    let c := Char.ofNat n
    if n ≥ 0x80 && (foldKey c).toNat < 0x80 then some (n, (foldKey c).toNat) else none
  let mSpaces := allScalars.filter fun n => isSpace (Char.ofNat n)
  if mLower != lower then return .mismatch "unitab-lower" s!"model {mLower} vs go {lower}"
  if mFold != fold then return .mismatch "unitab-fold" s!"model {mFold} vs go {fold}"
  if mSpaces != spaces then return .mismatch "unitab-space" s!"model {mSpaces} vs go {spaces}"
  let lowBad ← getNats o "lowOkViolations"
  if !lowBad.isEmpty then return .mismatch "unitab-lowok" s!"unicode.ToLower violates LowOk (C06 absID_injective_ci) on runes {lowBad.take 10}"
  let samples ← getArr o "samples"
  for smp in samples do
    let s ← getS smp "s"
    let lo ← getS smp "lower"
    -- the model's lower-casing only claims exactness when the result is ASCII
    if lo.all (fun c => c.toNat < 0x80) && lowerStr s != lo then
      return .mismatch "unitab-tolower" s!"lowerStr {show' s} = {show' (lowerStr s)} vs go {show' lo}"
    if !(lo.all (fun c => c.toNat < 0x80)) && (lowerStr s).all (fun c => c.toNat < 0x80) then
      return .mismatch "unitab-tolower" s!"lowerStr {show' s} is ASCII but go's is not"
    for w in ["null", "suspend", "false"] do
      let g ← getBool smp s!"fold{w}"
      if equalFold s w != g then return .mismatch "unitab-equalfold" s!"equalFold {show' s} {w}"
  return .ok

def handle (j : Json) : Except String Verdict := do
  let k ← getStr j "k"
  match k with
  | "str" | "bytes" => handleStr j true
  | "strm" => handleStr j false
  | "pkey" =>
    let t ← getS (← getObj j "in") "t"
    if parseKey t == .unsupported then return .skip "outside-the-parser-model"
    match ← cmpParseKey t (← getObj j "out") with
    | some (sig, d) => return .mismatch sig (clean d)
    | none => return .ok
  | "pval" =>
    let t ← getS (← getObj j "in") "t"
    if parseValue isNumeral t == .unsupported then return .skip "outside-the-parser-model"
    match ← cmpParseValue t (← getObj j "out") with
    | some (sig, d) => return .mismatch sig (clean d)
    | none => return .ok
  | "oracle" => handleOracle j
  | "fixflags" =>
    -- the hypotheses of the full theorems C05_key_roundtrip / C05_value_roundtrip, evaluated on the regenerated tables
    let part ← getStr (← getObj j "in") "part"
    if part == "key" && !keyFixApplied then
      return .specfalse "fix-missing-key" "class=fix-flag keyFixApplied is false: RawString does not quote keys that match a reserved keyword only case-insensitively, or escapeUnquotedValue rewrites a null key (witnesses: Label, NULL)"
    if part == "value" && !valueFixApplied then
      return .specfalse "fix-missing-value" "class=fix-flag valueFixApplied is false: RawString leaves case variants of null/true/false/suspend/unsuspend unquoted, or the printer lower-cases values (witnesses: NULL, TRUE, Suspend, Label)"
    return .ok
  | "unitab" => handleUnitab j
  | _ => return .bad s!"unknown kind {k}"

end D2V.Drv.C05

def main : IO Unit := runDriver D2V.Drv.C05.handle
