import D2V.Drv.Common
import D2V.Model.Canvas
import D2V.Gen.AsciiCharset
open Lean D2V.Drv D2V.Canvas

/-! Driver of C32: the property's own predicate on the real renderer's output —
    (1) both renders return (no panic, no error);
    (2) standard character set: every character ≥ 128 of the output occurs in one of the diagram's own texts;
    (3) every non-empty single-line label of a plain shape occurs in the output (both character sets).
    The regenerated glyph table is also cross-checked: in the standard set no glyph outside it and the labels appears
    on a board without texts. -/

def plainShapes : List String :=
  ["rectangle", "square", "page", "parallelogram", "document", "cylinder", "queue", "package", "step", "callout",
   "stored_data", "person", "diamond", "oval", "circle", "hexagon", "cloud", "c4-person"]

def decodeOut (j : Json) : Except String (String × Option String) := do
  let outcome ← getStr j "outcome"
  let bytes ← getBytes j "hex"
  pure (outcome, String.fromUTF8? ⟨bytes.toArray⟩)

def hex4 (n : Nat) : String :=
  let ds := (Nat.toDigits 16 n).map Char.toUpper
  String.ofList (List.replicate (4 - ds.length) '0' ++ ds)

def handleBoard (i o : Json) : Except String Verdict := do
  let board ← getStr i "board"
  let engine ← getStr i "engine"
  let profile := match i.getObjValAs? String "profile" with | .ok p => p | .error _ => "general"
  let (ao, atxt) ← decodeOut (← getObj o "ascii")
  let (uo, utxt) ← decodeOut (← getObj o "unicode")
  let texts ← (← getArr o "texts").toList.mapM fun x => x.getStr?
  let shapes ← (← getArr o "shapes").toList.mapM fun s => do
    pure (← getStr s "id", ← getStr s "type", ← getStr s "label", ← getStr s "pos", ← getBool s "container")
  let nconn ← getNat o "nconn"
  let ctx := s!"board={board} engine={engine}"
  -- (1) total
  if ao != "ok" then return .specfalse "render-failed:standard" s!"{ctx}: {ao}"
  if uo != "ok" then return .specfalse "render-failed:extended" s!"{ctx}: {uo}"
  let some a := atxt | return .specfalse "invalid-utf8:standard" s!"{ctx}: output is not valid UTF-8"
  let some u := utxt | return .specfalse "invalid-utf8:extended" s!"{ctx}: output is not valid UTF-8"
  -- (2) 7-bit outside labels
  let textChars : List Char := texts.flatMap String.toList
  for ch in a.toList do
    if ch.toNat ≥ 128 && !textChars.contains ch then
      let docs := shapes.filter fun s => s.2.1 == "document"
      return .specfalse s!"non-ascii-glyph:U+{hex4 ch.toNat}" s!"{ctx}: standard character set output contains '{ch}' (U+{hex4 ch.toNat}) which is in none of the diagram's texts; document shapes on the board: {docs.length}"
  -- glyph table cross-check (model vs implementation): non-text characters of the standard output are table glyphs,
  -- the literals of the drawing code, or a space / newline
  let tableChars : List Char := (D2V.Gen.AsciiCharset.asciiGlyphs.flatMap fun g => g.2.toList) ++
    (D2V.Gen.AsciiCharset.canvasLiterals.flatMap fun l => l.2.2.toList) ++ [' ', '\n']
  for ch in a.toList do
    if ch.toNat < 128 && !textChars.contains ch && !tableChars.contains ch then
      return .mismatch s!"glyph-not-in-table:U+{hex4 ch.toNat}" s!"{ctx}: '{ch}' is neither in a text of the diagram nor in the regenerated ASCII table / literals"
  -- (3) labels visible
  -- the signature names the circumstances (character class of the label, leaf / container, label position group,
  -- whether the board has connections), so that each known defect of the renderer is matched on its own and a label
  -- lost in other circumstances is still reported
  for (id, ty, label, pos, container) in shapes do
    if plainShapes.contains ty && label != "" && !label.contains '\n' then
      let multibyte := label.toList.any fun c => c.toNat ≥ 128
      let kind := if multibyte then "multibyte" else "ascii"
      let who := if container then "container" else "leaf"
      let grp :=
        if pos.startsWith "OUTSIDE_LEFT" || pos.startsWith "OUTSIDE_RIGHT" then "outside-side"
        else if pos.startsWith "BORDER_" then "border"
        else if (!container && pos == "INSIDE_MIDDLE_CENTER") || (container && (pos == "OUTSIDE_TOP_CENTER" || pos == "INSIDE_TOP_CENTER")) then "default"
        else "other"
      let conn := (if nconn == 0 then "noconn" else "conn") ++ ":" ++ profile
      if !isInfix label.toList a.toList then
        return .specfalse s!"label-missing:standard:{kind}:{who}:{grp}:{conn}" s!"{ctx}: label \"{label}\" ({pos}) of {ty} {id} does not occur in the standard output"
      if !isInfix label.toList u.toList then
        return .specfalse s!"label-missing:extended:{kind}:{who}:{grp}:{conn}" s!"{ctx}: label \"{label}\" ({pos}) of {ty} {id} does not occur in the extended output"
  return .ok

def handleC32 (j : Json) : Except String Verdict := do
  let k ← getStr j "k"
  let i ← getObj j "in"
  let o ← getObj j "out"
  match k with
  | "board" => handleBoard i o
  | _ => throw s!"unknown kind {k}"

/-- a verdict is one line: user-derived text (error messages, labels) may carry line breaks -/
def oneLine (s : String) : String := s.map fun c => if c == '\n' || c == '\r' then ' ' else c

def cleanVerdict : Verdict → Verdict
  | .mismatch s d => .mismatch (oneLine s) (oneLine d)
  | .specfalse s d => .specfalse (oneLine s) (oneLine d)
  | .bad w => .bad (oneLine w)
  | v => v

def main : IO Unit := runDriver fun j =>
  match handleC32 j with
  | .ok v => .ok (cleanVerdict v)
  | .error e => .error (oneLine e)
