import D2V.Drv.Common
import D2V.Model.Canvas
import D2V.Gen.AsciiCharset
open Lean D2V.Drv D2V.Canvas

/-! Driver of C32: the property's own predicate on the real renderer's output —
    (1) every render returns (no panic, no error);
    (2) standard character set: every character ≥ 128 of the output occurs in one of the diagram's own texts;
    (3) every non-empty single-line label of a plain shape occurs in the output (both character sets).
    The three clauses are evaluated on the renders of fresh artists and on the renders of ONE artist reused across
    the two character sets (in both orders).  The regenerated glyph table is also cross-checked: in the standard set
    no 7-bit character outside the table, the literals of the drawing code and the diagram's texts appears. -/

def plainShapes : List String :=
  ["rectangle", "square", "page", "parallelogram", "document", "cylinder", "queue", "package", "step", "callout",
   "stored_data", "person", "diamond", "oval", "circle", "hexagon", "cloud", "c4-person"]

def decodeOut (j : Json) : Except String (String × Option String) := do
  let outcome ← getStr j "outcome"
  let bytes ← getBytes j "hex"
  pure (outcome, String.fromUTF8? ⟨bytes.toArray⟩)

/-- the render of a reused artist: `none` when it is byte-identical to the fresh artist's -/
def decodeReused (o : Json) (k : String) : Except String (Option (String × Option String)) :=
  match o.getObjVal? k with
  | .error _ => pure none
  | .ok j => do
    if (← getBool j "same") then pure none else
    let r ← decodeOut j
    pure (some r)

def hex4 (n : Nat) : String :=
  let ds := (Nat.toDigits 16 n).map Char.toUpper
  String.ofList (List.replicate (4 - ds.length) '0' ++ ds)

structure ShapeInfo where
  id : String
  type : String
  label : String
  pos : String
  container : Bool

/-- clauses (1)–(3) on one pair of renders; `how` is "" for fresh artists and ":reused-artist" for the reused one -/
def checkRenders (ctx profile how : String) (nconn : Nat) (texts : List String) (shapes : List ShapeInfo)
    (ar ur : String × Option String) : Option Verdict := Id.run do
  let (ao, atxt) := ar
  let (uo, utxt) := ur
  -- (1) total
  if ao != "ok" then return some (.specfalse s!"render-failed:standard{how}" s!"{ctx}: {ao}")
  if uo != "ok" then return some (.specfalse s!"render-failed:extended{how}" s!"{ctx}: {uo}")
  let some a := atxt | return some (.specfalse s!"invalid-utf8:standard{how}" s!"{ctx}: output is not valid UTF-8")
  let some u := utxt | return some (.specfalse s!"invalid-utf8:extended{how}" s!"{ctx}: output is not valid UTF-8")
  -- (2) 7-bit outside labels
  let textChars : List Char := texts.flatMap String.toList
  for ch in a.toList do
    if ch.toNat ≥ 128 && !textChars.contains ch then
      let docs := shapes.filter fun s => s.type == "document"
      return some (.specfalse s!"non-ascii-glyph:U+{hex4 ch.toNat}{how}" s!"{ctx}: standard character set output{how} contains '{ch}' (U+{hex4 ch.toNat}) which is in none of the diagram's texts; document shapes on the board: {docs.length}")
  -- glyph table cross-check (model vs implementation): non-text characters of the standard output are table glyphs,
  -- the literals of the drawing code, or a space / newline
  let tableChars : List Char := (D2V.Gen.AsciiCharset.asciiGlyphs.flatMap fun g => g.2.toList) ++
    (D2V.Gen.AsciiCharset.canvasLiterals.flatMap fun l => l.2.2.toList) ++ [' ', '\n']
  for ch in a.toList do
    if ch.toNat < 128 && !textChars.contains ch && !tableChars.contains ch then
      return some (.mismatch s!"glyph-not-in-table:U+{hex4 ch.toNat}{how}" s!"{ctx}: '{ch}' is neither in a text of the diagram nor in the regenerated ASCII table / literals")
  -- (3) labels visible
  -- the signature names the circumstances (character class of the label, leaf / container, label position group,
  -- whether the board has connections, generator profile), so that each known defect of the renderer is matched on
  -- its own and a label lost in other circumstances is still reported
  for s in shapes do
    if plainShapes.contains s.type && s.label != "" && !s.label.contains '\n' then
      let multibyte := s.label.toList.any fun c => c.toNat ≥ 128
      let kind := if multibyte then "multibyte" else "ascii"
      let who := if s.container then "container" else "leaf"
      let grp :=
        if s.pos.startsWith "OUTSIDE_LEFT" || s.pos.startsWith "OUTSIDE_RIGHT" then "outside-side"
        else if s.pos.startsWith "BORDER_" then "border"
        else if (!s.container && s.pos == "INSIDE_MIDDLE_CENTER") || (s.container && (s.pos == "OUTSIDE_TOP_CENTER" || s.pos == "INSIDE_TOP_CENTER")) then "default"
        else "other"
      let conn := (if nconn == 0 then "noconn" else "conn") ++ ":" ++ profile
      if !isInfix s.label.toList a.toList then
        return some (.specfalse s!"label-missing:standard:{kind}:{who}:{grp}:{conn}{how}" s!"{ctx}: label \"{s.label}\" ({s.pos}) of {s.type} {s.id} does not occur in the standard output{how}")
      if !isInfix s.label.toList u.toList then
        return some (.specfalse s!"label-missing:extended:{kind}:{who}:{grp}:{conn}{how}" s!"{ctx}: label \"{s.label}\" ({s.pos}) of {s.type} {s.id} does not occur in the extended output{how}")
  return none

def handleBoard (i o : Json) : Except String Verdict := do
  let board ← getStr i "board"
  let engine ← getStr i "engine"
  let profile := match i.getObjValAs? String "profile" with | .ok p => p | .error _ => "general"
  let ar ← decodeOut (← getObj o "ascii")
  let ur ← decodeOut (← getObj o "unicode")
  let ar2 ← decodeReused o "asciiReused"
  let ur2 ← decodeReused o "unicodeReused"
  let texts ← (← getArr o "texts").toList.mapM fun x => x.getStr?
  let shapes ← (← getArr o "shapes").toList.mapM fun s => do
    pure ({ id := ← getStr s "id", type := ← getStr s "type", label := ← getStr s "label", pos := ← getStr s "pos",
            container := ← getBool s "container" } : ShapeInfo)
  let nconn ← getNat o "nconn"
  let ctx := s!"board={board} engine={engine}"
  match checkRenders ctx profile "" nconn texts shapes ar ur with
  | some v => return v
  | none => pure ()
  -- one artist reused across the character sets (Unicode then ASCII for the standard render, ASCII then Unicode for
  -- the extended one): the same clauses; a render identical to the fresh artist's needs no second look
  if ar2.isSome || ur2.isSome then
    match checkRenders ctx profile ":reused-artist" nconn texts shapes (ar2.getD ar) (ur2.getD ur) with
    | some v => return v
    | none =>
      -- the clauses hold, but the artist's second render differs from a fresh artist's: state carried over
      return .mismatch "reused-artist-differs" s!"{ctx}: a render by an artist that rendered the other character set before differs from a fresh artist's render (standard differs: {ar2.isSome}, extended differs: {ur2.isSome})"
  return .ok

def handleC32 (j : Json) : Except String Verdict := do
  let k ← getStr j "k"
  let i ← getObj j "in"
  let o ← getObj j "out"
  match k with
  | "board" => handleBoard i o
  | _ => throw s!"unknown kind {k}"

/-- a verdict is one line: user-derived text (error messages, labels) may carry line breaks -/
def oneLine (s : String) : String := s.map fun c => if c == '\n' || c == '\r' then ' ' else c

def cleanVerdict : Verdict → Verdict
  | .mismatch s d => .mismatch (oneLine s) (oneLine d)
  | .specfalse s d => .specfalse (oneLine s) (oneLine d)
  | .bad w => .bad (oneLine w)
  | v => v

def main : IO Unit := runDriver fun j =>
  match handleC32 j with
  | .ok v => .ok (cleanVerdict v)
  | .error e => .error (oneLine e)
