/-
  Shared by the C01 and C02 drivers: decode one harness case, run the parser model on the same bytes, turn both
  trees into `T`/`Json`, compare, and evaluate the C02 Spec on what the implementation returned.
-/
import D2V.Drv.Common
import D2V.Model.Parser
import D2V.Model.RangeSpec
import D2V.Gen.ParserSites
open Lean D2V.Drv

namespace D2V.Text

def cfgFromSource : Cfg :=
  ⟨D2V.Gen.ParserSites.patReset, D2V.Gen.ParserSites.arrayEndPos, D2V.Gen.ParserSites.valueSubstGuard⟩

def rangeStr (r : Range) : String := showRange r

partial def T.toJson (withRanges : Bool) : T → Json
  | .null => .null
  | .bool b => .bool b
  | .str s => .str s
  | .bytes b => Json.mkObj [("x", .str (hex b))]
  | .arr xs => .arr (xs.map (T.toJson withRanges)).toArray
  | .obj fs => Json.mkObj (fs.map fun (k, v) => (k, T.toJson withRanges v))
  | .node kind r fs =>
    Json.mkObj ((("t", Json.str kind) :: (if withRanges then [("r", Json.str (rangeStr r))] else []))
      ++ fs.map fun (k, v) => (k, T.toJson withRanges v))

partial def stripRanges : Json → Json
  | .arr xs => .arr (xs.map stripRanges)
  | .obj kvs => Json.mkObj ((kvs.foldl (fun acc k v => if k == "r" then acc else (k, stripRanges v) :: acc) []))
  | j => j

partial def normNumberMsg : Json → Json
  | .arr xs => .arr (xs.map normNumberMsg)
  | .obj kvs => Json.mkObj (kvs.foldl (fun acc k v => (k, normNumberMsg v) :: acc) [])
  | .str s => if s == "unexpected text after number" then .str "unexpected text after unquoted string" else .str s
  | j => j

def parseIntS (s : String) : Option Int := parseIntStr s

def parsePosS (s : String) : Option Pos :=
  match s.splitOn ":" with
  | [a, b, c] => do
    let l ← parseIntS a
    let co ← parseIntS b
    let by_ ← parseIntS c
    pure ⟨l, co, by_⟩
  | _ => none

/-- "l:c:b-l:c:b" (a component may be negative: split on the '-' that follows a digit and precedes the end part) -/
def parseRangeS (s : String) : Option Range :=
  let cs := s.toList
  -- find the separator: a '-' at index > 0 whose previous char is a digit
  let rec find : List Char → List Char → Option (List Char × List Char)
    | _, [] => none
    | pre, c :: rest =>
      if c = '-' && (match pre with | p :: _ => p.isDigit | [] => false) then some (pre.reverse, rest)
      else find (c :: pre) rest
  match find [] cs with
  | some (a, b) => do
    let p ← parsePosS (String.ofList a)
    let q ← parsePosS (String.ofList b)
    pure ⟨p, q⟩
  | none => none

/-- the implementation's canonical tree as `T` -/
partial def jsonToT (j : Json) : Except String T :=
  match j with
  | .null => pure .null
  | .bool b => pure (.bool b)
  | .str s => pure (.str s)
  | .num n => pure (.str (toString n.mantissa))
  | .arr xs => do
    let ys ← xs.toList.mapM jsonToT
    pure (.arr ys)
  | .obj kvs => do
    let fields := kvs.foldl (fun acc k v => (k, v) :: acc) ([] : List (String × Json))
    match kvs.get? "x", kvs.get? "t" with
    | some (.str h), none =>
      match unhex h with
      | some b => pure (.bytes b)
      | none => throw "bad hex"
    | _, some (.str kind) =>
      match kvs.get? "r" with
      | some (.str rs) =>
        match parseRangeS rs with
        | some r => do
          let fs ← (fields.filter fun (k, _) => k != "t" && k != "r").mapM fun (k, v) => do
            let t ← jsonToT v
            pure (k, t)
          pure (.node kind r fs)
        | none => throw s!"bad range {rs}"
      | _ => throw "node without range"
    | _, _ => do
      let fs ← fields.mapM fun (k, v) => do
        let t ← jsonToT v
        pure (k, t)
      pure (.obj fs)

def errsToJson (withRanges : Bool) (errs : List PErr) : Json :=
  .arr (errs.map fun e =>
    Json.mkObj ((if withRanges then [("r", Json.str (rangeStr ⟨e.start, e.stop⟩))] else []) ++ [("m", Json.str e.msg)])).toArray

def jsonErrs (j : Json) : Except String (List PErr) := do
  let a ← j.getArr?
  a.toList.mapM fun e => do
    let m ← getStr e "m"
    let rs ← getStr e "r"
    if rs.isEmpty then pure ⟨.zero, .zero, m⟩
    else match parseRangeS rs with
      | some r => pure ⟨r.start, r.stop, m⟩
      | none => throw s!"bad error range {rs}"

/-- first difference between two JSON values, as a path -/
partial def firstDiff (path : String) (a b : Json) : Option String :=
  if a == b then none
  else match a, b with
    | .arr xs, .arr ys =>
      if xs.size != ys.size then some s!"{path}: array length model {xs.size} vs go {ys.size}"
      else (List.range xs.size).findSome? fun i => firstDiff s!"{path}[{i}]" xs[i]! ys[i]!
    | .obj xs, .obj ys =>
      let ks := xs.foldl (fun acc k _ => k :: acc) ([] : List String)
      let ks2 := ys.foldl (fun acc k _ => k :: acc) ([] : List String)
      match ks.find? (fun k => !(ys.contains k)), ks2.find? (fun k => !(xs.contains k)) with
      | some k, _ => some s!"{path}: key {k} only in model"
      | _, some k => some s!"{path}: key {k} only in go"
      | none, none =>
        ks.findSome? fun k => firstDiff s!"{path}.{k}" (xs.get! k) (ys.get! k)
    | _, _ => some s!"{path}: model {(a.compress.take 160)} vs go {(b.compress.take 160)}"

def countNodes : T → Nat
  | .node _ _ fs => 1 + countF fs
  | .arr xs => countL xs
  | .obj fs => countF fs
  | _ => 0
where
  countL : List T → Nat
    | [] => 0
    | x :: xs => countNodes x + countL xs
  countF : List (String × T) → Nat
    | [] => 0
    | (_, x) :: xs => countNodes x + countF xs

structure Case where
  src : List UInt8
  ep : String
  u16 : Bool
  outcome : String
  out : Json

def readCase (j : Json) : Except String Case := do
  let i ← getObj j "in"
  let o ← getObj j "out"
  let src ← getBytes i "src"
  let ep ← getStr i "ep"
  let u16 ← getBool i "u16"
  let outcome ← getStr o "outcome"
  pure ⟨src, ep, u16, outcome, o⟩

def numOracle (o : Json) : String → Bool :=
  let nums : List String := match o.getObjVal? "nums" with
    | .ok (.arr xs) => xs.toList.filterMap fun x => match x with | .str s => some s | _ => none
    | _ => []
  fun s => nums.contains s

def runModel (c : Case) : Except Crash Outcome :=
  let isNum := numOracle c.out
  match c.ep with
  | "file" => parseFile cfgFromSource isNum c.src c.u16
  | "key" => parseKeyEntry cfgFromSource c.src
  | "mapkey" => parseMapKeyEntry cfgFromSource isNum c.src
  | _ => parseValueEntry cfgFromSource isNum c.src

def crashName : Crash → String
  | .subtractNewline => "panic(subtract-newline)"
  | .sliceOOB => "panic(slice-bounds)"
  | .outOfFuel => "out-of-fuel"

/-- model vs implementation: outcome, tree and error list (`withRanges = false` ignores every range) -/
def compareModel (c : Case) (withRanges : Bool) : Verdict :=
  let srcHex := hex (c.src.take 200)
  match runModel c with
  | .error cr =>
    if c.outcome.startsWith "panic" && cr != .outOfFuel then .ok
    else .mismatch "outcome" s!"model {crashName cr} vs go {c.outcome} ep={c.ep} u16={c.u16} src={srcHex}"
  | .ok m =>
    if !m.disciplined then
      .mismatch "reader-discipline" s!"the model read or replayed outside the discipline reader_inv assumes ep={c.ep} src={srcHex}"
    else if c.outcome != "ok" then
      if c.outcome.startsWith "panic" then .mismatch "outcome" s!"model ok vs go {c.outcome} ep={c.ep} src={srcHex}"
      else .ok   -- timeout: reported by the Spec side
    else
      let isWrapper := c.ep != "file"
      -- the number oracle is read off the Number nodes of the returned tree; a number inside a node the parser
      -- dropped (a value after an empty key, anything next to errors in ParseKey/ParseMapKey/ParseValue) is not
      -- there, so the one message that depends on it is compared modulo number/unquoted string
      let strip := fun (j : Json) => normNumberMsg (if withRanges then j else stripRanges j)
      let goErrs := strip ((c.out.getObjVal? "errs").toOption.getD (.arr #[]))
      let mErrs := m.errs
      -- the wrappers return no tree when there were errors, and a single "empty" error for a nil result
      let mErrsJ : Json :=
        if isWrapper && mErrs.isEmpty && m.ast.isNone then .arr #[Json.mkObj ((if withRanges then [("r", Json.str "")] else []) ++ [("m", Json.str "empty")])]
        else errsToJson withRanges mErrs
      match firstDiff "errs" (normNumberMsg mErrsJ) goErrs with
      | some d => .mismatch "errors" s!"{d} ep={c.ep} u16={c.u16} src={srcHex}"
      | none =>
        if isWrapper && !mErrs.isEmpty then .ok
        else
          match c.out.getObjVal? "deep" with
          | .ok (.bool true) =>
            let n := (c.out.getObjValAs? Nat "nodes").toOption.getD 0
            let mn := match m.ast with | some t => countNodes t | none => 0
            if n == mn then .ok else .mismatch "node-count" s!"model {mn} vs go {n} ep={c.ep} src={srcHex}"
          | _ =>
            let goAst := strip ((c.out.getObjVal? "ast").toOption.getD .null)
            let mAst := match m.ast with | some t => T.toJson withRanges t | none => .null
            match firstDiff "ast" mAst goAst with
            | some d => .mismatch "tree" s!"{d} ep={c.ep} u16={c.u16} src={srcHex}"
            | none => .ok

/-- C01's own predicate on the implementation's observation: it terminated, did not panic, and returned a tree
    (or, for the single-node entry points, a node or an error) together with an error list -/
def specTotal (c : Case) : Option (String × String) :=
  let srcHex := hex (c.src.take 300)
  if c.outcome.startsWith "panic" then
    let what := c.outcome.drop 7
    let sig := if what.startsWith "runtime error: slice bounds out of range" then "panic:slice-bounds"
      else if what.startsWith "d2ast: cannot subtract newline" then "panic:subtract-newline"
      else if what.startsWith "runtime error: invalid memory address" then "panic:nil-deref"
      else if what.startsWith "runtime error: index out of range" then "panic:index"
      else "panic:other"
    -- the harness appends " @<innermost d2 function>": part of the signature, so that a finding about one panic
    -- site cannot absorb a panic somewhere else
    let site := match c.outcome.splitOn " @" with
      | [_] => ""
      | parts => "@" ++ (parts.getLast?.getD "")
    some (sig ++ site, s!"{c.outcome} ep={c.ep} u16={c.u16} src={srcHex}")
  else if c.outcome == "timeout" then some ("timeout", s!"no result within the time limit ep={c.ep} src={srcHex}")
  else if c.outcome != "ok" then some ("outcome", c.outcome)
  else match c.out.getObjVal? "tree", c.out.getObjVal? "errs" with
    | .ok (.bool true), .ok (.arr _) => none
    | _, _ => some ("no-tree", s!"no tree / error list returned ep={c.ep} src={srcHex}")

def oneLine (s : String) : String := s.map fun c => if c = '\n' || c = '\r' then ' ' else c

/-- a verdict must stay on one line -/
def sanitize : Verdict → Verdict
  | .mismatch sig d => .mismatch (oneLine sig) (oneLine d)
  | .specfalse sig d => .specfalse (oneLine sig) (oneLine d)
  | .bad w => .bad (oneLine w)
  | v => v

end D2V.Text
