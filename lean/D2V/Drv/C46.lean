import D2V.Drv.Common
import D2V.Model.Bundle
open Lean D2V.Drv D2V.Bundle

/-- C46 driver.  One `bundle` line = one run of the real BundleLocal/BundleRemote under a dictated completion order.
    model-vs-impl: (1) the hrefs that got a worker = `filterImgs (findAll svg)`; (2) the transition system run with the
    same completion order yields the same bytes and the same error list (in order).
    Spec-on-impl (for a well-formed SVG, `svgClean`): the returned bytes are `bundleSpec` — one simultaneous pass that
    replaces exactly the tags of loaded eligible images — whatever the order; the reported hrefs are, as a set,
    exactly the failing eligible ones. -/
structure ImgIn where
  href : Bytes
  mime : Bytes
  data : Bytes
  fail : Bool

def parseImg (j : Json) : Except String ImgIn := do
  return { href := ← getBytes j "href", mime := ← getBytes j "mime", data := ← getBytes j "data", fail := ← getBool j "fail" }

def joinSp : List Bytes → Bytes
  | [] => []
  | [a] => a
  | a :: r => a ++ (32 :: joinSp r)

def splitSp (s : Bytes) : List Bytes :=
  let rec go : Bytes → Bytes → List Bytes
    | [], acc => [acc.reverse]
    | c :: r, acc => if c = 32 then acc.reverse :: go r [] else go r (c :: acc)
  if s.isEmpty then [] else go s []

def sortBytes (l : List Bytes) : List Bytes :=
  (l.toArray.qsort (fun a b => hex a < hex b)).toList

def short (b : Bytes) : String :=
  let s := String.fromUTF8? (ByteArray.mk b.toArray) |>.getD (hex b)
  let s := String.ofList (s.toList.map fun c => if c.toNat < 32 then '~' else c)
  if s.length > 400 then (s.take 400).toString ++ "…" else s

def handleC46 (j : Json) : Except String Verdict := do
  let k ← getStr j "k"
  if k != "bundle" then return .bad s!"unknown kind {k}"
  let i ← getObj j "in"
  let o ← getObj j "out"
  let svg ← getBytes i "svg"
  let remote ← getBool i "remote"
  let imgsJ ← getArr i "imgs"
  let univ ← imgsJ.toList.mapM parseImg
  let orderJ ← getArr i "order"
  let order ← orderJ.toList.mapM fun x => match x.getStr? with
    | .ok s => match unhex s with
      | some b => pure b
      | none => throw "order: not hex"
    | .error e => throw e
  let outcome ← getStr o "outcome"
  if outcome != "ok" then
    return .specfalse s!"outcome:{(outcome.splitOn ":").head!}" s!"bundling did not return normally: {outcome}"
  let outSvg ← getBytes o "svg"
  let startedJ ← getArr o "started"
  let started ← startedJ.toList.mapM fun x => match x.getStr? with
    | .ok s => match unhex s with
      | some b => pure b
      | none => throw "started: not hex"
    | .error e => throw e
  -- (1) eligibility
  let elig := filterImgs remote (findAll svg)
  if sortBytes elig != sortBytes started then
    return .mismatch "eligible" s!"model {elig.map short} vs workers started for {started.map short}"
  -- the images of the model, in start order
  let mut imgs : List Img := []
  for h in elig do
    match univ.find? (fun u => u.href == h) with
    | none => return .mismatch "eligible-unknown" s!"model finds eligible href {short h} the harness did not set up"
    | some u => imgs := imgs ++ [{ href := h, mime := mimeFix u.mime u.data, data := u.data, fails := u.fail }]
  -- (2) the same schedule in the model
  let goErrs : Option Bytes := (getBytes o "errs").toOption
  match (getStr o "errRaw").toOption with
  | some raw => return .specfalse "error-format" s!"unexpected error text: {raw}"
  | none => pure ()
  match runOrder svg imgs order with
  | none => return .bad s!"completion order not feasible in the model ({order.length} of {imgs.length})"
  | some s =>
    match s.ret with
    | none => return .bad "model did not return"
    | some (msvg, merrs) =>
      let specApplies := svgClean (splitLt svg).2
      -- Spec-on-impl first: it is the property's own sentence
      if specApplies then
        let want := bundleSpec imgs svg
        if outSvg != want then
          let hostile := imgs.any fun i => (mimeOut i.mime).contains lt
          return .specfalse (if hostile then "order-dependent:hostile-mime" else "bundled-bytes")
            s!"order {order.map short}: got {short outSvg} want {short want}"
        let wantErr := sortBytes ((imgs.filter (·.fails)).map (·.href))
        let gotErr := sortBytes (splitSp (goErrs.getD []))
        if gotErr != wantErr then
          return .specfalse "reported-set" s!"reported {gotErr.map short} but failing eligible hrefs are {wantErr.map short}"
      if msvg != outSvg then
        return .mismatch "bytes" s!"order {order.map short}: model {short msvg} vs go {short outSvg}"
      let mErrs : Option Bytes := if merrs.isEmpty then none else some (joinSp merrs)
      if mErrs != goErrs then
        return .mismatch "errs" s!"model {mErrs.map short} vs go {goErrs.map short}"
      return .ok

def main : IO Unit := runDriver handleC46
