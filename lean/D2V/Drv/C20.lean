import D2V.Drv.LayCommon
import D2V.Model.Clip
open Lean D2V.Drv D2V.Drv.Lay D2V.Lay D2V.Clip

/-- the tolerance of the Spec: the property says "within a small tolerance"; 1 px as in C19 -/
def tol : Rat := 1

def isHalf (r : Rat) : Bool := (r * 2).den == 1 && r.den != 1

/-- implementation point vs model point: equal, or one apart when the exact value is a rounding tie
    (float64 evaluates `s·ud` with an error of a few ulps; at an exact .5 it may land on either side) -/
def ptAgrees (u0 u1 v0 v1 : Pt) (m i : Pt) : Bool :=
  if m == i then true
  else match cramer u0 u1 v0 v1 with
    | none => false
    | some c =>
      let ex := c.s * (u1.x - u0.x)
      let ey := c.s * (u1.y - u0.y)
      (m.x == i.x || (isHalf ex && decide ((m.x - i.x) * (m.x - i.x) = 1))) &&
      (m.y == i.y || (isHalf ey && decide ((m.y - i.y) * (m.y - i.y) = 1)))

def sidesOf (b : Box) : List (Pt × Pt) :=
  [(Box.tl b, Box.tr b), (Box.tr b, Box.br b), (Box.br b, Box.bl b), (Box.bl b, Box.tl b)]

/-- compare the implementation's intersection list with the model's, side by side -/
def isectAgrees (b : Box) (s0 s1 : Pt) (impl : List Pt) : Bool :=
  let rec go : List (Pt × Pt) → List Pt → Bool
    | [], [] => true
    | [], _ :: _ => false
    | (v0, v1) :: rest, im =>
      match intersectionPoint s0 s1 v0 v1, im with
      | none, _ => go rest im
      | some m, i :: im' => ptAgrees s0 s1 v0 v1 m i && go rest im'
      | some _, [] => false
  go (sidesOf b) impl

def handleIsect (j : Json) : Except String Verdict := do
  let i ← getObj j "in"
  let o ← getObj j "out"
  let b ← geoBox (← getObj i "box")
  let s0 ← geoPt (← getObj i "s0")
  let s1 ← geoPt (← getObj i "s1")
  let impl ← (← getArr o "pts").toList.mapM geoPt
  -- Spec-on-impl: what Box.Intersections returns is on the border (± the rounding half pixel, + float noise)
  for p in impl do
    if !decide (b.onBorder (1 / 2 + 1 / 1000000) p) then
      return .specfalse "intersection-off-border" s!"box {boxStr b} segment {ptStr s0}-{ptStr s1}: {ptStr p}"
  if !isectAgrees b s0 s1 impl then
    return .mismatch "box-intersections" s!"box {boxStr b} segment {ptStr s0}-{ptStr s1}: model {(boxIntersections b s0 s1).map ptStr} impl {impl.map ptStr}"
  return .ok

def handleClip (j : Json) : Except String Verdict := do
  let i ← getObj j "in"
  let o ← getObj j "out"
  let src ← geoBox (← getObj i "src")
  let dst ← geoBox (← getObj i "dst")
  let p0 ← geoPt (← getObj i "p0")
  let p1 ← geoPt (← getObj i "p1")
  let outcome ← getStr o "outcome"
  if outcome != "ok" then return .specfalse "trace-panic" outcome
  let st ← geoPt (← getObj o "start")
  let en ← geoPt (← getObj o "end")
  let mst := clipStart src p0 p1
  -- the end is cut on the segment that starts at the implementation's start point: a rounding tie at the start
  -- (float64 vs exact) would otherwise be amplified by a shallow slope
  let men := clipEnd dst st p1
  let near (a b : Pt) : Bool := decide ((a.x - b.x) * (a.x - b.x) ≤ 1 ∧ (a.y - b.y) * (a.y - b.y) ≤ 1)
  if !(near mst st && near men en) then
    return .mismatch "trace-rect" s!"src {boxStr src} dst {boxStr dst}: model {ptStr mst}->{ptStr men} impl {ptStr st}->{ptStr en}"
  return .ok

/-- feature class of an endpoint's shape, part of the signature so that a known defect of one class does not hide
    a violation in another -/
def featureClass (e : Edge) (o : Obj) : String :=
  if o.is3d || o.multiple then "3d-multiple"
  else if o.olabel.isSome || o.oicon.isSome then "outside-label-icon"
  else if e.src == e.dst && o.container then "container-selfloop"
  else if !(rectangularShapes.contains o.shape) then "shaped"
  else if o.container then "container"
  else "plain"

/-- signature of an endpoint violation: clause, feature class of the shape, self loop or not, side of the box the
    point lies on, near (≤ 16 px: within reach of a decoration offset) or far from the extent, engine -/
def endSig (clause engine : String) (es : List Edge) (e : Edge) (o : Obj) (p : Pt) : String :=
  -- `parallel`: another connection joins the same two shapes (either direction) — ELK then spreads the ends along
  -- the side of the box it laid out, which includes the margins
  let twins := es.filter fun x => !x.lifeline && ((x.src == e.src && x.dst == e.dst) || (x.src == e.dst && x.dst == e.src))
  let loop := if e.src == e.dst then "selfloop" else if twins.length > 1 then "parallel" else "edge"
  let far := if extentDist o p ≤ 16 then "near" else "far"
  let kind := if o.container then "container" else "leaf"
  let perim := if clause == "start-off-source" then e.srcPerim else e.dstPerim
  let cls :=
    if onMaxIcon tol o p then "icon-max-size"
    else if featureClass e o == "shaped" && perim == "near" then "shaped-outline-near"   -- within 8 px of the real outline
    else if featureClass e o == "shaped" then s!"shaped-{o.shape}"
    else featureClass e o
  s!"{clause}:{cls}:{loop}:{kind}:{sideOf o p}:{far}:{engine}"

def checkEdges (engine path : String) (os : List Obj) (es : List Edge) : Option Verdict := Id.run do
  for e in es do
    if e.lifeline || e.inSeq then continue
    match e.route, e.route.getLast? with
    | first :: _ :: _, some last =>
      match findObj os e.src, findObj os e.dst with
      | some s, some d =>
        if !endsOnExtent tol s e.srcPerim first then
          return some (.specfalse (endSig "start-off-source" engine es e s first)
            s!"board {path}: edge {e.id} starts at {ptStr first} ({sideOf s first} of the box, {ratStr ((extentDist s first).floor)} px from the extent), source {s.id} shape={s.shape} {boxStr s.box} label={s.labelPos} 3d={s.is3d} multiple={s.multiple}")
        if !endsOnExtent tol d e.dstPerim last then
          return some (.specfalse (endSig "end-off-destination" engine es e d last)
            s!"board {path}: edge {e.id} ends at {ptStr last} ({sideOf d last} of the box, {ratStr ((extentDist d last).floor)} px from the extent), destination {d.id} shape={d.shape} {boxStr d.box} label={d.labelPos} 3d={d.is3d} multiple={d.multiple}")
      | _, _ => return some (.bad s!"board {path}: endpoint of {e.id} not in the dump")
    | _, _ => continue   -- fewer than two points: C17's subject
  return none

def handleGeo (j : Json) : Except String Verdict := do
  let i ← getObj j "in"
  let o ← getObj j "out"
  let engine ← getStr i "engine"
  if (← getStr o "compile") != "ok" then return .ok
  for b in (← getArr o "boards") do
    let path ← getStr b "path"
    if (← getStr b "layout") != "ok" then continue
    match geoOf (← getObj b "geo") with
    | .error e => if isNonfinite e then continue else throw e
    | .ok (os, es) =>
      match checkEdges engine path os es with
      | some v => return v
      | none => pure ()
  return .ok

def handleC20 (j : Json) : Except String Verdict := do
  match ← getStr j "k" with
  | "isect" => handleIsect j
  | "clip" => handleClip j
  | "geo" => handleGeo j
  | k => throw s!"unknown kind {k}"

def main : IO Unit := D2V.Drv.Lay.runSanitized handleC20
