import D2V.Drv.Common
import D2V.Model.Fold
open Lean D2V.Drv D2V.Fold

/-- C08 driver.  `det` lines: the SHA-1s of the canonical result (graph with every object, edge, attribute, board,
    or the positioned error list) of every compile of one program in the run — sequential and concurrent, under
    GOMAXPROCS 1 / 2 / 16.  Spec-on-impl: they are all the same.  `race` lines: a data-race report of the -race
    build (thorough tier). -/
def handleC08 (j : Json) : Except String Verdict := do
  let k ← getStr j "k"
  let o ← getObj j "out"
  match k with
  | "det" =>
    let runs ← getArr o "runs"
    let hs ← runs.toList.mapM fun x => match x with | .str s => pure s | _ => throw "runs"
    if hs.length < 2 then return .bad "fewer than two runs"
    if !allSame hs then
      let kind := (getStr o "kind").toOption.getD "?"
      let sig := if kind.startsWith "panic" then "nondeterministic-panic" else s!"nondeterministic-{kind}"
      return .specfalse sig s!"{(getStr o "diff").toOption.getD ""} differing runs: {(getArr o "differing").toOption.getD #[]}"
    return .ok
  | "race" => return .specfalse "data-race" ((getStr o "report").toOption.getD "")
  | _ => return .bad s!"unknown kind {k}"

def main : IO Unit := runDriver handleC08
