/-
  JSON plumbing shared by the C09 / C10 / C11 drivers: the AST of the core fragment as the harness wrote it
  (from the real d2parser), the structural dump of the compiled d2graph.Graph, and the comparison of the
  model's canonical graph with the dump.
-/
import D2V.Drv.Common
import D2V.Model.SemProj
import D2V.Model.SemSpec
open Lean D2V.Drv

namespace D2V.SemIO
open D2V.Sem
open D2V.SemSpec (DNode DEdge Dump Viol)

def decodeName (j : Json) : Except String Sem.Name := do
  pure { s := ← getStr j "s", q := ← getBool j "q", pos := ← getNat j "p" }

def decodePath (j : Json) (k : String) : Except String (List Sem.Name) := do
  (← getArr j k).toList.mapM decodeName

def decodeVal (j : Json) : Except String Val :=
  match j.getObjVal? "null" with
  | .ok _ => pure .null
  | .error _ => do pure (.str (← getStr j "s"))

def optVal (j : Json) (k : String) : Except String (Option Val) :=
  match j.getObjVal? k with
  | .ok v => do pure (some (← decodeVal v))
  | .error _ => pure none

partial def decodeDecl (j : Json) : Except String Decl := do
  let key ← decodePath j "key"
  let edges ← (← getArr j "edges").toList.mapM fun e => do
    pure ({ src := ← decodePath e "src", dst := ← decodePath e "dst", sa := ← getBool e "sa", da := ← getBool e "da",
            pos := ← getNat e "p" } : EdgeAst)
  let idx ← match j.getObjVal? "idx" with
    | .ok v => match v.getNat? with
      | .ok n => pure (some n)
      | .error e => throw e
    | .error _ => pure none
  let ekey ← decodePath j "ekey"
  let prim ← optVal j "prim"
  let val ← optVal j "val"
  let body ← match j.getObjVal? "body" with
    | .ok (.arr a) => do pure (some (← a.toList.mapM decodeDecl))
    | .ok _ => throw "body is not an array"
    | .error _ => pure none
  pure (.mk key edges idx ekey prim val body)

def decodeProg (j : Json) : Except String (List Decl) := do
  (← getArr j "ast").toList.mapM decodeDecl

/-! ### the dump of the real graph -/

def decodeStyle (j : Json) : Except String (List (String × String)) := do
  (← getArr j "style").toList.mapM fun kv => match kv with
    | .arr #[.str k, .str v] => pure (k, v)
    | _ => throw "style entry"

partial def decodeDump (j : Json) : Except String Dump := do
  let nodes ← (← getArr j "nodes").mapM fun n => do
    let ch ← (← getArr n "children").toList.mapM fun x => x.getNat?
    let cm ← (← getArr n "cmap").toList.mapM fun kv => match kv with
      | .arr #[.str k, v] => do pure (k, ← v.getNat?)
      | _ => throw "cmap entry"
    pure ({ id := ← getStr n "id", abs := ← getStr n "abs", parent := ← getInt n "parent", children := ch, cmap := cm,
            label := ← getStr n "label", shape := ← getStr n "shape", style := ← decodeStyle n, pos := ← getInt n "pos",
            nrefs := ← getNat n "nrefs", sameGraph := ← getBool n "graph", special := ← getBool n "special" } : DNode)
  let objects ← (← getArr j "objects").toList.mapM fun x => x.getNat?
  let edges ← (← getArr j "edges").toList.mapM fun e => do
    pure ({ src := ← getNat e "src", dst := ← getNat e "dst", sa := ← getBool e "sa", da := ← getBool e "da",
            index := ← getNat e "index", label := ← getStr e "label", style := ← decodeStyle e, pos := ← getInt e "pos",
            abs := ← getStr e "abs" } : DEdge)
  let boards ← (← getArr j "boards").toList.mapM decodeDump
  let kind := match getStr j "kind" with | .ok k => k | .error _ => "root"
  pure { name := ← getStr j "name", kind, nodes, objects, edges, boards }

/-- what the implementation returned for one program -/
inductive Obs where
  | errors (cls : List String) (msg : String)
  | graph (d : Dump)
  | panic
deriving Inhabited

def decodeObs (o : Json) : Except String Obs :=
  match o.getObjVal? "panic" with
  | .ok _ => pure .panic
  | .error _ =>
    match o.getObjVal? "err" with
    | .ok (.arr a) => do
      let cls ← a.toList.mapM fun x => x.getStr?
      pure (.errors cls (← getStr o "msg"))
    | _ => do pure (.graph (← decodeDump (← getObj o "g")))

open D2V.SemSpec (absOf)

/-- the canonical view of a dump (same shape as `Sem.canonOf`) -/
def canonOfDump (d : Dump) : Canon :=
  let objs := d.objects.filterMap fun i => d.nodes[i]?
  { objs := objs.map fun n => { abs := n.abs, label := n.label, shape := n.shape, style := n.style },
    edges := d.edges.map fun e => { src := absOf d e.src, dst := absOf d e.dst, sa := e.sa, da := e.da, index := e.index,
                                    label := e.label, style := e.style },
    refless := objs.any fun n => n.nrefs == 0 }

def dedupSort (xs : List String) : List String :=
  let ins (x : String) : List String → List String := fun l =>
    let rec go : List String → List String
      | [] => [x]
      | y :: r => if x == y then y :: r else if x < y then x :: y :: r else y :: go r
    go l
  xs.foldl (fun acc x => ins x acc) []

def sortObjs (xs : List CObj) : List CObj :=
  let rec ins (x : CObj) : List CObj → List CObj
    | [] => [x]
    | y :: r => if x.abs < y.abs then x :: y :: r else y :: ins x r
  xs.foldl (fun acc x => ins x acc) []

def showObj (o : CObj) : String := s!"<{o.abs} label={o.label.quote} shape={o.shape} style={o.style}>"
def showEdge (e : CEdge) : String :=
  s!"<{e.src} {if e.sa then "<" else ""}-{if e.da then ">" else "-"} {e.dst} [{e.index}] label={e.label.quote} style={e.style}>"

/-- first difference between the model's canonical graph and the implementation's, if any -/
def diffCanon (m i : Canon) : Option String :=
  let mo := if i.refless || m.refless then sortObjs m.objs else m.objs
  let io := if i.refless || m.refless then sortObjs i.objs else i.objs
  if mo.length != io.length then
    some s!"objects: model {mo.map (·.abs)} vs impl {io.map (·.abs)}"
  else
    match (mo.zip io).find? fun (a, b) => a != b with
    | some (a, b) => some s!"object: model {showObj a} vs impl {showObj b} (model order {mo.map (·.abs)}, impl order {io.map (·.abs)})"
    | none =>
      if m.edges.length != i.edges.length then some s!"edges: model {m.edges.length} vs impl {i.edges.length}"
      else match (m.edges.zip i.edges).find? fun (a, b) => a != b with
        | some (a, b) => some s!"edge: model {showEdge a} vs impl {showEdge b}"
        | none => none

/-- model vs implementation on one core-fragment program -/
def compareCore (prog : List Decl) (obs : Obs) : Verdict :=
  match run prog, obs with
  | _, .panic => .specfalse "compile-panic" "the compiler panicked"
  | .errors mc, .errors ic _ =>
    if mc.any (fun c => c.startsWith "gap:") then .mismatch "model-gap" s!"{mc}" else
    if dedupSort mc == dedupSort ic then .ok else .mismatch "error-classes" s!"model {dedupSort mc} vs impl {dedupSort ic}"
  | .errors mc, .graph _ =>
    if mc.any (fun c => c.startsWith "gap:") then .mismatch "model-gap" s!"{mc}" else
    .mismatch "model-error-impl-ok" s!"model {mc}"
  | .graph _ _, .errors ic msg => .mismatch "model-ok-impl-error" s!"impl {ic} {msg}"
  | .graph _ c, .graph d =>
    match diffCanon c (canonOfDump d) with
    | some w => .mismatch "graph" w
    | none => .ok

end D2V.SemIO
