import D2V.Drv.Common
import D2V.Model.Dom
open Lean D2V.Drv D2V.Dom

def strOfBytes (b : List UInt8) : String :=
  match String.fromUTF8? (ByteArray.mk b.toArray) with
  | some s => s
  | none => ""

def areaOf : String → Option Area
  | "style" => some .style
  | "reserved" => some .reserved
  | "config" => some .config
  | _ => none

/-- the documented domain of a keyword *in a placement* of the compile stream: `shape` on an object takes shape
    names only (a later pass rejects arrowhead names there); the `shape` of an arrowhead takes every known shape or
    arrowhead name (non-arrowhead names fall back to the default arrowhead when drawn) — both are "known shapes". -/
def documentedAt (a : Area) (kw place v : String) : Option Bool :=
  if kw == "shape" then
    if place == "arrowhead" then some (v == "" || docEnum (docShapes ++ docArrowheads) v)
    else some (v == "" || docEnum docShapes v)
  else documented a kw v

def handleC16 (j : Json) : Except String Verdict := do
  let k ← getStr j "k"
  let i ← getObj j "in"
  let o ← getObj j "out"
  let areaS ← getStr i "area"
  let some a := areaOf areaS | throw s!"bad area {areaS}"
  let kw ← getStr i "kw"
  let vb ← getBytes i "v"
  let v := strOfBytes vb
  let place0 := (getStr i "place").toOption.getD ""
  let place := if place0.startsWith "bare-" then (place0.drop 5).toString else place0
  let kwcase := place.startsWith "kwcase:"
  if let .ok p := getStr o "panic" then
    return .specfalse s!"panic:{kw}" s!"{k} {areaS}.{kw} value {v.quote}: {p}"
  let acc ← getBool o "accept"
  -- Spec-on-impl: accepted exactly when the value lies in the documented domain
  match documentedAt a kw place v with
  | some d =>
    -- a keyword written in another letter case may be refused as unknown; when it is taken, it is validated
    if (if kwcase then acc && !d else d != acc) then
      return .specfalse s!"domain:{kw}" s!"{k}/{place} {areaS}.{kw} value {v.quote}: documented={d} implementation accept={acc} msg={(getStr o "msg").toOption.getD ""}"
  | none => pure ()
  -- model (regenerated guards + primitive models) vs implementation
  if kwcase then pure ()
  else if !(kw == "shape") then
    match accepts a kw v with
    | some m =>
      if m != acc then
        return .mismatch s!"accept:{kw}" s!"{k}/{place} {areaS}.{kw} value {v.quote}: model={m} implementation={acc}"
    | none => pure ()
  else
    match accepts a kw v with
    | some m =>
      -- compileReserved alone accepts shapes ∪ arrowheads; a later pass rejects the wrong kind for the placement
      if acc && !m then
        return .mismatch "accept:shape" s!"value {v.quote} accepted by the implementation but not by the model of compileReserved"
    | none => pure ()
  if acc then
    -- accepted values reach the diagram unchanged apart from letter case for keyword-valued attributes
    let st := strOfBytes (← getBytes o "stored")
    let isCfg := (getStr o "storedKind").toOption == some "config"
    if isCfg then
      -- config values are stored parsed (int / bool): compare through the primitive
      let okCfg : Bool :=
        match atoi v, atoi st with
        | some x, some y => x == y
        | _, _ => match parseBool v, parseBool st with
          | some x, some y => x == y
          | _, _ => false
      if !okCfg then
        return .specfalse s!"stored:{kw}" s!"config {kw}: value {v.quote} stored as {st.quote}"
    else
      if kw == "shape" && v == "" then
        -- the empty shape is the documented default
        if st != "rectangle" && st != "" then
          return .specfalse "stored:shape" s!"empty shape stored as {st.quote}"
      else if st != v && st != lowerStr v then
        return .specfalse s!"stored:{kw}" s!"{areaS}.{kw}: value {v.quote} stored as {st.quote}"
      if !(kw == "shape" && v == "") && st != stored a kw v then
        return .mismatch s!"stored:{kw}" s!"{areaS}.{kw}: value {v.quote} stored as {st.quote}, model {(stored a kw v).quote}"
  else if k == "compile" then
    let atv ← getBool o "errAtValue"
    if !atv then
      return .specfalse s!"error-position:{kw}" s!"{areaS}.{kw} value {v.quote} rejected but no error is positioned at the value or its declaration: {(getStr o "msg").toOption.getD ""}"
  return .ok

def main : IO Unit := runDriver handleC16
