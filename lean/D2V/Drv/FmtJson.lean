/-
  JSON reader for the structural-fragment ASTs written by harness/fmtlib/frag.go, comparison of ASTs, and small text
  helpers shared by the C03 and C04 drivers.
-/
import D2V.Drv.Common
import D2V.Model.Fmt
open Lean D2V.Drv D2V.Fmt

namespace D2V.Drv.FmtJson

def strOf (j : Json) : Except String Str := do
  let q ← getStr j "q"
  let r ← getStr j "r"
  let v ← getStr j "v"
  let q' ← match q with
    | "u" => pure Q.u
    | "d" => pure Q.d
    | "s" => pure Q.s
    | _ => throw s!"bad quote kind {q}"
  pure { q := q', raw := r.toList, val := v.toList }

def pathOf (j : Json) : Except String Path := do
  match j with
  | .arr a => a.toList.mapM strOf
  | _ => throw "path: not an array"

def optPathOf (j : Json) (k : String) : Except String (Option Path) :=
  match j.getObjVal? k with
  | .ok .null => pure none
  | .ok v => do pure (some (← pathOf v))
  | .error _ => pure none

def scalarOf (j : Json) : Except String Scalar := do
  let t ← getStr j "t"
  match t with
  | "nul" => pure .null
  | "sus" => pure (.susp (← getBool j "b"))
  | "boo" => pure (.bool (← getBool j "b"))
  | "num" => pure (.num (← getStr j "r").toList)
  | "str" => do pure (.str (← strOf (← getObj j "s")))
  | _ => throw s!"bad scalar tag {t}"

def hopOf (j : Json) : Except String Hop := do
  pure { sa := (← getStr j "sa").toList, da := (← getStr j "da").toList, dst := (← pathOf (← getObj j "d")) }

partial def nodeOf (j : Json) : Except String N := do
  let t ← getStr j "t"
  match t with
  | "nul" | "sus" | "boo" | "num" | "str" => do pure (.scalar (← scalarOf j))
  | "sub" => do pure (.sub (← getBool j "sp") (← pathOf (← getObj j "p")))
  | "imp" => do pure (.imp (← getBool j "sp") (← pathOf (← getObj j "p")))
  | "arr" => do
      let items ← (← getArr j "n").toList.mapM fun it => do
        pure (N.item (← getBool it "bl") (← nodeOf (← getObj it "v")))
      pure (.arr (← getBool j "one") items)
  | "map" => do
      let nodes ← (← getArr j "n").toList.mapM fun it => do
        pure (N.mnode (← getBool it "bl") (← getBool it "l0") (← nodeOf (← getObj it "v")))
      pure (.map (← getBool j "one") nodes)
  | "key" => do
      let amp ← getNat j "amp"
      let key ← optPathOf j "k"
      let src ← optPathOf j "src"
      let hops ← (← getArr j "hops").toList.mapM hopOf
      let eidx ← match j.getObjVal? "ei" with
        | .ok (.str "*") => pure EIdx.glob
        | .ok .null => pure EIdx.none
        | .ok v => match v.getInt? with
            | .ok n => pure (EIdx.int (toString n).toList)
            | .error e => throw e
        | .error _ => pure EIdx.none
      let ekey ← optPathOf j "ek"
      let prim ← match j.getObjVal? "pr" with
        | .ok .null => pure none
        | .ok v => do pure (some (← scalarOf v))
        | .error _ => pure none
      let val ← match j.getObjVal? "val" with
        | .ok .null => pure N.absent
        | .ok v => nodeOf v
        | .error _ => pure N.absent
      pure (.key { amp := amp, key := key, src := src, hops := hops, eidx := eidx, ekey := ekey } prim val)
  | _ => throw s!"bad node tag {t}"

/- structural equality; `l0` is compared on board nodes only (nothing else reads it) and not at all with `ignL0`; `ignArrOne` the `one` flag of arrays
   (used only while d2parser.parseArray still takes Range.End from the look-ahead position) -/
mutual
  partial def eqN (ignL0 ignArrOne : Bool) : N → N → Bool
    | .absent, .absent => true
    | .scalar a, .scalar b => a == b
    | .sub s p, .sub s' p' => s == s' && p == p'
    | .imp s p, .imp s' p' => s == s' && p == p'
    | .arr o xs, .arr o' ys => (ignArrOne || o == o') && eqNs ignL0 ignArrOne xs ys
    | .map o xs, .map o' ys => o == o' && eqNs ignL0 ignArrOne xs ys
    | .item b v, .item b' v' => b == b' && eqN ignL0 ignArrOne v v'
    | .mnode b l v, .mnode b' l' v' => b == b' && (ignL0 || !isBoard (.mnode b l v) || l == l') && eqN ignL0 ignArrOne v v'
    | .key h p v, .key h' p' v' => h == h' && p == p' && eqN ignL0 ignArrOne v v'
    | _, _ => false
  partial def eqNs (ignL0 ignArrOne : Bool) : List N → List N → Bool
    | [], [] => true
    | x :: xs, y :: ys => eqN ignL0 ignArrOne x y && eqNs ignL0 ignArrOne xs ys
    | _, _ => false
end

def utf8 (t : Text) : List UInt8 := (String.ofList t).toUTF8.toList

def showBytes (bs : List UInt8) : String :=
  match String.fromUTF8? (ByteArray.mk bs.toArray) with
  | some s => s.quote
  | none => "hex:" ++ hex bs

/-- index of the first differing byte -/
def firstDiff : List UInt8 → List UInt8 → Nat → Nat
  | a :: as, b :: bs, i => if a == b then firstDiff as bs (i + 1) else i
  | _, _, i => i

def around (bs : List UInt8) (i : Nat) : String :=
  showBytes ((bs.drop (i - 25)).take 60)

def diffDetail (what : String) (a b : List UInt8) : String :=
  let i := firstDiff a b 0
  s!"{what}: first difference at byte {i}: {around a i} vs {around b i}"

def hasFeat (j : Json) (k : String) (f : String) : Bool :=
  match j.getObjValAs? (Array String) k with
  | .ok a => a.contains f
  | .error _ => false

end D2V.Drv.FmtJson
