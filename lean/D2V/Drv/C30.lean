import D2V.Drv.Common
import D2V.Model.Escape
import D2V.Model.Xml
import D2V.Model.Gradient
open Lean D2V.Drv D2V.Escape D2V.Xml

/-! C30 driver.
  `svg`  lines: Spec-on-impl — `Xml.wf` on the real SVG text and the canary scan over the parsed element tree.
  `esc`  lines: tie K for `escapeText` / `escapeHtml` + `noMarkup` evaluated on what Go returned.
  `grad` lines: tie K for `lib/color/gradient.go` (parse + emitter) + Spec on the emitted fragment.
  `norender` lines carry no document (render error / panic after a successful compile): counted, not judged here. -/

def chars (ns : List Nat) : List Char := ns.map Char.ofNat

def vis (s : List Char) : String :=
  String.ofList (s.map fun c => if c.toNat < 32 || c.toNat == 127 then '·' else c)

def isInfix (pat : List Char) : List Char → Bool
  | [] => pat.isEmpty
  | s@(_ :: t) => pat.isPrefixOf s || isInfix pat t

def lower (s : List Char) : List Char := s.map Char.toLower

def slug (s : String) : String := String.ofList (s.toList.map fun c => if c.isAlphanum then c else '_')

/-- names (lower-cased) that mention the canary prefix at all -/
def suspicious (names : List (List Char)) : List (List Char) := (names.map lower).filter (isInfix ['z', 'q'])

def hasMeta (s : List Char) : Bool := s.any fun c => c = '<' || c = '&' || c = '"' || c = '\''

/-- the generator's mapping of a gradient stop position (svgr/gen.go `Color`) -/
def mapGrad (s : List Char) : List Char :=
  s.map fun c => if c = ',' || c = '(' || c = ')' || c = ' ' || c = '\t' || c = '\n' || c = '\r' || c.toNat = 11 || c.toNat = 12
    || c.toNat = 0x85 || c.toNat = 0xA0 then '_' else c

/-- `s` occurs in `doc` at a place where it is not the beginning of its own escaped form: a trailing `&` of `s`
    must not be continued by `amp;` -/
def occursRaw (s : List Char) : List Char → Bool
  | [] => false
  | doc@(_ :: rest) =>
      (s.isPrefixOf doc && !(s.getLast? == some '&' && ['a', 'm', 'p', ';'].isPrefixOf (doc.drop s.length)))
        || occursRaw s rest

/-- fields whose user string (containing a markup character) occurs verbatim, i.e. unescaped, in the document -/
def rawFields (doc : List Char) (cans : Array Json) : List String :=
  let hits := cans.toList.filterMap fun c =>
    match getStr c "s", getStr c "field", getStr c "tok" with
    | .ok s, .ok field, .ok tok =>
      let sl := s.toList
      let t := tok.toList
      -- sound evidence of unescaped emission: the string itself (when it does not occur inside its own escaped form),
      -- or the token directly after a raw `<` / `&` / `<!--`
      let verbatim := hasMeta sl && sl.length ≥ 4 && !sl.contains '\n' && !occursRaw sl (escapeText sl) &&
        (occursRaw sl doc || (field == "gradpos" && occursRaw (mapGrad sl) doc))
      if verbatim || isInfix ('<' :: t) doc || isInfix ('&' :: t) doc || isInfix ('<' :: '!' :: '-' :: '-' :: t) doc
      then some field else none
    | _, _, _ => none
  (hits.eraseDups.toArray.qsort (· < ·)).toList

def rawField (doc : List Char) (cans : Array Json) : Option String :=
  match rawFields doc cans with
  | [] => none
  | fs => some ("+".intercalate fs)

def handleSvg (i o : Json) : Except String Verdict := do
  match getStr o "svg" with
  | .error _ => return .specfalse "invalid-utf8" "the SVG bytes are not valid UTF-8"
  | .ok svg =>
    let cs := svg.toList
    let (st, pos) := runPos init cs 0
    match st.mode with
    | .err why =>
      let ctx := vis ((cs.drop (pos - 70)).take (min pos 70 + 30))
      let cans := (getArr i "canaries").toOption.getD #[]
      match rawField cs cans with
      | some field => return .specfalse s!"not-wf@{field}" s!"user string of field {field} is emitted unescaped; {why} at char {pos}: …{ctx}…"
      | none => return .specfalse s!"not-wf:{slug why}" s!"{why} at char {pos}: …{ctx}…"
    | _ =>
      if !accepting st then
        let cans := (getArr i "canaries").toOption.getD #[]
        if let some field := rawField cs cans then
          return .specfalse s!"not-wf@{field}" s!"user string of field {field} is emitted unescaped; document ends in state {repr st.mode}"
        return .specfalse "not-wf:unexpected_end" s!"document ends in state {repr st.mode} with {st.stack.length} open elements"
      let evs := st.evs
      let en := suspicious (elementNames evs)
      let an := suspicious (attributeNames evs)
      let cans := (getArr i "canaries").toOption.getD #[]
      for c in cans do
        let tok ← getStr c "tok"
        let field ← getStr c "field"
        let t := lower tok.toList
        if en.any (isInfix t) then
          return .specfalse s!"inject-elem:{field}" s!"user string of field {field} (token {tok}) appears as an element name"
        if an.any (isInfix t) then
          return .specfalse s!"inject-attr:{field}" s!"user string of field {field} (token {tok}) appears as an attribute name"
      -- a canary prefix that is no registered token (defensive: generator and scan must agree)
      return .ok

def handleEsc (i o : Json) : Except String Verdict := do
  let s := chars (← getNats i "s")
  let gx := chars (← getNats o "xml")
  let gh := chars (← getNats o "html")
  if !noMarkup gx then return .specfalse "escape-unsafe" s!"EscapeText output is not markup-free: {vis gx}"
  if escapeText s != gx then return .mismatch "escapeText" s!"model {vis (escapeText s)} vs go {vis gx}"
  if escapeHtml s != gh then return .mismatch "escapeHtml" s!"model {vis (escapeHtml s)} vs go {vis gh}"
  return .ok

open D2V.Gradient in
def handleGrad (i o : Json) : Except String Verdict := do
  let css := chars (← getNats i "css")
  let goErr := (getBool o "err").toOption.getD false
  let isgrad ← getBool o "isgrad"
  if isGradient css != isgrad then return .mismatch "isGradient" s!"model {isGradient css} vs go {isgrad} on {vis css}"
  match parseGradient css with
  | none =>
    if !goErr then return .mismatch "gradient-parse" s!"model rejects, go accepts {vis css}"
    return .ok
  | some g =>
    if goErr then return .mismatch "gradient-parse" s!"model accepts, go rejects {vis css}"
    let ty ← getStr o "type"
    let dir := chars (← getNats o "dir")
    let stopsJ ← getArr o "stops"
    let stops ← stopsJ.toList.mapM fun p => do
      let a ← (p.getArr? : Except String (Array Json))
      match a.toList with
      | [c, q] =>
        let c ← (c.getArr? : Except String (Array Json))
        let q ← (q.getArr? : Except String (Array Json))
        let cn ← c.toList.mapM fun x => (x.getNat? : Except String Nat)
        let qn ← q.toList.mapM fun x => (x.getNat? : Except String Nat)
        pure (Stop.mk (chars cn) (chars qn))
      | _ => throw "bad stop"
    if g.type != ty then
      return .mismatch "gradient-type" s!"model {g.type} vs go {ty}"
    if g.direction != dir then return .mismatch "gradient-direction" s!"model {vis g.direction} vs go {vis dir}"
    if g.stops != stops then return .mismatch "gradient-stops" s!"stops differ on {vis css}"
    let id ← getStr o "id"
    let svg := chars (← getNats o "svg")
    -- Spec on the emitted fragment: well-formed, exactly the gradient element with one <stop> per colour stop,
    -- only the expected attributes
    let (st, pos) := runPos init svg 0
    match st.mode with
    | .err why => return .specfalse "gradient-not-wf" s!"{why} at char {pos} of {vis svg}"
    | _ =>
      if !accepting st then return .specfalse "gradient-not-wf" s!"fragment incomplete: {vis svg}"
      let evs := st.evs.reverse
      match shapeOk g evs with
      | some why => return .specfalse "gradient-inject" s!"{why}: {vis svg}"
      | none =>
        -- tie K: attribute values (references resolved) against the model
        match valuesOk g id.toList evs with
        | some why => return .mismatch "gradient-svg" s!"{why}: {vis svg}"
        | none => return .ok

def handleC30 (j : Json) : Except String Verdict := do
  let k ← getStr j "k"
  let i ← getObj j "in"
  let o ← getObj j "out"
  match k with
  | "svg" => handleSvg i o
  | "esc" => handleEsc i o
  | "grad" => handleGrad i o
  | "norender" => return .ok
  | _ => return .bad s!"unknown kind {k}"

def main : IO Unit := runDriver handleC30
