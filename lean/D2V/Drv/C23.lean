import D2V.Drv.LayCommon
import D2V.Model.Seq
open Lean D2V.Drv D2V.Drv.Lay D2V.Lay D2V.Seq

def eps : Rat := 1 / 2

/-- is `anc` an ancestor-or-self of `id` (AbsIDs: prefix with a dot, or equal) — only used after the parent chain
    established the relation -/
partial def ancestorChain (os : List Obj) (id : String) (fuel : Nat := 64) : List String :=
  if fuel == 0 then [] else
  match findObj os id with
  | none => []
  | some o => if o.parent == "" then [id] else id :: ancestorChain os o.parent (fuel - 1)

/-- the actor (child of the sequence container `seq`) above `id`, if any -/
def actorOf (os : List Obj) (seq : String) (id : String) : Option String :=
  let chain := ancestorChain os id
  -- chain = [id, parent, …, top]; the actor is the element whose parent is `seq`
  chain.find? fun k => match findObj os k with | some o => o.parent == seq | none => false

structure SeqDiagram where
  seq : String                 -- AbsID of the container ("" = the board itself)
  actors : List Obj            -- declaration order
  groups : List Obj
  msgs : List Edge             -- declaration order, both ends inside this diagram
  notes : List Obj

/-- `id` sits in a nested special diagram (an actor that is itself a grid): its edges are laid out by that
    diagram's own layout and are not messages of the sequence diagram -/
def inNestedSpecial (os : List Obj) (seq : String) (id : String) : Bool :=
  (((ancestorChain os id).drop 1).takeWhile (· != seq)).any fun k =>
    match findObj os k with | some o => o.isGrid || (o.isSeq && o.id != seq) | none => false

def close (a b : Rat) : Bool := decide (a - b ≤ 1 / 1000000 ∧ b - a ≤ 1 / 1000000)

def ptsClose : List Pt → List Pt → Bool
  | [], [] => true
  | p :: r, q :: s => close p.x q.x && close p.y q.y && ptsClose r s
  | _, _ => false

def seqDiagrams (os : List Obj) (es : List Edge) (rootIsSeq : Bool) : List SeqDiagram :=
  let containers : List String := (if rootIsSeq then [""] else []) ++ (os.filter (·.isSeq)).map (·.id)
  containers.map fun c =>
    let kids := os.filter (·.parent == c)
    let inside (id : String) : Bool := (actorOf os c id).isSome
    { seq := c
      actors := kids.filter (fun o => !o.seqGroup)
      groups := os.filter (fun o => o.seqGroup && inside o.id)
      msgs := es.filter (fun e => !e.lifeline && inside e.src && inside e.dst &&
        !inNestedSpecial os c e.src && !inNestedSpecial os c e.dst)
      notes := os.filter (fun o => o.seqNote && inside o.id && o.parent != c && !inNestedSpecial os c o.id) }

def rankOf (d : SeqDiagram) (os : List Obj) (id : String) : Option Nat :=
  match actorOf os d.seq id with
  | none => none
  | some a => (d.actors.map (·.id)).idxOf? a

def belowLabel (o : Obj) : Rat :=
  if (o.shape == "person" || o.shape == "image") && o.hasLabel then (o.labelH : Rat) else 0

def minMaxY (r : List Pt) : Rat × Rat :=
  match r with
  | [] => (0, 0)
  | p :: rest => rest.foldl (fun (lo, hi) q => (min lo q.y, max hi q.y)) (p.y, p.y)

/-- is the point on the lifeline of actor `a` (the vertical through its centre, below the actor) or on the
    left/right border of span `s` within its vertical extent -/
def onLifelineOrSpan (a : Obj) (o : Obj) (p : Pt) : Bool :=
  if o.id == a.id then
    decide (a.box.x + a.box.w / 2 - eps ≤ p.x ∧ p.x ≤ a.box.x + a.box.w / 2 + eps ∧ a.box.bottom - eps ≤ p.y)
  else
    (decide (o.box.x - eps ≤ p.x ∧ p.x ≤ o.box.x + eps) || decide (o.box.right - eps ≤ p.x ∧ p.x ≤ o.box.right + eps)) &&
      decide (o.box.y - eps ≤ p.y ∧ p.y ≤ o.box.bottom + eps)

def specSeq (engine path : String) (os : List Obj) (d : SeqDiagram) : Option Verdict := Id.run do
  let name := if d.seq == "" then "<board>" else d.seq
  -- (a) actors left to right in declaration order, not overlapping
  for (a, b) in d.actors.zip (d.actors.drop 1) do
    if !decide (a.box.x < b.box.x) then
      return some (.specfalse (sigOf engine "actors-not-left-to-right")
        s!"board {path} {name}: {a.id} {boxStr a.box} is declared before {b.id} {boxStr b.box}")
    if !decide (a.box.right ≤ b.box.x) then
      return some (.specfalse (sigOf engine "actors-overlap")
        s!"board {path} {name}: {a.id} {boxStr a.box} overlaps {b.id} {boxStr b.box}")
  -- (b) common baseline
  match d.actors with
  | [] => pure ()
  | a0 :: rest =>
    let base := a0.box.bottom + belowLabel a0
    for a in rest do
      let ba := a.box.bottom + belowLabel a
      if !decide (base - eps ≤ ba ∧ ba ≤ base + eps) then
        return some (.specfalse (sigOf engine "actors-baseline")
          s!"board {path} {name}: baseline of {a.id} is {ratStr ba}, of {a0.id} {ratStr base}")
  -- (c) messages top to bottom in declaration order
  for (m, n) in d.msgs.zip (d.msgs.drop 1) do
    let (_, mhi) := minMaxY m.route
    let (nlo, _) := minMaxY n.route
    if !decide (mhi < nlo) then
      return some (.specfalse (sigOf engine "messages-not-top-to-bottom")
        s!"board {path} {name}: {m.id} (line {m.line}) reaches y={ratStr mhi}, the next message {n.id} (line {n.line}) starts at y={ratStr nlo}")
  for m in d.msgs do
    match findObj os m.src, findObj os m.dst, rankOf d os m.src, rankOf d os m.dst with
    | some s, some t, some rs, some rt =>
      match m.route, m.route.getLast? with
      | first :: _ :: _, some last =>
        -- (d) messages between different actors are horizontal segments
        if rs != rt then
          let (lo, hi) := minMaxY m.route
          if lo != hi || m.route.length != 2 then
            return some (.specfalse (sigOf engine "message-not-horizontal")
              s!"board {path} {name}: {m.id} route {m.route.map ptStr}")
        -- (e) ends on the lifeline or span of its actors
        match d.actors[rs]?, d.actors[rt]? with
        | some sa, some ta =>
          if !onLifelineOrSpan sa s first then
            return some (.specfalse (sigOf engine "message-start-off-lifeline")
              s!"board {path} {name}: {m.id} starts at {ptStr first}; source {s.id} {boxStr s.box}, actor {sa.id} {boxStr sa.box}")
          if !onLifelineOrSpan ta t last then
            return some (.specfalse (sigOf engine "message-end-off-lifeline")
              s!"board {path} {name}: {m.id} ends at {ptStr last}; destination {t.id} {boxStr t.box}, actor {ta.id} {boxStr ta.box}")
        | _, _ => return some (.bad s!"rank out of range for {m.id}")
      | _, _ => return some (.specfalse (sigOf engine "message-short-route") s!"board {path} {name}: {m.id}")
    | _, _, _, _ => return some (.bad s!"board {path} {name}: endpoints of {m.id} not found")
  return none

/-- model vs implementation on diagrams without groups: actor x positions and message routes, exactly -/
def modelSeq (engine path : String) (os : List Obj) (d : SeqDiagram) : Option Verdict := Id.run do
  if !d.groups.isEmpty then return none
  let name := if d.seq == "" then "<board>" else d.seq
  let noteW (a : Obj) : Rat :=
    (d.notes.filter (fun n => actorOf os d.seq n.id == some a.id)).foldl (fun m n => max m n.preW) 0
  let actors : List Actor := d.actors.map fun a =>
    { w := a.box.w, preW := (if a.isGrid then a.box.w else a.preW), h := a.box.h, belowLabelH := belowLabel a, maxNoteW := noteW a }
  let mut msgs : List Msg := []
  for m in d.msgs do
    match findObj os m.src, findObj os m.dst, rankOf d os m.src, rankOf d os m.dst with
    | some s, some t, some rs, some rt =>
      let srcIsActor := s.parent == d.seq
      let dstIsActor := t.parent == d.seq
      let toDesc := (t.id.startsWith (s.id ++ "."))
      let fromDesc := (s.id.startsWith (t.id ++ "."))
      let loop := m.src == m.dst || toDesc || fromDesc || rs == rt
      let noteOff : Rat := noteOffOf (d.notes.map fun n => (n.line, n.box.h)) m.line
      msgs := msgs ++ [{ srcRank := rs, dstRank := rt, srcIsActor, dstIsActor, srcW := s.box.w, dstW := t.box.w,
                         labelW := m.labelW, labelH := m.labelH, loop, noteOff }]
    | _, _, _, _ => return some (.bad s!"board {path} {name}: endpoints of {m.id} not found")
  let steps := stepsOf actors msgs
  let lefts := actorLefts actors steps
  match d.actors with
  | [] => return none
  | a0 :: _ =>
    let dx := a0.box.x - lefts.getD 0 0
    for (a, l) in d.actors.zip lefts do
      if !close a.box.x (l + dx) then
        return some (.mismatch "actor-x" s!"{engine} board {path} {name}: {a.id} impl x={ratStr a.box.x} model x={ratStr (l + dx)} steps={steps.map ratStr}")
    -- the impl's messageOffset start = maxActorHeight + yStep, relative to the common baseline
    let base := a0.box.bottom + belowLabel a0
    let routes := routeMsgs lefts actors (base + yStep) msgs
    for (m, r) in d.msgs.zip routes do
      let r' : List Pt := r.map fun (x, y) => { x := x + dx, y := y }
      if !ptsClose r' m.route then
        return some (.mismatch "message-route" s!"{engine} board {path} {name}: {m.id} impl {m.route.map ptStr} model {r'.map ptStr}")
  return none

def handleC23 (j : Json) : Except String Verdict := do
  let i ← getObj j "in"
  let o ← getObj j "out"
  let engine ← getStr i "engine"
  if (← getStr o "compile") != "ok" then return .ok
  for b in (← getArr o "boards") do
    let path ← getStr b "path"
    if (← getStr b "layout") != "ok" then continue
    let g ← getObj b "geo"
    match geoOf g with
    | .error e => if isNonfinite e then continue else throw e
    | .ok (os, es) =>
      for d in seqDiagrams os es (boolD g "rootIsSeq") do
        match specSeq engine path os d with
        | some v => return v
        | none => pure ()
      for d in seqDiagrams os es (boolD g "rootIsSeq") do
        match modelSeq engine path os d with
        | some v => return v
        | none => pure ()
  return .ok

def main : IO Unit := D2V.Drv.Lay.runSanitized handleC23
