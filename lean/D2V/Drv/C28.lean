import D2V.Drv.Common
import D2V.Model.Export
import D2V.Gen.Themes
open Lean D2V.Drv D2V.Export

/-! Driver of C28: per board, (i) the property's own predicates on the real export — one shape per object with the
    object's absolute ID, one connection per edge with its end points' absolute IDs, every style value the user set
    present in the exported element — and (ii) the model of toShape / toConnection against the export, field by field. -/

def optStr (j : Json) (k : String) : Option String :=
  match j.getObjValAs? String k with
  | .ok v => some v
  | .error _ => none

def getStyle (j : Json) : Except String Style := do
  let s ← getObj j "style"
  pure {
    opacity := optStr s "opacity", strokeDash := optStr s "strokeDash", fill := optStr s "fill",
    fillPattern := optStr s "fillPattern", stroke := optStr s "stroke", strokeWidth := optStr s "strokeWidth",
    shadow := optStr s "shadow", threeDee := optStr s "threeDee", multiple := optStr s "multiple",
    borderRadius := optStr s "borderRadius", fontColor := optStr s "fontColor", italic := optStr s "italic",
    bold := optStr s "bold", underline := optStr s "underline", font := optStr s "font",
    doubleBorder := optStr s "doubleBorder", fontSize := optStr s "fontSize", animated := optStr s "animated" }

def getObjIn (j : Json) : Except String Obj := do
  let p ← getInt j "parent"
  pure {
    id := ← getStr j "id"
    parent := if p < 0 then (if p == -1 then none else some (1 <<< 40)) else some p.toNat
    shape := ← getStr j "shape"
    level := ← getNat j "level"
    nChildren := ← getNat j "nch"
    isSeqDiagram := ← getBool j "seq"
    isSeqGroup := ← getBool j "grp"
    hasClass := ← getBool j "cls"
    hasTable := ← getBool j "tbl"
    style := ← getStyle j
    iconBorderRadius := optStr j "iconBR"
    fillDefault := ← getStr j "fillDef"
    strokeSolid := ← getStr j "strokeSolid"
    strokeDashed := ← getStr j "strokeDashed"
    textBold := ← getBool j "tBold"
    textItalic := ← getBool j "tItalic"
    fontSizeDefault := ← getInt j "fsDef" }

def getStrs (j : Json) (k : String) : Except String (List String) := do
  let a ← getArr j k
  a.toList.mapM fun x => x.getStr?

def getEdgeIn (j : Json) : Except String EdgeIn := do
  let s ← getInt j "src"
  let d ← getInt j "dst"
  pure {
    src := if s < 0 then none else some s.toNat, dst := if d < 0 then none else some d.toNat,
    srcPath := ← getStrs j "srcPath", dstPath := ← getStrs j "dstPath",
    srcTop := ← getStr j "srcTop", dstTop := ← getStr j "dstTop",
    srcArrow := ← getBool j "srcArrow", dstArrow := ← getBool j "dstArrow",
    index := ← getNat j "index", style := ← getStyle j, textFontSize := ← getInt j "tfs" }

/-- exported shape as observed: optional floats become `some` -/
def getShapeOut (j : Json) : Except String (String × ShapeStyle) := do
  let id ← getStr j "id"
  pure (id, {
    opacity := some (← getRat j "opacity"), strokeDash := some (← getRat j "strokeDash"), strokeWidth := ← getInt j "strokeWidth",
    fill := ← getStr j "fill", stroke := ← getStr j "stroke", fillPattern := ← getStr j "fillPattern",
    shadow := ← getBool j "shadow", threeDee := ← getBool j "threeDee", multiple := ← getBool j "multiple",
    doubleBorder := ← getBool j "doubleBorder", borderRadius := ← getInt j "borderRadius", color := ← getStr j "color",
    italic := ← getBool j "italic", bold := ← getBool j "bold", underline := ← getBool j "underline",
    fontFamily := ← getStr j "fontFamily", fontSize := ← getInt j "fontSize", animated := ← getBool j "animated",
    iconBorderRadius := ← getInt j "iconBR", blend := ← getBool j "blend" })

def getConnOut (j : Json) : Except String (String × String × String × ConnStyle) := do
  pure (← getStr j "id", ← getStr j "src", ← getStr j "dst", {
    opacity := some (← getRat j "opacity"), strokeDash := some (← getRat j "strokeDash"), strokeWidth := ← getInt j "strokeWidth",
    borderRadius := some (← getRat j "borderRadius"), stroke := ← getStr j "stroke", fill := ← getStr j "fill",
    fontSize := ← getInt j "fontSize", animated := ← getBool j "animated", italic := ← getBool j "italic",
    bold := ← getBool j "bold", underline := ← getBool j "underline", color := ← getStr j "color",
    fontFamily := ← getStr j "fontFamily" })

def tol : Rat := 1 / 1000000000

/-- a float64 observation against an exact decimal: equal within 1e-9; a value the model cannot read (`none`) is not compared -/
def ratNear (model impl : Option Rat) : Bool :=
  match model, impl with
  | some a, some b => decide (a - b ≤ tol ∧ b - a ≤ tol)
  | none, _ => true
  | _, none => false

/-! ### Spec: the property sentence on the observation (uses only `strconv` readers and the object tree) -/

/-- absolute ID from the object tree: IDs of the ancestors (outermost first) and the object, joined by dots -/
def specPath (objs : Array Obj) : Nat → Nat → Option (List String)
  | 0, _ => none
  | fuel + 1, i => do
    let o ← objs[i]?
    match o.parent with
    | none => pure [o.id]
    | some p => do
      let up ← specPath objs fuel p
      pure (up ++ [o.id])

def specAbsID (objs : Array Obj) (i : Nat) : Option String :=
  (specPath objs (objs.size + 1) i).map fun p => ".".intercalate p

/-- ID a connection must name for an end point: the ID of the shape exported for that object; for an end point that
    is not an object of the graph (sequence-diagram lifeline end) the dotted chain of IDs on its parent chain -/
def specEndpoint (objs : Array Obj) (i : Option Nat) (own : List String) (top : String) : Option String :=
  match i with
  | some i => specAbsID objs i
  | none => some (".".intercalate ((if top == "" then [] else [top]) ++ own))

/-- one failing clause of "every style value the user set appears unchanged", or none -/
def userStyleShape (st : Style) (s : ShapeStyle) : Option String :=
  let str (name : String) (u : Option String) (got : String) : Option String :=
    match u with | some v => if got == v then none else some s!"{name}: set {v}, exported {got}" | none => none
  let int (name : String) (u : Option String) (got : Int) : Option String :=
    match u with
    | some v => if atoi v == some got then none else some s!"{name}: set {v}, exported {got}"
    | none => none
  let bool (name : String) (u : Option String) (got : Bool) : Option String :=
    match u with
    | some v => if parseBool v == some got then none else some s!"{name}: set {v}, exported {got}"
    | none => none
  let flt (name : String) (u : Option String) (got : Option Rat) : Option String :=
    match u with
    | some v => if ratNear (parseDecimal v) got then none else some s!"{name}: set {v}, exported {got}"
    | none => none
  [ str "fill" st.fill s.fill, str "stroke" st.stroke s.stroke, str "fill-pattern" st.fillPattern s.fillPattern,
    str "font-color" st.fontColor s.color, str "font" st.font s.fontFamily,
    flt "opacity" st.opacity s.opacity, flt "stroke-dash" st.strokeDash s.strokeDash,
    int "stroke-width" st.strokeWidth s.strokeWidth, int "border-radius" st.borderRadius s.borderRadius,
    int "font-size" st.fontSize s.fontSize,
    bool "shadow" st.shadow s.shadow, bool "3d" st.threeDee s.threeDee, bool "multiple" st.multiple s.multiple,
    bool "double-border" st.doubleBorder s.doubleBorder, bool "italic" st.italic s.italic, bool "bold" st.bold s.bold,
    bool "underline" st.underline s.underline, bool "animated" st.animated s.animated ].findSome? id

def userStyleConn (st : Style) (c : ConnStyle) : Option String :=
  let str (name : String) (u : Option String) (got : String) : Option String :=
    match u with | some v => if got == v then none else some s!"{name}: set {v}, exported {got}" | none => none
  let int (name : String) (u : Option String) (got : Int) : Option String :=
    match u with
    | some v => if atoi v == some got then none else some s!"{name}: set {v}, exported {got}"
    | none => none
  let bool (name : String) (u : Option String) (got : Bool) : Option String :=
    match u with
    | some v => if parseBool v == some got then none else some s!"{name}: set {v}, exported {got}"
    | none => none
  let flt (name : String) (u : Option String) (got : Option Rat) : Option String :=
    match u with
    | some v => if ratNear (parseDecimal v) got then none else some s!"{name}: set {v}, exported {got}"
    | none => none
  [ str "stroke" st.stroke c.stroke, str "fill" st.fill c.fill, str "font-color" st.fontColor c.color,
    str "font" st.font c.fontFamily, flt "opacity" st.opacity c.opacity, flt "stroke-dash" st.strokeDash c.strokeDash,
    flt "border-radius" st.borderRadius c.borderRadius, int "stroke-width" st.strokeWidth c.strokeWidth,
    int "font-size" st.fontSize c.fontSize, bool "animated" st.animated c.animated, bool "italic" st.italic c.italic,
    bool "bold" st.bold c.bold, bool "underline" st.underline c.underline ].findSome? id

/-! ### model vs export -/

def diffShape (m s : ShapeStyle) : Option String :=
  [ (if ratNear m.opacity s.opacity then none else some s!"opacity model {m.opacity} impl {s.opacity}"),
    (if ratNear m.strokeDash s.strokeDash then none else some s!"strokeDash model {m.strokeDash} impl {s.strokeDash}"),
    (if m.strokeWidth == s.strokeWidth then none else some s!"strokeWidth model {m.strokeWidth} impl {s.strokeWidth}"),
    (if m.fill == s.fill then none else some s!"fill model {m.fill} impl {s.fill}"),
    (if m.stroke == s.stroke then none else some s!"stroke model {m.stroke} impl {s.stroke}"),
    (if m.fillPattern == s.fillPattern then none else some s!"fillPattern model {m.fillPattern} impl {s.fillPattern}"),
    (if m.shadow == s.shadow then none else some s!"shadow model {m.shadow} impl {s.shadow}"),
    (if m.threeDee == s.threeDee then none else some s!"3d model {m.threeDee} impl {s.threeDee}"),
    (if m.multiple == s.multiple then none else some s!"multiple model {m.multiple} impl {s.multiple}"),
    (if m.doubleBorder == s.doubleBorder then none else some s!"doubleBorder model {m.doubleBorder} impl {s.doubleBorder}"),
    (if m.borderRadius == s.borderRadius then none else some s!"borderRadius model {m.borderRadius} impl {s.borderRadius}"),
    (if m.color == s.color then none else some s!"color model {m.color} impl {s.color}"),
    (if m.italic == s.italic then none else some s!"italic model {m.italic} impl {s.italic}"),
    (if m.bold == s.bold then none else some s!"bold model {m.bold} impl {s.bold}"),
    (if m.underline == s.underline then none else some s!"underline model {m.underline} impl {s.underline}"),
    (if m.fontFamily == s.fontFamily then none else some s!"fontFamily model {m.fontFamily} impl {s.fontFamily}"),
    (if m.fontSize == s.fontSize then none else some s!"fontSize model {m.fontSize} impl {s.fontSize}"),
    (if m.animated == s.animated then none else some s!"animated model {m.animated} impl {s.animated}"),
    (if m.iconBorderRadius == s.iconBorderRadius then none else some s!"iconBorderRadius model {m.iconBorderRadius} impl {s.iconBorderRadius}"),
    (if m.blend == s.blend then none else some s!"blend model {m.blend} impl {s.blend}") ].findSome? id

def diffConn (m c : ConnStyle) : Option String :=
  [ (if ratNear m.opacity c.opacity then none else some s!"opacity model {m.opacity} impl {c.opacity}"),
    (if ratNear m.strokeDash c.strokeDash then none else some s!"strokeDash model {m.strokeDash} impl {c.strokeDash}"),
    (if ratNear m.borderRadius c.borderRadius then none else some s!"borderRadius model {m.borderRadius} impl {c.borderRadius}"),
    (if m.strokeWidth == c.strokeWidth then none else some s!"strokeWidth model {m.strokeWidth} impl {c.strokeWidth}"),
    (if m.stroke == c.stroke then none else some s!"stroke model {m.stroke} impl {c.stroke}"),
    (if m.fill == c.fill then none else some s!"fill model {m.fill} impl {c.fill}"),
    (if m.fontSize == c.fontSize then none else some s!"fontSize model {m.fontSize} impl {c.fontSize}"),
    (if m.animated == c.animated then none else some s!"animated model {m.animated} impl {c.animated}"),
    (if m.italic == c.italic then none else some s!"italic model {m.italic} impl {c.italic}"),
    (if m.bold == c.bold then none else some s!"bold model {m.bold} impl {c.bold}"),
    (if m.underline == c.underline then none else some s!"underline model {m.underline} impl {c.underline}"),
    (if m.color == c.color then none else some s!"color model {m.color} impl {c.color}"),
    (if m.fontFamily == c.fontFamily then none else some s!"fontFamily model {m.fontFamily} impl {c.fontFamily}") ].findSome? id

def handleBoard (i o : Json) : Except String Verdict := do
  let theme ← getInt i "theme"
  let board ← getStr i "board"
  let hasTheme ← getBool i "hasTheme"
  let objs ← (← getArr i "objects").mapM getObjIn
  let edges ← (← getArr i "edges").mapM getEdgeIn
  let shapes ← (← getArr o "shapes").mapM getShapeOut
  let conns ← (← getArr o "conns").mapM getConnOut
  let ctx := s!"theme={theme} board={board}"
  -- Spec-on-impl: one-to-one ----------------------------------------------------------------------------------
  if shapes.size != objs.size then
    return .specfalse "shape-count" s!"{ctx}: {objs.size} objects, {shapes.size} shapes"
  if conns.size != edges.size then
    return .specfalse "connection-count" s!"{ctx}: {edges.size} edges, {conns.size} connections"
  for k in [0:objs.size] do
    if specAbsID objs k != some shapes[k]!.1 then
      return .specfalse "shape-id" s!"{ctx}: object {k} has absolute ID {specAbsID objs k}, shape {k} has ID {shapes[k]!.1}"
  for k in [0:edges.size] do
    let e := edges[k]!
    let (_, src, dst, _) := conns[k]!
    let ws := specEndpoint objs e.src e.srcPath e.srcTop
    let wd := specEndpoint objs e.dst e.dstPath e.dstTop
    if ws != some src || wd != some dst then
      return .specfalse "connection-endpoints" s!"{ctx}: edge {k} joins {ws} and {wd}, connection has src={src} dst={dst}"
    -- an end point that is an object must be addressed by the chain the object tree gives (harness self-check)
    match e.src with
    | some si => if specPath objs (objs.size + 1) si != some e.srcPath then
        return .mismatch "endpoint-path" s!"{ctx}: edge {k} src chain {e.srcPath} vs object tree {specPath objs (objs.size + 1) si}"
    | none => pure ()
    match e.dst with
    | some di => if specPath objs (objs.size + 1) di != some e.dstPath then
        return .mismatch "endpoint-path" s!"{ctx}: edge {k} dst chain {e.dstPath} vs object tree {specPath objs (objs.size + 1) di}"
    | none => pure ()
  -- Spec-on-impl: user styles present -------------------------------------------------------------------------
  for k in [0:objs.size] do
    match userStyleShape objs[k]!.style shapes[k]!.2 with
    | some why => return .specfalse "user-style-shape" s!"{ctx}: shape {shapes[k]!.1} (shape={objs[k]!.shape}): {why}"
    | none => pure ()
  for k in [0:edges.size] do
    let (id, _, _, cs) := conns[k]!
    match userStyleConn edges[k]!.style cs with
    | some why => return .specfalse "user-style-connection" s!"{ctx}: connection {id}: {why}"
    | none => pure ()
  -- model vs implementation -----------------------------------------------------------------------------------
  let rules : Option D2V.Themes.Rules ←
    if !hasTheme then pure none else
    match D2V.Gen.Themes.findSearch.find? (fun t => t.id == theme) with
    | some t => pure (some t.rules)
    | none => throw s!"theme {theme} not in the regenerated catalog"
  let g : Graph := { objects := objs, edges := edges }
  for k in [0:objs.size] do
    let ob := objs[k]!
    if !ob.headerConsistent then
      return .mismatch "header-consistent" s!"{ctx}: object {k} shape={ob.shape} class={ob.hasClass} table={ob.hasTable}"
    let m := toShape rules g k ob
    if m.id != some shapes[k]!.1 then
      return .mismatch "absID" s!"{ctx}: object {k}: model {m.id} impl {shapes[k]!.1}"
    match diffShape m.style shapes[k]!.2 with
    | some d => return .mismatch s!"toShape:{(d.splitOn " ").head!}" s!"{ctx}: shape {shapes[k]!.1} (shape={ob.shape} level={ob.level} children={ob.nChildren}): {d}"
    | none => pure ()
  for k in [0:edges.size] do
    let (id, src, dst, cs) := conns[k]!
    let m := toConnection rules g edges[k]!
    if m.id != some id || m.src != some src || m.dst != some dst then
      return .mismatch "edge-ids" s!"{ctx}: edge {k}: model {m.id} {m.src} {m.dst} impl {id} {src} {dst}"
    match diffConn m.style cs with
    | some d => return .mismatch s!"toConnection:{(d.splitOn " ").head!}" s!"{ctx}: connection {id}: {d}"
    | none => pure ()
  return .ok

def handleC28 (j : Json) : Except String Verdict := do
  let k ← getStr j "k"
  let i ← getObj j "in"
  let o ← getObj j "out"
  match k with
  | "board" => handleBoard i o
  | "error" =>
    let e ← getStr o "err"
    return .specfalse "export-panic" s!"theme={← getInt i "theme"}: {e}"
  | _ => throw s!"unknown kind {k}"

/-- a verdict is one line: user-derived text (error messages, labels) may carry line breaks -/
def oneLine (s : String) : String := s.map fun c => if c == '\n' || c == '\r' then ' ' else c

def cleanVerdict : Verdict → Verdict
  | .mismatch s d => .mismatch (oneLine s) (oneLine d)
  | .specfalse s d => .specfalse (oneLine s) (oneLine d)
  | .bad w => .bad (oneLine w)
  | v => v

def main : IO Unit := runDriver fun j =>
  match handleC28 j with
  | .ok v => .ok (cleanVerdict v)
  | .error e => .error (oneLine e)
