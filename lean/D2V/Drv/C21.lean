import D2V.Drv.Common
import D2V.Model.Sizing
open Lean D2V.Drv D2V.Shape D2V.Sizing

namespace C21

def absR (a : Rat) : Rat := if a < 0 then -a else a
def close (a b : Rat) : Bool := decide (absR (a - b) ≤ (1 + absR a) / 1000000)

def intRat (j : Json) (k : String) : Except String Rat := do
  let n ← getInt j k
  pure (n : Rat)

def parseIn (o : Json) : Except String (In × String) := do
  let content : Option (Rat × Rat) ←
    match o.getObjVal? "content" with
    | .ok (.arr #[a, b]) => do pure (some (← ratOfJson a, ← ratOfJson b))
    | _ => pure none
  let dsl ← getStr o "dsl"
  let typ ← getStr o "typ"
  pure ({ dsl := Dsl.ofString dsl, tc := TC.ofType typ, kind := Kind.ofType typ, labelEmpty := ← getBool o "label_empty",
          lw := ← intRat o "lw", lh := ← intRat o "lh", dw := ← intRat o "dw", dh := ← intRat o "dh",
          hasIcon := ← getBool o "has_icon", linkTooltip := ← getBool o "link_tooltip", fontSize := ← intRat o "font_size",
          contentShape := ← getBool o "content_shape", padX := ← getRat o "pad_x", padY := ← getRat o "pad_y",
          content := content }, dsl)

/-- shapes whose label is not drawn in the shape's text area: no label box (text, code, class, sql_table draw their
    content themselves) or label below the shape (image, person) -/
def labelInside (i : In) : Bool :=
  !i.labelEmpty && !(i.dsl == .text || i.dsl == .code || i.dsl == .cls || i.dsl == .sqlTable || i.dsl == .image || i.tc == .person)

def handle (j : Json) : Except String Verdict := do
  let kind ← getStr j "k"
  let ij ← getObj j "in"
  let o ← getObj j "out"
  if let .ok e := getStr o "err" then
    return .skip ("pipeline error " ++ String.ofList ((e.toList.take 60).map fun c => if c == '\n' then ' ' else c))
  let (i, dsl) ← parseIn (← getObj ij "obj")
  let id ← getStr (← getObj ij "obj") "id"
  let W ← getRat o "w"
  let H ← getRat o "h"
  let lp ← getStr o "lp"
  let (iw, ih) ← match ← getRats o "inner" with
    | [_, _, c, d] => pure (c, d)
    | _ => throw "inner"
  let desc := s!"{id} shape={dsl} label {i.lw}x{i.lh} width={i.dw} height={i.dh} icon={i.hasIcon}: size {W}x{H}"
  let contentish := i.contentShape || i.dsl == .cls || i.dsl == .sqlTable || i.dsl == .code
  -- Spec-on-impl: the property sentence, clause by clause
  if i.dw != 0 && i.dh != 0 then
    if contentish then
      -- tables, classes and code never shrink below their content (and never below the explicit size)
      if !decide (i.dw ≤ W + 1 / 1000000 ∧ i.dh ≤ H + 1 / 1000000) then
        return .specfalse "explicit-size-not-reached" desc
    else if isAR1 i then
      if !(close W (max i.dw i.dh) && close H (max i.dw i.dh)) then
        return .specfalse "square-or-circle-not-max" desc
    else if !(close W i.dw && close H i.dh) then
      return .specfalse "explicit-size-not-honoured" desc
  if contentish then
    match defaultDims i (withPad i) with
    | some (cw, ch) =>
      if !decide (cw ≤ W + 1 / 1000000 ∧ ch ≤ H + 1 / 1000000) then
        return .specfalse "content-shape-shrunk" s!"{desc}, content {cw}x{ch}"
    | none => pure ()
  if i.dw == 0 && i.dh == 0 && labelInside i && !(lp.startsWith "OUTSIDE" || lp.startsWith "BORDER") then
    -- automatic size: the label fits in the text area lib/shape reports for the chosen size
    if !decide (i.lw ≤ iw + 1 / 1000000 ∧ i.lh ≤ ih + 1 / 1000000) then
      return .specfalse s!"label-does-not-fit:{dsl}" s!"{desc}, inner box {iw}x{ih}"
  -- model vs implementation (sizes right after SetDimensions)
  match sizeOfObj i with
  | some (mw, mh) =>
    if kind == "unit" && !(close mw W && close mh H) then
      return .mismatch "size" s!"{desc}, model {mw}x{mh}"
  | none => pure ()
  return .ok

end C21

def main : IO Unit := runDriver C21.handle
