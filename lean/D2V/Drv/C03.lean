import D2V.Drv.Common
import D2V.Drv.FmtJson
import D2V.Model.Fmt
open Lean D2V.Drv D2V.Fmt D2V.Drv.FmtJson

/-!
C03 driver.  One `fmt` case = one source text with what the real code did:
  f1 = Format(Parse s), p2err = error of Parse f1, f2 = Format(Parse f1), ast/ast2 = fragment ASTs of Parse s / Parse f1.

Spec-on-impl (whole language): Parse f1 has no error ∧ f2 = f1 byte for byte  — evaluated here on the bytes.
Model-vs-impl (fragment): fmtFile ast = f1, normFile ast = ast2 (layout included), fmtFile ast2 = f2.

Signature of a violation: `idem/<cause>[+model]`.  When the first difference of the two passes lies strictly inside a
block string / value string / comment / import / key string the cause says so (`in-block-string`, …: never a listed
finding); otherwise (layout level) <cause> is the first failing clause of the model's `stableFile` (fragment) or of the
harness' AST features (outside the fragment); `+model` is appended when the model itself
disagrees with the implementation on that case, so that a known-finding entry keyed to `idem/<cause>` never hides
a modelling error.
-/

def featCause (o : Json) : String :=
  if hasFeat o "af1" "array:one-line-text-multi-range" || hasFeat o "af" "array:one-line-text-multi-range" then "array-eol"
  else if hasFeat o "af" "filemap:one-line" then "filemap-one-line"
  else if hasFeat o "af" "boards:key-case" then "boards-key-case"
  else if hasFeat o "af" "boards:dropped" || hasFeat o "af" "map:all-nodes-dropped" then "boards-dropped"
  else if hasFeat o "af" "boards:in-one-line-map" then "boards-in-one-line-map"
  else if hasFeat o "af" "boards:not-last" then "boards-not-last"
  else if hasFeat o "af" "boards:comment-after-board" then "boards-comment-after"
  else if hasFeat o "af" "text:backslash-crlf" then "backslash-crlf"
  else if hasFeat o "af" "text:crlf-block-string" then "crlf-block-string"
  else "unexplained"

/-- model checks on one fragment case; `none` = agreement -/
def modelCheck (o : Json) (f1 : List UInt8) (f2? : Option (List UInt8)) : Except String (Option (String × String)) := do
  match o.getObjVal? "ast" with
  | .error _ => pure none
  | .ok ja =>
    let a ← nodeOf ja
    let m1 := utf8 (fmtFile a)
    if m1 != f1 then
      return some ("fmt-model", diffDetail "fmtFile(ast) vs Format(Parse s)" m1 f1)
    match o.getObjVal? "ast2" with
    | .error _ =>
      if f2?.isSome then return some ("frag-closure", "Parse(Format …) left the fragment although the input was inside")
      else return none
    | .ok ja2 =>
      let a2 ← nodeOf ja2
      let n := normFile a
      let arrLoose := D2V.Gen.FmtKw.arrayEndFromReaderPos
      -- `l0` is positional: compared only where the model claims a fixpoint
      if !eqN (!stableFile a) arrLoose n a2 then
        return some ("norm-model", s!"normFile(ast) ≠ ast of Parse(Format(Parse s)); model re-print {showBytes (utf8 (fmtFile n))}")
      match f2? with
      | some f2 =>
        let m2 := utf8 (fmtFile a2)
        if m2 != f2 then
          return some ("fmt-model2", diffDetail "fmtFile(ast2) vs Format(Parse f1)" m2 f2)
        return none
      | none => return none

def handleC03 (j : Json) : Except String Verdict := do
  let k ← getStr j "k"
  if k != "fmt" then return .bad s!"unknown kind {k}"
  let i ← getObj j "in"
  let o ← getObj j "out"
  let src ← getBytes i "src"
  match getStr o "perr" with
  | .ok _ => return .ok          -- not in the property's domain (input does not parse)
  | .error _ => pure ()
  let f1 ← getBytes o "f1"
  let f2? : Option (List UInt8) := (getBytes o "f2").toOption
  let model ← modelCheck o f1 f2?
  let modelTag := match model with | some _ => "+model" | none => ""
  let layoutCause : String := match o.getObjVal? "ast" with
    | .ok ja => match nodeOf ja with
        | .ok a => match whyV true a with
            | some w => w
            | none => featCause o
        | .error _ => featCause o
    | .error _ => featCause o
  -- where the two passes first differ (harness: innermost node of Parse(f1) strictly containing the first differing
  -- byte).  The listed findings are layout-level, or CRLF inside a block string / key; a difference inside a string,
  -- block string, comment or import gets its own signature, whatever else the input contains.
  let cause : String := match (getStr o "dat").toOption.getD "" with
    | "block-string" => if hasFeat o "af" "text:crlf-block-string" then "crlf-block-string" else "in-block-string"
    | "value-string" => "in-value-string"
    | "comment" => "in-comment"
    | "import" => "in-import"
    | "key-string" => if hasFeat o "af" "text:backslash-crlf" then "backslash-crlf" else "in-key-string"
    | _ => layoutCause
  match getStr o "p2err" with
  | .ok e =>
    return .specfalse s!"reparse-error/{cause}{modelTag}" s!"Parse(Format(Parse s)) fails: {e}; s={showBytes src}; formatted={showBytes f1}"
  | .error _ => pure ()
  match f2? with
  | none => return .bad "no f2 and no p2err"
  | some f2 =>
    if f1 != f2 then
      return .specfalse s!"idem/{cause}{modelTag}" (diffDetail "Format(Parse(Format(Parse s))) ≠ Format(Parse s)" f2 f1 ++ s!"; s={showBytes (src.take 400)}")
    match model with
    | some (sig, d) => return .mismatch sig (d ++ s!"; s={showBytes (src.take 400)}")
    | none => return .ok

def main : IO Unit := runDriver handleC03
