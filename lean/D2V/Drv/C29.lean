import D2V.Drv.Common
import D2V.Model.BBox
open Lean D2V.Drv D2V.BBox

/-! Driver of C29: (i) the property on the real outputs — every drawn extent (Spec, from the drawing code) inside the
    box `Diagram.BoundingBox` reported, and the SVG viewBox containing that box plus the padding; (ii) the model of
    `BoundingBox` and of the viewport arithmetic against the real values. -/

def ratAt (a : Array Json) (i : Nat) : Except String Rat :=
  match a[i]? with
  | some x => ratOfJson x
  | none => throw "short array"

def getBox (j : Json) (k : String) : Except String Box := do
  let a ← getArr j k
  pure ⟨← ratAt a 0, ← ratAt a 1, ← ratAt a 2, ← ratAt a 3⟩

def optObj (j : Json) (k : String) : Option Json :=
  match j.getObjVal? k with
  | .ok (.null) => none
  | .ok v => some v
  | .error _ => none

def getShape (j : Json) : Except String Shape := do
  let icon ← match optObj j "icon" with
    | some ic => do pure (some (← getStr ic "pos"))
    | none => pure none
  let label ← match optObj j "label" with
    | some l => do pure (some { pos := ← getStr l "pos", w := ← getInt l "w", h := ← getInt l "h" : Label })
    | none => pure none
  pure {
    id := ← getStr j "id", type := ← getStr j "type", x := ← getInt j "x", y := ← getInt j "y", w := ← getInt j "w",
    h := ← getInt j "h", sw := ← getInt j "sw", shadow := ← getBool j "shadow", threeDee := ← getBool j "threeDee",
    multiple := ← getBool j "multiple", badge := ← getBool j "badge", tipPos := ← getBool j "tipPos",
    visible := ← getBool j "visible", image := ← getBool j "image", inner := ← getBox j "inner",
    innerBB := ← getBox j "innerBB", icon := icon, label := label }

def getAnchored (j : Json) (k : String) : Except String (Option AnchoredLabel) :=
  match optObj j k with
  | some l => do
    let tl ← getArr l "tl"
    pure (some { tx := ← ratAt tl 0, ty := ← ratAt tl 1, w := ← getInt l "w", h := ← getInt l "h" })
  | none => pure none

def getConn (j : Json) : Except String Conn := do
  let r ← getArr j "route"
  let pts ← r.toList.mapM fun p => do
    match p with
    | .arr a => pure (← ratAt a 0, ← ratAt a 1)
    | _ => throw "route point"
  pure { id := ← getStr j "id", sw := ← getInt j "sw", route := pts, label := ← getAnchored j "label",
         srcLabel := ← getAnchored j "srcLabel", dstLabel := ← getAnchored j "dstLabel" }

def getInts (j : Json) (k : String) : Except String (List Int) := do
  let a ← getArr j k
  a.toList.mapM fun x => x.getInt?

def showR (r : Rat) : String :=
  if r.den == 1 then toString r.num else s!"{r.num}/{r.den}"

def showRBox (b : RBox) : String := s!"[{showR b.x1},{showR b.y1} .. {showR b.x2},{showR b.y2}]"
def showIBox (b : IBox) : String := s!"[{b.x1},{b.y1} .. {b.x2},{b.y2}]"

/-- flags of the shape an extent belongs to, for the signature -/
def shapeFlags (s : Shape) : String :=
  (if s.multiple then "+multiple" else "") ++ (if s.threeDee then "+3d" else "")

def handleBoard (i o : Json) : Except String Verdict := do
  let pad ← getInt i "pad"
  let shapes ← (← getArr o "shapes").toList.mapM getShape
  let conns ← (← getArr o "conns").toList.mapM getConn
  let bbl ← getInts o "bbox"
  let bb : IBox ← match bbl with
    | [a, b, c, d] => pure ⟨a, b, c, d⟩
    | _ => throw "bbox"
  let vbl ← getInts o "viewBox"
  let wh ← getInts o "svgWH"
  let outer ← getInts o "outer"
  let rootSW ← getInt o "rootSW"
  let rootDouble ← getBool o "rootDouble"
  let legend ← getBool o "legend"
  let d : Diagram := { shapes := shapes, conns := conns }
  -- Spec-on-impl: extents ⊆ reported box --------------------------------------------------------------------------
  if !shapes.isEmpty then
    for s in shapes do
      for e in shapeExtents s do
        if !enclosed slack bb e.box then
          let flags := if e.what == "outside-label" || e.what == "border-label" then shapeFlags s else ""
          return .specfalse s!"extent-outside-bbox:{e.what}{flags}" s!"shape {s.id} (type={s.type} sw={s.sw} label={s.label.map (·.pos)} icon={s.icon}): drawn {e.what} {showRBox e.box} is outside the reported box {showIBox bb}"
    for c in conns do
      for e in connExtents c do
        if !enclosed slack bb e.box then
          return .specfalse s!"extent-outside-bbox:{e.what}" s!"connection {c.id} (sw={c.sw}): drawn {e.what} {showRBox e.box} is outside the reported box {showIBox bb}"
  -- Spec-on-impl: viewport ----------------------------------------------------------------------------------------
  let vb : ViewBox ← match vbl with
    | [a, b, c, e] => pure ⟨a, b, c, e⟩
    | _ => return .specfalse "no-viewbox" "the rendered SVG has no <svg … viewBox> header"
  if !viewportContains vb bb pad then
    return .specfalse "viewport" s!"viewBox {vbl} does not contain the reported box {showIBox bb} plus padding {pad}"
  if wh != [vb.w, vb.h] || outer != [vb.w, vb.h] then
    return .specfalse "viewport-size" s!"svg width/height {wh} and outer viewBox 0 0 {outer} differ from the inner viewBox size {vb.w} {vb.h}"
  -- model vs implementation ---------------------------------------------------------------------------------------
  let m := boundingBox Cfg.current d
  let anyTip := shapes.any fun s => s.badge && s.tipPos
  if anyTip then
    -- positioned tooltip bounds are not available to the model: the real box may only be larger
    if !(decide (bb.x1 ≤ m.x1 ∧ bb.y1 ≤ m.y1 ∧ m.x2 ≤ bb.x2 ∧ m.y2 ≤ bb.y2)) then
      return .mismatch "bbox-with-tooltip" s!"model (without positioned tooltips) {showIBox m} is not inside impl {showIBox bb}"
  else if m != bb then
    return .mismatch "bbox" s!"model {showIBox m} impl {showIBox bb}"
  if !legend then
    let mv := viewBox bb pad rootSW rootDouble
    if mv != vb then
      return .mismatch "viewBox" s!"model {mv.left} {mv.top} {mv.w} {mv.h} impl {vbl} (bbox {showIBox bb} pad {pad} rootSW {rootSW} double {rootDouble})"
  return .ok

def handleC29 (j : Json) : Except String Verdict := do
  let k ← getStr j "k"
  let i ← getObj j "in"
  let o ← getObj j "out"
  match k with
  | "board" => handleBoard i o
  | "nonfinite" =>
    let w ← getStr o "where"
    let bb ← getInts o "bbox"
    let vb ← getInts o "viewBox"
    return .specfalse "non-finite-geometry" s!"a coordinate of the laid-out board is NaN/Inf ({w}); reported box {bb}, viewBox {vb}"
  | _ => throw s!"unknown kind {k}"

/-- a verdict is one line: user-derived text (error messages, labels) may carry line breaks -/
def oneLine (s : String) : String := s.map fun c => if c == '\n' || c == '\r' then ' ' else c

def cleanVerdict : Verdict → Verdict
  | .mismatch s d => .mismatch (oneLine s) (oneLine d)
  | .specfalse s d => .specfalse (oneLine s) (oneLine d)
  | .bad w => .bad (oneLine w)
  | v => v

def main : IO Unit := runDriver fun j =>
  match handleC29 j with
  | .ok v => .ok (cleanVerdict v)
  | .error e => .error (oneLine e)
