import D2V.Drv.Common
import D2V.Model.WatchMon
open Lean D2V.Drv D2V.Watch

/-! Shared by the C44 and C45 drivers: decode a recorded session, validate the trace against `D2V.Watch.step`,
    and evaluate the Spec predicates on the raw observation (trace order + what the clients received). -/
namespace D2V.WatchDrv

instance : Inhabited State := ⟨init⟩

structure RawEv where
  k : String
  c : Int
  v : Int
  ok : Bool
  live : List Int := []
  last : List (Int × Int) := []
  why : String := ""

def parseEv (j : Json) : Except String RawEv := do
  let k ← getStr j "k"
  let c ← getInt j "c"
  let v ← getInt j "v"
  let ok ← getBool j "ok"
  let live : List Int := match getArr j "live" with
    | .ok a => a.toList.filterMap fun x => x.getInt?.toOption
    | .error _ => []
  let last : List (Int × Int) := match getObj j "last" with
    | .ok (.obj kvs) => kvs.toList.filterMap fun (key, val) =>
        match key.toInt?, val.getInt?.toOption with
        | some a, some b => some (a, b)
        | _, _ => none
    | _ => []
  let why := (getStr j "why").toOption.getD ""
  return { k, c, v, ok, live, last, why }

structure Session where
  evs : List RawEv
  recv : List (Int × List Int)
  runErr : String

def parseSession (o : Json) : Except String Session := do
  let tr ← getArr o "trace"
  let evs ← tr.toList.mapM parseEv
  let recv : List (Int × List Int) := match getObj o "recv" with
    | .ok (.obj kvs) => kvs.toList.filterMap fun (key, val) =>
        match key.toInt?, val.getArr?.toOption with
        | some a, some arr => some (a, arr.toList.filterMap fun x => x.getInt?.toOption)
        | _, _ => none
    | _ => []
  let runErr := (getStr o "runErr").toOption.getD ""
  return { evs, recv, runErr }

def showEv (e : RawEv) : String :=
  e.k ++ (if e.c ≥ 0 then s!"#{e.c}" else if e.c = -2 then "#?" else "") ++ (if e.v ≥ 0 then s!"@{e.v}" else "")
    ++ (if e.ok then "" else "!")

def window (evs : List RawEv) (i : Nat) : String :=
  let lo := i - 12
  " ".intercalate (((evs.drop lo).take (i + 3 - lo)).map showEv)

def showState (s : State) : String :=
  s!"file={s.file} dirty={s.dirty} req={s.reqPending} ch={s.compileCh} comp={repr s.comp} res={s.res} closing={s.closing} cancelled={s.cancelled} wg={s.wg} close={repr s.close} clients={s.clients.map fun c => (repr c.pc, c.ch, c.sent, c.dropped)}"

/-- harness client id → model index (order of admission/refusal events) -/
def lookupIdx (m : List (Int × Nat)) (k : Int) : Option Nat := (m.find? (·.1 == k)).map (·.2)

inductive VRes where
  | ok (final : List State) (idx : List (Int × Nat))
  | fail (sig detail : String)

/-- validate the whole trace; `quiesce` events filter the state set to quiescent states -/
def validateSession (evs : List RawEv) (cap : Nat := 3000) : VRes := Id.run do
  let mut ss : List State := [init]
  let mut idx : List (Int × Nat) := []
  let mut n := 0
  let mut i := 0
  for e in evs do
    if e.k == "quiesce" then
      if e.ok then
        let q := ss.filter quiescent
        if q.isEmpty then
          return .fail "model-not-quiescent" s!"event {i}: the real server is idle but every model state consistent with the trace still has an internal step enabled; e.g. {showState ss.head!} :: {window evs i}"
        ss := q
      i := i + 1
      continue
    if e.k == "accepted" then
      -- websocket.Accept succeeded; not a step of the model (the handler goroutine starts next)
      i := i + 1
      continue
    if e.c == -2 then
      return .fail "unknown-client" s!"event {i} {showEv e}: step of a client that never registered :: {window evs i}"
    let mut c := 0
    if e.k == "admitted" || e.k == "refuse" then
      idx := idx ++ [(e.c, n)]
      n := n + 1
    else if e.c ≥ 0 then
      match lookupIdx idx e.c with
      | some k => c := k
      | none => return .fail "unknown-client" s!"event {i} {showEv e}: client was never admitted :: {window evs i}"
    let ev : Ev := { k := e.k, c := c, v := if e.v ≥ 0 then some e.v.toNat else none, ok := e.ok }
    let ss' := advance ss ev
    if ss'.isEmpty then
      return .fail s!"trace:{e.k}" s!"event {i} {showEv e} is not a step of the model from any state consistent with the trace so far; e.g. {showState ss.head!} :: {window evs i}"
    if ss'.length > cap then
      return .fail "ambiguous" s!"event {i}: more than {cap} candidate states"
    ss := ss'
    i := i + 1
  return .ok ss idx

def nondecreasing : List Int → Bool
  | a :: b :: r => a ≤ b && nondecreasing (b :: r)
  | _ => true

def isPrefix : List Int → List Int → Bool
  | [], _ => true
  | _, [] => false
  | a :: r, b :: t => a == b && isPrefix r t

end D2V.WatchDrv
