import D2V.Drv.Common
import D2V.Model.Near
open Lean D2V.Drv D2V.Near

def optStr (j : Json) (k : String) : Except String (Option String) :=
  match j.getObjVal? k with
  | .ok .null => pure none
  | .ok (.str s) => pure (some s)
  | .ok _ => throw s!"field {k}: not a string or null"
  | .error _ => pure none

def rat4 (j : Json) (k : String) : Except String Box := do
  match ← getRats j k with
  | [x, y, w, h] => pure ⟨x, y, w, h⟩
  | _ => throw s!"field {k}: not 4 numbers"

def natRat (j : Json) (k : String) : Except String Rat := do
  let n ← getInt j k
  pure (n : Rat)

def parseMain (j : Json) : Except String MainObj := do
  pure { box := ← rat4 j "b", hasLabel := ← getBool j "hl", labelPos := ← optStr j "lp",
         lw := ← natRat j "lw", lh := ← natRat j "lh" }

def parseNear (j : Json) : Except String NearObj := do
  let ks ← getStr j "key"
  let some k := Key.ofName ks | throw s!"unknown near key {ks}"
  pure { id := ← getNat j "id", key := k, w := ← getRat j "w", h := ← getRat j "h", labelPos := ← optStr j "lp",
         lw := ← natRat j "lw", lh := ← natRat j "lh" }

def pair (x : Json) : Except String (Rat × Rat) := do
  match x with
  | .arr #[a, b] => pure (← ratOfJson a, ← ratOfJson b)
  | _ => throw "not a pair"

/-- float64 vs exact arithmetic: relative 1e-6 (any real placement error is ≥ 1 px) -/
def close (a b : Rat) : Bool :=
  let t : Rat := (1 + (if a < 0 then -a else a)) / 1000000
  decide (a - b ≤ t ∧ b - a ≤ t)

def tol : Rat := 1 / 1000

def showBox (b : Box) : String := s!"[x={b.x} y={b.y} w={b.w} h={b.h}]"
def showBB (b : BB) : String := s!"[x1={b.x1} y1={b.y1} x2={b.x2} y2={b.y2}]"

def handleC24 (j : Json) : Except String Verdict := do
  let i ← getObj j "in"
  let o ← getObj j "out"
  if let .ok e := getStr o "err" then
    -- the pipeline refused the program (compile error): no geometry to judge
    return .skip ("pipeline error " ++ String.ofList ((e.toList.take 60).map fun c => if c == '\n' then ' ' else c))
  let outcome ← getStr o "outcome"
  if outcome != "ok" then
    return .specfalse "near-layout-panics" outcome
  let main ← (← getArr i "main").toList.mapM parseMain
  let pts ← (← getArr i "pts").toList.mapM pair
  let nears ← (← getArr i "nears").toList.mapM parseNear
  let pos ← (← getArr o "pos").toList.mapM pair
  if pos.length != nears.length then throw "pos/nears length"
  -- the enum names are the strings the Go switch uses
  for k in Key.all do
    if Key.ofName k.name != some k then throw "key table"
  let mb := mainBox main pts
  -- Spec-on-impl: the property sentence on what the real code returned
  for (n, p) in nears.zip pos do
    let b : Box := ⟨p.1, p.2, n.w, n.h⟩
    if !decide (outsideOn n.key mb b (-tol)) then
      return .specfalse s!"not-outside:{n.key.name}" s!"near #{n.id} {n.key.name} box {showBox b} vs main box {showBB mb}"
    if !decide (centeredOn n.key mb b tol) then
      return .specfalse s!"not-centered:{n.key.name}" s!"near #{n.id} {n.key.name} box {showBox b} vs main box {showBB mb}"
  if let .ok false := getBool o "children_moved_along" then
    return .specfalse "children-left-behind" "descendants of a near container did not move with it"
  -- model vs implementation
  let placed := layout main pts nears
  for (n, p) in nears.zip pos do
    match placed.find? (fun q => q.obj.id == n.id) with
    | none => return .mismatch "not-placed" s!"model did not place near #{n.id}"
    | some q =>
      if !(close q.x p.1 && close q.y p.2) then
        return .mismatch s!"position:{n.key.name}" s!"near #{n.id} {n.key.name}: model ({q.x}, {q.y}) vs impl ({p.1}, {p.2})"
  return .ok

def main : IO Unit := runDriver handleC24
