import D2V.Drv.EditIO
open D2V.Drv D2V.EditIO

/-- C36 driver: the shared editing-API step decoder and clause evaluator, restricted to the clauses of C36 -/
def main : IO Unit := runDriver (handleEdit "C36")
