import D2V.Drv.ParserLib
open Lean D2V.Drv D2V.Text

/-- the text a range covers, cut out of the rune stream by the offsets the parser counts -/
def sliceRunes (cs : List Char) (u16 : Bool) (a b : Int) : Option (List Char) :=
  let rec go : List Char → Int → Bool → List Char → Option (List Char)
    | [], off, started, acc =>
      if (started || off == a) && off == b then some acc.reverse else none
    | c :: rest, off, started, acc =>
      if !started then
        if off == a then
          if off == b then some []
          else go rest (off + runeSize u16 c) true [c]
        else if off > a then none
        else go rest (off + runeSize u16 c) false acc
      else
        if off == b then some acc.reverse
        else if off > b then none
        else go rest (off + runeSize u16 c) true (c :: acc)
  go cs 0 false []

def sigOf (v : Violation) : String := s!"{v.clause}:{v.kind}"

/-- the first non-space rune at or after offset `b` in the source -/
def runeAt (cs : List Char) (u16 : Bool) (b : Int) : Option Char :=
  let rec go : List Char → Int → Option Char
    | [], _ => none
    | c :: rest, off =>
      if off > b || (off == b && !isSpace c) then (if off ≥ b && !isSpace c then some c else if isSpace c then go rest (off + runeSize u16 c) else none)
      else go rest (off + runeSize u16 c)
  go cs 0

/-- why an unquoted segment's range stops short: the three paths of parseUnquotedString that consume runes
    without moving `lastNonSpace` (an escape, a dash before a terminator, a substitution) -/
def segCause (kind : String) (text : List Char) (next : Option Char) (val : String) : String :=
  if kind != "uq" then kind
  else if (text.reverse.takeWhile (· = '\\')).length % 2 == 1 then "uq-trailing-escape"
  else if next == some '-' && val.endsWith "2d" then "uq-trailing-dash"
  else "uq"

/-- C02 driver.  Spec-on-impl: `rangesOk` on the tree and error list the real parser returned, against the
    positions of the *measured* input (real byte extents / UTF-16 units), and `segReparses` for every key path
    segment.  Model-vs-impl: the full tree including every range, and every error range. -/
def handleC02 (j : Json) : Except String Verdict := do
  let c ← readCase j
  if c.outcome != "ok" then return .ok     -- panics / timeouts are C01's verdicts
  let isFile := c.ep == "file"
  let (runes, u16) := if isFile then entryRunes c.src c.u16 else (runesOf c.src, false)
  let bom := match c.src with | 0xFF :: 0xFE :: _ => isFile | _ => false
  let sized : List (Char × Nat) := if bom then runes.map fun r => (r, 0) else decodeRunes c.src
  let tblTrue := truePositions sized u16
  let srcHex := hex (c.src.take 300)
  let goErrs ← jsonErrs ((c.out.getObjVal? "errs").toOption.getD (.arr #[]))
  let goTree : Option T ← match c.out.getObjVal? "ast" with
    | .ok .null => pure none
    | .ok a => do let t ← jsonToT a; pure (some t)
    | .error _ => pure none
  let mm : Option (String × String) := match compareModel c true with
    | .mismatch sig d => some (sig, d)
    | _ => none
  -- a line gets one verdict: the Spec's when it fails (so a concrete failing input is reported); a simultaneous
  -- model mismatch is kept visible in the signature
  let specfalse (sig detail : String) : Verdict := match mm with
    | some (msig, md) => .specfalse (sig ++ "+model-mismatch") s!"{detail} ALSO mismatch {msig}: {md}"
    | none => .specfalse sig detail
  match rangeViolations tblTrue goTree goErrs with
  | v :: _ =>
    -- the same ranges against the positions as the parser counts them: passes ⇒ the only thing wrong is the
    -- 3-for-1 count of invalid UTF-8 bytes
    let counted := rangeViolations (countedPositions runes u16) goTree goErrs
    if counted.isEmpty && !u16 && !validUTF8 c.src then
      return specfalse "invalid-utf8-offsets" s!"{sigOf v} {v.detail} ep={c.ep} src={srcHex}"
    else
      let w := counted.head?.getD v
      return specfalse (sigOf w) s!"{w.detail} ep={c.ep} u16={c.u16} src={srcHex}"
  | [] =>
    -- segReparses
    let segs := match c.out.getObjVal? "segs" with | .ok (.arr xs) => xs.toList | _ => []
    for s in segs do
      let rs ← getStr s "r"
      let val ← getStr s "val"
      let cut ← getBool s "cut"
      let some r := parseRangeS rs | throw s!"bad segment range {rs}"
      -- a segment the parser itself reported an error on (unterminated quote, over-long key …) is exempt
      if goErrs.any (fun e => e.start.byte ≤ r.stop.byte && r.start.byte ≤ e.stop.byte) then continue
      match sliceRunes runes u16 r.start.byte r.stop.byte with
      | none =>
        return specfalse "seg:cut" s!"segment range {rs} does not fall on rune boundaries src={srcHex}"
      | some text =>
        if !cut then throw s!"harness could not cut {rs} but the driver could"
        let ht ← getBytes s "text"
        if ht != utf8Bytes text then throw s!"harness cut {hex ht} vs driver {hex (utf8Bytes text)} for {rs}"
        let re ← getStr s "re"
        let kind ← getStr s "kind"
        let cause := segCause kind text (runeAt runes u16 r.stop.byte) val
        if re != "ok" then
          return specfalse s!"seg:{cause}:{re}" s!"text {hex ht} under segment {rs} (value {val}) re-parses as {re} src={srcHex}"
        let reval ← getStr s "reval"
        -- a block string's value depends on the nesting depth it is read at (implicit indent), not on its range
        if reval != val && kind != "bs" then
          return specfalse s!"seg:{cause}:value" s!"text {hex ht} under segment {rs}: value {val} re-parses to {reval} src={srcHex}"
    return match mm with
      | some (sig, d) => .mismatch sig d
      | none => .ok

def main : IO Unit := runDriver fun j => match handleC02 j with
  | .ok v => .ok (sanitize v)
  | .error e => .error (oneLine e)
