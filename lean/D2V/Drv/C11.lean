import D2V.Drv.SemIO
open Lean D2V.Drv D2V.SemIO D2V.Sem D2V.SemSpec

def obsOf (o : Json) (k : String) : Except String Obs := do decodeObs (← getObj o k)

def isIdxMissing : Obs → Bool
  | .errors cls _ => cls == ["idx-missing"]
  | _ => false

/-- differential programs: an indexed reference to an existing / missing index appended to a compiling program -/
def handleIdx (i o : Json) : Except String Verdict := do
  let esrc ← getStr i "esrc"
  let edst ← getStr i "edst"
  let sa ← getBool i "sa"
  let da ← getBool i "da"
  let idx ← getNat i "i"
  let count ← getNat i "count"
  let nonull ← getBool i "nonull"
  let ref := s!"({esrc} {if sa then "<" else ""}-{if da then ">" else "-"} {edst})"
  match ← obsOf o "base" with
  | .graph b =>
    -- a reference to an existing index changes exactly that connection
    let vHit : Viol ← match ← obsOf o "hit" with
      | .graph d => pure (indexedRefHitsOne esrc edst sa da "ZZhit" b d)
      | .errors cls msg =>
        pure (if nonull then some ("existing-index-rejected", s!"{ref}[{idx}] exists (no deletions in the program) but: {cls} {msg}") else none)
      | .panic => pure (some ("compile-panic", "hit"))
    -- … and it is the idx-th of its class (only meaningful when nothing was deleted)
    let vWhich : Viol ← match ← obsOf o "hit" with
      | .graph d =>
        if !nonull then pure none else
        let cls := (vedges d).filter fun e => eqFoldS e.src esrc && eqFoldS e.dst edst && e.sa == sa && e.da == da
        match cls[idx]? with
        | some e => pure (if e.label == "ZZhit" then none else some ("indexed-ref-hit-wrong-index", s!"{ref}[{idx}] labelled another connection"))
        | none => pure (some ("indexed-ref-hit-wrong-index", s!"{ref}[{idx}]: class has {cls.length} connections"))
      | _ => pure none
    -- a reference to a missing index is an error
    let vMiss : Viol ← match ← obsOf o "miss" with
      | .graph _ => pure (if nonull then some ("missing-index-accepted", s!"{ref}[{count}].label was accepted although only {count} such connections exist") else none)
      | obs => pure (if nonull && !isIdxMissing obs then some ("missing-index-other-error", s!"{ref}[{count}]") else none)
    let vNullMiss : Viol ← match ← obsOf o "nullmiss" with
      | .graph d =>
        if !nonull then pure none else
        if vedges d != vedges b || vobjs d != vobjs b then pure (some ("missing-index-null-changes-graph", s!"{ref}[{count}]: null")) else
        pure (some ("missing-index-null-silent", s!"{ref}[{count}]: null names a missing index and is accepted silently"))
      | _ => pure none
    -- null on an existing index removes exactly that connection
    let vNullHit : Viol ← match ← obsOf o "nullhit" with
      | .graph d =>
        if !nonull then pure none else
        let strip (l : List VEdge) := l.map fun e => { e with index := 0 }
        let be := vedges b
        let cls := be.filter fun e => eqFoldS e.src esrc && eqFoldS e.dst edst && e.sa == sa && e.da == da
        match cls[idx]? with
        | none => pure (some ("indexed-null-no-such-edge", ref))
        | some victim =>
          let expect := be.filter fun e => !(e == victim)
          if strip expect != strip (vedges d) then pure (some ("indexed-null-removed-wrong-edges", s!"{ref}[{idx}]: null left {(vedges d).map D2V.SemSpec.showEdge}")) else
          if vobjs d != vobjs b then pure (some ("indexed-null-changed-objects", ref)) else pure none
      | .errors cls msg => pure (if nonull then some ("existing-index-rejected", s!"{ref}[{idx}]: null: {cls} {msg}") else none)
      | .panic => pure (some ("compile-panic", "nullhit"))
    match firstViol [vHit, vWhich, vMiss, vNullHit, vNullMiss] with
    | some (sig, detail) => return .specfalse sig detail
    | none => return .ok
  | _ => return .bad "base program of an indexed-reference case does not compile"

def handleC11 (j : Json) : Except String Verdict := do
  let k ← getStr j "k"
  let i ← getObj j "in"
  let o ← getObj j "out"
  if k == "idx" then return ← handleIdx i o
  let obs ← decodeObs o
  let spec : Viol := match obs with
    | .graph d => C11graphSpec d
    | .panic => some ("compile-panic", "the compiler panicked")
    | .errors _ _ => none
  match spec with
  | some (sig, detail) => return .specfalse sig detail
  | none =>
    if k == "core" then
      let prog ← decodeProg i
      return compareCore prog obs
    return .ok

def main : IO Unit := runDriver handleC11
