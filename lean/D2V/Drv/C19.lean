import D2V.Drv.LayCommon
open Lean D2V.Drv D2V.Drv.Lay D2V.Lay

/-- all unordered pairs of a list -/
def pairs {α} : List α → List (α × α)
  | [] => []
  | a :: r => r.map (fun b => (a, b)) ++ pairs r

def checkBoard (engine path : String) (os : List Obj) : Option Verdict := Id.run do
  -- shapes inside sequence diagrams are excluded (covered by C23); the sequence diagram's own box is a shape
  let shapes := os.filter fun o => !o.inSeq
  for o in shapes do
    if o.parent != "" then
      match findObj os o.parent with
      | none => return some (.bad s!"board {path}: parent {o.parent} of {o.id} not in the dump")
      | some p =>
        if !decide (encloses1px p.box o.box) then
          -- which side sticks out most, and by how much (part of the signature: known defects are matched per side)
          let over : List (String × Rat) :=
            [("left", p.box.x - o.box.x), ("top", p.box.y - o.box.y),
             ("right", o.box.right - p.box.right), ("bottom", o.box.bottom - p.box.bottom)]
          let worst := over.foldl (fun (b : String × Rat) x => if x.2 > b.2 then x else b) ("left", p.box.x - o.box.x)
          let mag := if worst.2 ≤ 10 then "le10" else "gt10"
          return some (.specfalse s!"child-outside-container:{engine}:{worst.1}:{mag}"
            s!"board {path}: {o.id} {boxStr o.box} not inside {p.id} {boxStr p.box} ({worst.1} by {ratStr worst.2})")
  for (a, b) in pairs shapes do
    if a.parent == b.parent then
      if !decide (disjoint1px a.box b.box) then
        let tag :=
          if a.constNear && b.constNear then
            (if a.near == b.near then "near-same-constant-overlap" else "near-different-constants-overlap")
          else if a.constNear || b.constNear then "near-overlaps-diagram"
          else "siblings-overlap"
        return some (.specfalse (sigOf engine tag)
          s!"board {path}: {a.id} {boxStr a.box} near={a.near} overlaps {b.id} {boxStr b.box} near={b.near}")
  return none

def handleC19 (j : Json) : Except String Verdict := do
  let i ← getObj j "in"
  let o ← getObj j "out"
  let engine ← getStr i "engine"
  if (← getStr o "compile") != "ok" then return .ok
  for b in (← getArr o "boards") do
    let path ← getStr b "path"
    if (← getStr b "layout") != "ok" then continue   -- layout failures are C17's subject
    match geoOf (← getObj b "geo") with
    | .error e => if isNonfinite e then continue else throw e
    | .ok (os, _) =>
      match checkBoard engine path os with
      | some v => return v
      | none => pure ()
  return .ok

def main : IO Unit := D2V.Drv.Lay.runSanitized handleC19
