import D2V.Drv.Common
import D2V.Model.FsCrash
open Lean D2V.Drv D2V.FsCrash

/-- C48 driver.  One line = one real run of `d2 fmt f.d2` or `d2 in.d2 out.svg` under strace:
    `out.files` the sandbox before the run, `out.ops` the completed system calls on sandbox paths (in order),
    `out.pending` the call that was being entered when the process was killed (kill runs), `out.final` what the
    target holds afterwards, `out.new` what an undisturbed run writes.
    * model vs implementation: the file-system model run over the real call list predicts `final`
    * Spec on the implementation: `final ∈ {old, new}` (kill runs); every prefix of the real call list leaves the
      target at old or new under the model (complete runs) -/

def optHex (j : Json) (k : String) : Except String (Option Bytes) :=
  match j.getObjVal? k with
  | .ok .null => pure none
  | .ok (.str s) => match unhex s with
    | some b => pure (some b)
    | none => throw s!"field {k}: not hex"
  | .ok _ => throw s!"field {k}: not a string"
  | .error _ => pure none

def parseOp (j : Json) : Except String (Except String Op) := do
  let o ← getStr j "op"
  match o with
  | "openTrunc" => return .ok (.openTrunc (← getNat j "fd") (← getStr j "p"))
  | "createExcl" => return .ok (.createExcl (← getNat j "fd") (← getStr j "p"))
  | "write" => return .ok (.write (← getNat j "fd") (← getBytes j "d"))
  | "close" => return .ok (.close (← getNat j "fd"))
  | "rename" => return .ok (.rename (← getStr j "s") (← getStr j "d"))
  | "remove" => return .ok (.remove (← getStr j "p"))
  | "nop" => return .ok .nop
  | _ => return .error ((j.getObjValAs? String "txt").toOption.getD o)

def showC (c : Option Bytes) : String :=
  match c with
  | none => "absent"
  | some b => s!"{b.length}B:{hex (b.take 12)}"

def showOp : Op → String
  | .openTrunc fd p => s!"open({p},O_TRUNC)=fd{fd}"
  | .createExcl fd p => s!"open({p},O_EXCL)=fd{fd}"
  | .write fd bs => s!"write(fd{fd},{bs.length}B)"
  | .close fd => s!"close(fd{fd})"
  | .rename a b => s!"rename({a},{b})"
  | .remove p => s!"remove({p})"
  | .nop => "no-effect-call"

def showOpt : Option Op → String
  | none => "none"
  | some o => showOp o

def handleC48 (j : Json) : Except String Verdict := do
  let i ← getObj j "in"
  let o ← getObj j "out"
  let cmd ← getStr i "cmd"
  let target ← getStr o "target"
  let filesJ ← getArr o "files"
  let files ← filesJ.toList.mapM fun f => do
    let p ← getStr f "p"
    let d ← getBytes f "d"
    pure (p, d)
  let new ← getBytes o "new"
  let killed ← getBool o "killed"
  let final ← optHex o "final"
  let opsJ ← getArr o "ops"
  let mut ops : List Op := []
  for x in opsJ.toList do
    match ← parseOp x with
    | .ok op => ops := ops ++ [op]
    | .error txt => return .mismatch "unmodelled-syscall" s!"{cmd}: a call on a sandbox path that the model has no operation for: {txt}"
  let fs0 := mkFS files
  let old := content fs0 target
  let fsEnd := run fs0 ops
  if !killed then
    if content fsEnd target != final then
      return .mismatch "final-content" s!"{cmd}: model predicts {showC (content fsEnd target)} after the complete run, file holds {showC final}"
    if final != some new then
      return .bad "harness: new differs from the final content of the undisturbed run"
    match firstBadPrefix target old new fs0 ops 0 with
    | some k =>
      let fsk := run fs0 (ops.take k)
      return .specfalse "unsafe-prefix" s!"{cmd}: killed after {k} of {ops.length} calls on the target (last: {showOpt (ops.take k |>.getLast?)}) the file holds {showC (content fsk target)}; old {showC old}, new {showC (some new)}"
    | none => return .ok
  else
    let pend : List Op ← match o.getObjVal? "pending" with
      | .ok .null => pure []
      | .ok pj => match ← parseOp pj with
        | .ok op => pure [op]
        | .error _ => pure []
      | .error _ => pure []
    let c0 := content fsEnd target
    let c1 := content (run fsEnd pend) target
    -- the property itself
    if final != old && final != some new then
      return .specfalse "killed-partial" s!"{cmd}: killed entering call #{ops.length + 1} on the sandbox ({showOpt pend.head?}): the file holds {showC final}; old {showC old}, new {showC (some new)}"
    if final != c0 && final != c1 then
      return .mismatch "crash-content" s!"{cmd}: model predicts {showC c0} (or {showC c1}) after {ops.length} calls, file holds {showC final}"
    return .ok

def main : IO Unit := runDriver handleC48
