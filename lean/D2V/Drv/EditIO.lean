/-
  Shared driver of the editing-API properties C36–C41: decodes one step record of `harness/edit`
  (before boards, op, outcome, returned key, after boards, new text, predicted deltas) and evaluates, for the
  property named on the command line of the per-property driver,
    (i)  the property's clauses of `D2V.Edit` on the REAL before/after pair  → `specfalse <clause>`
    (ii) the refinement `after = Edit.Spec.<op> before …`                    → `mismatch <what>`
-/
import D2V.Drv.Common
import D2V.Model.Edit
open Lean D2V.Drv D2V.Edit

namespace D2V.EditIO

structure ObsBoard where
  board : Board
  objIds : List String
  edgeIds : List String
deriving Inhabited

def getStrs (j : Json) (k : String) : Except String (List String) := do
  let a ← getArr j k
  a.toList.mapM fun x => x.getStr?

def getAttrs (j : Json) : Except String Attrs := do
  let a ← getArr j "attrs"
  a.toList.mapM fun kv => do
    let p ← kv.getArr?
    match p.toList with
    | [k, v] => pure ((← k.getStr?), (← v.getStr?))
    | _ => throw "attr pair"

def decObj (j : Json) : Except String (Obj × String) := do
  pure ({ path := ← getStrs j "path", label := ← getStr j "label", attrs := ← getAttrs j }, ← getStr j "id")

def decEdge (j : Json) : Except String (Edge × String) := do
  pure ({ src := ← getStrs j "src", dst := ← getStrs j "dst", sa := ← getBool j "sa", da := ← getBool j "da",
          idx := ← getNat j "idx", label := ← getStr j "label", attrs := ← getAttrs j }, ← getStr j "id")

def decBoard (j : Json) : Except String ObsBoard := do
  let g ← getObj j "g"
  let os ← (← getArr g "objs").toList.mapM decObj
  let es ← (← getArr g "edges").toList.mapM decEdge
  pure { board := { path := ← getStrs j "path", kinds := ← getStrs j "kinds", pos := ← getNat j "pos",
                    g := { objs := os.map (·.1), edges := es.map (·.1) } },
         objIds := os.map (·.2), edgeIds := es.map (·.2) }

def decBoards (j : Json) (k : String) : Except String (List ObsBoard) := do
  (← getArr j k).toList.mapM decBoard

def optStr (j : Json) (k : String) : Option String :=
  match j.getObjValAs? String k with
  | .ok s => some s
  | .error _ => none

def optBool (j : Json) (k : String) : Bool :=
  match j.getObjValAs? Bool k with
  | .ok b => b
  | .error _ => false

structure Op where
  kind : String
  board : List String
  key : String
  tag : Option String
  value : Option String
  attr : String
  target : String
  newName : String
  newKey : String
  desc : Bool
  src : Option String
  dst : Option String
  keyPath : Option Path := none      -- filled from the record's "in" (parsed by the real key parser)
  newKeyPath : Option Path := none

def decOp (j : Json) : Except String Op := do
  let board := match getStrs j "board" with | .ok b => b | .error _ => []
  pure { kind := ← getStr j "kind", board := board, key := (optStr j "key").getD "", tag := optStr j "tag",
         value := optStr j "value", attr := (optStr j "attr").getD "", target := (optStr j "target").getD "",
         newName := (optStr j "newName").getD "", newKey := (optStr j "newKey").getD "", desc := optBool j "desc",
         src := optStr j "src", dst := optStr j "dst" }

def findBoard (bs : List ObsBoard) (p : List String) : Option ObsBoard := bs.find? (·.board.path == p)

def zipIds {α} (xs : List α) (ids : List String) : List (α × String) := xs.zip ids

/-- resolve an absolute ID string of the implementation against an observed board (IDs are case-insensitive) -/
def resolve (ob : ObsBoard) (id : String) : Target :=
  let lid := id.toLower
  match (zipIds ob.board.g.objs ob.objIds).find? (·.2.toLower == lid) with
  | some (o, _) => .obj o.path
  | none =>
    match (zipIds ob.board.g.edges ob.edgeIds).find? (·.2.toLower == lid) with
    | some (e, _) => .edge e.src e.dst e.sa e.da e.idx
    | none => .none

def elemsStr (ob : ObsBoard) : List ((Bool × String) × String) :=
  (zipIds ob.board.g.objs ob.objIds).map (fun (o, i) => ((true, o.label), i)) ++
  (zipIds ob.board.g.edges ob.edgeIds).map (fun (e, i) => ((false, e.label), i))

/-- an object written without a label shows its own name as label, so the label follows a rename ("m4" → "m4 2").
    For matching across an edit such labels are replaced by `dflt:<name without a trailing " <n>">`. -/
def stripNumSuffix (s : String) : String :=
  match s.splitOn " " with
  | [] => s
  | parts =>
    match parts.getLast? with
    | some l => if parts.length > 1 && l.toNat?.isSome then " ".intercalate parts.dropLast else s
    | none => s

def normLabel (o : Obj) : Obj :=
  if some o.label == o.path.getLast? then { o with label := "dflt:" ++ stripNumSuffix o.label } else o

def normLabels (d : Diagram) : Diagram := { d with objs := d.objs.map normLabel }

def normBoard (ob : ObsBoard) : ObsBoard := { ob with board := { ob.board with g := normLabels ob.board.g } }

/-- the moved/renamed object itself, when it carries a default label, is the one default-labelled object of the result
    without a counterpart before: tag both so that they match -/
def tagMoved (b a : Diagram) (x : Path) : Diagram × Diagram :=
  match b.findObj x with
  | some xo =>
    if xo.label.startsWith "dflt:" then
      let cands := a.objs.filter fun o => o.label.startsWith "dflt:" && (objByLabel b o.label).isNone
      match cands with
      | [c] =>
        if (objByLabel a xo.label).isNone then
          ({ b with objs := b.objs.map fun o => if samePath o.path x then { o with label := "moved!" } else o },
           { a with objs := a.objs.map fun o => if o.path == c.path then { o with label := "moved!" } else o })
        else (b, a)
      | _ => (b, a)
    else (b, a)
  | none => (b, a)

/-- labels are unique once default labels are left out (two unlabeled objects may legitimately end up with the same
    normalised default label; such steps are skipped, not flagged) -/
def dupOnlyDefault (d : Diagram) : Bool :=
  ({ d with objs := d.objs.filter fun o => !o.label.startsWith "dflt:" } : Diagram).uniqueLabels

/-- verdicts are one line each -/
def oneLine (s : String) : String := (s.replace "\n" "⏎").replace "\r" " "

def specfalse (sig detail : String) : Verdict := .specfalse sig (oneLine detail)
def describe (op : Op) : String := oneLine <|
  s!"{op.kind} board={op.board} key={op.key}" ++
    (if op.kind == "move" then s!" newKey={op.newKey} desc={op.desc}" else "") ++
    (if op.kind == "rename" then s!" newName={op.newName}" else "") ++
    (if op.kind == "set" then s!" attr={op.attr} value={op.value} tag={op.tag}" else "") ++
    (if op.kind == "delete" && op.attr != "" then s!" attr={op.attr}" else "")

/-- the signature names EVERY failing clause (joined by "+"): a known defect class is recorded with the set of clauses
    it is known to break, so a change that breaks a further clause on the same inputs is still reported -/
def failing (cs : List Clause) : List String := (cs.filter fun c => !c.holds).map (·.name)

def report (op : Op) (cs : List Clause) : Option Verdict :=
  match failing cs with
  | [] => none
  | names => some (specfalse ("+".intercalate names) (describe op))


def sameBoards (xs ys : List ObsBoard) : Bool :=
  xs.length == ys.length && xs.all fun x =>
    (ys.find? (·.board.path == x.board.path)).any fun y => sameDiagram x.board.g y.board.g && x.objIds == y.objIds && x.edgeIds == y.edgeIds

/-! per-property handlers -/

def handleC36 (op : Op) (o : Json) : Except String Verdict := do
  let oc ← getStr o "outcome"
  if oc != "ok" then return .ok
  if let some e := optStr o "recompileErr" then
    return specfalse "new-text-does-not-compile" s!"{describe op}: {e}"
  let after ← decBoards o "after"
  let rec_ ← decBoards o "recompiled"
  if !sameBoards after rec_ then
    return specfalse "new-text-compiles-to-other-diagram" (describe op)
  if let some e := optStr o "reparseErr" then
    return specfalse "new-text-does-not-parse" s!"{describe op}: {e}"
  let t ← getStr o "newText"
  let f ← getStr o "fmtText"
  if t != f then
    return specfalse "formatter-changes-new-text" (describe op)
  -- the returned graph is well-formed (IDs unique, containers exist, endpoints exist, indices consecutive)
  for b in after do
    if !b.board.g.wf then
      return specfalse "returned-graph-not-wellformed" s!"{describe op}: board {b.board.path}"
  return .ok

def diagramsEqual (x y : Diagram) : Bool := sameDiagram x y && sameDiagram y x

def relabelNew (b a d : Diagram) : Diagram :=
  { d with objs := d.objs.map (fun o =>
      if b.hasObj o.path then o else { o with label := ((a.findObj o.path).map (·.label)).getD o.label }) }

def handleC37 (op : Op) (o : Json) : Except String Verdict := do
  let oc ← getStr o "outcome"
  if oc == "panic" || oc == "fatal" then
    return specfalse s!"{oc}-{op.kind}" s!"{describe op}: {(optStr o "err").getD ""}"
  if oc != "ok" then return .ok
  let before ← decBoards o "before"
  let after ← decBoards o "after"
  let some bb := findBoard before op.board |
    -- the oracle accepted an edit on a board that does not exist (e.g. a move of a key onto itself): nothing may change
    return (if sameBoards before after then .ok else specfalse "edit-on-missing-board-changed-graph" (describe op))
  let some ab := findBoard after op.board | return specfalse "target-board-lost" (describe op)
  let b := bb.board.g
  let a := ab.board.g
  if op.kind == "create" then
    let ret ← getStr o "ret"
    let tgt := resolve ab ret
    if let some v := report op (createClauses b a tgt) then return v
    -- refinement
    match tgt with
    | .obj p =>
      match Spec.createObj b p with
      | some d =>
        -- the default label is the RAW name; paths carry the d2-syntax (possibly quoted) name: take it from the result
        let d : Diagram := relabelNew b a d
        if !diagramsEqual d a then return .mismatch "create-object-refinement" (describe op)
      | none => return .mismatch "create-object-spec-refuses" (describe op)
    | .edge s t sa da _ =>
      match Spec.createEdge b s t sa da with
      | some d => if !diagramsEqual (relabelNew b a d) a then return .mismatch "create-edge-refinement" (describe op)
      | none => return .mismatch "create-edge-spec-refuses" (describe op)
    | .none => pure ()
    return .ok
  else
    let tgt := match resolve ab op.target with
      | .none => resolve bb op.target
      | t => t
    -- a block-string label carries its language and makes the shape `text`; replacing one reverts both
    let hadLang := match resolve bb op.target with
      | .obj p => (b.findObj p).any fun x => (attrOf x.attrs "language").isSome
      | .edge s t sa da i => (b.findEdge s t sa da i).any fun x => (attrOf x.attrs "language").isSome
      | .none => false
    let also := if op.tag.isSome || (hadLang && op.attr == "label") then ["shape", "language"] else []
    if let some v := report op (setClauses b a tgt op.attr op.value also) then return v
    -- refinement (only when the target existed; otherwise the Set is a Create followed by a Set)
    if also.isEmpty then
      match tgt, resolve bb op.target with
      | .obj p, .obj _ =>
        let v := if op.attr == "label" then (a.findObj p).map (·.label) else (a.findObj p).bind fun x => attrOf x.attrs op.attr
        let d := if op.attr == "label" then Spec.setObjLabel b p (v.getD "") else Spec.setObjAttr b p op.attr v
        if !diagramsEqual d a then return .mismatch "set-object-refinement" (describe op)
      | .edge s t sa da i, .edge _ _ _ _ _ =>
        let e := a.findEdge s t sa da i
        let v := if op.attr == "label" then e.map (·.label) else e.bind fun x => attrOf x.attrs op.attr
        let d := if op.attr == "label" then Spec.setEdgeLabel b s t sa da i (v.getD "") else Spec.setEdgeAttr b s t sa da i op.attr v
        if !diagramsEqual d a then return .mismatch "set-edge-refinement" (describe op)
      | _, _ => pure ()
    return .ok

def handleC38 (op : Op) (o : Json) : Except String Verdict := do
  let oc ← getStr o "outcome"
  if oc == "panic" || oc == "fatal" then
    return specfalse s!"{oc}-delete" s!"{describe op}: {(optStr o "err").getD ""}"
  if oc != "ok" then return .ok
  let before ← decBoards o "before"
  let after ← decBoards o "after"
  let some bb := findBoard before op.board |
    -- the oracle accepted an edit on a board that does not exist (e.g. a move of a key onto itself): nothing may change
    return (if sameBoards before after then .ok else specfalse "edit-on-missing-board-changed-graph" (describe op))
  let some ab := findBoard after op.board | return specfalse "target-board-lost" (describe op)
  let b := normLabels bb.board.g
  let a := normLabels ab.board.g
  if op.attr != "" then
    let tgt := resolve bb op.target
    -- `deleteReserved` implements style.*, near, tooltip, icon, width, height, left, top, link (and the fields of
    -- connections); a delete of `label` / `shape` is accepted but does nothing: reported under its own signature
    let supportedObj := op.attr.startsWith "style." || ["near", "tooltip", "icon", "width", "height", "left", "top", "link"].contains op.attr
    let unsupported := match tgt with
      | .obj _ => !supportedObj
      | _ => op.attr == "label"
    if let some v := report op (deleteAttrClauses b a tgt op.attr (!unsupported)) then return v
    if unsupported then
      if let c :: _ := failing (deleteAttrClauses b a tgt op.attr true) then
        return specfalse s!"{c}-unsupported-attribute" (describe op)
    return .ok
  match resolve bb op.key with
  | .none =>
    if !diagramsEqual b a then return specfalse "delete-nonexistent-changed-graph" (describe op)
    return .ok
  | .obj x =>
    if !b.uniqueLabels then return .ok
    if !a.uniqueLabels then return (if dupOnlyDefault a then .ok else specfalse "labels-duplicated" (describe op))
    if let some v := report op (deleteObjClauses b a x) then return v
    if !diagramsEqual (Spec.deleteObj b x (observedRen b a x)) a then return .mismatch "delete-object-refinement" (describe op)
    return .ok
  | .edge s t sa da i =>
    let some e := b.findEdge s t sa da i | return .bad "edge vanished"
    if !b.uniqueLabels then
      -- elements cannot be matched by label (e.g. a chain `a -> b -> c: hi`): the delete of a connection leaves no
      -- choice, so the result must be exactly the abstract one
      if !diagramsEqual (Spec.deleteEdge b e) a then return specfalse "deledge-result-not-exact" (describe op)
      return .ok
    if !a.uniqueLabels then return (if dupOnlyDefault a then .ok else specfalse "labels-duplicated" (describe op))
    if let some v := report op (deleteEdgeClauses b a e) then return v
    if !diagramsEqual (Spec.deleteEdge b e) a then return .mismatch "delete-edge-refinement" (describe op)
    return .ok

def handleC39 (op : Op) (o : Json) : Except String Verdict := do
  let oc ← getStr o "outcome"
  if oc == "panic" || oc == "fatal" then
    return specfalse s!"{oc}-{op.kind}" s!"{describe op}: {(optStr o "err").getD ""}"
  if oc != "ok" then return .ok
  let before ← decBoards o "before"
  let after ← decBoards o "after"
  let some bb := findBoard before op.board |
    -- the oracle accepted an edit on a board that does not exist (e.g. a move of a key onto itself): nothing may change
    return (if sameBoards before after then .ok else specfalse "edit-on-missing-board-changed-graph" (describe op))
  let some ab := findBoard after op.board | return specfalse "target-board-lost" (describe op)
  let b0 := normLabels bb.board.g
  let a0 := normLabels ab.board.g
  match resolve bb op.key with
  | .obj x =>
    let (b, a) := tagMoved b0 a0 x
    if !b.uniqueLabels then return .ok
    if !a.uniqueLabels then return (if dupOnlyDefault a then .ok else specfalse "labels-duplicated" (describe op))
    let dest : Path := if op.kind == "rename" then x.dropLast ++ [op.newName] else op.newKeyPath.getD []
    let cross := !samePath dest.dropLast x.dropLast
    let withDesc := op.kind == "rename" || op.desc || !cross
    if op.kind == "move" && op.key == op.newKey then
      if !diagramsEqual b a then return specfalse "move-to-itself-changed-graph" (describe op)
      return .ok
    if let some v := report op (moveClauses b a x dest.dropLast withDesc) then return v
    -- refinement
    match (b.findObj x).bind fun xo => objByLabel a xo.label with
    | some xo' =>
      let d := if withDesc then Spec.moveWith b x xo'.path else Spec.moveWithout b x xo'.path (observedRen b a x)
      if !diagramsEqual d a then return .mismatch "move-refinement" (describe op)
    | none => pure ()
    return .ok
  | .edge s t sa da i =>
    -- renaming a connection changes its arrows only
    let b := b0
    let a := a0
    if !b.uniqueLabels || !a.uniqueLabels then return .ok
    let some e := b.findEdge s t sa da i | return .bad "edge vanished"
    let cs : List Clause :=
      [ ⟨"rename-edge-changed-object", b.objs.all (objKept a) && a.objs.length == b.objs.length⟩,
        ⟨"rename-edge-lost-edge", b.edges.all fun f => (edgeByLabel a f.label).isSome⟩,
        ⟨"rename-edge-new-edge", a.edges.length == b.edges.length⟩,
        ⟨"rename-edge-changed-other-edge", b.edges.all fun f => f.label == e.label || edgeKept a f || f.sameGroup e ||
            (edgeByLabel a f.label).any fun f' => f'.sameGroup ((edgeByLabel a e.label).getD e)⟩,
        ⟨"rename-edge-detached", (edgeByLabel a e.label).all fun e' => e'.src == e.src && e'.dst == e.dst && e.sameContent e'⟩ ]
    if let some v := report op cs then return v
    return .ok
  | .none =>
    if !diagramsEqual b0 a0 then return specfalse "move-nonexistent-changed-graph" (describe op)
    return .ok

def decDeltas (d : Json) : Except String (List (String × String)) := do
  (← getArr d "map").toList.mapM fun kv => do
    match (← kv.getArr?).toList with
    | [k, v] => pure ((← k.getStr?), (← v.getStr?))
    | _ => throw "delta pair"

def handleC40 (j : Json) (op : Op) (o : Json) : Except String Verdict := do
  let oc ← getStr o "outcome"
  if oc == "fatal" && (o.getObjVal? "deltas").toOption.isNone then return .ok   -- the edit itself died: C39's stream
  let d ← getObj o "deltas"
  let doc ← getStr d "outcome"
  if doc == "panic" || doc == "fatal" then
    return specfalse s!"deltas-{doc}-{op.kind}" s!"{describe op}: {(optStr d "err").getD ""}"
  if optBool d "mutated" then
    return specfalse s!"deltas-mutated-graph-{op.kind}" (describe op)
  if oc != "ok" then return .ok
  if doc == "err" && (← getStrs (← getObj j "in") "feat").contains "no-such-board" then return .ok
  if doc == "err" then
    return specfalse s!"deltas-refused-edit-succeeded-{op.kind}" s!"{describe op}: {(optStr d "err").getD ""}"
  let before ← decBoards o "before"
  let after ← decBoards o "after"
  let some bb := findBoard before op.board |
    -- the oracle accepted an edit on a board that does not exist (e.g. a move of a key onto itself): nothing may change
    return (if sameBoards before after then .ok else specfalse "edit-on-missing-board-changed-graph" (describe op))
  let some ab := findBoard after op.board | return specfalse "target-board-lost" (describe op)
  -- labels normalised for matching (default labels follow renames; the moved object itself is tagged)
  let (gb, ga) := match op.kind, resolve bb op.key with
    | "rename", .obj x => tagMoved (normLabels bb.board.g) (normLabels ab.board.g) x
    | "move", .obj x => tagMoved (normLabels bb.board.g) (normLabels ab.board.g) x
    | _, _ => (normLabels bb.board.g, normLabels ab.board.g)
  let bb : ObsBoard := { bb with board := { bb.board with g := gb } }
  let ab : ObsBoard := { ab with board := { ab.board with g := ga } }
  if !bb.board.g.uniqueLabels || !ab.board.g.uniqueLabels then return .ok
  let dm ← decDeltas d
  match firstDisagreement (elemsStr bb) (elemsStr ab) dm with
  | some (l, i, some i') =>
    let what := if l.1 then "object" else "edge"
    return specfalse s!"{op.kind}-{what}-id-not-predicted" s!"{describe op}: {i} became {i'}, predicted {lookupD dm i}"
  | some (l, i, none) =>
    let what := if l.1 then "object" else "edge"
    return specfalse s!"{op.kind}-prediction-for-removed-{what}" s!"{describe op}: {i} is removed but predicted to become {lookupD dm i}"
  | none => pure ()
  if !deltasAgree (elemsStr bb) (elemsStr ab) dm then return .bad "deltasAgree/firstDisagreement inconsistent"
  -- refinement tie of the theorem's objects: (1) the real edit is the abstract edit, (2) the real prediction changes
  -- exactly the elements the abstract prediction `Spec.*Deltas` changes
  let b := bb.board.g
  let a := ab.board.g
  let spec : Option (Diagram × List (Spec.Id × Spec.Id)) :=
    match op.kind, resolve bb op.key with
    | "delete", .obj x =>
      if op.attr != "" then none else
      let ren := observedRen b a x
      some (Spec.deleteObj b x ren, Spec.deleteObjDeltas b x ren)
    | "delete", .edge s t sa da i =>
      if op.attr != "" then none else
      (b.findEdge s t sa da i).map fun e => (Spec.deleteEdge b e, Spec.deleteEdgeDeltas b e)
    | "rename", .obj x =>
      ((b.findObj x).bind fun xo => objByLabel a xo.label).map fun xo' => (Spec.moveWith b x xo'.path, Spec.moveWithDeltas b x xo'.path)
    | "move", .obj x =>
      if op.key == op.newKey then none else
      let dest : Path := op.newKeyPath.getD []
      let withDesc := op.desc || samePath dest.dropLast x.dropLast
      ((b.findObj x).bind fun xo => objByLabel a xo.label).map fun xo' =>
        if withDesc then (Spec.moveWith b x xo'.path, Spec.moveWithDeltas b x xo'.path)
        else (Spec.moveWithout b x xo'.path (observedRen b a x), Spec.moveWithoutDeltas b x xo'.path (observedRen b a x))
    | _, _ => none
  if let some (d', sd) := spec then
    if !diagramsEqual d' a then return .mismatch s!"{op.kind}-refinement" (describe op)
    let ids := (zipIds b.objs bb.objIds).map (fun (o, i) => (Spec.Obj.id o, i)) ++
               (zipIds b.edges bb.edgeIds).map (fun (e, i) => (Spec.Edge.id e, i))
    for (sid, istr) in ids do
      if inDom sd sid != inDom dm istr then
        return .mismatch s!"{op.kind}-deltas-domain" s!"{describe op}: {istr} predicted to change by {if inDom dm istr then "the implementation" else "the abstract prediction"} only"
  return .ok

def handleC41 (op : Op) (o : Json) : Except String Verdict := do
  let oc ← getStr o "outcome"
  if oc == "panic" || oc == "fatal" then return .ok
  let before ← decBoards o "before"
  match o.getObjVal? "after" with
  | .error _ =>
    -- a refused edit on a nested board that leaves the caller's graph in a state that no longer compiles: no board
    -- "compiles to the same content as before"
    if oc == "err" && !op.board.isEmpty && (optStr o "refusedCompileErr").isSome then
      return specfalse s!"refused-left-graph-does-not-compile-{op.kind}" s!"{describe op}: {(optStr o "err").getD ""}"
    return .ok
  | .ok _ =>
    let after ← decBoards o "after"
    let pre := if oc == "ok" then "" else "refused-"
    match firstFailing (scopedClauses (before.map (·.board)) (after.map (·.board)) op.board) with
    | some c =>
      let changed := (before.filter fun c => !((after.find? (·.board.path == c.board.path)).any fun c' => sameDiagram c.board.g c'.board.g)).map (·.board.path)
      return specfalse (pre ++ c) s!"{describe op}: boards that differ afterwards: {changed}"
    | none => return .ok

/-- C36, import update: the new text parses, is formatter-stable, no import of the old path is left, and it compiles —
    to the SAME diagram when the import was renamed (old and new file have the same content) -/
def handleImport (i o : Json) : Except String Verdict := do
  let oc ← getStr o "outcome"
  let path ← getStr i "path"
  let newPath := optStr i "newPath"
  let what := s!"UpdateImport path={path} newPath={newPath}"
  if oc == "precompile-error" then return .skip "precompile-error"
  if oc == "panic" then return specfalse "update-import-panics" s!"{what}: {(optStr o "err").getD ""}"
  if oc == "err" then return specfalse "update-import-refused" s!"{what}: {(optStr o "err").getD ""}"
  if let some e := optStr o "reparseErr" then return specfalse "import-new-text-does-not-parse" s!"{what}: {e}"
  let t ← getStr o "newText"
  let f ← getStr o "fmtText"
  if t != f then return specfalse "import-formatter-changes-new-text" what
  let rem ← getStrs o "imports"
  let isDir := path.endsWith "/"
  if rem.any (fun p => if isDir then p.startsWith path else p == path) then
    return specfalse "import-old-path-left" s!"{what}: {rem}"
  if let some e := optStr o "recompileErr" then return specfalse "import-new-text-does-not-compile" s!"{what}: {e}"
  if newPath.isSome then
    let before ← decBoards o "before"
    let after ← decBoards o "after"
    if !sameBoards before after then return specfalse "import-rename-changes-diagram" what
  return .ok

/-- C36, chained histories: every successful step's text compiles to the returned diagram (compared through the
    hash of the canonical boards, computed in Go) and is formatter-stable -/
def handleHist (i o : Json) : Except String Verdict := do
  if let some why := optStr o "fatal" then return specfalse "history-fatal" why
  let ops ← getArr i "ops"
  let steps ← getArr o "steps"
  for st in steps.toList do
    let n ← getNat st "i"
    let opj := ops.getD n Json.null
    let what := s!"step {n} of {ops.size}: {opj.compress}"
    let oc ← getStr st "outcome"
    if oc == "panic" then return specfalse "history-panic" s!"{what}: {(optStr st "err").getD ""}"
    if oc == "ok" then
      if let some e := optStr st "recompileErr" then return specfalse "history-new-text-does-not-compile" s!"{what}: {e}"
      if (optStr st "afterSig") != (optStr st "recompiledSig") then
        return specfalse "history-returned-graph-differs-from-its-text" what
      if let some e := optStr st "reparseErr" then return specfalse "history-new-text-does-not-parse" s!"{what}: {e}"
      if (optStr st "newText") != (optStr st "fmtText") then return specfalse "history-formatter-changes-new-text" what
  return .ok

def handleEdit (prop : String) (j : Json) : Except String Verdict := do
  let k ← getStr j "k"
  if k == "evolve" then return .skip "evolve"
  if k == "hist" then return ← handleHist (← getObj j "in") (← getObj j "out")
  if k == "import" then return ← handleImport (← getObj j "in") (← getObj j "out")
  let i ← getObj j "in"
  let o ← getObj j "out"
  let op0 ← decOp (← getObj i "op")
  let op : Op := { op0 with keyPath := (getStrs i "keyPath").toOption, newKeyPath := (getStrs i "newKeyPath").toOption }
  let oc ← getStr o "outcome"
  if oc == "precompile-error" then return .skip "precompile-error"
  match prop with
  | "C36" => handleC36 op o
  | "C37" => handleC37 op o
  | "C38" => handleC38 op o
  | "C39" => handleC39 op o
  | "C40" => handleC40 j op o
  | "C41" => handleC41 op o
  | _ => throw "unknown property"

end D2V.EditIO
