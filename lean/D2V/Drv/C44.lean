import D2V.Drv.WatchDrv
open Lean D2V.Drv D2V.Watch D2V.WatchDrv

/-- C44 driver.  Spec-on-impl (raw observation): `perClientMonotone` — what each client received never goes back;
    `latestDelivered` — at every point where the harness found the server idle, the last compile read the latest
    version and every connected client's last message is that version; a session that never gets idle is a liveness
    failure.  model-vs-impl: the trace is a run of `D2V.Watch.step`, and at the idle points some consistent model state
    is quiescent (so `C44_quiescent_delivered` applies to it). -/
def handleC44 (j : Json) : Except String Verdict := do
  let k ← getStr j "k"
  if k != "watch" then return .bad s!"unknown kind {k}"
  let o ← getObj j "out"
  let s ← parseSession o
  -- Spec: per-client monotone
  for (id, rs) in s.recv do
    if rs.any (· < 0) then
      return .specfalse "bad-result" s!"client {id} received a result without a version (compile error?): {rs}"
    if !nondecreasing rs then
      return .specfalse "perClientMonotone" s!"client {id} received {rs}"
  -- Spec: latest delivered at idle points
  let mut i := 0
  let mut lastEnd : Int := -1
  for e in s.evs do
    if e.k == "compile_end" then lastEnd := e.v
    if e.k == "quiesce" then
      if !e.ok then
        -- the server stopped making progress without reaching an idle point: say which promise is broken
        if lastEnd != e.v then
          return .specfalse "latestCompiled" s!"event {i}: the server went silent ({e.why}) with latest version {e.v} but the last compile produced {lastEnd}: a compile request was lost :: {window s.evs i}"
        for id in e.live do
          match e.last.find? (·.1 == id) with
          | some (_, l) =>
            if l != e.v then
              return .specfalse "latestDelivered" s!"event {i}: the server went silent ({e.why}) with latest version {e.v} compiled but client {id} last received {l} :: {window s.evs i}"
          | none => pure ()
        return .specfalse "not-idle" s!"event {i}: the server did not settle ({e.why}) after the last edit (latest={e.v}, clients have {e.last}) :: {window s.evs i}"
      if lastEnd != e.v then
        return .specfalse "latestCompiled" s!"event {i}: idle, latest version {e.v} but the last compile produced {lastEnd} :: {window s.evs i}"
      for id in e.live do
        match e.last.find? (·.1 == id) with
        | some (_, l) =>
          if l != e.v then
            return .specfalse "latestDelivered" s!"event {i}: idle, latest version {e.v} but client {id} last received {l} :: {window s.evs i}"
        | none => return .bad "quiesce without last"
    i := i + 1
  -- model-vs-impl
  match validateSession s.evs with
  | .fail sig d => return .mismatch sig d
  | .ok _ idx =>
    -- what the clients saw is what the server says it wrote
    for (id, rs) in s.recv do
      match lookupIdx idx id with
      | none => if !rs.isEmpty then return .mismatch "recv-unadmitted" s!"client {id} received {rs} without being admitted"
      | some _ =>
        -- every write the server attempted, including one that returned an error: an error (peer closing, context
        -- cancelled while flushing) does not mean the bytes did not reach the peer, and it is the handler's last write
        let attempted := s.evs.filterMap fun e => if e.k == "write" && e.c == id then some e.v else none
        if !isPrefix rs attempted then
          return .mismatch "recv-vs-write" s!"client {id} received {rs} but the server only attempted to write {attempted}"
    return .ok

def main : IO Unit := runDriver handleC44
