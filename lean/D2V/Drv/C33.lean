import D2V.Drv.Common
import D2V.Model.Anim
open Lean D2V.Drv D2V.Anim

/-- parse an unsigned decimal like `12.345600` exactly -/
def parseDec (s : String) : Option Rat :=
  match s.splitOn "." with
  | [a] => a.toNat?.map fun n => (n : Rat)
  | [a, b] => do
      let x ← a.toNat?
      let y ← b.toNat?
      some ((x : Rat) + (y : Rat) / ((10 ^ b.length : Nat) : Rat))
  | _ => none

/-- all numbers that are directly followed by `%`, in order -/
def percentTokens (s : String) : List String :=
  let rec go (cs : List Char) (cur : List Char) (acc : List String) : List String :=
    match cs with
    | [] => acc.reverse
    | c :: r =>
      if c.isDigit || c == '.' then go r (c :: cur) acc
      else if c == '%' && !cur.isEmpty then go r [] (String.ofList cur.reverse :: acc)
      else go r [] acc
  go s.toList [] []

/-- the opacity digits after each `opacity: ` -/
def opacities (s : String) : List String :=
  (s.splitOn "opacity: ").drop 1 |>.map fun part => String.ofList (part.toList.takeWhile (· != ';'))

def parseCSS (css : String) : Except String KF := do
  let toks := percentTokens css
  let nums ← toks.mapM fun t => match parseDec t with
    | some r => pure r
    | none => throw s!"bad percentage {t}"
  match nums, opacities css with
  | [z, b, s, e], ["0", "1"] =>
      if z != 0 then throw "first percentage not 0"
      pure { before := b, start := s, end_ := e, after := none }
  | [z, b, s, e, a, h], ["0", "1", "0"] =>
      if z != 0 || h != 100 then throw "block does not span 0..100"
      pure { before := b, start := s, end_ := e, after := some a }
  | _, _ => throw s!"unexpected keyframe shape: {toks} {opacities css}"

/-- `%f` prints 6 decimals: comparisons on printed percentages use this slack -/
def eps : Rat := 1 / 1000000

def near (a b : Rat) : Bool := decide (a - b ≤ eps ∧ b - a ≤ eps)

def kfNear (a b : KF) : Bool :=
  near a.before b.before && near a.start b.start && near a.end_ b.end_ &&
    (match a.after, b.after with
     | none, none => true
     | some x, some y => near x y
     | _, _ => false)

/-- visible / hidden on printed percentages, with the print slack -/
def visibleP (k : KF) (p : Rat) : Bool := decide (k.start - eps ≤ p ∧ p ≤ k.end_ + eps)
def hiddenP (k : KF) (p : Rat) : Bool :=
  decide (p ≤ k.before + eps ∧ p < k.start + eps) ||
    (match k.after with | some a => decide (a - eps ≤ p) | none => false)

def sortedLEeps : List Rat → Bool
  | a :: b :: r => decide (a ≤ b) && sortedLEeps (b :: r)
  | _ => true

def handleC33 (j : Json) : Except String Verdict := do
  let i ← getObj j "in"
  let o ← getObj j "out"
  let n ← getInt i "n"
  let T ← getInt i "T"
  let boards ← (← getArr i "boards").toList.mapM fun x => x.getInt?
  let css ← (← getArr o "css").toList.mapM fun x => x.getStr?
  if boards.length != css.length then throw "boards/css length"
  let mut kfs : List (Int × KF) := []
  for (b, c) in boards.zip css do
    match parseCSS c with
    | .error e => return .specfalse "css-shape" s!"board {b} of n={n} T={T}: {e}"
    | .ok k => kfs := kfs ++ [(b, k)]
  -- Spec-on-impl (a): percentages in [0,100], increasing
  for (b, k) in kfs do
    if !k.wellFormed then
      return .specfalse "percentages-order" s!"n={n} T={T} board {b}: {repr k}"
  -- Spec-on-impl (b): at sample moments of board i's interval exactly board i is fully visible
  let total : Rat := ((n * T : Int) : Rat)
  for (b, k) in kfs do
    let ts : List Rat := [((b * T : Int) : Rat), ((b * T : Int) : Rat) + ((T - 1 : Int) : Rat) / 2, ((b * T + T - 1 : Int) : Rat)]
    for t in ts do
      let p := t / total * 100
      if !visibleP k p then
        return .specfalse "board-not-visible" s!"n={n} T={T}: board {b} not fully visible at t={t}ms"
      for (b', k') in kfs do
        if b' != b && !hiddenP k' p then
          return .specfalse "two-boards-visible" s!"n={n} T={T}: board {b'} not hidden at t={t}ms (interval of board {b})"
  -- model vs implementation
  for (b, k) in kfs do
    let m := boardKF n T b
    if !kfNear m k then
      return .mismatch "keyframe" s!"n={n} T={T} board {b}: model {repr m} vs impl {repr k}"
  return .ok

def main : IO Unit := runDriver handleC33
