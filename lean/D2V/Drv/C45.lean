import D2V.Drv.WatchDrv
open Lean D2V.Drv D2V.Watch D2V.WatchDrv

/-- C45 driver.  Spec-on-impl (raw trace order): `noAdmitAfterClosing` — no handler is admitted after close() set
    `closing`; `closeAfterAllHandlers` — when close() returns every admitted handler has passed its exit point;
    `noLeak` — at the end of the session every admitted handler has exited; run() returned.
    model-vs-impl: the trace is a run of `D2V.Watch.step` and ends in a state without active handlers. -/
def handleC45 (j : Json) : Except String Verdict := do
  let k ← getStr j "k"
  if k != "storm" then return .bad s!"unknown kind {k}"
  let o ← getObj j "out"
  let s ← parseSession o
  if s.runErr.startsWith "run() did not return" then
    return .specfalse "run-hangs" s!"{s.runErr}"
  let mut i := 0
  let mut closing := false
  let mut admitted : List Int := []
  let mut exited : List Int := []
  for e in s.evs do
    if e.k == "close_begin" then closing := true
    if e.k == "admitted" then
      if closing then
        return .specfalse "noAdmitAfterClosing" s!"event {i}: client {e.c} admitted after close() had begun :: {window s.evs i}"
      admitted := e.c :: admitted
    if e.k == "exit" || e.k == "accept_fail" then exited := e.c :: exited
    if e.k == "close_return" then
      let pending := admitted.filter fun a => !exited.contains a
      if !pending.isEmpty then
        return .specfalse "closeAfterAllHandlers" s!"event {i}: close() returned while handlers {pending} had not exited :: {window s.evs i}"
    i := i + 1
  let pending := admitted.filter fun a => !exited.contains a
  if !pending.isEmpty then
    return .specfalse "noLeak" s!"handlers {pending} never exited :: {window s.evs (i - 1)}"
  if !(s.evs.any (·.k == "close_return")) then
    return .specfalse "close-never-returned" s!"no close_return in the trace :: {window s.evs (i - 1)}"
  match validateSession s.evs with
  | .fail sig d => return .mismatch sig d
  | .ok ss _ =>
    if !(ss.any allGone) then
      return .mismatch "model-handlers-left" s!"no consistent model state has all handlers gone; e.g. {showState ss.head!}"
    return .ok

def main : IO Unit := runDriver handleC45
