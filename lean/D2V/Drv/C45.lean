import D2V.Drv.WatchDrv
open Lean D2V.Drv D2V.Watch D2V.WatchDrv

/-- C45 driver.  Spec-on-impl (raw trace order): `noAdmitAfterClosing` — no handler is admitted after close() set
    `closing`; `noAdmitAfterShutdownBegan` — nor after a connected client's handler left because close() cancelled the
    context (in the code under test the flag is set before the cancel, so such an admission cannot exist);
    `singleTeardown` — of several close() calls only one runs the teardown; `closeAfterAllHandlers` — when close() returns every admitted handler has passed its exit point;
    `noLeak` — at the end of the session every admitted handler has exited; run() returned.
    model-vs-impl: the trace is a run of `D2V.Watch.step` and ends in a state without active handlers. -/
def handleC45 (j : Json) : Except String Verdict := do
  let k ← getStr j "k"
  if k != "storm" then return .bad s!"unknown kind {k}"
  let o ← getObj j "out"
  let s ← parseSession o
  if s.runErr.startsWith "run() did not return" then
    return .specfalse "run-hangs" s!"{s.runErr}"
  let mut i := 0
  let mut closing := false
  let mut admitted : List Int := []
  let mut exited : List Int := []
  let mut dropped : List Int := []
  let mut signal := false
  let mut cancelSeen : Option Nat := none   -- index of the first event that shows close() has cancelled the context
  for e in s.evs do
    if e.k == "shutdown" then signal := true
    if e.k == "drop" then dropped := e.c :: dropped
    if e.k == "close_begin" then
      if closing then
        return .specfalse "singleTeardown" s!"event {i}: a second close() ran the teardown although shutdown had begun (two close_begin) :: {window s.evs i}"
      closing := true
    -- a handler whose peer is still there leaves its loop only because the watcher's context was cancelled; without
    -- the shutdown signal that is close()'s doing: shutdown has begun
    if !signal && cancelSeen.isNone && !dropped.contains e.c
        && (e.k == "unregister" || (e.k == "write" && !e.ok)) then
      cancelSeen := some i
    if e.k == "admitted" then
      if closing then
        return .specfalse "noAdmitAfterClosing" s!"event {i}: client {e.c} admitted after close() had begun :: {window s.evs i}"
      match cancelSeen with
      | some k =>
        return .specfalse "noAdmitAfterShutdownBegan" s!"event {i}: client {e.c} admitted although close() had already cancelled the context (event {k}: a connected client's handler left) :: {window s.evs i}"
      | none => pure ()
      admitted := e.c :: admitted
    if e.k == "exit" || e.k == "accept_fail" then exited := e.c :: exited
    if e.k == "close_return" then
      let pending := admitted.filter fun a => !exited.contains a
      if !pending.isEmpty then
        return .specfalse "closeAfterAllHandlers" s!"event {i}: close() returned while handlers {pending} had not exited :: {window s.evs i}"
    i := i + 1
  let pending := admitted.filter fun a => !exited.contains a
  if !pending.isEmpty then
    return .specfalse "noLeak" s!"handlers {pending} never exited :: {window s.evs (i - 1)}"
  if !(s.evs.any (·.k == "close_return")) then
    return .specfalse "close-never-returned" s!"no close_return in the trace :: {window s.evs (i - 1)}"
  match validateSession s.evs with
  | .fail sig d => return .mismatch sig d
  | .ok ss _ =>
    if !(ss.any allGone) then
      return .mismatch "model-handlers-left" s!"no consistent model state has all handlers gone; e.g. {showState ss.head!}"
    return .ok

def main : IO Unit := runDriver handleC45
