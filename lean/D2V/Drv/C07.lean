import D2V.Drv.Common
import D2V.Model.CompileLeaves
open Lean D2V.Drv D2V.CompileLeaves

/-- first violated clause of "graph xor positioned errors, no crash, no hang, within the time bound" -/
def outcomeProblem (o : Json) : Except String (Option (String × String)) := do
  let oc ← getStr o "outcome"
  let site := (getStr o "site").toOption.getD ""
  let msg := (getStr o "msg").toOption.getD ""
  match oc with
  | "panic" => return some (s!"panic:{site}", msg)
  | "fatal" => return some (s!"fatal:{site}", msg)
  | "hang" => return some ("hang", "no result within the watchdog time")
  | "both" => return some ("outcome:both", "a graph and an error were returned")
  | "neither" => return some ("outcome:neither", "neither a graph nor an error was returned")
  | "othererr" => return some ("outcome:unpositioned-error-type", msg)
  | "graph" => return none
  | "errors" => return none
  | x => throw s!"unknown outcome {x}"

def errOfJson (e : Json) : Except String (ErrObs × String) := do
  let path ← getStr e "path"
  let msg ← getStr e "msg"
  let sl ← getInt e "sl"
  let sc ← getInt e "sc"
  let pre := s!"{path}:{sl + 1}:{sc + 1}: "
  return ({ known := (← getBool e "known"), flen := (← getNat e "flen"), nl := (← getNat e "nl"), sl := sl,
            sb := (← getInt e "sb"), eb := (← getInt e "eb"), prefixOk := msg.startsWith pre }, msg)

def handleCompile (i o : Json) : Except String Verdict := do
  match ← outcomeProblem o with
  | some (sig, d) => return .specfalse sig d
  | none =>
    let oc ← getStr o "outcome"
    if oc == "errors" then
      let errs := (getArr o "errs").toOption.getD #[]
      if errs.isEmpty then return .specfalse "outcome:empty-error-list" "error returned without any entry"
      for e in errs do
        let (eo, msg) ← errOfJson e
        match eo.why with
        | some w => return .specfalse s!"errpos:{w}" msg
        | none => pure ()
    let n ← getNat i "n"
    let us ← getNat o "us"
    if us > timeBoundUs n then
      return .specfalse "time" s!"{us} us for {n} bytes, bound {timeBoundUs n}"
    return .ok

def partsOf (pat lpat : Array Json) : Except String (List Part) := do
  let mut out : List Part := []
  for k in [0:pat.size] do
    let p ← match pat[k]! with | .str s => pure s | _ => throw "pat"
    let l ← match lpat[k]! with | .str s => pure s | _ => throw "lpat"
    match unhex l with
    | some b => out := out ++ [{ isStar := p == "2a", low := b }]
    | none => throw "lpat hex"
  return out

def handleMP (i o : Json) : Except String Verdict := do
  let r ← getStr o "r"
  if r == "panic" then return .specfalse "panic:d2ir.matchPattern" ((getStr o "detail").toOption.getD "")
  let ls ← getBytes i "ls"
  let parts ← partsOf (← getArr i "pat") (← getArr i "lpat")
  let reserved ← getBool i "reserved"
  match matchPattern reserved ls parts with
  | .error _ => return .mismatch "mp-model-crash" "model crashed (impossible by matchPattern_total)"
  | .ok b =>
    if (if b then "true" else "false") != r then
      return .mismatch "mp" s!"model {b} vs go {r} on s={(getStr i "s").toOption.getD ""} pat={(getArr i "pat").toOption.getD #[]}"
    return .ok

def anodeOf (k : String) : Except String ANode :=
  match k with
  | "scalar" | "number" | "dq" | "sq" | "null" | "block" => pure .scalar
  | "array" => pure (.array [.scalar, .scalar])
  | "map" => pure .map
  | "sub" => pure (.subst false)
  | "subspread" => pure (.subst true)
  | "comment" => pure .comment
  | "blockcomment" => pure .blockComment
  | "impScalar" => pure (.import_ false .fieldScalar)
  | "impArray" => pure (.import_ false (.fieldArray 3))
  | "impMap" => pure (.import_ false .fieldMap)
  | "impEmpty" => pure (.import_ false .fieldEmpty)
  | "impFile" => pure (.import_ false .file)
  | "impMissing" => pure (.import_ false .failed)
  | "impScalarSpread" => pure (.import_ true .fieldScalar)
  | "impArraySpread" => pure (.import_ true (.fieldArray 3))
  | "impMapSpread" => pure (.import_ true .fieldMap)
  | "impEmptySpread" => pure (.import_ true .fieldEmpty)
  | "impFileSpread" => pure (.import_ true .file)
  | x => throw s!"unknown array kind {x}"

/-- top-level kinds after `compileSubstitutions` (`va` in the harness text has two elements) -/
def valKinds : List Val → List String
  | [] => []
  | .scalar :: t => "s" :: valKinds t
  | .array _ :: t => "a" :: valKinds t
  | .map :: t => "m" :: valKinds t
  | .subst false :: t => "s" :: valKinds t
  | .subst true :: t => "s" :: "s" :: valKinds t

def handleArr (i o : Json) : Except String Verdict := do
  match ← outcomeProblem o with
  | some (sig, d) => return .specfalse sig d
  | none =>
    let kinds ← getArr i "kinds"
    let ns ← kinds.toList.mapM fun k => match k with | .str s => anodeOf s | _ => throw "kind"
    match compileArray ns with
    | .error _ => return .mismatch "arr-model-crash" "model crashed (impossible by compileArray_total)"
    | .ok out =>
      let oc ← getStr o "outcome"
      let nerr ← getNat o "nerr"
      if out.errs == 0 then
        if oc != "graph" then return .mismatch "arr-outcome" s!"model: no error, go: {oc} ({nerr} errors) on {kinds}"
        match getArr o "vals" with
        | .error _ => return .mismatch "arr-vals" s!"no IR array observed on {kinds}"
        | .ok vs =>
          let got := vs.toList.map fun v => match v with | .str s => s | _ => "?"
          if got != valKinds out.vals then
            return .mismatch "arr-vals" s!"model {valKinds out.vals} vs go {got} on {kinds}"
          return .ok
      else
        -- the count is not compared: once an error is recorded, later imports in the same compile fail silently
        -- (the shared ParseError makes d2parser.Parse return an error), so Go reports fewer than one per element
        if oc != "errors" || nerr == 0 || nerr > out.errs then
          return .mismatch "arr-errors" s!"model: {out.errs} errors, go: {oc} with {nerr} on {kinds}"
        return .ok

def tfieldOf (f : Json) : Except String TField := do
  let name ← getStr f "name"
  let shape ← getStr f "shape"
  let code := name.toUpper
  match shape with
  | "color" | "hex" | "primmap" | "block" => pure ⟨code, true, true, true⟩
  | "bad" | "null" => pure ⟨code, true, false, true⟩
  | "none" | "map" | "array" => pure ⟨code, false, false, true⟩
  | "nested" => pure ⟨code, false, false, false⟩
  | x => throw s!"unknown theme shape {x}"

def handleTheme (i o : Json) : Except String Verdict := do
  match ← outcomeProblem o with
  | some (sig, d) => return .specfalse sig d
  | none =>
    let fs ← (← getArr i "fields").toList.mapM tfieldOf
    match themeOverrides fs with
    | .error _ => return .mismatch "theme-model-crash" "model crashed outside its invariant"
    | .ok n =>
      let oc ← getStr o "outcome"
      let nerr ← getNat o "nerr"
      if n == 0 then
        if oc != "graph" then return .mismatch "theme-outcome" s!"model: accepted, go: {oc} ({nerr}) on {(getArr i "fields").toOption.getD #[]}"
        return .ok
      else
        if oc != "errors" || nerr != n then
          return .mismatch "theme-errors" s!"model: {n} errors, go: {oc} with {nerr} on {(getArr i "fields").toOption.getD #[]}"
        return .ok

def handleImp (i o : Json) : Except String Verdict := do
  match ← outcomeProblem o with
  | some (sig, d) => return .specfalse sig d
  | none =>
    let g ← getArr i "graph"
    let env : ClassEnv ← g.toList.mapM fun e => do
      match e with
      | .arr #[.str n, .arr ts] =>
        let tl ← ts.toList.mapM fun t => match t with | .str s => pure s | _ => throw "target"
        pure (n, tl)
      | _ => throw "graph entry"
    match importWalk env (env.length + 1) [] "index" with
    | .error _ => return .mismatch "imp-model-fuel" "model ran out of fuel (impossible by import_terminates)"
    | .ok n =>
      let cyc ← getNat o "cyclic"
      let other ← getNat o "othererrs"
      let oc ← getStr o "outcome"
      if other != 0 then return .mismatch "imp-other-errors" s!"unexpected non-cycle errors on {g}"
      if (n > 0) != (cyc > 0) || (n == 0 && oc != "graph") then
        return .mismatch "imp-cycle" s!"model: {n} refused imports, go: {cyc} cyclic-import errors ({oc}) on {g}"
      return .ok

def handleSubst (i o : Json) : Except String Verdict := do
  match ← outcomeProblem o with
  | some (sig, d) => return .specfalse sig d
  | none =>
    let shape ← match ← getStr i "shape" with
      | "scalar" => pure VShape.scalar | "null" => pure .null | "novalue" => pure .noValue
      | "map" => pure .map | "array" => pure .array | "missing" => pure .missing | x => throw s!"shape {x}"
    let form ← match ← getStr i "form" with
      | "unqWhole" => pure SForm.unqWhole | "unqPart" => pure .unqPart | "dqWhole" => pure .dqWhole
      | "dqPart" => pure .dqPart | "sq" => pure .sq | "md" => pure .md | x => throw s!"form {x}"
    let node ← match ← getStr i "ctx" with
      | "label" | "tooltip" => pure SNode.field | "edgeLabel" => pure .edge | "arrayElem" => pure .arrayElem
      | x => throw s!"ctx {x}"
    let oc ← getStr o "outcome"
    match resolveSubst node form shape with
    | .error _ => return .mismatch "subst-model-crash" "model crashed (impossible by resolveSubst_total)"
    | .ok r =>
      let want := if r == .substituted then "graph" else "errors"
      if oc != want then
        return .mismatch "subst" s!"model: {want}, go: {oc} ({(getStr o "first").toOption.getD ""}) on {i}"
      return .ok

def handleC07 (j : Json) : Except String Verdict := do
  let k ← getStr j "k"
  let i ← getObj j "in"
  let o ← getObj j "out"
  match k with
  | "compile" => handleCompile i o
  | "mp" => handleMP i o
  | "arr" => handleArr i o
  | "theme" => handleTheme i o
  | "imp" => handleImp i o
  | "subst" => handleSubst i o
  | "edgekw" =>
    match ← outcomeProblem o with
    | some (sig, d) => return .specfalse sig d
    | none => return .ok
  | _ => return .bad s!"unknown kind {k}"

def main : IO Unit := runDriver handleC07
