/-
  Projection of the IR of the core fragment to the graph (`d2compiler.compileIR` → `compileMap` / `compileField` /
  `compileReserved` (label, shape) / `compileStyle` / `compileEdge` / `compileEdgeMap`), as the list of
  graph-construction operations the compiler performs, in its order; the graph itself is `SemG.build ops`,
  followed by `SortObjectsByAST` / `SortEdgesByAST` and `setDefaultShapes`.

  Values are validated only as far as the generator of the fragment goes (opacity, stroke, fill, stroke-width, bold;
  plain shapes); everything else is reported as `Err.gap`.
-/
import D2V.Model.SemCore
namespace D2V.Sem
open D2V.Gen.SemKw
open D2V.SemG (Op fold)

def plainShapes : List String :=
  ["rectangle", "square", "page", "parallelogram", "document", "cylinder", "queue", "package", "step", "callout",
   "stored_data", "person", "c4-person", "diamond", "oval", "circle", "hexagon", "cloud"]
def specialShapes : List String := ["text", "code", "class", "sql_table", "image", "sequence_diagram", "hierarchy"]
def arrowheadNames : List String :=
  ["none", "arrow", "triangle", "diamond", "circle", "box", "cf-one", "cf-many", "cf-one-required", "cf-many-required", "cross"]
def knownColors : List String := ["red", "blue", "green", "orange", "black", "white", "yellow", "purple", "grey", "gray"]

/-- a hyphen is special in a key when it ends the key or is followed by another hyphen (`RawString`, inKey) -/
def hyphenSpecial : List Char → Bool
  | [] => false
  | ['-'] => true
  | '-' :: '-' :: _ => true
  | _ :: r => hyphenSpecial r

/-- does `RawString(s, inKey = true)` return a double-quoted string?  (names over letters, digits, hyphen, space, dot) -/
def keyNeedsQuotes (n : Name) : Bool :=
  let cs := n.s.toList
  cs.contains '.' || hyphenSpecial cs ||
  (n.resLower && toLower n.s != n.s) ||
  cs.head? == some ' ' || cs.getLast? == some ' '

/-- `Object.ID` of a field name (`d2format.Format` of `RawString(name, inKey)`).  `RawString` double-quotes a name that contains
    a dot, a hyphen at the end or before another hyphen, surrounding blanks, or whose lower-case form is a reserved keyword
    other than the name itself (`"Label"`); a name that is a reserved keyword in lower case stays as it is (`label`) -/
def objID (n : Name) : Except Err String :=
  if !plainName n.s then .error (.gap s!"name {n.s} needs quoting")
  else if keyNeedsQuotes n then .ok ("\"" ++ n.s ++ "\"") else .ok n.s

def objIDs : List Name → Except Err (List String)
  | [] => .ok []
  | n :: r => do
    let a ← objID n
    let b ← objIDs r
    pure (a :: b)

structure PSt where
  ops : List Op := []
  errs : List Err := []
deriving Repr, Inhabited

def PSt.err (p : PSt) (e : Err) : PSt := { p with errs := p.errs ++ [e] }
def PSt.op (p : PSt) (o : Op) : PSt := { p with ops := p.ops ++ [o] }

/-- unsigned decimal `d+(.d+)?` as a rational -/
def parseDecimal (s : String) : Option Rat :=
  match s.splitOn "." with
  | [a] => if a.isEmpty || !a.toList.all Char.isDigit then none else a.toNat?.map fun n => (n : Rat)
  | [a, b] =>
    if a.isEmpty || b.isEmpty || !a.toList.all Char.isDigit || !b.toList.all Char.isDigit then none else do
      let x ← a.toNat?
      let y ← b.toNat?
      some ((x : Rat) + (y : Rat) / ((10 ^ b.length : Nat) : Rat))
  | _ => none

def isHexColor (s : String) : Bool :=
  match s.toList with
  | '#' :: r => (r.length == 6 || r.length == 3) && r.all fun c => c.isDigit || ('a' ≤ c && c ≤ 'f') || ('A' ≤ c && c ≤ 'F')
  | _ => false

/-- `Style.Apply` for the keys of the fragment: `.ok true` accepted, `.ok false` rejected, `.error` outside the model -/
def styleValueOk (k v : String) : Except Err Bool :=
  if k == "opacity" then
    match parseDecimal v with
    | some r => .ok (decide (0 ≤ r ∧ r ≤ 1))
    | none => .error (.gap s!"opacity value {v}")
  else if k == "stroke" || k == "fill" then
    if inTableS knownColors (toLower v) || isHexColor v then .ok true else .error (.gap s!"color {v}")
  else if k == "stroke-width" then
    if !v.isEmpty && v.toList.all Char.isDigit then .ok (decide (v.toNat! ≤ 15)) else .error (.gap s!"stroke-width {v}")
  else if k == "bold" then
    if v == "true" || v == "false" then .ok true else .error (.gap s!"bold {v}")
  else .error (.gap s!"style key {k}")

/-- `compileStyle`: the accepted (key, value) pairs in field order -/
def compileStyle (ir : IR) (m : Owner) (p : PSt) : PSt × List (String × String) :=
  (ir.fieldsOf m).foldl (fun (acc : PSt × List (String × String)) f =>
    let (p, st) := acc
    if !(inTable styleKeywords (fold f.name.s) && !f.name.q) then (p.err .styleKeyword, st) else
    if f.name.s != toLower f.name.s then (p.err (.gap "mixed-case style keyword"), st) else
    match f.prim with
    | none => (p, st)
    | some v =>
      match styleValueOk f.name.s v with
      | .ok true => (p, st ++ [(f.name.s, v)])
      | .ok false => (p.err .styleValue, st)
      | .error e => (p.err e, st)) (p, [])

/-- `BoardIDA(scopeMap)` as object ids -/
def IR.boardIDA (ir : IR) : Nat → Owner → List String → Except Err (List String)
  | 0, _, _ => .error (.gap "scope depth")
  | _, .root, acc => .ok acc
  | _, .edg _, _ => .error (.gap "reference scoped inside an edge map")
  | fuel + 1, .fld id, acc =>
    match ir.field? id with
    | none => .error (.gap "scope field missing")
    | some f =>
      if !f.name.q && f.name.resLower then .error (.gap "reference scoped inside a keyword map") else
      match objID f.name with
      | .error e => .error e
      | .ok s => ir.boardIDA fuel f.owner (s :: acc)

/-- `r.ScopeObj = Root.EnsureChild(BoardIDA(ScopeMap))` for every reference -/
def ensureScopes (ir : IR) (refs : List Ref) (p : PSt) : PSt :=
  refs.foldl (fun p r =>
    match ir.boardIDA ir.depthFuel r.scope [] with
    | .ok [] => p
    | .ok path => p.op (.ensure path)
    | .error e => p.err e) p

/-- the `shape` value of `compileReserved` -/
def shapeValue (v : String) : Except Err String :=
  let lv := toLower v
  if inTableS plainShapes lv then .ok lv
  else if inTableS specialShapes lv || inTableS arrowheadNames lv then .error (.gap s!"shape {lv}")
  else .error .shapeUnknown

/-- `compileReserved` on an object for the keywords of the fragment -/
def compileReservedObj (path : List String) (f : FNode) (p : PSt) : PSt :=
  if f.name.s != toLower f.name.s then p.err (.gap "mixed-case keyword") else
  match f.prim with
  | none => if f.hasMap then
      (if f.name.s == "label" then p.err (.gap "label with a map") else p.err .reservedComposite)
    else p.err .reservedNoValue
  | some v =>
    if f.hasMap then p.err (.gap "reserved keyword with value and map") else
    if f.name.s == "label" then p.op (.attrs path (some v) none [] none)
    else if f.name.s == "shape" then
      match shapeValue v with
      | .ok s => p.op (.attrs path none (some s) [] none)
      | .error e => p.err e
    else p.err (.gap s!"keyword {f.name.s}")

structure EAttr where
  label : String := ""
  style : List (String × String) := []

/-- `compileEdgeMap` -/
def compileEdgeMap (ir : IR) (m : Owner) (p : PSt) (a : EAttr) : PSt × EAttr :=
  (ir.fieldsOf m).foldl (fun (acc : PSt × EAttr) f =>
    let (p, a) := acc
    if !(inTableS reserved f.name.s && !f.name.q) then
      (if !f.name.q && f.name.resLower then (p.err (.gap "mixed-case keyword in edge map"), a) else (p.err .edgeMapKey, a))
    else if inTableS styleKeywords f.name.s then (p.err .styleOutside, a)
    else if f.name.s == "label" then
      match f.prim with
      | some v => if f.hasMap then (p.err (.gap "label with a map"), a) else (p, { a with label := v })
      | none => if f.hasMap then (p.err (.gap "label with a map"), a) else (p.err .reservedNoValue, a)
    else if f.name.s == "style" then
      if !f.hasMap then (p, a) else
      let (p, st) := compileStyle ir (.fld f.id) p
      (p, { a with style := st.foldl (fun s kv => SemG.setStyle s kv.1 kv.2) a.style })
    else (p.err (.gap s!"edge keyword {f.name.s}"), a)) (p, a)

/-- `compileEdge` -/
def compileEdge (ir : IR) (base : List String) (e : ENode) (p : PSt) : PSt :=
  if (e.src ++ e.dst).any (fun n => !n.q && inTableS reserved n.s) then p.err .reservedInEdge else
  match objIDs e.src, objIDs e.dst with
  | .ok s, .ok d =>
    let a : EAttr := { label := e.prim.getD "" }
    let (p, a) := if e.hasMap then compileEdgeMap ir (.edg e.id) p a else (p, a)
    let p := p.op (.connect base s d e.sa e.da a.label a.style e.pos)
    ensureScopes ir e.refs p
  | .error err, _ => p.err err
  | _, .error err => p.err err

mutual
/-- `compileField` on an object -/
def compileFieldObj (ir : IR) : Nat → List String → FNode → PSt → PSt
  | 0, _, _, p => p.err (.gap "depth")
  | fuel + 1, path, f, p =>
    let kw := fold f.name.s
    if inTable styleKeywords kw && !f.name.q then p.err .styleOutside else
    if !f.name.q && f.name.resLower && f.name.s != toLower f.name.s then p.err (.gap "mixed-case keyword") else
    if inTable simpleReserved kw && !f.name.q then compileReservedObj path f p else
    if f.name.s == "style" && !f.name.q then
      if !f.hasMap || (ir.fieldsOf (.fld f.id)).isEmpty then p.err .styleMap else
      let (p, st) := compileStyle ir (.fld f.id) p
      p.op (.attrs path none none st none)
    else if !f.name.q && f.name.resLower then p.err (.gap s!"keyword {f.name.s}") else
    match objID f.name with
    | .error e => p.err e
    | .ok id =>
      let path' := path ++ [id]
      let p := p.op (.attrs path' f.prim none [] (f.refs.head?.map (·.pos)))
      let p := if f.hasMap then compileMapObj ir fuel path' (.fld f.id) p else p
      ensureScopes ir f.refs p
/-- `compileMap` on an object -/
def compileMapObj (ir : IR) : Nat → List String → Owner → PSt → PSt
  | 0, _, _, p => p.err (.gap "depth")
  | fuel + 1, path, m, p =>
    let fs := ir.fieldsOf m
    let p := match ir.findIn m { s := "class", q := false, pos := 0 } with
      | some _ => p.err (.gap "class")
      | none => p
    let p := match ir.findIn m { s := "shape", q := false, pos := 0 } with
      | some sh => if sh.hasMap then p.err .reservedComposite else compileFieldObj ir fuel path sh p
      | none => p
    let p := fs.foldl (fun p f => if f.name.s == "shape" && !f.name.q then p else compileFieldObj ir fuel path f p) p
    (ir.edgesOf m).foldl (fun p e => compileEdge ir path e p) p
end

/-! ### canonical result -/

structure CObj where
  abs : String
  label : String
  shape : String
  style : List (String × String)
deriving Repr, BEq, Inhabited

structure CEdge where
  src : String
  dst : String
  sa : Bool
  da : Bool
  index : Nat
  label : String
  style : List (String × String)
deriving Repr, BEq, Inhabited

structure Canon where
  objs : List CObj
  edges : List CEdge
  refless : Bool      -- some object has no reference: `SortObjectsByAST` then has no defined order
deriving Repr, Inhabited

def insertStr (x : String × String) : List (String × String) → List (String × String)
  | [] => [x]
  | y :: r => if x.1 < y.1 then x :: y :: r else y :: insertStr x r
def sortStyle (st : List (String × String)) : List (String × String) := st.foldl (fun acc x => insertStr x acc) []

def canonOf (g : SemG.Graph) : Canon :=
  let objs := g.objects.filterMap fun i => (g.nodes[i]?).map fun n => (i, n)
  let refless := objs.any fun x => x.2.pos.isNone
  let sorted := SemG.sortBy (fun (x : Nat × SemG.Node) => x.2.pos.getD 0) objs
  let es := SemG.sortBy (fun (e : SemG.GEdge) => e.pos) g.edges
  { objs := sorted.map fun (i, n) =>
      { abs := SemG.absID g i, label := n.label, shape := if n.shape.isEmpty then "rectangle" else n.shape, style := sortStyle n.style },
    edges := es.map fun e =>
      { src := SemG.absID g e.src, dst := SemG.absID g e.dst, sa := e.sa, da := e.da, index := e.index, label := e.label,
        style := sortStyle e.style },
    refless }

inductive Outcome where
  | errors (cls : List String)
  | graph (g : SemG.Graph) (c : Canon)
deriving Repr, Inhabited

def project (ir : IR) : PSt := compileMapObj ir ir.depthFuel [] .root {}

/-- the whole pipeline `d2compiler.Compile` on the AST of a core-fragment program -/
def run (prog : List Decl) : Outcome :=
  let ir := eval prog
  if !ir.errs.isEmpty then .errors (ir.errs.map Err.cls) else
  let p := project ir
  if !p.errs.isEmpty then .errors (p.errs.map Err.cls) else
  let g := SemG.build p.ops
  .graph g (canonOf g)

end D2V.Sem
