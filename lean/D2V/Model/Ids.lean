/-
  Sem.Ids — model of how d2graph builds IDs (C06).

    Object.newObject / EnsureChild     `objID name`   = Format(KeyPath{RawString(name, true)}) = `fmtKey name`
    Object.AbsID                       `joinDot`      the IDs from the board root down, joined with "."
    Edge.ArrowString                   `arrowString`
    Edge.AbsID                         `edgeAbsID`    common-prefix trimming with strings.EqualFold while both
                                                      sides have more than one segment, then
                                                      "<common.>(<src> <arrow> <dst>)[<index>]"
  `strings.EqualFold` on two IDs is modelled by `foldKey` (exact on ASCII, U+212A and U+017F; other
  non-ASCII simple foldings are outside the model — the generator's case twins use only these).
-/
import D2V.Model.Quote

namespace D2V.Quote

def objID (name : Str) : Str := fmtKey name

/-- `strings.Join(ids, ".")` -/
def joinDot : List Str → Str
  | [] => []
  | [a] => a
  | a :: b :: rest => a ++ '.' :: joinDot (b :: rest)

/-- `Object.AbsID` of an object whose chain of names from the board root is `names` -/
def absID (names : List Str) : Str := joinDot (names.map objID)

def arrowString (srcArrow dstArrow : Bool) : Str :=
  if srcArrow && dstArrow then "<->".toList
  else if srcArrow then "<-".toList
  else if dstArrow then "->".toList
  else "--".toList

def equalFoldIds (a b : Str) : Bool := a.map foldKey == b.map foldKey

/-- the loop of `Edge.AbsID`: (common, src, dst) -/
def trimCommon : List Str → List Str → List Str × List Str × List Str
  | a :: a2 :: as, b :: b2 :: bs =>
    if equalFoldIds a b then
      let r := trimCommon (a2 :: as) (b2 :: bs)
      (a :: r.1, r.2.1, r.2.2)
    else ([], a :: a2 :: as, b :: b2 :: bs)
  | as, bs => ([], as, bs)

/-- decimal digits of `n` (`%d`), most significant first; `fuel` bounds the number of digits -/
def natDigitsAux : Nat → Nat → Str → Str
  | 0, _, acc => acc
  | fuel + 1, n, acc =>
    let d := Char.ofNat (48 + n % 10)
    if n < 10 then d :: acc else natDigitsAux fuel (n / 10) (d :: acc)

def natDigits (n : Nat) : Str := natDigitsAux (n + 1) n []

/-- `Edge.AbsID` from the ID chains of its endpoints -/
def edgeAbsID (src dst : List Str) (srcArrow dstArrow : Bool) (index : Nat) : Str :=
  let r := trimCommon src dst
  let common := if r.1.isEmpty then [] else joinDot r.1 ++ ['.']
  common ++ '(' :: joinDot r.2.1 ++ ' ' :: arrowString srcArrow dstArrow ++ ' ' :: joinDot r.2.2 ++ ")[".toList ++ natDigits index ++ [']']

/-! ## reading a connection ID back: `d2parser.ParseMapKey` restricted to `[common.](src arrow dst)[index]`

  parseMapKey → parseKey (container) → parseEdgeGroup (`p.inEdgeGroup = true`) → parseKey (source) → parseEdges /
  parseEdge (one connection) → parseKey (destination) → `)` → parseEdgeIndex.  Anything else ParseMapKey accepts
  (filters, several connections, `*` arrowheads or index, an edge key, a value, line continuations) is
  answered with `unsupported`. -/

inductive EdgeRes where
  | ok (common src dst : List Seg) (srcArrow dstArrow : Bool) (index : Nat) (rest : Str)
  | err
  | unsupported
  deriving DecidableEq, Repr

/-- `parseEdge` after the first rune of the arrow was consumed: more `-`, then `>` or nothing;
    answers (dstArrow, rest) -/
def parseArrowTail : Str → Option (Option (Bool × Str))
  | [] => some none                                  -- "unterminated connection": error
  | c :: rest =>
    if c == '>' then some (some (true, rest))
    else if c == '*' then none                        -- outside the model
    else if c == '\\' then none
    else if c == '-' then parseArrowTail rest
    else some (some (false, c :: rest))

def isAsciiDigit (c : Char) : Bool := '0' ≤ c && c ≤ '9'

/-- digits of `parseEdgeIndex` (spaces between them are skipped by `peekNotSpace`); answers the value and the
    input from `]` on -/
def indexDigits : Str → Nat → Option (Option (Nat × Str))
  | [], _ => some none                                -- "unterminated edge index"
  | c :: rest, v =>
    if isSpace c then (if c == '\n' then some none else indexDigits rest v)
    else if c == ']' then some (some (v, c :: rest))
    else if isAsciiDigit c then indexDigits rest (v * 10 + (c.toNat - 48))
    else if c.toNat < 128 then some none              -- "unexpected character in edge index"
    else none                                         -- non-ASCII digits: outside the model

def keyResParts : KeyRes → Option (Option (List Seg × Str))
  | .ok path rest => some (some (path, rest))
  | .empty => some none
  | .err => none
  | .unsupported => none

/-- the edge group after `(` -/
def parseEdgeGroup (common : List Seg) (inp : Str) : EdgeRes :=
  match parseKeyLoop true (inp.length + 1) inp [] with
  | .unsupported => .unsupported
  | .err => .err
  | .empty => .unsupported          -- no source: an error or not a connection; outside the model
  | .ok src rest1 =>
    match skipSpacesNL rest1 with
    | none => .unsupported
    | some (a, rest2) =>
      if a == '*' then .unsupported
      else if a != '<' && a != '-' then .unsupported
      else
        match parseArrowTail rest2 with
        | none => .unsupported
        | some none => .err
        | some (some (dstArrow, rest3)) =>
          match parseKeyLoop true (rest3.length + 1) rest3 [] with
          | .unsupported => .unsupported
          | .err => .err
          | .empty => .err             -- "connection missing destination"
          | .ok dst rest4 =>
            match skipSpacesNL rest4 with
            | none => .unsupported
            | some (c, rest5) =>
              if c == '<' || c == '-' || c == '*' then .unsupported     -- a second connection
              else if c != ')' then .err                                 -- "edge groups must be terminated with )"
              else
                match skipSpacesNL rest5 with
                | none => .unsupported
                | some (b, rest6) =>
                  if b != '[' then .unsupported
                  else
                    match skipSpacesNL rest6 with
                    | none => .unsupported
                    | some (d, rest7) =>
                      if !isAsciiDigit d then .unsupported
                      else
                        match indexDigits rest7 (d.toNat - 48) with
                        | none => .unsupported
                        | some none => .err
                        | some (some (idx, rest8)) =>
                          match rest8 with
                          | ']' :: rest9 =>
                            match skipSpacesNL rest9 with
                            | none => .ok common src dst (a == '<') dstArrow idx rest9
                            | some (e, _) =>
                              if e == '.' || e == ':' || e == '{' then .unsupported
                              else .ok common src dst (a == '<') dstArrow idx rest9
                          | _ => .err

/-- `d2parser.ParseMapKey` on a connection ID -/
def parseEdgeID (inp : Str) : EdgeRes :=
  match inp with
  | [] => .unsupported
  | c :: rest =>
    if c == '&' || (c == '!' && rest.head? == some '&') then .unsupported      -- filters
    else if c == '(' then parseEdgeGroup [] rest
    else
      match parseKey inp with
      | .unsupported => .unsupported
      | .err => .err
      | .empty =>
        match skipSpacesNL inp with
        | some ('(', rest') => parseEdgeGroup [] rest'
        | _ => .unsupported
      | .ok common rest1 =>
        match skipSpacesNL rest1 with
        | some ('(', rest') => parseEdgeGroup common rest'
        | _ => .unsupported

end D2V.Quote
