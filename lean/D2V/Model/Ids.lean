/-
  Sem.Ids — model of how d2graph builds IDs (C06).

    Object.newObject / EnsureChild     `objID name`   = Format(KeyPath{RawString(name, true)}) = `fmtKey name`
    Object.AbsID                       `joinDot`      the IDs from the board root down, joined with "."
    Edge.ArrowString                   `arrowString`
    Edge.AbsID                         `edgeAbsID`    common-prefix trimming with strings.EqualFold while both
                                                      sides have more than one segment, then
                                                      "<common.>(<src> <arrow> <dst>)[<index>]"
  `strings.EqualFold` on two IDs is modelled by `foldKey` (exact on ASCII, U+212A and U+017F; other
  non-ASCII simple foldings are outside the model — the generator's case twins use only these).
-/
import D2V.Model.Quote

namespace D2V.Quote

def objID (name : Str) : Str := fmtKey name

/-- `strings.Join(ids, ".")` -/
def joinDot : List Str → Str
  | [] => []
  | [a] => a
  | a :: b :: rest => a ++ '.' :: joinDot (b :: rest)

/-- `Object.AbsID` of an object whose chain of names from the board root is `names` -/
def absID (names : List Str) : Str := joinDot (names.map objID)

def arrowString (srcArrow dstArrow : Bool) : Str :=
  if srcArrow && dstArrow then "<->".toList
  else if srcArrow then "<-".toList
  else if dstArrow then "->".toList
  else "--".toList

def equalFoldIds (a b : Str) : Bool := a.map foldKey == b.map foldKey

/-- the loop of `Edge.AbsID`: (common, src, dst) -/
def trimCommon : List Str → List Str → List Str × List Str × List Str
  | a :: a2 :: as, b :: b2 :: bs =>
    if equalFoldIds a b then
      let r := trimCommon (a2 :: as) (b2 :: bs)
      (a :: r.1, r.2.1, r.2.2)
    else ([], a :: a2 :: as, b :: b2 :: bs)
  | as, bs => ([], as, bs)

def natDigits (n : Nat) : Str := (toString n).toList

/-- `Edge.AbsID` from the ID chains of its endpoints -/
def edgeAbsID (src dst : List Str) (srcArrow dstArrow : Bool) (index : Nat) : Str :=
  let r := trimCommon src dst
  let common := if r.1.isEmpty then [] else joinDot r.1 ++ ['.']
  common ++ '(' :: joinDot r.2.1 ++ ' ' :: arrowString srcArrow dstArrow ++ ' ' :: joinDot r.2.2 ++ ")[".toList ++ natDigits index ++ [']']

end D2V.Quote
