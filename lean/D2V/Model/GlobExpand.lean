/-
  C12 — the reference expansion of globs (`expand`), over the small AST.

  The property sentence, made executable: a glob declaration acts like declaring its body on every object or
  connection in its (lexical) scope whose name matches the pattern — on the targets that exist at that point of the
  source (at the glob's own position) and on targets created later, at the moment they are created (right after the
  creation, before the creating declaration assigns its own values).  `expand p` is `p` with every glob replaced by
  those explicit declarations.  Matching is the *specification* `Glob.wildcard` (anchored, case-insensitive,
  never a reserved keyword), not the model of `matchPattern`.

  The function is an abstract interpreter over existence only: it tracks which objects and connections exist, which
  globs are active in the current block, and to which targets each glob has been applied; it never looks at values.

  Fragment: field globs whose key is  <path with `*`-patterns / `**`> . <attribute path>  with a scalar value or a map
  of attributes; connection globs `PAT -> PAT` (creating connections between existing objects, never an object with
  itself) and connection-index globs `(PAT -> PAT)[*].attr`; arbitrary nesting of blocks.
-/
import D2V.Model.SemAst
import D2V.Model.Glob
namespace D2V.GlobExpand
open D2V.SemAst D2V.Glob

abbrev Path := List String

structure GlobDecl where
  id : Nat
  scope : Path
  stmt : Stmt

structure EdgeRec where
  scope : Path
  src : Path
  arrow : String
  dst : Path
  idx : Nat
deriving BEq, Repr

structure St where
  objs : List Path := []
  edges : List EdgeRec := []
  applied : List (Nat × String) := []
  nextId : Nat := 0
  /-- set when the program leaves the fragment the interpreter covers -/
  unsupported : Option String := none

abbrev M := StateM St

def lc (p : Path) : Path := p.map lowerAscii

def exists? (st : St) (p : Path) : Bool := st.objs.any (lc · == lc p)

def isKw (s : KSeg) : Bool := s.q == 0 && reservedKeywords.contains (lowerAscii s.s)

/-- split a key into its object part and its attribute part (first reserved keyword onwards) -/
def splitKey (k : Key) : Key × Key :=
  (k.takeWhile (!isKw ·), k.dropWhile (!isKw ·))

def segHasGlob (s : KSeg) : Bool := s.q == 0 && s.s.any (· == '*')
def keyHasGlob (k : Key) : Bool := k.any segHasGlob

def names (k : Key) : Path := k.map (·.s)

/-- the `Pattern` the parser derives from an unquoted string with `*` -/
def patternOf (s : String) : List Bytes :=
  let parts := s.splitOn "*"
  -- a*b → [a,*,b];  *a → [*,a];  a* → [a,*];  ** → [*, "", *]
  let rec go : List String → Bool → List Bytes
    | [], _ => []
    | [x], first => if x.isEmpty && !first then [] else if x.isEmpty then [] else [bytesOf x]
    | x :: r, first =>
      (if x.isEmpty && first then [] else [bytesOf x]) ++ [star] ++ go r false
  go parts true

def segMatches (pat name : String) : Bool := wildcard kwBytes (bytesOf name) (patternOf pat)

def children (st : St) (scope : Path) : List Path :=
  st.objs.filter fun p => p.length == scope.length + 1 && lc (p.take scope.length) == lc scope

def isBoardKw (s : String) : Bool := s == "layers" || s == "scenarios" || s == "steps"

/-- everything below `scope`, nested boards included (`_tripleGlob`) -/
def descendantsAll (st : St) (scope : Path) : List Path :=
  st.objs.filter fun p => p.length > scope.length && lc (p.take scope.length) == lc scope

/-- everything below `scope` on the same board (`_doubleGlob` skips `layers` / `scenarios` / `steps`) -/
def descendants (st : St) (scope : Path) : List Path :=
  (descendantsAll st scope).filter fun p => !((p.drop scope.length).any isBoardKw)

/-- objects selected by a (possibly globbed) object path, starting at `scope` -/
def resolve (st : St) : Path → Key → List Path
  | cur, [] => [cur]
  | cur, s :: rest =>
    if s.q == 0 && s.s == "***" then (descendantsAll st cur).flatMap fun p => resolve st p rest
    else if s.q == 0 && s.s == "**" then (descendants st cur).flatMap fun p => resolve st p rest
    else if segHasGlob s then
      ((children st cur).filter fun p => segMatches s.s (p.getLast?.getD "")).flatMap fun p => resolve st p rest
    else
      match (children st cur).find? fun p => lowerAscii (p.getLast?.getD "") == lowerAscii s.s with
      | some p => resolve st p rest
      | none => []

def relTo (scope target : Path) : Option Path :=
  if lc (target.take scope.length) == lc scope then some (target.drop scope.length) else none

def keyOfPath (p : Path) : Key := p.map useg

def isApplied (st : St) (g : Nat) (k : String) : Bool := st.applied.contains (g, k)

def fail (why : String) : M Unit := modify fun st => { st with unsupported := some why }

/-- apply one glob once to its not yet applied targets; statements are relative to the emission scope `P` -/
def applyOnce (P : Path) (g : GlobDecl) : M (List Stmt × Bool) := do
  let st ← get
  match g.stmt with
  | .field _ key prim val =>
    let (objPart, attrPart) := splitKey key
    let targets := resolve st g.scope objPart
    let fresh := targets.filter fun t => !isApplied st g.id (".".intercalate (lc t))
    let mut out : List Stmt := []
    for t in fresh do
      modify fun st => { st with applied := (g.id, ".".intercalate (lc t)) :: st.applied }
      match relTo P t with
      | some r => out := out ++ [.field 0 (keyOfPath r ++ attrPart) prim val]
      | none => fail "glob target outside the emitting block"
    pure (out, !fresh.isEmpty)
  | .edge common src arrow dst idx ekey prim val =>
    if !common.isEmpty then do fail "common key on a connection glob"; pure ([], false) else
    let srcs := resolve st g.scope src
    let dsts := resolve st g.scope dst
    match idx with
    | none =>
      -- connection-creating glob: every pair once, never an object with itself
      let mut out : List Stmt := []
      let mut changed := false
      for s in srcs do
        for d in dsts do
          if lc s != lc d then
            let k := ".".intercalate (lc s) ++ arrow ++ ".".intercalate (lc d)
            let st ← get
            if !isApplied st g.id k then
              match relTo g.scope s, relTo g.scope d, relTo P g.scope with
              | some rs, some rd, some [] =>
                let n := (st.edges.filter fun e => lc e.scope == lc g.scope && lc e.src == lc rs && lc e.dst == lc rd && e.arrow == arrow).length
                set { st with applied := (g.id, k) :: st.applied,
                              edges := st.edges ++ [({ scope := g.scope, src := rs, arrow := arrow, dst := rd, idx := n } : EdgeRec)] }
                out := out ++ [.edge [] (keyOfPath rs) arrow (keyOfPath rd) none [] prim val]
                changed := true
              | _, _, _ => fail "connection glob applied from a nested block"
      pure (out, changed)
    | some _ =>
      -- connection-index glob over existing connections of the glob's scope
      let mut out : List Stmt := []
      for e in st.edges do
        if lc e.scope == lc g.scope && e.arrow == arrow &&
            (srcs.any fun s => lc s == lc (g.scope ++ e.src)) && (dsts.any fun d => lc d == lc (g.scope ++ e.dst)) then
          let k := ".".intercalate (lc e.src) ++ arrow ++ ".".intercalate (lc e.dst) ++ "#" ++ toString e.idx
          let st' ← get
          if !isApplied st' g.id k then
            match relTo P g.scope with
            | some [] =>
              modify fun st => { st with applied := (g.id, k) :: st.applied }
              out := out ++ [.edge [] (keyOfPath e.src) arrow (keyOfPath e.dst) (some (.n e.idx)) ekey prim val]
            | _ => fail "connection-index glob applied from a nested block"
      pure (out, !out.isEmpty)
  | _ => pure ([], false)

/-- `compileKey` on a glob: apply, and when something changed re-run every active glob (not those being applied) -/
partial def applyGlob (P : Path) (gs : List GlobDecl) (g : GlobDecl) (stack : List Nat) : M (List Stmt) := do
  if stack.contains g.id then return []
  let (out, changed) ← applyOnce P g
  if !changed then return out
  let mut acc := out
  for g2 in gs do
    acc := acc ++ (← applyGlob P gs g2 (g.id :: stack))
  return acc

/-- one pass over the active globs, in order (`for gctx2 in c.globContexts() { c.compileKey(gctx2.refctx) }`) -/
def lazyPass (P : Path) (gs : List GlobDecl) : M (List Stmt) := do
  let mut acc : List Stmt := []
  for g in gs do
    acc := acc ++ (← applyGlob P gs g [])
  return acc

/-- the lazy re-application after a creation.  The compiler runs a pass right after the creation (in
    `EnsureField` / `CreateEdge`) and another one when the creating declaration is finished (`compileKey`: field or
    connection count changed); a glob skipped in one pass because it was itself being applied is picked up by the
    next.  Lazily applied values never override explicit ones, so all passes are emitted before the declaration's
    own values: passes are repeated until nothing new is applied. -/
def runLazy (P : Path) (gs : List GlobDecl) : M (List Stmt) := do
  let mut acc : List Stmt := []
  for _ in [0:8] do
    let out ← lazyPass P gs
    if out.isEmpty then break
    acc := acc ++ out
  return acc

/-- create the objects of a path (relative to `P`); returns the bare declaration and the glob applications it triggers -/
def createObjs (P : Path) (gs : List GlobDecl) (objPart : Key) : M (List Stmt) := do
  if objPart.isEmpty then return []
  let st ← get
  let prefixes := (List.range objPart.length).map fun i => P ++ names (objPart.take (i + 1))
  let fresh := prefixes.filter fun p => !exists? st p
  if fresh.isEmpty then return []
  -- register outer objects first
  let mut cur := st
  for p in fresh do
    if !exists? cur p then cur := { cur with objs := cur.objs ++ [p] }
  set cur
  let apps ← runLazy P gs
  return (.field 0 objPart none .none) :: apps

def noValue (prim : Option Scal) (val : Val) : Bool :=
  prim.isNone && (match val with | .none => true | _ => false)

mutual
partial def procStmt (P : Path) (gs : List GlobDecl) (s : Stmt) : M (List Stmt × List GlobDecl) := do
  match s with
  | .field amp key prim val =>
    if amp != 0 then return ([s], gs)
    if keyHasGlob key then
      let st ← get
      let g : GlobDecl := { id := st.nextId, scope := P, stmt := s }
      set { st with nextId := st.nextId + 1 }
      let gs' := gs ++ [g]
      let out ← applyGlob P gs' g []
      let more ← runLazy P gs'
      return (out ++ more, gs')
    -- a block of layers: each layer is a fresh board that inherits only the board-wide (***) globs
    match key, val with
    | [kw], .map boards =>
      if kw.q == 0 && kw.s == "layers" then
        let mut out : Body := []
        for b in boards do
          match b with
          | .field a' [n] p' (.map body) =>
            let tri := gs.filter fun g => match g.stmt with
              | .field _ (k0 :: _) _ _ => k0.q == 0 && k0.s == "***"
              | _ => false
            let body' ← procBody (P ++ ["layers", n.s]) tri body
            out := out ++ [.field a' [n] p' (.map body')]
          | other => out := out ++ [other]
        return ([.field amp key prim (.map out)], gs)
      else if kw.q == 0 && (kw.s == "scenarios" || kw.s == "steps") then
        fail "scenarios / steps are outside the expand fragment"
        return ([s], gs)
      else pure ()
    | _, _ => pure ()
    let (objPart, attrPart) := splitKey key
    let pre ← createObjs P gs objPart
    match val with
    | .map body =>
      if attrPart.isEmpty then
        let body' ← procBody (P ++ names objPart) gs body
        return (pre ++ [.field amp key prim (.map body')], gs)
      else return (pre ++ [s], gs)
    | _ =>
      -- a bare declaration that created the object is already emitted
      if attrPart.isEmpty && noValue prim val && !pre.isEmpty then return (pre, gs)
      return (pre ++ [s], gs)
  | .edge common src arrow dst idx ekey prim val =>
    if keyHasGlob src || keyHasGlob dst || keyHasGlob common then
      let st ← get
      let g : GlobDecl := { id := st.nextId, scope := P, stmt := s }
      set { st with nextId := st.nextId + 1 }
      let gs' := gs ++ [g]
      let out ← applyGlob P gs' g []
      let more ← runLazy P gs'
      return (out ++ more, gs')
    match idx with
    | some _ => return ([s], gs)
    | none =>
      if !common.isEmpty then
        fail "common key on a connection"
        return ([s], gs)
      let (so, _) := splitKey src
      let (dd, _) := splitKey dst
      let pre1 ← createObjs P gs so
      let pre2 ← createObjs P gs dd
      let st ← get
      let n := (st.edges.filter fun e => lc e.scope == lc P && lc e.src == lc (names src) && lc e.dst == lc (names dst) && e.arrow == arrow).length
      set { st with edges := st.edges ++ [({ scope := P, src := names src, arrow := arrow, dst := names dst, idx := n } : EdgeRec)] }
      let post ← runLazy P gs
      let bare : Stmt := .edge [] src arrow dst none [] none .none
      let own : List Stmt :=
        if noValue prim val then [] else
          match val with
          | .map body => [.edge [] src arrow dst (some (.n n)) [] prim (.map body)]
          | v => [.edge [] src arrow dst (some (.n n)) [] prim v]
      return (pre1 ++ pre2 ++ [bare] ++ post ++ own, gs)
  | s => return ([s], gs)
partial def procBody (P : Path) (gs : List GlobDecl) (body : Body) : M Body := do
  let mut out : Body := []
  let mut cur := gs
  for s in body do
    let (o, g') ← procStmt P cur s
    out := out ++ o
    cur := g'
  return out
end

/-- `expand p`: the program with every glob replaced by explicit declarations (`none`: outside the fragment) -/
def expand (body : Body) : Except String Body :=
  let (out, st) := (procBody [] [] body).run {}
  match st.unsupported with
  | some why => .error why
  | none => .ok out

end D2V.GlobExpand
