/-
  C08 / C25 — order- and schedule-independence, the models.

  * A Go `for k, v := range m` is `List.foldl step s entries` over *some* permutation of the map's entries
    (Go randomises the start per iteration).  The loop bodies found on the compile and render paths fall into a
    few classes (`LoopClass`); each class has a step function below and an instance lemma in `Props/C08.lean`.
  * Concurrent compilations / renders are threads over disjoint state: `Sched` below.
  * `d2svg.sortObjects`'s comparator, as a key.
  * `allSame`: the Spec of both properties on observations (every run produced the same canonical bytes).
-/
namespace D2V.Fold

/-- class of a loop body (or of a package-level write) with respect to iteration order / sharing -/
inductive LoopClass where
  | initOnly         -- runs in a package `init` (once, before any compilation): builds a set / map
  | setInsert        -- body inserts the key into another set / map keyed by it
  | mapCopy          -- dst[k] = f(k, v): one write per (distinct) key
  | perKeyUpdate     -- body updates state owned by the entry (`m2[k] = max(m2[k], c)`, fields of the entry's object)
  | existsTest       -- body only decides "is there an entry with …" (early return / flag)
  | deleteEach       -- body deletes keys
  | keysThenSort     -- keys are collected and sorted by the (distinct) keys before use
  | keysSortByValue  -- keys are collected and sorted by their values; ties keep collection order
  | maxAccum         -- commutative-associative numeric accumulation
  | singleEntry      -- the map has at most one entry
  | collectUnordered -- entries are collected; the consumer treats the collection as a set (by reading)
  | sequentialReplace -- body rewrites one accumulator with each entry in turn (order-dependent unless the
                      --   replacements are independent)
  | notAMap          -- the ranged value is a slice / iterator of a third-party type
  | guardedRegistry  -- package-level registry written under a mutex, only through an explicit API call
deriving Repr, BEq, DecidableEq

/-! ### step functions of the classes (state as functions, so equality is extensional) -/

def setInsert {κ : Type} [DecidableEq κ] (s : κ → Bool) (k : κ) : κ → Bool := fun x => if x = k then true else s x
def deleteKey {κ : Type} [DecidableEq κ] (s : κ → Bool) (k : κ) : κ → Bool := fun x => if x = k then false else s x
def putEntry {κ ν : Type} [DecidableEq κ] (s : κ → Option ν) (e : κ × ν) : κ → Option ν :=
  fun x => if x = e.1 then some e.2 else s x
/-- `m2[k] = g(m2[k], v)` -/
def updEntry {κ ν : Type} [DecidableEq κ] (g : Option ν → ν → ν) (s : κ → Option ν) (e : κ × ν) : κ → Option ν :=
  fun x => if x = e.1 then some (g (s x) e.2) else s x
def existsStep {α : Type} (p : α → Bool) (b : Bool) (a : α) : Bool := b || p a

/-- markdown text as tokens: literal text or a `${k}` pattern; `replaceTok` is `strings.ReplaceAll(s, "${k}", v)` -/
inductive Tok where
  | lit (s : String)
  | pat (k : String)
deriving Repr, BEq, DecidableEq

def replaceTok (s : List Tok) (e : String × List Tok) : List Tok :=
  s.flatMap fun t => if t = .pat e.1 then e.2 else [t]

/-! ### schedules of threads over disjoint state -/

/-- thread `t` runs the program `prog t` (a list of steps on its own state) -/
structure Sched (σ : Type) where
  prog : Nat → List (σ → σ)

structure Conf (σ : Type) where
  st : Nat → σ
  pc : Nat → Nat

/-- thread `t` takes its next step (no-op when it has finished) -/
def Sched.step {σ : Type} (S : Sched σ) (c : Conf σ) (t : Nat) : Conf σ :=
  match (S.prog t)[c.pc t]? with
  | none => c
  | some f => { st := fun u => if u = t then f (c.st t) else c.st u, pc := fun u => if u = t then c.pc t + 1 else c.pc u }

def Sched.run {σ : Type} (S : Sched σ) (c : Conf σ) (schedule : List Nat) : Conf σ := schedule.foldl S.step c

/-- what thread `t` computes alone -/
def Sched.alone {σ : Type} (S : Sched σ) (init : σ) (t : Nat) : σ := (S.prog t).foldl (fun s f => f s) init

/-! ### d2svg.sortObjects -/

structure DrawObj where
  z : Int
  isShape : Bool
  level : Nat
deriving Repr, BEq, DecidableEq

/-- the comparator of `sortObjects` as written -/
def sortLess (a b : DrawObj) : Bool :=
  if a.z ≠ b.z then decide (a.z < b.z)
  else if a.isShape && b.isShape then decide (a.level < b.level)
  else a.isShape && !b.isShape

/-- the key it is equivalent to -/
def drawKey (a : DrawObj) : Int × Nat × Nat := (a.z, if a.isShape then 0 else 1, if a.isShape then a.level else 0)

def keyLess (x y : Int × Nat × Nat) : Bool :=
  decide (x.1 < y.1) || (x.1 == y.1 && (decide (x.2.1 < y.2.1) || (x.2.1 == y.2.1 && decide (x.2.2 < y.2.2))))

/-! ### Spec on observations -/

/-- every run produced the same canonical result -/
def allSame : List String → Bool
  | [] => true
  | x :: rest => rest.all (· == x)

end D2V.Fold
