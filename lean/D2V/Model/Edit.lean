/-
  Editing API (d2oracle) — abstract diagrams, the abstract semantics `Edit.Spec` of the edits, the ID-delta
  prediction functions, and the property predicates of C36–C41 as decidable (Bool) clauses.

  What is modelled: NOT the 3.5 kLoC of AST surgery in `d2oracle/edit.go`.  Modelled is what the property
  sentences talk about:
    * a board's content `Diagram` = objects (absolute path, label, attributes) + connections
      (endpoints, arrows, index among parallel connections, label, attributes)   [d2graph.Object / d2graph.Edge]
    * `Spec.*`  — what `Create / Set / Delete / Rename / Move / ReconnectEdge` are supposed to do to a `Diagram`.
      Where the oracle invents a name on a collision (`generateUniqueKey`: "x 2", "x 3", …) the Spec takes the
      chosen name as a parameter together with a validity condition (fresh, and only when needed), so the Spec
      is a relation "∃ valid choice"; the driver reads the choice off the real result.
    * `Spec.*Deltas` — what `DeleteIDDeltas / RenameIDDeltas / MoveIDDeltas` predict.
    * the clauses the drivers evaluate on the REAL before/after pair (Spec-on-impl), matching elements by their
      unique labels.  The same clause functions are the subject of the theorems in `Props/C37 … C41`
      (the abstract semantics satisfies them for every well-formed diagram).
  Core Lean only.
-/
namespace D2V.Edit

abbrev Path := List String
abbrev Attrs := List (String × String)

/-- ASCII lower-casing, written over `List Char` so that the kernel can evaluate it in `decide` (same function as
    `String.toLower`; Go folds more of Unicode, the generators keep IDs ASCII) -/
def lc (s : String) : String := String.ofList (s.toList.map Char.toLower)

/-- d2 IDs are case-insensitive (`Object.Children` is keyed by the lower-cased ID, `strings.EqualFold` in HasEdge) -/
def keyOf (p : Path) : Path := p.map lc

def samePath (p q : Path) : Bool := keyOf p == keyOf q

/-- `pre` is a (non-strict) prefix of `p`, case-insensitively -/
def isPre (pre p : Path) : Bool := (keyOf pre).isPrefixOf (keyOf p)

/-- strict descendant -/
def isUnder (x p : Path) : Bool := isPre x p && x.length < p.length

structure Obj where
  path : Path
  label : String
  attrs : Attrs
deriving Repr, BEq, DecidableEq, Inhabited

structure Edge where
  src : Path
  dst : Path
  sa : Bool
  da : Bool
  idx : Nat
  label : String
  attrs : Attrs
deriving Repr, BEq, DecidableEq, Inhabited

structure Diagram where
  objs : List Obj
  edges : List Edge
deriving Repr, BEq, DecidableEq, Inhabited

/-- two connections are parallel: same endpoints and arrows (`Edge.initIndex`) -/
def Edge.sameGroup (e f : Edge) : Bool :=
  samePath e.src f.src && samePath e.dst f.dst && e.sa == f.sa && e.da == f.da

def Edge.touches (e : Edge) (x : Path) : Bool := samePath e.src x || samePath e.dst x

def Diagram.hasObj (d : Diagram) (p : Path) : Bool := d.objs.any fun o => samePath o.path p

def Diagram.findObj (d : Diagram) (p : Path) : Option Obj := d.objs.find? fun o => samePath o.path p

def Diagram.findEdge (d : Diagram) (src dst : Path) (sa da : Bool) (idx : Nat) : Option Edge :=
  d.edges.find? fun e => samePath e.src src && samePath e.dst dst && e.sa == sa && e.da == da && e.idx == idx

/-! ### well-formedness (what C09 guarantees of compiled graphs; the invariant of edit histories) -/

def nodupKeys : List Path → Bool
  | [] => true
  | p :: r => !(r.any fun q => samePath p q) && nodupKeys r

/-- every proper non-empty prefix of an object's path is an object -/
def prefixClosed (d : Diagram) : Bool :=
  d.objs.all fun o => (List.range o.path.length).all fun n => n == 0 || d.hasObj (o.path.take n)

def endpointsExist (d : Diagram) : Bool :=
  d.edges.all fun e => d.hasObj e.src && d.hasObj e.dst

/-- indices of parallel connections are 0,1,…,k-1 without repetition -/
def indicesConsecutive (d : Diagram) : Bool :=
  d.edges.all fun e =>
    let grp := d.edges.filter fun f => f.sameGroup e
    decide (e.idx < grp.length) && (grp.filter fun f => f.idx == e.idx).length == 1

def Diagram.wf (d : Diagram) : Bool :=
  d.objs.all (fun o => !o.path.isEmpty) && nodupKeys (d.objs.map (·.path)) && prefixClosed d &&
    endpointsExist d && indicesConsecutive d

/-! ### path rewriting -/

/-- `x ↦ n`, everything below `x` follows -/
def reroot (x n p : Path) : Path := if isPre x p then n ++ p.drop x.length else p

def renOf (ren : List (String × String)) (c : String) : String :=
  match ren.find? (fun kv => lc kv.1 == lc c) with
  | some kv => kv.2
  | none => c

/-- children of `x` move to `x`'s parent (their own descendants follow); `ren` renames the children that collide -/
def hoist (x : Path) (ren : List (String × String)) (p : Path) : Path :=
  if isUnder x p then
    match p.drop x.length with
    | c :: rest => x.dropLast ++ renOf ren c :: rest
    | [] => p
  else p

def Obj.mapPath (f : Path → Path) (o : Obj) : Obj := { o with path := f o.path }
def Edge.mapPaths (f : Path → Path) (e : Edge) : Edge := { e with src := f e.src, dst := f e.dst }

/-! ### the abstract semantics -/
namespace Spec

def defaultObj (p : Path) : Obj := { path := p, label := p.getLast?.getD "", attrs := [("shape", "rectangle")] }

/-- the proper non-empty prefixes of `p` and `p` itself that are not objects yet, shortest first -/
def missingOn (d : Diagram) (p : Path) : List Path :=
  ((List.range (p.length + 1)).filter (· ≠ 0)).map (p.take ·) |>.filter fun q => !d.hasObj q

/-- add every missing object on the way to `p` (default label = name, default shape) -/
def ensure (d : Diagram) (p : Path) : Diagram :=
  { d with objs := d.objs ++ (missingOn d p).map defaultObj }

/-- `Create(key)` of an object: `p` must be new (the oracle makes it new by renaming: the returned key) -/
def createObj (d : Diagram) (p : Path) : Option Diagram :=
  if p.isEmpty || d.hasObj p then none else some (ensure d p)

def groupSize (d : Diagram) (src dst : Path) (sa da : Bool) : Nat :=
  (d.edges.filter fun f => samePath f.src src && samePath f.dst dst && f.sa == sa && f.da == da).length

/-- `Create("a -> b")`: endpoints are created when missing, the new connection is the last of its parallel group -/
def createEdge (d : Diagram) (src dst : Path) (sa da : Bool) : Option Diagram :=
  if src.isEmpty || dst.isEmpty then none else
  let d1 := ensure (ensure d src) dst
  let s := (d1.findObj src).map (·.path) |>.getD src
  let t := (d1.findObj dst).map (·.path) |>.getD dst
  some { d1 with edges := d1.edges ++ [{ src := s, dst := t, sa := sa, da := da, idx := groupSize d src dst sa da, label := "", attrs := [] }] }

def setAttrs (attrs : Attrs) (k : String) (v : Option String) : Attrs :=
  let rest := attrs.filter fun kv => kv.1 != k
  match v with
  | some x => rest ++ [(k, x)]
  | none => rest

def sameAttrs (a b : Attrs) : Bool := a.all (b.contains ·) && b.all (a.contains ·)

def setObjLabel (d : Diagram) (p : Path) (v : String) : Diagram :=
  { d with objs := d.objs.map fun o => if samePath o.path p then { o with label := v } else o }

def setObjAttr (d : Diagram) (p : Path) (k : String) (v : Option String) : Diagram :=
  { d with objs := d.objs.map fun o => if samePath o.path p then { o with attrs := setAttrs o.attrs k v } else o }

def isEdge (e : Edge) (src dst : Path) (sa da : Bool) (idx : Nat) : Bool :=
  samePath e.src src && samePath e.dst dst && e.sa == sa && e.da == da && e.idx == idx

def setEdgeLabel (d : Diagram) (src dst : Path) (sa da : Bool) (idx : Nat) (v : String) : Diagram :=
  { d with edges := d.edges.map fun e => if isEdge e src dst sa da idx then { e with label := v } else e }

def setEdgeAttr (d : Diagram) (src dst : Path) (sa da : Bool) (idx : Nat) (k : String) (v : Option String) : Diagram :=
  { d with edges := d.edges.map fun e => if isEdge e src dst sa da idx then { e with attrs := setAttrs e.attrs k v } else e }

/-- the common shape of delete / rename / move / reconnect: some elements are dropped, the others are transformed
    one by one (the transformers never touch label or attributes) -/
def applyMap (d : Diagram) (keepO : Obj → Bool) (keepE : Edge → Bool) (fo : Obj → Obj) (fe : Edge → Edge) : Diagram :=
  { objs := (d.objs.filter keepO).map fo, edges := (d.edges.filter keepE).map fe }

/-- `Delete(x)` of an object: `x` and the connections attached to it disappear, the children are hoisted to the parent -/
def deleteObj (d : Diagram) (x : Path) (ren : List (String × String)) : Diagram :=
  applyMap d (fun o => !samePath o.path x) (fun e => !e.touches x) (Obj.mapPath (hoist x ren)) (Edge.mapPaths (hoist x ren))

/-- the choice of new names is valid: a child is renamed exactly when its hoisted path is taken by an object that
    is not `x` itself, and the hoisted paths are pairwise distinct and distinct from every remaining object -/
def validHoist (d : Diagram) (x : Path) (ren : List (String × String)) : Bool :=
  let children := d.objs.filter fun o => isUnder x o.path && o.path.length == x.length + 1
  let others := (d.objs.filter fun o => !isPre x o.path).map (·.path)
  children.all (fun c =>
    let name := c.path.getLast?.getD ""
    let taken := others.any fun q => samePath q (x.dropLast ++ [name])
    let newName := renOf ren name
    (taken == (lc newName != lc name)) &&
    !(others.any fun q => samePath q (x.dropLast ++ [newName]))) &&
  nodupKeys (children.map fun c => x.dropLast ++ [renOf ren (c.path.getLast?.getD "")])

def renumberAfter (e : Edge) (f : Edge) : Edge :=
  if f.sameGroup e && e.idx < f.idx then { f with idx := f.idx - 1 } else f

/-- `Delete("(a -> b)[i]")`: exactly that connection disappears, later parallel connections move down by one -/
def deleteEdge (d : Diagram) (e : Edge) : Diagram :=
  applyMap d (fun _ => true) (fun f => !(f.sameGroup e && f.idx == e.idx)) id (renumberAfter e)

/-- `Rename` / same-scope `Move` / `Move(…, includeDescendants = true)`: `x` becomes `n`, descendants follow -/
def moveWith (d : Diagram) (x n : Path) : Diagram :=
  applyMap d (fun _ => true) (fun _ => true) (Obj.mapPath (reroot x n)) (Edge.mapPaths (reroot x n))

def moveWithoutPath (x n : Path) (ren : List (String × String)) (p : Path) : Path :=
  if samePath p x then n else hoist x ren p

/-- cross-scope `Move(…, includeDescendants = false)`: `x` becomes `n`, its children stay in the former parent -/
def moveWithout (d : Diagram) (x n : Path) (ren : List (String × String)) : Diagram :=
  applyMap d (fun _ => true) (fun _ => true) (Obj.mapPath (moveWithoutPath x n ren)) (Edge.mapPaths (moveWithoutPath x n ren))

/-- `ReconnectEdge(e, src', dst')`: `e` gets the new endpoints and the index `i` in its new parallel group; the
    later connections of the old group move down by one, those of the new group from `i` on move up by one -/
def reconnectEdge (e : Edge) (s t : Path) (i : Nat) (f : Edge) : Edge :=
  if f.sameGroup e && f.idx == e.idx then { f with src := s, dst := t, idx := i }
  else
    let f1 := renumberAfter e f
    let e' : Edge := { e with src := s, dst := t }
    if f1.sameGroup e' && i ≤ f1.idx then { f1 with idx := f1.idx + 1 } else f1

def reconnect (d : Diagram) (e : Edge) (s t : Path) (i : Nat) : Diagram :=
  applyMap d (fun _ => true) (fun _ => true) id (reconnectEdge e s t i)

/-- the destination is acceptable: new, its parent exists, and it does not lie inside the moved object -/
def validDest (d : Diagram) (x n : Path) : Bool :=
  !n.isEmpty && !isPre x n && !d.hasObj n && (n.length == 1 || d.hasObj n.dropLast)

/-! #### ID-delta predictions: old ID ↦ new ID for every element whose ID changes -/

inductive Id where
  | obj (p : Path)
  | edge (src dst : Path) (sa da : Bool) (idx : Nat)
deriving Repr, DecidableEq

def Obj.id (o : Obj) : Id := .obj (keyOf o.path)
def Edge.id (e : Edge) : Id := .edge (keyOf e.src) (keyOf e.dst) e.sa e.da e.idx

end Spec

/-- one element followed across an edit: its (kind, label), its old ID, its new ID (`none` = removed) -/
structure Track (ι : Type) where
  lab : Bool × String
  old : ι
  new : Option ι

def Track.before {ι : Type} (rs : List (Track ι)) : List ((Bool × String) × ι) := rs.map fun r => (r.lab, r.old)

/-- the predicted entry of one element: present iff it survives with a different ID -/
def Track.delta {ι : Type} [DecidableEq ι] (r : Track ι) : Option (ι × ι) :=
  match r.new with
  | some n => if n = r.old then none else some (r.old, n)
  | none => none
/-- the prediction: an entry for every surviving element whose ID changes, nothing else -/
def Track.deltas {ι : Type} [DecidableEq ι] (rs : List (Track ι)) : List (ι × ι) := rs.filterMap Track.delta
def Track.image {ι : Type} (r : Track ι) : Option ((Bool × String) × ι) := r.new.map fun n => (r.lab, n)
def Track.after {ι : Type} (rs : List (Track ι)) : List ((Bool × String) × ι) := rs.filterMap Track.image

namespace Spec

def tracks (d : Diagram) (keepO : Obj → Bool) (keepE : Edge → Bool) (fo : Obj → Obj) (fe : Edge → Edge) : List (Track Id) :=
  d.objs.map (fun o => ⟨(true, o.label), Obj.id o, if keepO o then some (Obj.id (fo o)) else none⟩) ++
  d.edges.map (fun e => ⟨(false, e.label), Edge.id e, if keepE e then some (Edge.id (fe e)) else none⟩)

/-- the ID-delta prediction for an edit of the `applyMap` shape -/
def applyDeltas (d : Diagram) (keepO : Obj → Bool) (keepE : Edge → Bool) (fo : Obj → Obj) (fe : Edge → Edge) : List (Id × Id) :=
  Track.deltas (tracks d keepO keepE fo fe)

/-- `DeleteIDDeltas` -/
def deleteObjDeltas (d : Diagram) (x : Path) (ren : List (String × String)) : List (Id × Id) :=
  applyDeltas d (fun o => !samePath o.path x) (fun e => !e.touches x) (Obj.mapPath (hoist x ren)) (Edge.mapPaths (hoist x ren))

def deleteEdgeDeltas (d : Diagram) (e : Edge) : List (Id × Id) :=
  applyDeltas d (fun _ => true) (fun f => !(f.sameGroup e && f.idx == e.idx)) id (renumberAfter e)

/-- `RenameIDDeltas` / `MoveIDDeltas(…, includeDescendants = true)` -/
def moveWithDeltas (d : Diagram) (x n : Path) : List (Id × Id) :=
  applyDeltas d (fun _ => true) (fun _ => true) (Obj.mapPath (reroot x n)) (Edge.mapPaths (reroot x n))

/-- `MoveIDDeltas(…, includeDescendants = false)` across scopes -/
def moveWithoutDeltas (d : Diagram) (x n : Path) (ren : List (String × String)) : List (Id × Id) :=
  applyDeltas d (fun _ => true) (fun _ => true) (Obj.mapPath (moveWithoutPath x n ren)) (Edge.mapPaths (moveWithoutPath x n ren))

/-- `ReconnectEdgeIDDeltas` -/
def reconnectDeltas (d : Diagram) (e : Edge) (s t : Path) (i : Nat) : List (Id × Id) :=
  applyDeltas d (fun _ => true) (fun _ => true) id (reconnectEdge e s t i)

end Spec

/-! ### matching elements across an edit by their unique labels -/

def nodupStr : List String → Bool
  | [] => true
  | a :: r => !r.contains a && nodupStr r

def Diagram.uniqueLabels (d : Diagram) : Bool :=
  nodupStr (d.objs.map (·.label)) && nodupStr (d.edges.map (·.label))

def objByLabel (d : Diagram) (l : String) : Option Obj := d.objs.find? (·.label == l)
def edgeByLabel (d : Diagram) (l : String) : Option Edge := d.edges.find? (·.label == l)

/-- same label and attributes (the ID may differ) -/
def Obj.sameContent (a b : Obj) : Bool := a.label == b.label && Spec.sameAttrs a.attrs b.attrs
def Edge.sameContent (a b : Edge) : Bool := a.label == b.label && Spec.sameAttrs a.attrs b.attrs

def Obj.same (a b : Obj) : Bool := a.path == b.path && a.sameContent b
def Edge.same (a b : Edge) : Bool :=
  a.src == b.src && a.dst == b.dst && a.sa == b.sa && a.da == b.da && a.idx == b.idx && a.sameContent b

/-- `b`'s element with the same ID exists in `a` and is identical -/
def objKept (a : Diagram) (o : Obj) : Bool :=
  match a.findObj o.path with
  | some o' => o.same o'
  | none => false

def edgeKept (a : Diagram) (e : Edge) : Bool :=
  match a.findEdge e.src e.dst e.sa e.da e.idx with
  | some e' => e.same e'
  | none => false

/-- a clause of a property with the name it is reported under -/
structure Clause where
  name : String
  holds : Bool

def firstFailing : List Clause → Option String
  | [] => none
  | c :: r => if c.holds then firstFailing r else some c.name

def allHold (cs : List Clause) : Bool := cs.all (·.holds)

/-! ### C37 — Create and Set change exactly what they name (elements matched by ID: IDs must not change) -/

/-- what `Create` returned, resolved against the result -/
inductive Target where
  | obj (p : Path)
  | edge (src dst : Path) (sa da : Bool) (idx : Nat)
  | none
deriving Repr, BEq

def createClauses (b a : Diagram) (ret : Target) : List Clause :=
  let newObjs := a.objs.filter fun o => !b.hasObj o.path
  let newEdges := a.edges.filter fun e => (b.findEdge e.src e.dst e.sa e.da e.idx).isNone
  [ ⟨"create-changed-existing-object", b.objs.all (objKept a)⟩,
    ⟨"create-changed-existing-edge", b.edges.all (edgeKept a)⟩,
    ⟨"create-returned-id-missing", match ret with
        | .obj p => a.hasObj p
        | .edge s t sa da i => (a.findEdge s t sa da i).isSome
        | .none => false⟩,
    ⟨"create-returned-existing-id", match ret with
        | .obj p => !b.hasObj p
        | .edge s t sa da i => (b.findEdge s t sa da i).isNone
        | .none => true⟩,
    ⟨"create-extra-object", match ret with
        | .obj p => newObjs.all fun o => isPre o.path p
        | .edge s t _ _ _ => newObjs.all fun o => isPre o.path s || isPre o.path t
        | .none => true⟩,
    ⟨"create-extra-edge", match ret with
        | .obj _ => newEdges.isEmpty
        | .edge _ _ _ _ _ => newEdges.length == 1
        | .none => true⟩ ]

/-- keyword-valued attributes are compared up to letter case -/
def valueMatches (want got : Option String) : Bool :=
  match want, got with
  | some w, some g => w == g || lc w == lc g
  | none, none => true
  | _, _ => false

def attrOf (attrs : Attrs) (k : String) : Option String := (attrs.find? (·.1 == k)).map (·.2)

def attrsExcept (attrs : Attrs) (ks : List String) : Attrs := attrs.filter fun kv => !ks.contains kv.1

/-- `Set(target.attr = value)`; `attr = "label"` addresses the label; `also` lists attributes that the value form is
    documented to carry with it (a block-string label makes the shape `text` and records the language) -/
def setClauses (b a : Diagram) (tgt : Target) (attr : String) (value : Option String) (also : List String) : List Clause :=
  let isT (o : Obj) : Bool := match tgt with | .obj p => samePath o.path p | _ => false
  let isTE (e : Edge) : Bool := match tgt with | .edge s t sa da i => Spec.isEdge e s t sa da i | _ => false
  [ ⟨"set-changed-other-object", b.objs.all fun o => isT o || objKept a o⟩,
    ⟨"set-changed-other-edge", b.edges.all fun e => isTE e || edgeKept a e⟩,
    ⟨"set-target-missing", match tgt with
        | .obj p => a.hasObj p
        | .edge s t sa da i => (a.findEdge s t sa da i).isSome
        | .none => false⟩,
    ⟨"set-value-differs", match tgt with
        | .obj p => (a.findObj p).all fun o =>
            if attr == "label" then valueMatches value (some o.label) else valueMatches value (attrOf o.attrs attr)
        | .edge s t sa da i => (a.findEdge s t sa da i).all fun e =>
            if attr == "label" then valueMatches value (some e.label) else valueMatches value (attrOf e.attrs attr)
        | .none => true⟩,
    ⟨"set-changed-other-attr", match tgt with
        | .obj p => match b.findObj p, a.findObj p with
            | some o, some o' => (attr == "label" || o.label == o'.label) &&
                Spec.sameAttrs (attrsExcept o.attrs (attr :: also)) (attrsExcept o'.attrs (attr :: also))
            | _, _ => true
        | .edge s t sa da i => match b.findEdge s t sa da i, a.findEdge s t sa da i with
            | some e, some e' => (attr == "label" || e.label == e'.label) &&
                Spec.sameAttrs (attrsExcept e.attrs (attr :: also)) (attrsExcept e'.attrs (attr :: also))
            | _, _ => true
        | .none => true⟩,
    ⟨"set-extra-object", a.objs.all fun o => b.hasObj o.path || (match tgt with
        | .obj p => isPre o.path p
        | .edge s t _ _ _ => isPre o.path s || isPre o.path t
        | .none => false)⟩,
    ⟨"set-extra-edge", a.edges.all fun e => (b.findEdge e.src e.dst e.sa e.da e.idx).isSome || isTE e⟩ ]

/-! ### C38 — Delete (elements matched by label) -/

/-- the name the hoisted child `c` of `x` ended up with in `a` (read off the child's own new path) -/
def observedRen (b a : Diagram) (x : Path) : List (String × String) :=
  (b.objs.filter fun o => isUnder x o.path && o.path.length == x.length + 1).filterMap fun c =>
    match objByLabel a c.label with
    | some c' => match c.path.getLast?, c'.path.getLast? with
        | some n, some n' => if n == n' then none else some (n, n')
        | _, _ => none
    | none => none

def deleteObjClauses (b a : Diagram) (x : Path) : List Clause :=
  let ren := observedRen b a x
  let xo := b.findObj x
  let f := hoist x ren
  [ ⟨"delobj-not-removed", (xo.all fun o => (objByLabel a o.label).isNone)⟩,
    ⟨"delobj-lost-object", b.objs.all fun o => samePath o.path x || (objByLabel a o.label).isSome⟩,
    ⟨"delobj-attached-edge-kept", b.edges.all fun e => !e.touches x || (edgeByLabel a e.label).isNone⟩,
    ⟨"delobj-lost-edge", b.edges.all fun e => e.touches x || (edgeByLabel a e.label).isSome⟩,
    ⟨"delobj-new-element", a.objs.all (fun o => (objByLabel b o.label).isSome) &&
        a.edges.all (fun e => (edgeByLabel b e.label).isSome)⟩,
    ⟨"delobj-changed-attrs", b.objs.all fun o => (objByLabel a o.label).all fun o' => o.sameContent o'⟩,
    ⟨"delobj-changed-edge-attrs", b.edges.all fun e => (edgeByLabel a e.label).all fun e' => e.sameContent e'⟩,
    ⟨"delobj-child-not-hoisted", b.objs.all fun o => !isUnder x o.path ||
        ((objByLabel a o.label).all fun o' => o'.path == f o.path)⟩,
    ⟨"delobj-changed-other-id", b.objs.all fun o => isPre x o.path ||
        ((objByLabel a o.label).all fun o' => o'.path == o.path)⟩,
    ⟨"delobj-rename-invalid", Spec.validHoist b x ren⟩,
    ⟨"delobj-edge-detached", b.edges.all fun e => (edgeByLabel a e.label).all fun e' =>
        e'.src == f e.src && e'.dst == f e.dst⟩,
    ⟨"delobj-edge-index-changed", b.edges.all fun e => (edgeByLabel a e.label).all fun e' =>
        e'.idx == e.idx && e'.sa == e.sa && e'.da == e.da⟩ ]

def deleteEdgeClauses (b a : Diagram) (x : Edge) : List Clause :=
  [ ⟨"deledge-changed-object", b.objs.all (objKept a) && a.objs.length == b.objs.length⟩,
    ⟨"deledge-not-removed", (edgeByLabel a x.label).isNone⟩,
    ⟨"deledge-removed-other-edge", b.edges.all fun e => e.label == x.label || (edgeByLabel a e.label).isSome⟩,
    ⟨"deledge-new-element", a.edges.all fun e => (edgeByLabel b e.label).isSome⟩,
    ⟨"deledge-renumber", b.edges.all fun e => e.label == x.label || ((edgeByLabel a e.label).all fun e' =>
        e'.idx == (if e.sameGroup x && x.idx < e.idx then e.idx - 1 else e.idx))⟩,
    ⟨"deledge-changed-other-edge", b.edges.all fun e => (edgeByLabel a e.label).all fun e' =>
        e'.src == e.src && e'.dst == e.dst && e'.sa == e.sa && e'.da == e.da && e.sameContent e'⟩ ]

/-- deleting the attribute `attr` of the element `tgt`: only that attribute may change, and it must not keep its
    old value (`mustReset`) -/
def deleteAttrClauses (b a : Diagram) (tgt : Target) (attr : String) (mustReset : Bool) : List Clause :=
  let isT (o : Obj) : Bool := match tgt with | .obj p => samePath o.path p | _ => false
  let isTE (e : Edge) : Bool := match tgt with | .edge s t sa da i => Spec.isEdge e s t sa da i | _ => false
  [ ⟨"delattr-changed-other-object", b.objs.all fun o => isT o || objKept a o⟩,
    ⟨"delattr-changed-other-edge", b.edges.all fun e => isTE e || edgeKept a e⟩,
    ⟨"delattr-element-count", a.objs.length == b.objs.length && a.edges.length == b.edges.length⟩,
    ⟨"delattr-changed-other-attr", match tgt with
        | .obj p => (match b.findObj p, a.findObj p with
            | some o, some o' => (attr == "label" || o.label == o'.label) &&
                Spec.sameAttrs (attrsExcept o.attrs [attr]) (attrsExcept o'.attrs [attr])
            | some _, none => false
            | _, _ => true)
        | .edge s t sa da i => (match b.findEdge s t sa da i, a.findEdge s t sa da i with
            | some e, some e' => (attr == "label" || e.label == e'.label) &&
                Spec.sameAttrs (attrsExcept e.attrs [attr]) (attrsExcept e'.attrs [attr])
            | some _, none => false
            | _, _ => true)
        | .none => true⟩,
    ⟨"delattr-not-reset", !mustReset || (match tgt with
        | .obj p => (match b.findObj p, a.findObj p with
            | some o, some o' => if attr == "label" then o.label != o'.label
                else (attrOf o.attrs attr).isNone || attrOf o.attrs attr != attrOf o'.attrs attr
            | _, _ => true)
        | .edge s t sa da i => (match b.findEdge s t sa da i, a.findEdge s t sa da i with
            | some e, some e' => if attr == "label" then e.label != e'.label
                else (attrOf e.attrs attr).isNone || attrOf e.attrs attr != attrOf e'.attrs attr
            | _, _ => true)
        | .none => true)⟩ ]

/-! ### C39 — Rename and Move -/

/-- `x` is moved to the place where the object carrying its label is found afterwards (`n`);
    `withDesc` = descendants move along (rename, same-scope move, includeDescendants) -/
def moveClauses (b a : Diagram) (x : Path) (destParent : Path) (withDesc : Bool) : List Clause :=
  match b.findObj x with
  | none => [⟨"move-source-missing", false⟩]
  | some xo =>
    match objByLabel a xo.label with
    | none =>
      -- the moved object is gone: the clauses that need no destination are still evaluated
      [ ⟨"move-lost-moved-object", false⟩,
        ⟨"move-lost-object", b.objs.all fun o => samePath o.path x || (objByLabel a o.label).isSome⟩,
        ⟨"move-lost-edge", b.edges.all fun e => (edgeByLabel a e.label).isSome⟩,
        ⟨"move-changed-attrs", b.objs.all fun o => (objByLabel a o.label).all fun o' => o.sameContent o'⟩,
        ⟨"move-changed-edge-attrs", b.edges.all fun e => (edgeByLabel a e.label).all fun e' => e.sameContent e'⟩,
        ⟨"move-new-edge", a.edges.all fun e => (edgeByLabel b e.label).isSome⟩ ]
    | some xo' =>
      let n := xo'.path
      let ren := observedRen b a x
      let f : Path → Path := if withDesc then reroot x n else fun p => if samePath p x then n else hoist x ren p
      [ ⟨"move-wrong-destination-parent", samePath n.dropLast destParent⟩,
        ⟨"move-lost-object", b.objs.all fun o => (objByLabel a o.label).isSome⟩,
        ⟨"move-lost-edge", b.edges.all fun e => (edgeByLabel a e.label).isSome⟩,
        ⟨"move-changed-attrs", b.objs.all fun o => (objByLabel a o.label).all fun o' => o.sameContent o'⟩,
        ⟨"move-changed-edge-attrs", b.edges.all fun e => (edgeByLabel a e.label).all fun e' => e.sameContent e'⟩,
        ⟨"move-descendant-misplaced", b.objs.all fun o => !isUnder x o.path ||
            ((objByLabel a o.label).all fun o' => o'.path == f o.path)⟩,
        ⟨"move-changed-other-id", b.objs.all fun o => isPre x o.path ||
            ((objByLabel a o.label).all fun o' => o'.path == o.path)⟩,
        ⟨"move-new-object", a.objs.all fun o => (objByLabel b o.label).isSome || (isPre o.path n && o.path.length < n.length)⟩,
        ⟨"move-new-edge", a.edges.all fun e => (edgeByLabel b e.label).isSome⟩,
        ⟨"move-edge-detached", b.edges.all fun e => (edgeByLabel a e.label).all fun e' =>
            e'.src == f e.src && e'.dst == f e.dst⟩,
        ⟨"move-edge-index-or-arrow-changed", b.edges.all fun e => (edgeByLabel a e.label).all fun e' =>
            e'.idx == e.idx && e'.sa == e.sa && e'.da == e.da⟩ ]

/-! ### C40 — predictions agree with the edit (generic in the type of IDs: `String` on the implementation,
    `Spec.Id` on the abstract semantics) -/

def lookupD {ι : Type} [BEq ι] (m : List (ι × ι)) (i : ι) : ι :=
  match m.find? (·.1 == i) with
  | some kv => kv.2
  | none => i

def inDom {ι : Type} [BEq ι] (m : List (ι × ι)) (i : ι) : Bool := (m.find? (·.1 == i)).isSome

/-- `before`, `after`: (label, id) of every element.  Every surviving element has the predicted ID (or its old one
    when nothing is predicted); no prediction for a removed element. -/
def deltasAgree {L ι : Type} [BEq L] [BEq ι] (before after : List (L × ι)) (deltas : List (ι × ι)) : Bool :=
  before.all fun li =>
    match after.find? (·.1 == li.1) with
    | some li' => li'.2 == lookupD deltas li.2
    | none => !inDom deltas li.2

def firstDisagreement {L ι : Type} [BEq L] [BEq ι] (before after : List (L × ι)) (deltas : List (ι × ι)) :
    Option (L × ι × Option ι) :=
  (before.find? fun li =>
    match after.find? (·.1 == li.1) with
    | some li' => !(li'.2 == lookupD deltas li.2)
    | none => inDom deltas li.2).map fun li => (li.1, li.2, (after.find? (·.1 == li.1)).map (·.2))

def Diagram.elems (d : Diagram) : List ((Bool × String) × Spec.Id) :=
  d.objs.map (fun o => ((true, o.label), Spec.Obj.id o)) ++ d.edges.map (fun e => ((false, e.label), Spec.Edge.id e))

/-! ### C41 — edits stay within their board -/

structure Board where
  path : List String        -- board names from the root
  kinds : List String       -- container keyword of every hop: layers | scenarios | steps
  pos : Nat                 -- position among the siblings of the same kind
  g : Diagram
deriving Repr, BEq, Inhabited

/-! Inheritance between boards (d2ir `compileBoards`): a scenario starts from a copy of its parent board, the first
    step of a sequence from its parent board and every later step from the step before it; a layer starts empty.
    Boards are listed parent before child and step before next step, so a board's base precedes it. -/

def indexOf? {α : Type} (p : α → Bool) : List α → Option Nat
  | [] => none
  | a :: r => if p a then some 0 else (indexOf? p r).map (· + 1)

/-- index (in `boards`) of the board `b` inherits from -/
def baseOf (boards : List Board) (b : Board) : Option Nat :=
  match b.kinds.getLast? with
  | some "scenarios" => indexOf? (fun c => c.path == b.path.dropLast) boards
  | some "steps" =>
    if b.pos == 0 then indexOf? (fun c => c.path == b.path.dropLast) boards
    else indexOf? (fun c => c.path.dropLast == b.path.dropLast && c.kinds == b.kinds && c.pos + 1 == b.pos) boards
  | _ => none

/-- `dependsOn bases t`: for every board index, does it (transitively) inherit from board `t` (or is it `t`)?
    `bases[i]` is the index of the base of board `i` (always smaller than `i`). -/
def depBit (t : Nat) (acc : List Bool) (b : Option Nat) : Bool :=
  acc.length == t || (match b with | some j => acc.getD j false | none => false)

def depsAux (t : Nat) : List (Option Nat) → List Bool → List Bool
  | [], acc => acc
  | b :: r, acc => depsAux t r (acc ++ [depBit t acc b])

def dependsOn (bases : List (Option Nat)) (t : Nat) : List Bool := depsAux t bases []

def contentOf (overlay : Diagram → Diagram → Diagram) (acc : List Diagram) (b : Option Nat) (o : Diagram) : Diagram :=
  match b with
  | some j => overlay (acc.getD j default) o
  | none => o

def contentsAux (overlay : Diagram → Diagram → Diagram) : List (Option Nat) → List Diagram → List Diagram → List Diagram
  | b :: r, o :: os, acc => contentsAux overlay r os (acc ++ [contentOf overlay acc b o])
  | _, _, acc => acc

/-- the compiled content of every board: its own declarations laid over the content of its base -/
def contents (overlay : Diagram → Diagram → Diagram) (bases : List (Option Nat)) (own : List Diagram) : List Diagram :=
  contentsAux overlay bases own []

/-- board `c` may legitimately change when board `t` (the edit's target) is edited -/
def mayChange (boards : List Board) (t c : Board) : Bool :=
  match indexOf? (fun b => b.path == t.path) boards, indexOf? (fun b => b.path == c.path) boards with
  | some ti, some ci => (dependsOn (boards.map (baseOf boards)) ti).getD ci true
  | _, _ => true

def sameDiagram (x y : Diagram) : Bool :=
  x.objs.length == y.objs.length && x.edges.length == y.edges.length &&
    x.objs.all (objKept y) && x.edges.all (edgeKept y)

/-- boards that must not change: present afterwards with the same content -/
def scopedClauses (before after : List Board) (target : List String) : List Clause :=
  match before.find? (·.path == target) with
  | none => [⟨"scoped-some-board-changed", before.all fun c => (after.find? (·.path == c.path)).any fun c' => sameDiagram c.g c'.g⟩]
  | some t =>
    [ ⟨"scoped-board-lost", before.all fun c => mayChange before t c || (after.any (·.path == c.path))⟩,
      ⟨"scoped-other-board-changed", before.all fun c => mayChange before t c ||
          ((after.find? (·.path == c.path)).all fun c' => sameDiagram c.g c'.g)⟩,
      ⟨"scoped-board-appeared", after.all fun c => before.any (·.path == c.path)⟩ ]

end D2V.Edit
