/-
  C16 model and spec.

  `accepts* kw v` — what the *code* does, assembled from the regenerated guards/tables of `D2V.Gen.Domains`
  and the primitive models of `DomPrim` (tie R + K).
  `documented kw v` — the value domains as the property / the d2 documentation state them, written by hand and
  independently of the code. The property is `accepts = documented`, keyword by keyword.
-/
import D2V.Model.DomPrim
import D2V.Gen.Domains
namespace D2V.Dom
open D2V.Gen

/-- non-gradient colours (`ValidColor`'s second branch); gradients are handled by the Gradient model (C30) -/
def validPlainColor (v : String) : Bool := Domains.namedColors.contains (lowerStr v) || isHexColor v

def isGradientText (v : String) : Bool :=
  v.startsWith "linear-gradient(" || v.startsWith "radial-gradient("

inductive Area | style | reserved | config
deriving Repr, DecidableEq

def tableOf : Area → List (String × Prim × Bool)
  | .style => Domains.Style.table
  | .reserved => Domains.Reserved.table
  | .config => Domains.Config.table

def rejectIntOf : Area → String → Int → Bool
  | .style => Domains.Style.rejectInt
  | .reserved => Domains.Reserved.rejectInt
  | .config => Domains.Config.rejectInt

def rejectFloatOf : Area → String → FVal → Bool
  | .style => Domains.Style.rejectFloat
  | .reserved => Domains.Reserved.rejectFloat
  | .config => Domains.Config.rejectFloat

def enumOf : EnumName → List String
  | .fillPatterns => Domains.fillPatterns
  | .textTransforms => Domains.textTransforms
  | .fonts => Domains.fonts
  | .dirs => Domains.directions
  | .shape => "" :: (Domains.shapes ++ Domains.arrowheads)

def inRange (lo : Int) (hi : Option Int) (n : Int) : Bool :=
  decide (lo ≤ n) && (match hi with | some h => decide (n ≤ h) | none => true)

/-- what the code accepts, by keyword (none = keyword not in the regenerated table / gradient colour) -/
def accepts (a : Area) (kw v : String) : Option Bool :=
  match (tableOf a).lookup kw with
  | none => none
  | some (prim, _) =>
    match prim with
    | .int => some (match atoi v with | some n => !rejectIntOf a kw n | none => false)
    | .float => some (match parseFloat v with | some f => !rejectFloatOf a kw f | none => false)
    | .bool => some (parseBool v).isSome
    | .color => if isGradientText v then none else some (validPlainColor v)
    | .enum e => some ((enumOf e).contains (lowerStr v))
    | .none => none

/-- stored value of an accepted input: unchanged, or lower-cased for keyword-valued attributes -/
def stored (a : Area) (kw v : String) : String :=
  match (tableOf a).lookup kw with
  | some (_, true) => lowerStr v
  | _ => v

/-! ### The documented domains (hand-written from the property text and docs.d2lang.com) -/

def docShapes : List String :=
  ["rectangle", "square", "page", "parallelogram", "document", "cylinder", "queue", "package", "step", "callout",
   "stored_data", "person", "c4-person", "diamond", "oval", "circle", "hexagon", "cloud", "text", "code", "class",
   "sql_table", "image", "sequence_diagram", "hierarchy"]
def docArrowheads : List String :=
  ["arrow", "box", "cf-many", "cf-many-required", "cf-one", "cf-one-required", "circle", "cross", "diamond", "none", "triangle"]
def docFillPatterns : List String := ["none", "dots", "lines", "grain", "paper"]
def docTextTransforms : List String := ["none", "uppercase", "lowercase", "capitalize"]
def docFonts : List String := ["default", "mono"]
def docDirections : List String := ["up", "down", "right", "left"]
def docThemeIDs : List Int := [0, 1, 3, 4, 5, 6, 7, 8, 100, 101, 102, 103, 104, 105, 200, 201, 300, 301, 302, 303]

def docIntRange (lo : Int) (hi : Option Int) (v : String) : Bool :=
  match atoi v with
  | some n => inRange lo hi n
  | none => false

def docAnyInt (v : String) : Bool := (atoi v).isSome

/-- opacity: a number whose float64 value lies in [0, 1] -/
def docUnitFloat (v : String) : Bool :=
  match parseFloat v with
  | some (.fin r) => decide (0 ≤ r ∧ r ≤ 1)
  | _ => false

def docBool (v : String) : Bool := (parseBool v).isSome
def docEnum (l : List String) (v : String) : Bool := l.contains (lowerStr v)

/-- `none`: keyword outside the documented table, or a gradient colour (decided by C30's gradient model) -/
def documented (a : Area) (kw v : String) : Option Bool :=
  match a, kw with
  | .style, "opacity" => some (docUnitFloat v)
  | .style, "stroke" | .style, "fill" | .style, "font-color" =>
      if isGradientText v then none else some (validPlainColor v)
  | .style, "fill-pattern" => some (docEnum docFillPatterns v)
  | .style, "stroke-width" => some (docIntRange 0 (some 15) v)
  | .style, "stroke-dash" => some (docIntRange 0 (some 10) v)
  | .style, "border-radius" => some (docIntRange 0 none v)
  | .style, "font-size" => some (docIntRange 8 (some 100) v)
  | .style, "font" => some (docEnum docFonts v)
  | .style, "text-transform" => some (docEnum docTextTransforms v)
  | .style, "shadow" | .style, "3d" | .style, "multiple" | .style, "animated" | .style, "bold" | .style, "italic"
  | .style, "underline" | .style, "filled" | .style, "double-border" => some (docBool v)
  | .reserved, "shape" => some (v == "" || docEnum (docShapes ++ docArrowheads) v)
  | .reserved, "width" | .reserved, "height" | .reserved, "top" | .reserved, "left"
  | .reserved, "grid-gap" | .reserved, "vertical-gap" | .reserved, "horizontal-gap" => some (docIntRange 0 none v)
  | .reserved, "grid-rows" | .reserved, "grid-columns" => some (docIntRange 1 none v)
  | .reserved, "direction" => some (docEnum docDirections v)
  | .config, "sketch" | .config, "center" => some (docBool v)
  | .config, "theme-id" | .config, "dark-theme-id" =>
      some (match atoi v with | some n => docThemeIDs.contains n | none => false)
  | .config, "pad" => some (docAnyInt v)
  | _, _ => none

end D2V.Dom
