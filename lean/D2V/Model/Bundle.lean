/-
  Model of `lib/imgbundler/imgbundler.go` (C46).  Core Lean only.

  Go functions modelled
    imageRegex.FindAllSubmatch   → `findAll`      (`<image href="([^"]+)"`, leftmost, non-overlapping; single pass)
    filterImageElements          → `filterImgs`   (first occurrence of every href, `data:` skipped, local/remote split)
    url.Parse(..).Scheme         → `scheme` / `remoteHref` (Go's `getScheme`, lower-cased; html.UnescapeString and the
                                   error paths of url.Parse are NOT modelled: hrefs with `&` before the colon, CTL bytes)
    worker (the part after the fetch) → `mimeFix`, `b64std`, `Img.to_`
    bytes.Replace(svg, from, to, -1)  → `replGo`  (non-empty `from`; leftmost non-overlapping occurrences)
    runWorkers                   → transition system `Pool` / `PStep` / `pstep`
       starter goroutine   : `start`   (in list order, while fewer than 16 semaphore slots are held)
       worker, err ≠ nil   : `fail h`  (append to errhrefs under the mutex)
       worker, send + collector receive + bytes.Replace : `deliver h` (replc is unbuffered: one synchronous step)
       deferred wg.Done(); <-sema : `exit h`
       waiter goroutine    : `close`   (wg.Wait() returned → close(replc))
       collector           : `ret`     (receive on the closed channel → return svg, errhrefs)
     Not modelled: ctx cancellation/5-minute timeout, the 5 s ticker (log only), imgCache.
-/
import D2V.Gen.Bundle
namespace D2V.Bundle

abbrev Bytes := List UInt8

def lt : UInt8 := 60
def qt : UInt8 := 34

/-! The literals come from the source under test (tie R: `D2V.Gen.Bundle`, regenerated on every run); the shape facts
    the proofs need about them (`gen_K`, `gen_fmtHead`, … in `Proofs/Bundle.lean`) are re-checked against them. -/

/-- `<image href="` : the regexp's literal prefix -/
def K : Bytes := Gen.Bundle.regexPrefix
/-- the same without its leading `<` -/
def K' : Bytes := K.drop 1
/-- `data:` : hrefs starting like this are skipped, and every replacement starts like this -/
def dataPfx : Bytes := Gen.Bundle.skipPrefix
/-- `;base64,` -/
def b64Mark : Bytes := Gen.Bundle.fmtMid

/-! ### the regular expression -/

/-- bytes before the first `"` and whether there is one -/
def spanQ : Bytes → Bytes × Bool
  | [] => ([], false)
  | c :: r => if c = qt then ([], true) else ((spanQ r).1.cons c, (spanQ r).2)

/-- `K' ([^"]+) "` anchored at the head of a string that already lost its `<` -/
def tagOf (b : Bytes) : Option Bytes :=
  if K'.isPrefixOf b then
    let r := spanQ (b.drop K'.length)
    if r.2 && !r.1.isEmpty then some r.1 else none
  else none

/-- the regexp anchored at the head of `s` -/
def tagAt : Bytes → Option Bytes
  | [] => none
  | c :: r => if c = lt then tagOf r else none

/-- `FindAllSubmatch`: captured hrefs of the leftmost non-overlapping matches; `skip` = bytes of the current match
    still to be consumed -/
def findAllAux : Nat → Bytes → List Bytes
  | _, [] => []
  | skip + 1, _ :: r => findAllAux skip r
  | 0, c :: r =>
    match tagAt (c :: r) with
    | some h => h :: findAllAux (K'.length + h.length + 1) r
    | none => findAllAux 0 r

def findAll (s : Bytes) : List Bytes := findAllAux 0 s

/-! ### url scheme (Go `getScheme` + `strings.ToLower`) -/

def isAlpha (c : UInt8) : Bool := (97 ≤ c && c ≤ 122) || (65 ≤ c && c ≤ 90)
def lower (c : UInt8) : UInt8 := if 65 ≤ c && c ≤ 90 then c + 32 else c

/-- scheme of a raw URL, lower-cased; `[]` when there is none (or the parse fails) -/
def schemeAux : Bytes → Bytes → Bytes
  | _, [] => []
  | acc, c :: r =>
    if isAlpha c then schemeAux (lower c :: acc) r
    else if (48 ≤ c && c ≤ 57) || c = 43 || c = 45 || c = 46 then
      (if acc.isEmpty then [] else schemeAux (c :: acc) r)
    else if c = 58 then acc.reverse
    else []

def scheme (h : Bytes) : Bytes := schemeAux [] h

/-- `err == nil && strings.HasPrefix(u.Scheme, "http")` -/
def remoteHref (h : Bytes) : Bool := Gen.Bundle.remoteSchemePrefix.isPrefixOf (scheme h)

/-! ### filterImageElements -/

def filterAux (isRemote : Bool) : List Bytes → List Bytes → List Bytes
  | _, [] => []
  | seen, h :: r =>
    if seen.contains h then filterAux isRemote seen r
    else if dataPfx.isPrefixOf h then filterAux isRemote (h :: seen) r
    else if remoteHref h == isRemote then h :: filterAux isRemote (h :: seen) r
    else filterAux isRemote (h :: seen) r

def filterImgs (isRemote : Bool) (hs : List Bytes) : List Bytes := filterAux isRemote [] hs

/-! ### bytes.Replace(s, from, to, -1) for a non-empty `from` -/

def replGo (frm to : Bytes) : Nat → Bytes → Bytes
  | _, [] => []
  | skip + 1, _ :: r => replGo frm to skip r
  | 0, c :: r =>
    if frm.isPrefixOf (c :: r) then to ++ replGo frm to (frm.length - 1) r
    else c :: replGo frm to 0 r

/-- `strings.Replace(s, from, to, 1)` -/
def replFirst (frm to : Bytes) : Bytes → Bytes
  | [] => []
  | c :: r => if frm.isPrefixOf (c :: r) then to ++ (c :: r).drop frm.length else c :: replFirst frm to r

/-- the collector's `bytes.Replace(svg, from, to, n)` with the count the source under test passes: all occurrences when
    it is negative (`gen_replaceAll`), otherwise at most one is modelled -/
def replImpl (frm to s : Bytes) : Bytes :=
  if Gen.Bundle.replaceN < 0 then replGo frm to 0 s
  else if Gen.Bundle.replaceN = 0 then s
  else replFirst frm to s

def containsSub (pat : Bytes) : Bytes → Bool
  | [] => pat.isEmpty
  | c :: r => pat.isPrefixOf (c :: r) || containsSub pat r

/-! ### worker: MIME fix-up, base64.StdEncoding, the replacement text -/

def textXml : Bytes := Gen.Bundle.xmlFrom
def imageSvgXml : Bytes := Gen.Bundle.xmlTo
def octetStream : Bytes := Gen.Bundle.octet
def svgOpen : Bytes := Gen.Bundle.probe

/-- the two rewrites `worker` applies to the MIME type it got from the server or the sniffer -/
def mimeFix (mime data : Bytes) : Bytes :=
  let m := replFirst textXml imageSvgXml mime
  if m = octetStream && containsSub svgOpen data then Gen.Bundle.octetTo else m

/-- `html.EscapeString` on one byte -/
def escByte (c : UInt8) : Bytes :=
  if c = 38 then [38, 97, 109, 112, 59]            -- &amp;
  else if c = 39 then [38, 35, 51, 57, 59]         -- &#39;
  else if c = 60 then [38, 108, 116, 59]           -- &lt;
  else if c = 62 then [38, 103, 116, 59]           -- &gt;
  else if c = 34 then [38, 35, 51, 52, 59]         -- &#34;
  else [c]

def htmlEscape : Bytes → Bytes
  | [] => []
  | c :: r => escByte c ++ htmlEscape r

/-- the MIME type as it is embedded: escaped iff the source under test escapes it -/
def mimeOut (m : Bytes) : Bytes := if Gen.Bundle.mimeEscaped then htmlEscape m else m

/-- `encodeStd` alphabet: A–Z a–z 0–9 + / -/
def enc6 (n : Nat) : UInt8 :=
  if n < 26 then UInt8.ofNat (65 + n)
  else if n < 52 then UInt8.ofNat (97 + (n - 26))
  else if n < 62 then UInt8.ofNat (48 + (n - 52))
  else if n = 62 then 43 else 47

def pad : UInt8 := 61

def b64std : Bytes → Bytes
  | [] => []
  | [a] => [enc6 (a.toNat / 4), enc6 (a.toNat % 4 * 16), pad, pad]
  | [a, b] => [enc6 (a.toNat / 4), enc6 (a.toNat % 4 * 16 + b.toNat / 16), enc6 (b.toNat % 16 * 4), pad]
  | a :: b :: c :: rest =>
      enc6 (a.toNat / 4) :: enc6 (a.toNat % 4 * 16 + b.toNat / 16)
        :: enc6 (b.toNat % 16 * 4 + c.toNat / 64) :: enc6 (c.toNat % 64) :: b64std rest

/-- one eligible image: its href, the MIME type after `mimeFix`, its content, and whether loading it fails -/
structure Img where
  href : Bytes
  mime : Bytes
  data : Bytes
  fails : Bool
deriving Repr

/-- `img[0]` without its `<` : `image href="H"` -/
def Img.from' (i : Img) : Bytes := K' ++ (i.href ++ [qt])
/-- `image href="data:M;base64,B"` (the worker's output without its `<`) -/
def Img.to' (i : Img) : Bytes := K' ++ (dataPfx ++ (mimeOut i.mime ++ (b64Mark ++ (b64std i.data ++ [qt]))))
def Img.from_ (i : Img) : Bytes := lt :: i.from'
def Img.to_ (i : Img) : Bytes := lt :: i.to'

/-! ### runWorkers as a transition system -/

def semaCap : Nat := Gen.Bundle.semaCap

structure Pool where
  pending : List Img            -- not yet started, in the order of `imgs`
  running : List Img            -- holds a semaphore slot, fetching
  exiting : List Img            -- result handed over / error recorded; deferred wg.Done and slot release pending
  svg : Bytes
  errs : List Bytes             -- errhrefs
  wg : Nat
  closed : Bool                 -- close(replc) happened
  ret : Option (Bytes × List Bytes)
  delivered : List Img          -- ghost: completion order of the successful workers
  failed : List Img             -- ghost: failure order

inductive PStep where
  | start
  | deliver (h : Bytes)
  | fail (h : Bytes)
  | exit (h : Bytes)
  | close
  | ret

def Pool.init (svg : Bytes) (imgs : List Img) : Pool :=
  { pending := imgs, running := [], exiting := [], svg := svg, errs := [], wg := imgs.length,
    closed := false, ret := none, delivered := [], failed := [] }

def hrefIs (h : Bytes) (i : Img) : Bool := i.href == h

def pstep (s : Pool) : PStep → Option Pool
  | .start =>
    match s.pending with
    | [] => none
    | i :: r =>
      if s.running.length + s.exiting.length < semaCap then
        some { s with pending := r, running := s.running ++ [i] }
      else none
  | .deliver h =>
    match s.running.find? (hrefIs h) with
    | none => none
    | some i =>
      if !i.fails && s.ret.isNone then
        some { s with running := s.running.eraseP (hrefIs h), exiting := i :: s.exiting,
                      svg := replImpl i.from_ i.to_ s.svg, delivered := s.delivered ++ [i] }
      else none
  | .fail h =>
    match s.running.find? (hrefIs h) with
    | none => none
    | some i =>
      if i.fails then
        some { s with running := s.running.eraseP (hrefIs h), exiting := i :: s.exiting,
                      errs := s.errs ++ [i.href], failed := s.failed ++ [i] }
      else none
  | .exit h =>
    match s.exiting.find? (hrefIs h) with
    | none => none
    | some _ => some { s with exiting := s.exiting.eraseP (hrefIs h), wg := s.wg - 1 }
  | .close => if s.wg = 0 && !s.closed then some { s with closed := true } else none
  | .ret => if s.closed && s.ret.isNone then some { s with ret := some (s.svg, s.errs) } else none

def prun : Pool → List PStep → Option Pool
  | s, [] => some s
  | s, st :: r => match pstep s st with
    | some s' => prun s' r
    | none => none

/-! ### the sequential meaning (what the property promises) -/

/-- the replacements applied one after the other, in the order `ds` -/
def bundleSeq (svg : Bytes) (ds : List Img) : Bytes := ds.foldl (fun s i => replGo i.from_ i.to_ 0 s) svg

/-- `<b₁<b₂…` -/
def joinB : List Bytes → Bytes
  | [] => []
  | b :: r => lt :: (b ++ joinB r)

/-- split at every `<` : the text before the first one, and the text after each one -/
def splitLt : Bytes → Bytes × List Bytes
  | [] => ([], [])
  | c :: r =>
    let p := splitLt r
    if c = lt then ([], p.1 :: p.2) else (c :: p.1, p.2)

/-- replacement text (without `<`) of the first successfully loaded image with this href -/
def sub (imgs : List Img) (h : Bytes) : Option Bytes :=
  (imgs.find? (fun i => i.href == h && !i.fails)).map Img.to'

/-- what bundling promises for one `<…` segment: a segment that starts with an image tag whose href was loaded gets
    exactly that tag replaced; every other segment is unchanged -/
def specBody (sb : Bytes → Option Bytes) (b : Bytes) : Bytes :=
  match tagOf b with
  | some h => match sb h with
    | some t' => t' ++ b.drop (K'.length + h.length + 1)
    | none => b
  | none => b

/-- order-free specification of the bundled SVG: one simultaneous pass over the original text -/
def bundleSpec (imgs : List Img) (svg : Bytes) : Bytes :=
  let p := splitLt svg
  p.1 ++ joinB (p.2.map (specBody (sub imgs)))

/-- no image tag's attribute value runs across a `<` (true of every well-formed XML document) -/
def svgClean (bodies : List Bytes) : Bool :=
  bodies.all fun b => !K'.isPrefixOf b || (spanQ (b.drop K'.length)).2

/-! ### executable schedule: the eager starter plus a given completion order -/

def startAll : Nat → Pool → Pool
  | 0, s => s
  | n + 1, s => match pstep s .start with
    | some s' => startAll n s'
    | none => s

/-- run the system with the workers completing in the order `order` (hrefs); `none` = the order is not feasible
    under the 16-slot semaphore.  Returns the final state after `close` and `ret`. -/
def runOrder (svg : Bytes) (imgs : List Img) (order : List Bytes) : Option Pool :=
  let rec go (s : Pool) : List Bytes → Option Pool
    | [] => some s
    | h :: r =>
      let s := startAll semaCap s
      match s.running.find? (hrefIs h) with
      | none => none
      | some i =>
        match pstep s (if i.fails then .fail h else .deliver h) with
        | none => none
        | some s1 => match pstep s1 (.exit h) with
          | none => none
          | some s2 => go s2 r
  match go (Pool.init svg imgs) order with
  | none => none
  | some s => match pstep s .close with
    | none => none
    | some s1 => pstep s1 .ret

end D2V.Bundle
