/-
  Text layer, the C02 property sentence as decidable predicates (the Spec; it never mentions the parser model).

    rangesOk   "every node and every error carries a range that lies inside the input, starts no later than it
               ends, and nests inside its parent's range; line, column and offset agree with each other when
               counted in UTF-8 bytes, or in UTF-16 code units"
    (segReparses is evaluated in the driver: it needs the real ParseKey)

  "Inside the input and line/column/offset agree" is: the position is one of the positions of the *measured* text,
  i.e. reached by walking the input rune by rune and counting, for each rune, the bytes it really occupies
  (UTF-8 mode) or its UTF-16 code units (UTF-16 mode), newline resetting the column.
-/
import D2V.Model.Parser

namespace D2V.Text

/-- advance by the *real* extent of a rune: `n` bytes in UTF-8 mode, its UTF-16 length in UTF-16 mode -/
def Pos.advanceSized (p : Pos) (c : Char) (n : Nat) (u16 : Bool) : Pos :=
  let sz := if u16 then utf16Len c else n
  if c = '\n' then ⟨p.line + 1, 0, p.byte + sz⟩ else ⟨p.line, p.col + sz, p.byte + sz⟩

/-- every position of the measured text, first to last -/
def truePositions (rs : List (Char × Nat)) (u16 : Bool) : List Pos :=
  let rec go : List (Char × Nat) → Pos → List Pos
    | [], p => [p]
    | (c, n) :: rest, p => p :: go rest (p.advanceSized c n u16)
  go rs .zero

/-- the positions as the parser counts them (`Position.Advance` over the decoded runes) -/
def countedPositions (cs : List Char) (u16 : Bool) : List Pos :=
  let rec go : List Char → Pos → List Pos
    | [], p => [p]
    | c :: rest, p => p :: go rest (p.advance c u16)
  go cs .zero

structure Violation where
  clause : String      -- pos | order | nest
  kind : String        -- node kind, or "error"
  detail : String
  deriving Repr

def showPos (p : Pos) : String := s!"{p.line}:{p.col}:{p.byte}"
def showRange (r : Range) : String := s!"{showPos r.start}-{showPos r.stop}"

def posOk (tbl : List Pos) (p : Pos) : Bool := tbl.contains p

/-- the clauses about one range on its own -/
def rangeSelfOk (tbl : List Pos) (r : Range) : Option String :=
  if !posOk tbl r.start then some "pos-start"
  else if !posOk tbl r.stop then some "pos-end"
  else if r.stop.byte < r.start.byte then some "order"
  else none

def rangeInside (inner outer : Range) : Bool :=
  outer.start.byte ≤ inner.start.byte && inner.stop.byte ≤ outer.stop.byte

mutual
  /-- walk the tree; `parent` is the nearest enclosing node's kind and range -/
  def checkT (tbl : List Pos) (parent : Option (String × Range)) : T → List Violation
    | .node kind r fields =>
      let self := match rangeSelfOk tbl r with
        | some c => [⟨c, kind, showRange r⟩]
        | none => []
      let nest := match parent with
        | some (pk, pr) => if rangeInside r pr then [] else [⟨"nest", kind ++ "-in-" ++ pk, s!"{showRange r} not inside {showRange pr}"⟩]
        | none => []
      self ++ nest ++ checkFields tbl (some (kind, r)) fields
    | .arr xs => checkList tbl parent xs
    | .obj fields => checkFields tbl parent fields
    | _ => []
  def checkList (tbl : List Pos) (parent : Option (String × Range)) : List T → List Violation
    | [] => []
    | x :: xs => checkT tbl parent x ++ checkList tbl parent xs
  def checkFields (tbl : List Pos) (parent : Option (String × Range)) : List (String × T) → List Violation
    | [] => []
    | (_, x) :: xs => checkT tbl parent x ++ checkFields tbl parent xs
end

def checkErrs (tbl : List Pos) (errs : List PErr) : List Violation :=
  errs.flatMap fun e =>
    match rangeSelfOk tbl ⟨e.start, e.stop⟩ with
    | some c => [⟨c, "error", s!"{showRange ⟨e.start, e.stop⟩} {e.msg}"⟩]
    | none => []

/-- the C02 range predicate: no violation against the table of admissible positions -/
def rangeViolations (tbl : List Pos) (tree : Option T) (errs : List PErr) : List Violation :=
  (match tree with | some t => checkT tbl none t | none => []) ++ checkErrs tbl errs

def rangesOk (tbl : List Pos) (tree : Option T) (errs : List PErr) : Bool :=
  (rangeViolations tbl tree errs).isEmpty

end D2V.Text
