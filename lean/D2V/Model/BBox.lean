/-
  Model of `d2target.Diagram.BoundingBox` (the min/max fold over shapes and connections, with Go's integer
  arithmetic: `int(math.Ceil(float64(sw)/2))`, `int(f)` truncation toward zero, `math.Floor/Ceil` of route points),
  of `lib/label.Position.GetPointOnBox`, `d2target.GetIconSize`, and of the viewport arithmetic of `d2svg.dimensions` +
  `d2svg.Render` (padding, root stroke, double border) — C29.

  `Spec` (bottom of the file) is *not* derived from `BoundingBox`: it lists what `d2svg` draws for a board, reading
  the drawing code (`drawShape`: the label/icon boxes are placed on the box *grown by the 3D / multiple offsets*;
  `drawConnection`: labels at the rounded `GetLabelTopLeft`, arrowhead labels at `GetArrowheadLabelPosition`), and asks
  that each of those boxes lies inside the reported box.

  Parameters observed from the real code (not modelled): the inner box `lib/shape` gives a shape (`inner`, used for
  inside labels and icons; `innerBB` is the one `BoundingBox` asks for with the raw type keyword at the origin), the
  connection label anchor points (`GetLabelTopLeft`, `GetArrowheadLabelPosition`: route geometry), positioned tooltip
  bounds (text measurement).
-/
import D2V.Gen.BBoxConsts

namespace D2V.BBox

/-! ### constants (`d2target`, `lib/label`), regenerated from the Go sources on every run -/
def SHADOW_SIZE_X : Int := D2V.Gen.BBoxConsts.SHADOW_SIZE_X
def SHADOW_SIZE_Y : Int := D2V.Gen.BBoxConsts.SHADOW_SIZE_Y
def THREE_DEE_OFFSET : Int := D2V.Gen.BBoxConsts.THREE_DEE_OFFSET
def MULTIPLE_OFFSET : Int := D2V.Gen.BBoxConsts.MULTIPLE_OFFSET
def PADDING : Int := D2V.Gen.BBoxConsts.PADDING
def DEFAULT_ICON_SIZE : Int := D2V.Gen.BBoxConsts.DEFAULT_ICON_SIZE
def MAX_ICON_SIZE : Int := D2V.Gen.BBoxConsts.MAX_ICON_SIZE
def BADGE : Int := D2V.Gen.BBoxConsts.BADGE
def maxInt32 : Int := 2147483647
def minInt32 : Int := -2147483648

/-! ### Go arithmetic -/

/-- `int(math.Ceil(float64(n) / 2.))` -/
def ceilHalf (n : Int) : Int := (n + 1) / 2

/-- `int(f)` for a float64 in range: truncation toward zero -/
def truncZ (r : Rat) : Int := if 0 ≤ r then r.floor else r.ceil

/-- `math.Round`: half away from zero -/
def roundHalfAway (r : Rat) : Int := if 0 ≤ r then (r + 1 / 2).floor else (r - 1 / 2).ceil

structure Box where
  x : Rat
  y : Rat
  w : Rat
  h : Rat
deriving Repr, BEq, Inhabited

/-! ### lib/label -/

def isOutside (pos : String) : Bool := pos.startsWith "OUTSIDE_"
def isBorder (pos : String) : Bool := pos.startsWith "BORDER_"

/-- `Position.GetPointOnBox(box, padding, width, height)`; an unknown name is `Unset`: the box's top-left -/
def pointOnBox (pos : String) (b : Box) (pad w h : Rat) : Rat × Rat :=
  let cx := b.x + b.w / 2
  let cy := b.y + b.h / 2
  match pos with
  | "OUTSIDE_TOP_LEFT" => (b.x - pad, b.y - (pad + h))
  | "OUTSIDE_TOP_CENTER" => (cx - w / 2, b.y - (pad + h))
  | "OUTSIDE_TOP_RIGHT" => (b.x + (b.w - w - pad), b.y - (pad + h))
  | "OUTSIDE_LEFT_TOP" => (b.x - (pad + w), b.y + pad)
  | "OUTSIDE_LEFT_MIDDLE" => (b.x - (pad + w), cy - h / 2)
  | "OUTSIDE_LEFT_BOTTOM" => (b.x - (pad + w), b.y + (b.h - h - pad))
  | "OUTSIDE_RIGHT_TOP" => (b.x + (b.w + pad), b.y + pad)
  | "OUTSIDE_RIGHT_MIDDLE" => (b.x + (b.w + pad), cy - h / 2)
  | "OUTSIDE_RIGHT_BOTTOM" => (b.x + (b.w + pad), b.y + (b.h - h - pad))
  | "OUTSIDE_BOTTOM_LEFT" => (b.x + pad, b.y + (b.h + pad))
  | "OUTSIDE_BOTTOM_CENTER" => (cx - w / 2, b.y + (b.h + pad))
  | "OUTSIDE_BOTTOM_RIGHT" => (b.x + (b.w - w - pad), b.y + (b.h + pad))
  | "INSIDE_TOP_LEFT" => (b.x + pad, b.y + pad)
  | "INSIDE_TOP_CENTER" => (cx - w / 2, b.y + pad)
  | "INSIDE_TOP_RIGHT" => (b.x + (b.w - w - pad), b.y + pad)
  | "INSIDE_MIDDLE_LEFT" => (b.x + pad, cy - h / 2)
  | "INSIDE_MIDDLE_CENTER" => (cx - w / 2, cy - h / 2)
  | "INSIDE_MIDDLE_RIGHT" => (b.x + (b.w - w - pad), cy - h / 2)
  | "INSIDE_BOTTOM_LEFT" => (b.x + pad, b.y + (b.h - h - pad))
  | "INSIDE_BOTTOM_CENTER" => (cx - w / 2, b.y + (b.h - h - pad))
  | "INSIDE_BOTTOM_RIGHT" => (b.x + (b.w - w - pad), b.y + (b.h - h - pad))
  | "BORDER_TOP_LEFT" => (b.x + pad, b.y - h / 2)
  | "BORDER_TOP_CENTER" => (cx - w / 2, b.y - h / 2)
  | "BORDER_TOP_RIGHT" => (b.x + (b.w - w - pad), b.y - h / 2)
  | "BORDER_LEFT_TOP" => (b.x - w / 2, b.y + pad)
  | "BORDER_LEFT_MIDDLE" => (b.x - w / 2, cy - h / 2)
  | "BORDER_LEFT_BOTTOM" => (b.x - w / 2, b.y + (b.h - h - pad))
  | "BORDER_RIGHT_TOP" => (b.x + (b.w - w / 2), b.y + pad)
  | "BORDER_RIGHT_MIDDLE" => (b.x + (b.w - w / 2), cy - h / 2)
  | "BORDER_RIGHT_BOTTOM" => (b.x + (b.w - w / 2), b.y + (b.h - h - pad))
  | "BORDER_BOTTOM_LEFT" => (b.x + pad, b.y + (b.h - h / 2))
  | "BORDER_BOTTOM_CENTER" => (cx - w / 2, b.y + (b.h - h / 2))
  | "BORDER_BOTTOM_RIGHT" => (b.x + (b.w - w - pad), b.y + (b.h - h / 2))
  | _ => (b.x, b.y)

/-- `d2target.GetIconSize(box, position)` -/
def iconSize (b : Box) (pos : String) : Int :=
  let minDim : Int := truncZ (if b.w ≤ b.h then b.w else b.h)
  let half : Int := ceilHalf minDim
  let size : Int := if pos == "INSIDE_MIDDLE_CENTER" then half else min minDim (max DEFAULT_ICON_SIZE half)
  let size := min size MAX_ICON_SIZE
  if !isOutside pos then
    min size (min (max (truncZ b.w - 2 * PADDING) 0) (max (truncZ b.h - 2 * PADDING) 0))
  else size

/-! ### inputs -/

structure Label where
  pos : String
  w : Int
  h : Int
deriving Repr, Inhabited

structure Shape where
  id : String := ""
  type : String := "rectangle"
  x : Int := 0
  y : Int := 0
  w : Int := 0
  h : Int := 0
  sw : Int := 2
  shadow : Bool := false
  threeDee : Bool := false
  multiple : Bool := false
  badge : Bool := false               -- Tooltip != "" || Link != ""
  tipPos : Bool := false              -- TooltipPosition != ""
  visible : Bool := true              -- Opacity != 0 (d2svg draws label and icon only then)
  image : Bool := false               -- Type == "image"
  inner : Box := ⟨0, 0, 0, 0⟩         -- lib/shape inner box at the shape's position (d2svg)
  innerBB : Box := ⟨0, 0, 0, 0⟩       -- inner box `BoundingBox` asks for (raw type keyword, origin)
  icon : Option String := none        -- IconPosition when Icon != nil
  label : Option Label := none        -- when Label != ""
deriving Repr, Inhabited

structure AnchoredLabel where
  tx : Rat
  ty : Rat
  w : Int
  h : Int
deriving Repr, Inhabited

structure Conn where
  id : String := ""
  sw : Int := 2
  route : List (Rat × Rat) := []
  label : Option AnchoredLabel := none      -- tl = GetLabelTopLeft()
  srcLabel : Option AnchoredLabel := none   -- tl = GetArrowheadLabelPosition(false)
  dstLabel : Option AnchoredLabel := none
deriving Repr, Inhabited

structure Diagram where
  shapes : List Shape
  conns : List Conn
deriving Repr, Inhabited

/-! ### BoundingBox -/

/-- candidates a shape or connection feeds into the four running min / max -/
structure Cands where
  x1 : List Int := []
  y1 : List Int := []
  x2 : List Int := []
  y2 : List Int := []
deriving Repr, Inhabited

def Cands.append (a b : Cands) : Cands := ⟨a.x1 ++ b.x1, a.y1 ++ b.y1, a.x2 ++ b.x2, a.y2 ++ b.y2⟩
instance : Append Cands := ⟨Cands.append⟩

def Shape.box (s : Shape) : Box := ⟨s.x, s.y, s.w, s.h⟩

def threeDeeOffsetY (s : Shape) : Int := if s.type == "hexagon" then THREE_DEE_OFFSET / 2 else THREE_DEE_OFFSET

/-- which variant of `BoundingBox` is modelled (regenerated flag): the tree as found places the label of a 3d / multiple
    shape on the plain box with ad-hoc shifts; with `labelOnGrownBox` it uses the grown box, as `d2svg.drawShape` does -/
structure Cfg where
  labelOnGrownBox : Bool
deriving Repr, DecidableEq, Inhabited

/-- the variant the current source tree implements -/
def Cfg.current : Cfg := ⟨D2V.Gen.BBoxConsts.labelOnGrownBox⟩
/-- the tree as found (before the `fix:` for label placement) -/
def Cfg.v0 : Cfg := ⟨false⟩
/-- with the `fix:` applied -/
def Cfg.v1 : Cfg := ⟨true⟩

/-- the box d2svg places an outside / border label (or an outside icon's label) on: the shape box grown by the 3D or
    multiple offset (`drawShape`) -/
def grownBox (s : Shape) : Box :=
  if s.threeDee then
    let oy : Rat := threeDeeOffsetY s
    ⟨s.x, (s.y : Rat) - oy, (s.w : Rat) + THREE_DEE_OFFSET, (s.h : Rat) + oy⟩
  else if s.multiple then
    ⟨s.x, (s.y : Rat) - MULTIPLE_OFFSET, (s.w : Rat) + MULTIPLE_OFFSET, (s.h : Rat) + MULTIPLE_OFFSET⟩
  else s.box

/-- label top-left as `BoundingBox` computes it -/
def labelTLBB (cfg : Cfg) (s : Shape) (l : Label) : Rat × Rat :=
  if cfg.labelOnGrownBox then
    pointOnBox l.pos (if isOutside l.pos || isBorder l.pos then grownBox s else s.box) PADDING l.w l.h
  else
  let p := pointOnBox l.pos s.box PADDING l.w l.h
  if s.threeDee then
    let off : Rat := threeDeeOffsetY s
    let px := if l.pos.startsWith "OUTSIDE_RIGHT" then p.1 + off else p.1
    let py := if l.pos.startsWith "OUTSIDE_TOP" then p.2 - off else p.2
    (px, py)
  else p

/-- the statements of the shape loop of `BoundingBox`, one definition per `if` block, in source order; positioned
    tooltips (`calculateTooltipBounds`, text measurement) are a parameter: `tip = none` when unknown -/
def baseCands (s : Shape) : Cands :=
  let c := ceilHalf s.sw
  ⟨[s.x - c], [s.y - c], [s.x + s.w + c], [s.y + s.h + c]⟩

def personCands (s : Shape) : Cands :=
  if s.type == "c4-person" then
    let headRadius := truncZ ((s.w : Rat) * ((D2V.Gen.BBoxConsts.headRadiusPct : Rat) / 100))
    let headCenterY := truncZ ((s.h : Rat) * ((D2V.Gen.BBoxConsts.headCenterPct : Rat) / 100))
    ⟨[], [s.y + headCenterY - headRadius - s.sw], [], []⟩
  else {}

def badgeCands (s : Shape) (tip : Option (Int × Int × Int × Int)) : Cands :=
  if s.badge then
    if s.tipPos then
      match tip with
      | some (a, b, c', d) => ⟨[a], [b], [c'], [d]⟩
      | none => {}
    else ⟨[], [s.y - s.sw - BADGE], [s.x + s.sw + s.w + BADGE], []⟩
  else {}

def shadowCands (s : Shape) : Cands :=
  let c := ceilHalf s.sw
  if s.shadow then ⟨[], [], [s.x + s.w + c + SHADOW_SIZE_X], [s.y + s.h + c + SHADOW_SIZE_Y]⟩ else {}

def threeCands (s : Shape) : Cands :=
  if s.threeDee then ⟨[], [s.y - threeDeeOffsetY s - s.sw], [s.x + THREE_DEE_OFFSET + s.w + s.sw], []⟩ else {}

def multiCands (s : Shape) : Cands :=
  if s.multiple then ⟨[], [s.y - MULTIPLE_OFFSET - s.sw], [s.x + MULTIPLE_OFFSET + s.w + s.sw], []⟩ else {}

def iconCands (s : Shape) : Cands :=
  match s.icon with
  | some pos =>
    if isOutside pos then
      let size := iconSize s.innerBB pos
      if pos.startsWith "OUTSIDE_TOP" then ⟨[], [s.y - PADDING - size], [], []⟩
      else if pos.startsWith "OUTSIDE_BOTTOM" then ⟨[], [], [], [s.y + s.h + PADDING + size]⟩
      else if pos.startsWith "OUTSIDE_LEFT" then ⟨[s.x - PADDING - size], [], [], []⟩
      else if pos.startsWith "OUTSIDE_RIGHT" then ⟨[], [], [s.x + s.w + PADDING + size], []⟩
      else {}
    else {}
  | none => {}

def labelCands (cfg : Cfg) (s : Shape) : Cands :=
  match s.label with
  | some l =>
    let p := labelTLBB cfg s l
    ⟨[truncZ p.1], [truncZ p.2], [truncZ p.1 + l.w], [truncZ p.2 + l.h]⟩
  | none => {}

def shapeCands (cfg : Cfg) (s : Shape) (tip : Option (Int × Int × Int × Int) := none) : Cands :=
  baseCands s ++ personCands s ++ badgeCands s tip ++ shadowCands s ++ threeCands s ++ multiCands s ++ iconCands s ++ labelCands cfg s

def anchoredCands (l : Option AnchoredLabel) : Cands :=
  match l with
  | some a => ⟨[truncZ a.tx], [truncZ a.ty], [truncZ a.tx + a.w], [truncZ a.ty + a.h]⟩
  | none => {}

def routeCands (c : Conn) : Cands :=
  let k := ceilHalf c.sw
  ⟨c.route.map (fun p => p.1.floor - k), c.route.map (fun p => p.2.floor - k),
   c.route.map (fun p => p.1.ceil + k), c.route.map (fun p => p.2.ceil + k)⟩

def connCands (c : Conn) : Cands :=
  routeCands c ++ anchoredCands c.label ++ anchoredCands c.srcLabel ++ anchoredCands c.dstLabel

def allCands (cfg : Cfg) (d : Diagram) (tips : String → Option (Int × Int × Int × Int) := fun _ => none) : Cands :=
  (d.shapes.map fun s => shapeCands cfg s (tips s.id)).foldl (· ++ ·) {} ++ (d.conns.map connCands).foldl (· ++ ·) {}

structure IBox where
  x1 : Int
  y1 : Int
  x2 : Int
  y2 : Int
deriving Repr, BEq, DecidableEq, Inhabited

def minFold (init : Int) (l : List Int) : Int := l.foldl min init
def maxFold (init : Int) (l : List Int) : Int := l.foldl max init

/-- `Diagram.BoundingBox()` -/
def boundingBox (cfg : Cfg) (d : Diagram) (tips : String → Option (Int × Int × Int × Int) := fun _ => none) : IBox :=
  if d.shapes.isEmpty then ⟨0, 0, 0, 0⟩ else
  let c := allCands cfg d tips
  ⟨minFold maxInt32 c.x1, minFold maxInt32 c.y1, maxFold minInt32 c.x2, maxFold minInt32 c.y2⟩

/-! ### viewport: `dimensions` + the shifts of `Render` (no legend) -/

structure ViewBox where
  left : Int
  top : Int
  w : Int
  h : Int
deriving Repr, BEq, DecidableEq, Inhabited

def INNER_BORDER_OFFSET : Int := D2V.Gen.BBoxConsts.INNER_BORDER_OFFSET

def viewBox (bb : IBox) (pad rootSW : Int) (rootDouble : Bool) : ViewBox :=
  let left := bb.x1 - pad
  let top := bb.y1 - pad
  let w := bb.x2 - bb.x1 + pad * 2
  let h := bb.y2 - bb.y1 + pad * 2
  let c := ceilHalf rootSW
  -- background element, then the view box around it
  let left := left - c - c
  let top := top - c - c
  let w := w + c * 2 + c * 2
  let h := h + c * 2 + c * 2
  if rootDouble then
    let left := left - (c + INNER_BORDER_OFFSET) - c
    let top := top - (c + INNER_BORDER_OFFSET) - c
    let w := w + (c * 2 + 2 * INNER_BORDER_OFFSET) + c * 2
    let h := h + (c * 2 + 2 * INNER_BORDER_OFFSET) + c * 2
    ⟨left, top, w, h⟩
  else ⟨left, top, w, h⟩

/-! ### Spec: what is drawn -/

structure RBox where
  x1 : Rat
  y1 : Rat
  x2 : Rat
  y2 : Rat
deriving Repr, Inhabited, DecidableEq

/-- a drawn extent with the name of the clause of the property sentence it belongs to -/
structure Extent where
  what : String
  box : RBox
deriving Repr, Inhabited, DecidableEq

/-- the shape box with its stroke, and its shadow / 3D / multiple companions -/
def boxExtents (s : Shape) : List Extent :=
  let c : Rat := ceilHalf s.sw
  let x : Rat := s.x
  let y : Rat := s.y
  let w : Rat := s.w
  let h : Rat := s.h
  [⟨"shape-box-with-stroke", ⟨x - c, y - c, x + w + c, y + h + c⟩⟩] ++
  (if s.shadow then [⟨"shadow", ⟨x - c + SHADOW_SIZE_X, y - c + SHADOW_SIZE_Y, x + w + c + SHADOW_SIZE_X, y + h + c + SHADOW_SIZE_Y⟩⟩] else []) ++
  (if s.threeDee then
    let oy : Rat := threeDeeOffsetY s
    [⟨"3d", ⟨x - c, y - oy - c, x + w + THREE_DEE_OFFSET + c, y + h + c⟩⟩] else []) ++
  (if s.multiple then
    [⟨"multiple", ⟨x + MULTIPLE_OFFSET - c, y - MULTIPLE_OFFSET - c, x + w + MULTIPLE_OFFSET + c, y + h - MULTIPLE_OFFSET + c⟩⟩] else [])

/-- the label when it can leave the shape (outside and border positions), where `drawShape` puts it -/
def labelExtents (s : Shape) : List Extent :=
  match s.label with
  | some l =>
    if s.visible && (isOutside l.pos || isBorder l.pos) then
      let p := pointOnBox l.pos (grownBox s) PADDING l.w l.h
      [⟨(if isOutside l.pos then "outside-label" else "border-label"), ⟨p.1, p.2, p.1 + l.w, p.2 + l.h⟩⟩]
    else []
  | none => []

/-- the icon, where `drawShape` puts it -/
def iconExtents (s : Shape) : List Extent :=
  match s.icon with
  | some pos =>
    if s.visible && !s.image then
      let b := if isOutside pos then s.box else s.inner
      let size : Rat := iconSize b pos
      let p := pointOnBox pos b PADDING size size
      [⟨(if isOutside pos then "outside-icon" else "icon"), ⟨p.1, p.2, p.1 + size, p.2 + size⟩⟩]
    else []
  | none => []

def shapeExtents (s : Shape) : List Extent := boxExtents s ++ labelExtents s ++ iconExtents s

def routeExtents (c : Conn) : List Extent :=
  let k : Rat := (c.sw : Rat) / 2
  c.route.map fun p => ⟨"route-point", ⟨p.1 - k, p.2 - k, p.1 + k, p.2 + k⟩⟩

/-- the connection label: `drawConnection` rounds the anchor -/
def connLabelExtents (c : Conn) : List Extent :=
  match c.label with
  | some a =>
    let x : Rat := roundHalfAway a.tx
    let y : Rat := roundHalfAway a.ty
    [⟨"connection-label", ⟨x, y, x + a.w, y + a.h⟩⟩]
  | none => []

def arrowheadExtents (l : Option AnchoredLabel) : List Extent :=
  match l with
  | some a => [⟨"arrowhead-label", ⟨a.tx, a.ty, a.tx + a.w, a.ty + a.h⟩⟩]
  | none => []

def connExtents (c : Conn) : List Extent :=
  routeExtents c ++ connLabelExtents c ++ arrowheadExtents c.srcLabel ++ arrowheadExtents c.dstLabel

def extents (d : Diagram) : List Extent :=
  (d.shapes.map shapeExtents).flatten ++ (d.conns.map connExtents).flatten

/-- `e ⊆ bb` up to `slack` pixels (the property's tolerance: 1 px, for Go's truncation of negative coordinates and
    the rounding of connection label anchors) -/
def enclosed (slack : Rat) (bb : IBox) (e : RBox) : Bool :=
  decide ((bb.x1 : Rat) - slack ≤ e.x1 ∧ (bb.y1 : Rat) - slack ≤ e.y1 ∧ e.x2 ≤ (bb.x2 : Rat) + slack ∧ e.y2 ≤ (bb.y2 : Rat) + slack)

def slack : Rat := 1

/-- the viewport `[left, left+w] × [top, top+h]` contains the reported box grown by the padding -/
def viewportContains (vb : ViewBox) (bb : IBox) (pad : Int) : Bool :=
  decide (vb.left ≤ bb.x1 - pad ∧ vb.top ≤ bb.y1 - pad ∧ bb.x2 + pad ≤ vb.left + vb.w ∧ bb.y2 + pad ≤ vb.top + vb.h)

end D2V.BBox
