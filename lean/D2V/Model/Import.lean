/-
  C14 — imports.  Model of `d2ir/import.go: compiler.pushImportStack` (path normalisation + cycle test) and of the
  recursion `__import → compileMap → _import → …`, plus the reference transformation `inline` over the small AST.

  Go code modelled
    pushImportStack   impPath := imp.PathWithPre()              -- path.Join(pre, first key segment)
                      if len(stack) > 0 { if path.Ext(impPath) != ".d2" { impPath += ".d2" }
                                          if !filepath.IsAbs(impPath) { impPath = path.Join(path.Dir(top), impPath) } }
                      for p in stack: if impPath == p → error "detected cyclic import chain: …", no push
                      push
    __import          push; open (error "failed to import" when absent); parse; compile the file's map — which runs
                      into the file's own imports, in source order; pop
  `path.Clean / Join / Dir / Ext` are re-implemented below on `/`-separated strings.

  The file system is abstracted to what the recursion looks at: for every (normalised) path that opens, the list
  of raw import strings of that file in the order the compiler meets them.
-/
import D2V.Model.SemAst
import D2V.Model.Boards
namespace D2V.Import
open D2V.SemAst

/-! ### Go's `path` package — on character lists (structural recursion, so that instances evaluate in the kernel),
    wrapped for `String` -/

abbrev Cs := List Char

/-- split at every `sep` (like `strings.Split`): always at least one piece -/
def splitC (sep : Char) : Cs → List Cs
  | [] => [[]]
  | c :: r =>
    if c == sep then [] :: splitC sep r
    else match splitC sep r with
      | [] => [[c]]
      | h :: t => (c :: h) :: t

def joinC (sep : Char) : List Cs → Cs
  | [] => []
  | [x] => x
  | x :: r => x ++ sep :: joinC sep r

def dotdot : Cs := ['.', '.']

/-- `path.Clean` -/
def cleanC (p : Cs) : Cs :=
  if p.isEmpty then ['.'] else
  let rooted := p.head? == some '/'
  let step (acc : List Cs) (c : Cs) : List Cs :=
    if c.isEmpty || c == ['.'] then acc
    else if c == dotdot then
      match acc with
      | [] => if rooted then [] else [dotdot]
      | top :: rest => if top == dotdot then dotdot :: top :: rest else rest
    else c :: acc
  let comps := ((splitC '/' p).foldl step []).reverse
  let body := joinC '/' comps
  if rooted then '/' :: body else if body.isEmpty then ['.'] else body

/-- `path.Join` -/
def joinPathC (elems : List Cs) : Cs :=
  let ne := elems.filter (!·.isEmpty)
  if ne.isEmpty then [] else cleanC (joinC '/' ne)

/-- `path.Dir` -/
def dirC (p : Cs) : Cs :=
  let cs := splitC '/' p
  cleanC (joinC '/' cs.dropLast ++ (if cs.length > 1 then ['/'] else []))

/-- `path.Ext`: from the last `.` of the last element -/
def extC (p : Cs) : Cs :=
  let last := (splitC '/' p).getLast?.getD []
  match (splitC '.' last).reverse with
  | [] => []
  | [_] => []
  | e :: _ => '.' :: e

def clean (p : String) : String := String.ofList (cleanC p.toList)
def join (elems : List String) : String := String.ofList (joinPathC (elems.map String.toList))
def dir (p : String) : String := String.ofList (dirC p.toList)
def ext (p : String) : String := String.ofList (extC p.toList)
def isAbs (p : String) : Bool := p.toList.head? == some '/'

/-! ### the text after `@`: leading run of `.` and `/` is `Pre`, then a key whose first segment is the file
    (a following unquoted segment `d2` is dropped), the remaining segments select a field of the imported map -/

structure ImpRef where
  pre : String
  file : String
  keys : List String
deriving Repr, BEq, DecidableEq

def parseImp (raw : String) : ImpRef :=
  let cs := raw.toList
  let pre := cs.takeWhile fun c => c == '.' || c == '/'
  let rest := cs.dropWhile fun c => c == '.' || c == '/'
  match splitC '.' rest with
  | [] => { pre := String.ofList pre, file := "", keys := [] }
  | f :: more =>
    let more := match more with
      | ['d', '2'] :: r => r
      | r => r
    { pre := String.ofList pre, file := String.ofList f, keys := more.map String.ofList }

/-- `Import.PathWithPre()` -/
def pathWithPre (raw : String) : String :=
  let r := parseImp raw
  join [r.pre, r.file]

/-- the path `pushImportStack` compares and pushes, given the current stack (top = last element) -/
def normalise (stack : List String) (raw : String) : String :=
  let p := pathWithPre raw
  match stack.getLast? with
  | none => p
  | some top =>
    let p := if ext p != ".d2" then p ++ ".d2" else p
    if isAbs p then p else join [dir top, p]

/-- `formatCyclicChain` -/
def formatChain (chain : List String) : String :=
  String.join (chain.map (· ++ " -> ")) ++ chain.headD ""

inductive Push
  | cycle (msg : String)
  | pushed (stack : List String) (path : String)
deriving Repr, BEq, DecidableEq

def push (stack : List String) (raw : String) : Push :=
  let p := normalise stack raw
  if stack.contains p then
    .cycle ("detected cyclic import chain: " ++ formatChain (stack.dropWhile (· != p)))
  else .pushed (stack ++ [p]) p

/-! ### the recursion -/

/-- what opens: normalised path ↦ raw import strings of that file, in the order the compiler meets them -/
abbrev FS := List (String × List String)

def FS.get? (fs : FS) (p : String) : Option (List String) :=
  match fs.find? (·.1 == p) with
  | some e => some e.2
  | none => none

inductive Ev
  | cycle (msg : String)
  | missing (path : String)
  | outOfFuel
deriving Repr, BEq, DecidableEq

/-- the imports of one file, in order; `failed` becomes true as soon as an event was recorded -/
def walkListWith (f : Bool → String → List Ev) : Bool → List String → List Ev
  | _, [] => []
  | failed, r :: rs =>
    let evs := f failed r
    evs ++ walkListWith f (failed || !evs.isEmpty) rs

/-- events produced by importing `raw` from the file on top of `stack`.  `failed`: an error has already been
    recorded — `__import` still pushes (cycle test) and opens the file, but `d2parser.Parse` is handed the shared
    error list and returns it, so the file's content (and its imports) is not compiled any more. -/
def walkImp : Nat → FS → List String → Bool → String → List Ev
  | 0, _, _, _, _ => [.outOfFuel]
  | n + 1, fs, stack, failed, raw =>
    match push stack raw with
    | .cycle m => [.cycle m]
    | .pushed stack' p =>
      match fs.get? p with
      | none => [.missing p]
      | some imps => if failed then [] else walkListWith (walkImp n fs stack') false imps

/-- … and by the imports of one file, in order -/
def walkList (n : Nat) (fs : FS) (stack : List String) (failed : Bool) (imps : List String) : List Ev :=
  walkListWith (walkImp n fs stack) failed imps

theorem walkList_nil (n : Nat) (fs : FS) (stack : List String) (failed : Bool) :
    walkList n fs stack failed [] = [] := rfl

theorem walkList_cons (n : Nat) (fs : FS) (stack : List String) (failed : Bool) (r : String) (rs : List String) :
    walkList n fs stack failed (r :: rs) =
      walkImp n fs stack failed r ++ walkList n fs stack (failed || !(walkImp n fs stack failed r).isEmpty) rs := rfl

theorem walkImp_succ (n : Nat) (fs : FS) (stack : List String) (failed : Bool) (raw : String) :
    walkImp (n + 1) fs stack failed raw =
      match push stack raw with
      | .cycle m => [.cycle m]
      | .pushed stack' p =>
        match fs.get? p with
        | none => [.missing p]
        | some imps => if failed then [] else walkList n fs stack' false imps := rfl

/-- compiling the entry file `entry` (its own path is pushed raw, as `Compile` does) -/
def walk (fuel : Nat) (fs : FS) (entry : String) : List Ev :=
  match fs.get? entry with
  | none => []
  | some imps => walkList fuel fs [entry] false imps

def fuelFor (fs : FS) : Nat := fs.length + 2

/-! ### imports of a body in compile order; the reference transformation `inline` -/

mutual
def importsOfVal : Val → List String
  | .map b => importsOfBody b
  | .imp p => [p]
  | _ => []
def importsOfStmt : Stmt → List String
  | .field _ _ _ v => importsOfVal v
  | .edge _ _ _ _ _ _ _ v => importsOfVal v
  | .spreadImp p => [p]
  | .spreadSub _ => []
def importsOfBody : List Stmt → List String
  | [] => []
  | s :: r => importsOfStmt s ++ importsOfBody r
end

def fsOf (p : Prog) : FS := p.map fun f => (f.name, importsOfBody f.body)

def progGet? (p : Prog) (name : String) : Option Body :=
  match p.find? (·.name == name) with
  | some f => some f.body
  | none => none

/-! `extendLinks`: relative icons of an imported map are re-based on the directory of the import -/

def isRemote (v : String) : Bool :=
  v.startsWith "/" || (v.splitOn "://").length > 1

def iconKey (k : Key) : Bool :=
  match k.getLast? with
  | some s => s.q == 0 && s.s == "icon"
  | none => false

mutual
def rebaseVal (d : String) : Val → Val
  | .map b => .map (rebaseBody d b)
  | v => v
def rebaseStmt (d : String) : Stmt → Stmt
  | .field a k p (.scal v) =>
    if iconKey k then
      match v.text? with
      | some t => if t == "" || isRemote t then .field a k p (.scal v) else .field a k p (.scal (litScal 0 (join [d, t])))
      | none => .field a k p (.scal v)
    else .field a k p (.scal v)
  | .field a k p v => .field a k p (rebaseVal d v)
  | .edge c s ar ds i ek p v => .edge c s ar ds i ek p (rebaseVal d v)
  | s => s
def rebaseBody (d : String) : List Stmt → List Stmt
  | [] => []
  | s :: r => rebaseStmt d s :: rebaseBody d r
end

/-- `Import.Dir()` -/
def importDir (raw : String) : String := dir (pathWithPre raw)

/-- the declaration `key: prim {…}` selected by an import key path inside a body (declared exactly once) -/
def selectKey : List String → Body → Option (Option Scal × Val)
  | [], _ => none
  | k :: rest, body =>
    match body.filter (fun s => match s with
        | .field 0 [n] _ _ => n.q == 0 && n.s == k
        | _ => false) with
    | [.field _ _ p v] =>
      if rest.isEmpty then some (p, v)
      else match v with
        | .map b => selectKey rest b
        | _ => none
    | _ => none

inductive InlErr
  | cycle
  | missing (path : String)
  | keys (path : String)
deriving Repr, BEq, DecidableEq

mutual
/-- `inline`: every import replaced by the imported file's (inlined) content — a spread import by the statements
    themselves, a value import by a map holding them.  `stack` is the import stack (for relative resolution). -/
def inlineVal : Nat → Prog → List String → Val → Except InlErr Val
  | 0, _, _, _ => .error .cycle
  | n + 1, files, stack, .map b => do pure (.map (← inlineBody (n + 1) files stack b))
  | n + 1, files, stack, .imp raw =>
    match push stack raw with
    | .cycle _ => .error .cycle
    | .pushed stack' p =>
      match progGet? files p with
      | none => .error (.missing p)
      | some content => do
        let inl ← inlineBody n files stack' content
        if (parseImp raw).keys.isEmpty then pure (.map (rebaseBody (importDir raw) inl))
        else .error (.keys raw)   -- key imports are resolved at the declaration (they may carry a primary value)
  | _ + 1, _, _, v => pure v
def inlineBody : Nat → Prog → List String → List Stmt → Except InlErr (List Stmt)
  | _, _, _, [] => pure []
  | 0, _, _, _ :: _ => .error .cycle
  | n + 1, files, stack, .spreadImp raw :: rest =>
    if !(parseImp raw).keys.isEmpty then .error (.keys raw) else
    match push stack raw with
    | .cycle _ => .error .cycle
    | .pushed stack' p =>
      match progGet? files p with
      | none => .error (.missing p)
      | some content => do
        let a ← inlineBody n files stack' content
        let b ← inlineBody (n + 1) files stack rest
        pure (rebaseBody (importDir raw) a ++ b)
  | n + 1, files, stack, .field a k p (.imp raw) :: rest =>
    if (parseImp raw).keys.isEmpty then do
      let v' ← inlineVal (n + 1) files stack (.imp raw)
      let r ← inlineBody (n + 1) files stack rest
      pure (.field a k p v' :: r)
    else
      -- `k: @file.a.b`: the field `a.b` of the imported map (primary value and composite; no re-basing: `extendLinks`
      -- only runs when a whole map is imported)
      match push stack raw with
      | .cycle _ => .error .cycle
      | .pushed stack' q =>
        match progGet? files q with
        | none => .error (.missing q)
        | some content => do
          let inl ← inlineBody n files stack' content
          let r ← inlineBody (n + 1) files stack rest
          match selectKey (parseImp raw).keys inl with
          | some (p', v') => pure (.field a k p' v' :: r)
          | none => .error (.keys raw)
  | n + 1, files, stack, .field a k p v :: rest => do
    let v' ← inlineVal (n + 1) files stack v
    let r ← inlineBody (n + 1) files stack rest
    pure (.field a k p v' :: r)
  | n + 1, files, stack, .edge c s ar d i ek p v :: rest => do
    let v' ← inlineVal (n + 1) files stack v
    let r ← inlineBody (n + 1) files stack rest
    pure (.edge c s ar d i ek p v' :: r)
  | n + 1, files, stack, s :: rest => do
    let r ← inlineBody (n + 1) files stack rest
    pure (s :: r)
end

/-- the single-file twin of a file set (entry = first file) -/
def inline (p : Prog) : Except InlErr Body :=
  match p with
  | [] => pure []
  | f :: _ => inlineBody (p.length + 2) p [f.name] f.body

end D2V.Import

/-! ### flat fragment: imports as "compile the file in its own map, then `OverlayMap`" against inlining
    (board content as in `Model/Boards.lean`: ordered map object ↦ attributes) -/
namespace D2V.ImportFlat
open D2V.Boards

/-- `OverlayField` on the flat fragment: the overlay's attributes win, attribute by attribute -/
def mergeAttrs (base over : Attrs) : Attrs := over.foldl (fun a kv => setAttr a kv.1 kv.2) base

/-- `OverlayMap`: fields of the overlay are merged into the base field of the same name or appended -/
def overlay (base : Content) : Content → Content
  | [] => base
  | (n, a) :: rest =>
    if base.has n then overlay (base.map fun e => if e.1 == n then (n, mergeAttrs e.2 a) else e) rest
    else overlay (base ++ [(n, a)]) rest

/-- a file of the flat fragment: declarations and spread imports (index into the file table) -/
inductive FItem
  | op (o : Op)
  | spread (file : Nat)

abbrev Files := List (List FItem)

/-- compile a file body into `dst`: a spread import compiles the imported file in its own (empty) map and overlays it -/
def evalF : Nat → Files → List FItem → Content → Content
  | _, _, [], dst => dst
  | n, fs, .op o :: rest, dst => evalF n fs rest (applyOp dst o)
  | 0, _, .spread _ :: _, dst => dst
  | n + 1, fs, .spread i :: rest, dst =>
    evalF (n + 1) fs rest (overlay dst (evalF n fs (fs.getD i []) []))

/-- the inlined program -/
def inlineF : Nat → Files → List FItem → List Op
  | _, _, [] => []
  | n, fs, .op o :: rest => o :: inlineF n fs rest
  | 0, _, .spread _ :: _ => []
  | n + 1, fs, .spread i :: rest => inlineF n fs (fs.getD i []) ++ inlineF (n + 1) fs rest

end D2V.ImportFlat
