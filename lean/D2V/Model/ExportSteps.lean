/-
  Vocabulary shared by the regenerated `D2V.Gen.Export` and the model `D2V.Model.Export` (C28): the steps of the
  style pipeline of `d2exporter.toShape`, and how `applyStyles` / `toConnection` read a style string.
-/
namespace D2V.Export

/-- the style-relevant statements of `toShape`, in the order the translator finds them -/
inductive Step where
  | applyStyles      -- applyStyles(shape, obj)
  | applyTheme       -- applyTheme(shape, obj, g.Theme)
  | textColor        -- shape.Color = text.GetColor(shape.Italic)
  | c4FontColor      -- if g.Theme != nil && g.Theme.SpecialRules.C4 { if obj.Style.FontColor == nil { … } }
deriving DecidableEq, Repr, Inhabited

/-- how a guarded assignment converts the style string -/
inductive Reader where
  | verbatim         -- x.Value
  | atoi             -- strconv.Atoi(x.Value)
  | parseBool        -- strconv.ParseBool(x.Value)
  | parseFloat       -- strconv.ParseFloat(x.Value, 64)
deriving DecidableEq, Repr, Inhabited

end D2V.Export
