/-
  Reference interpreter for the core fragment of D2 (no globs, vars, imports, boards, classes, arrays):
  a program is a list of declarations over key paths, evaluated left to right into a field/edge tree
  (`d2ir`), which is then projected to the graph (`d2compiler`).

  Modelled Go (same case splits, same order of effects, same failure points):
    d2ir/compile.go   compileMap, compileKey, compileField, _compileField (null / primary / map / scalar),
                      compileEdges, _compileEdges (null → DeleteEdge, indexed → GetEdges, else CreateEdge; edge key; primary; map)
    d2ir/d2ir.go      EnsureField / ensureField (leading `_`, reserved-keyword guards, case-folded lookup that additionally
                      splits reserved keywords by quotedness, references), getField / GetField, EdgeID.resolve (underscores,
                      common prefix), EdgeID.Match (nil index matches all), GetEdges / getEdges, createEdge / createEdge2
                      (index rule regenerated from the source: `D2V.Gen.SemKw.idxRule`), DeleteEdge, DeleteField (attached-edge
                      removal by shared reference context up to the board root, with Go's in-place slice deletion while
                      ranging; empty `style` holder removal), appendFieldReferences, RelIDA, ParentMap / ParentField
    d2compiler        compileMap / compileField / compileReserved (label, shape) / compileStyle / compileEdge / compileEdgeMap,
                      scope objects ensured for every reference, setDefaultShapes; d2graph side in `SemGraph`.

  The IR tree is an arena: fields and edges carry the `Owner` (the map they live in); deleted nodes stay in the arena
  marked dead, because Go keeps detached maps alive while a declaration body is still being compiled into them.
  Nested map bodies are flattened (`flatten`) into a list of items with explicit `close` markers; the evaluator keeps a
  stack of scopes.  A scope is a list of maps: an indexed reference that matches several edges (possible only once
  two edges of a map share an index) opens the body for all of them.

  Anything outside the fragment that the evaluator meets is reported as `Err.gap` (the driver turns it into a
  mismatch, so an input outside the model can never pass silently).
-/
import D2V.Gen.SemKw
import D2V.Model.SemGraph
namespace D2V.Sem
open D2V.Gen.SemKw
open D2V.SemG (fold lowerC)

/-! ### names, keyword tables -/

structure Name where
  s : String
  q : Bool      -- quoted (`IsUnquoted` = !q)
  pos : Nat     -- byte offset of the token
deriving Repr, Inhabited

def inTable (t : List String) (k : List Char) : Bool := t.any fun w => w.toList == k
def inTableS (t : List String) (s : String) : Bool := t.any fun w => w == s

def toLower (s : String) : String := String.ofList (fold s)

def Name.isUnderscore (n : Name) : Bool := n.s == "_" && !n.q
/-- `ReservedKeywords[strings.ToLower(s)]` -/
def Name.resLower (n : Name) : Bool := inTable reserved (fold n.s)
def eqFold (a b : String) : Bool := fold a == fold b

/-- the match of `getField` / `ensureField`: case-insensitive, reserved keywords additionally split by quotedness -/
def Name.matches (f s : Name) : Bool :=
  eqFold f.s s.s && (!s.resLower || f.q == s.q)

/-- names whose object ID the model constructs: letters, digits, hyphen, space, dot (the last three make `RawString` quote the
    key in some positions, see `SemProj.objID`) -/
def plainChar (c : Char) : Bool := c.isAlphanum || c == '-' || c == ' ' || c == '.'
def plainName (s : String) : Bool := !s.isEmpty && s.toList.all plainChar

/-! ### AST of the core fragment (as produced by the real parser) -/

inductive Val where
  | null
  | str (s : String)
deriving Repr, Inhabited, BEq

structure EdgeAst where
  src : List Name
  dst : List Name
  sa : Bool
  da : Bool
  pos : Nat
deriving Repr, Inhabited

inductive Decl where
  | mk (key : List Name) (edges : List EdgeAst) (idx : Option Nat) (ekey : List Name)
       (prim : Option Val) (val : Option Val) (body : Option (List Decl))
deriving Repr, Inhabited

/-- a declaration with at most one edge and its map body replaced by a flag -/
structure FDecl where
  key : List Name
  edge : Option EdgeAst
  idx : Option Nat
  ekey : List Name
  prim : Option Val
  val : Option Val
  opens : Bool
deriving Repr, Inhabited

inductive Item where
  | decl (d : FDecl)
  | close
deriving Repr, Inhabited

mutual
/-- chains are split into one declaration per edge, each with its own copy of the body (as the loop of `_compileEdges`) -/
def flattenDecl : Decl → List Item
  | .mk key edges idx ekey prim val body =>
    let bodyItems : List Item := match body with
      | none => []
      | some b => flattenList b ++ [.close]
    let opens := body.isSome
    match edges with
    | [] => .decl { key, edge := none, idx, ekey, prim, val, opens } :: bodyItems
    | es => es.flatMap fun e => .decl { key, edge := some e, idx, ekey, prim, val, opens } :: bodyItems
def flattenList : List Decl → List Item
  | [] => []
  | d :: ds => flattenDecl d ++ flattenList ds
end

/-! ### the IR arena -/

inductive Owner where
  | root
  | fld (id : Nat)
  | edg (id : Nat)
deriving Repr, Inhabited, DecidableEq

/-- a reference: the edge context it belongs to (if any), the map the key was written in, the token position -/
structure Ref where
  ctx : Option Nat
  scope : Owner
  pos : Nat
deriving Repr, Inhabited

structure FNode where
  id : Nat
  owner : Owner
  name : Name
  prim : Option String := none
  hasMap : Bool := false
  refs : List Ref := []
  alive : Bool := true
deriving Repr, Inhabited

structure ENode where
  id : Nat
  owner : Owner
  src : List Name
  dst : List Name
  sa : Bool
  da : Bool
  idx : Nat
  prim : Option String := none
  hasMap : Bool := false
  refs : List Ref := []
  pos : Nat := 0
  alive : Bool := true
deriving Repr, Inhabited

inductive Err where
  | idxMissing | edgeInEdge | lastPart | underscore | reservedInEdge | styleMap | styleKeyword | styleOutside
  | reservedNoValue | reservedComposite | shapeUnknown | edgeMapKey | styleValue | boardScope
  | gap (why : String)
deriving Repr, Inhabited, BEq

def Err.cls : Err → String
  | .idxMissing => "idx-missing" | .edgeInEdge => "edge-in-edge" | .lastPart => "last-part" | .underscore => "underscore"
  | .reservedInEdge => "reserved-in-edge" | .styleMap => "style-map" | .styleKeyword => "style-keyword"
  | .styleOutside => "style-outside" | .reservedNoValue => "reserved-no-value" | .reservedComposite => "reserved-composite"
  | .shapeUnknown => "shape-unknown" | .edgeMapKey => "edge-map-key" | .styleValue => "style-value"
  | .boardScope => "board-scope" | .gap w => "gap:" ++ w

structure IR where
  fields : List FNode := []
  edges : List ENode := []
  next : Nat := 1
  errs : List Err := []
deriving Repr, Inhabited

def IR.addErr (ir : IR) (e : Err) : IR := { ir with errs := ir.errs ++ [e] }

def IR.field? (ir : IR) (id : Nat) : Option FNode := ir.fields.find? fun f => f.id == id
def IR.edge? (ir : IR) (id : Nat) : Option ENode := ir.edges.find? fun e => e.id == id

/-- `m.Fields` -/
def IR.fieldsOf (ir : IR) (m : Owner) : List FNode := ir.fields.filter fun f => f.alive && f.owner == m
/-- `m.Edges` -/
def IR.edgesOf (ir : IR) (m : Owner) : List ENode := ir.edges.filter fun e => e.alive && e.owner == m

def IR.updField (ir : IR) (id : Nat) (g : FNode → FNode) : IR :=
  { ir with fields := ir.fields.map fun f => if f.id == id then g f else f }
def IR.updEdge (ir : IR) (id : Nat) (g : ENode → ENode) : IR :=
  { ir with edges := ir.edges.map fun e => if e.id == id then g e else e }

/-- `ParentMap(m)` for a map given by its owner -/
def IR.parentMap (ir : IR) : Owner → Option Owner
  | .root => none
  | .fld id => (ir.field? id).map (·.owner)
  | .edg id => (ir.edge? id).map (·.owner)

/-- `ParentField(m)`: the field whose map `m` is (through the edge for an edge map); `none` = the root field -/
def IR.parentField (ir : IR) : Owner → Option FNode
  | .root => none
  | .fld id => ir.field? id
  | .edg id => match ir.edge? id with
    | some e => match e.owner with
      | .fld g => ir.field? g
      | _ => none
    | none => none

def rootName : Name := { s := "root", q := false, pos := 0 }

/-- `ParentEdge(m) != nil` -/
def IR.inEdge (ir : IR) : Nat → Owner → Bool
  | 0, _ => false
  | _, .root => false
  | _, .edg _ => true
  | fuel + 1, .fld id => match ir.field? id with
    | some f => ir.inEdge fuel f.owner
    | none => false

def IR.depthFuel (ir : IR) : Nat := 2 * (ir.fields.length + ir.edges.length) + 4

/-! ### lookups -/

/-- first field of `m` matching `s` (the loop shared by `getField` and `ensureField`) -/
def IR.findIn (ir : IR) (m : Owner) (s : Name) : Option FNode :=
  (ir.fieldsOf m).find? fun f => f.name.matches s

/-- `getField` -/
def IR.getField (ir : IR) (m : Owner) : List Name → Option FNode
  | [] => none
  | [s] => if s.isUnderscore then none else ir.findIn m s
  | s :: rest =>
    if s.isUnderscore then none else
    match ir.findIn m s with
    | some f => if f.hasMap then ir.getField (.fld f.id) rest else none
    | none => none

/-- `GetField` (a leading `_` walks up until there is no parent and then yields nil) -/
def IR.GetField (ir : IR) (m : Owner) (path : List Name) : Option FNode :=
  match path with
  | [] => none
  | s :: _ => if s.isUnderscore then none else ir.getField m path

/-! ### EnsureField -/

def boardish (n : Name) : Bool :=
  inTable boardKeywords (fold n.s) || fold n.s == "classes".toList || fold n.s == "vars".toList

/-- the reference recorded on a traversed field when the call carries a RefContext -/
def refList (ref : Option (Option Nat × Owner)) (pos : Nat) : List Ref :=
  match ref with
  | some (c, sc) => [{ ctx := c, scope := sc, pos := pos }]
  | none => []

/-- `ensureField` from path element `i` on; `ref` is recorded on every traversed field when the call carries a RefContext -/
def IR.ensureField (ir : IR) (m : Owner) (path : List Name) (ref : Option (Option Nat × Owner)) (create : Bool) :
    IR × Except Err (Option Nat) :=
  match path with
  | [] => (ir, .ok none)
  | head :: rest =>
    if boardish head then (ir, .error (.gap "board keyword / classes / vars")) else
    if !head.q && head.resLower && !inTable compositeReserved (fold head.s) && !rest.isEmpty then (ir, .error .lastPart) else
    if head.isUnderscore then (ir, .error .underscore) else
    let mkRef : List Ref := refList ref head.pos
    match ir.findIn m head with
    | some f =>
      let ir := ir.updField f.id fun f => { f with refs := f.refs ++ mkRef }
      if rest.isEmpty then (ir, .ok (some f.id))
      else
        let ir := ir.updField f.id fun f => { f with hasMap := true }
        ir.ensureField (.fld f.id) rest ref create
    | none =>
      if !create then (ir, .ok none) else
      let id := ir.next
      let node : FNode := { id, owner := m, name := head, refs := mkRef, hasMap := !rest.isEmpty }
      let ir := { ir with fields := ir.fields ++ [node], next := id + 1 }
      if rest.isEmpty then (ir, .ok (some id))
      else ir.ensureField (.fld id) rest ref create

/-- `EnsureField`: leading underscores climb to the parent map -/
def IR.EnsureField (ir : IR) (m : Owner) (path : List Name) (ref : Option (Option Nat × Owner)) (create : Bool) :
    IR × Except Err (Option Nat) :=
  match path with
  | [] => (ir, .ok none)
  | head :: rest =>
    if head.isUnderscore then
      match ir.parentMap m with
      | none => (ir, .error .underscore)
      | some pm => if rest.isEmpty then (ir, .error .underscore) else ir.EnsureField pm rest ref create
    else ir.ensureField m path ref create

/-! ### edges -/

structure EID where
  src : List Name
  dst : List Name
  sa : Bool
  da : Bool
  idx : Option Nat
deriving Repr, Inhabited

def pathFoldEq : List Name → List Name → Bool
  | [], [] => true
  | a :: r, b :: r' => eqFold a.s b.s && pathFoldEq r r'
  | _, _ => false

/-- `EdgeID.Match` of a stored edge against `eid` -/
def ENode.matchesEID (e : ENode) (eid : EID) : Bool :=
  (match eid.idx with | some i => e.idx == i | none => true) &&
  e.sa == eid.sa && e.da == eid.da && pathFoldEq e.src eid.src && pathFoldEq e.dst eid.dst

/-- `countUnderscores`: leading underscores, 0 when the path is nothing but underscores -/
def countUnderscores (p : List Name) : Nat :=
  let n := (p.takeWhile Name.isUnderscore).length
  if n == p.length then 0 else n

def stripCommon : List Name → List Name → List Name → (List Name × List Name × List Name)
  | a :: ra, b :: rb, acc =>
    if ra.isEmpty || rb.isEmpty then (a :: ra, b :: rb, acc)
    else if eqFold a.s b.s then stripCommon ra rb (acc ++ [a]) else (a :: ra, b :: rb, acc)
  | s, d, acc => (s, d, acc)

/-- the underscore phase of `EdgeID.resolve` -/
def IR.resolveU (ir : IR) : Nat → Owner → List Name → List Name → Except Err (Owner × List Name × List Name)
  | 0, m, src, dst => .ok (m, src, dst)
  | k + 1, m, src, dst =>
    let pf : Name := match ir.parentField m with
      | some f => f.name
      | none => rootName
    let src' := match src with
      | h :: r => if h.isUnderscore then r else pf :: src
      | [] => [pf]
    let dst' := match dst with
      | h :: r => if h.isUnderscore then r else pf :: dst
      | [] => [pf]
    match ir.parentMap m with
    | none => .error .underscore
    | some pm => ir.resolveU k pm src' dst'

/-- `EdgeID.resolve`: containing map adjusted for underscores, common prefix split off -/
def IR.resolve (ir : IR) (m : Owner) (src dst : List Name) : Except Err (Owner × List Name × List Name × List Name) :=
  match ir.resolveU (max (countUnderscores src) (countUnderscores dst)) m src dst with
  | .error e => .error e
  | .ok (m', s, d) =>
    let (s', d', common) := stripCommon s d []
    .ok (m', s', d', common)

/-- `GetEdges(eid, nil, nil)` -/
def IR.getEdgesNil (ir : IR) (m : Owner) (eid : EID) : List ENode :=
  match ir.resolve m eid.src eid.dst with
  | .error _ => []
  | .ok (m', s, d, common) =>
    let eid' := { eid with src := s, dst := d }
    if common.isEmpty then (ir.edgesOf m').filter fun e => e.matchesEID eid'
    else match ir.GetField m' common with
      | some f => if f.hasMap then (ir.edgesOf (.fld f.id)).filter fun e => e.matchesEID eid' else []
      | none => []

/-- `DeleteEdge`: the first matching edge of the resolved map -/
def IR.deleteEdge (ir : IR) (m : Owner) (eid : EID) : IR :=
  match ir.resolve m eid.src eid.dst with
  | .error _ => ir
  | .ok (m', s, d, common) =>
    let eid' := { eid with src := s, dst := d }
    let target : Option Owner :=
      if common.isEmpty then some m'
      else match ir.GetField m' common with
        | some f => if f.hasMap then some (.fld f.id) else none
        | none => none
    match target with
    | none => ir
    | some t =>
      match (ir.edgesOf t).find? fun e => e.matchesEID eid' with
      | some e => ir.updEdge e.id fun e => { e with alive := false }
      | none => ir

/-- `RelIDA(p, n)` -/
def IR.relIDA (ir : IR) (p : Owner) : Nat → Nat → List Name → List Name
  | 0, _, acc => acc
  | fuel + 1, fid, acc =>
    match ir.field? fid with
    | none => acc
    | some f =>
      let acc := f.name :: acc
      if f.owner == p then acc else
      match f.owner with
      | .fld g => ir.relIDA p fuel g acc
      | _ => acc

/-- descend the common prefix, creating it (`EnsureField(commonKP, nil, true, c)` + map creation) -/
def IR.descendCreate (ir : IR) (m : Owner) (common : List Name) : IR × Except Err Owner :=
  if common.isEmpty then (ir, .ok m) else
  match ir.EnsureField m common none true with
  | (ir, .error e) => (ir, .error e)
  | (ir, .ok none) => (ir, .error (.gap "common prefix not created"))
  | (ir, .ok (some f)) => (ir.updField f fun n => { n with hasMap := true }, .ok (.fld f))

def IR.descendLookup (ir : IR) (m : Owner) (common : List Name) : IR × Option Owner :=
  if common.isEmpty then (ir, some m) else
  match ir.EnsureField m common none false with
  | (ir, .ok (some f)) => (ir.updField f fun n => { n with hasMap := true }, some (.fld f))
  | (ir, _) => (ir, none)

/-- `findProhibitedEdgeKeyword` (exact case) -/
def prohibitedInEdge (p : List Name) : Bool :=
  p.any fun n => !n.q && (inTableS simpleReserved n.s || inTableS holders n.s)

/-- the index of a new edge given the existing edges of its class: `count` is `index := len(ea)`, `maxPlus1` one more than
    the largest existing index -/
def newIndex (rule : IdxRule) (es : List ENode) : Nat :=
  match rule with
  | .count => es.length
  | .maxPlus1 => es.foldl (fun acc e => max acc (e.idx + 1)) 0

/-- `createEdge` + `createEdge2` for one AST edge written in map `scope`; `m` is the map the edge id is resolved from -/
def IR.createEdge (ir : IR) (rule : IdxRule) (scope : Owner) (e : EdgeAst) (ctx : Nat) : IR × Except Err Nat :=
  if ir.inEdge ir.depthFuel scope then (ir, .error .edgeInEdge) else
  match ir.resolve scope e.src e.dst with
  | .error _ => (ir, .error .underscore)
  | .ok (m', s, d, common) =>
    match ir.descendCreate m' common with
    | (ir, .error err) => (ir, .error err)
    | (ir, .ok m) =>
      if prohibitedInEdge s || prohibitedInEdge d then (ir, .error .reservedInEdge) else
      if (s ++ d).any boardish then (ir, .error (.gap "board keyword in edge")) else
      match ir.EnsureField scope e.src (some (some ctx, scope)) true with
      | (ir, .error err) => (ir, .error err)
      | (ir, .ok none) => (ir, .error (.gap "src not created"))
      | (ir, .ok (some sf)) =>
        match ir.EnsureField scope e.dst (some (some ctx, scope)) true with
        | (ir, .error err) => (ir, .error err)
        | (ir, .ok none) => (ir, .error (.gap "dst not created"))
        | (ir, .ok (some df)) =>
          let sp := ir.relIDA m ir.depthFuel sf []
          let dp := ir.relIDA m ir.depthFuel df []
          -- createEdge2 resolves again; on these relative paths that must be the identity
          match ir.resolve m sp dp with
          | .ok (m2, sp2, dp2, []) =>
            if m2 != m || sp2.length != sp.length || dp2.length != dp.length then (ir, .error (.gap "second resolve moved the edge")) else
            let same := (ir.edgesOf m).filter fun x => x.matchesEID { src := sp, dst := dp, sa := e.sa, da := e.da, idx := none }
            let id := ir.next
            let node : ENode := { id, owner := m, src := sp, dst := dp, sa := e.sa, da := e.da, idx := newIndex rule same,
                                  refs := [{ ctx := some ctx, scope := scope, pos := e.pos }], pos := e.pos }
            ({ ir with edges := ir.edges ++ [node], next := id + 1 }, .ok id)
          | _ => (ir, .error (.gap "second resolve found a common prefix"))

/-- `getEdges` with a RefContext (indexed reference) -/
def IR.getEdgesRef (ir : IR) (scope : Owner) (e : EdgeAst) (idx : Option Nat) : IR × List Nat :=
  match ir.resolve scope e.src e.dst with
  | .error _ => (ir, [])
  | .ok (m', _, _, common) =>
    match ir.descendLookup m' common with
    | (ir, none) => (ir, [])
    | (ir, some m) =>
      match ir.EnsureField scope e.src none false with
      | (ir, .ok (some sf)) =>
        match ir.EnsureField scope e.dst none false with
        | (ir, .ok (some df)) =>
          let sp := ir.relIDA m ir.depthFuel sf []
          let dp := ir.relIDA m ir.depthFuel df []
          (ir, (ir.getEdgesNil m { src := sp, dst := dp, sa := e.sa, da := e.da, idx := idx }).map (·.id))
        | (ir, _) => (ir, [])
      | (ir, _) => (ir, [])

/-- `appendFieldReferences` -/
def IR.appendFieldRefs (ir : IR) (m : Owner) (path : List Name) (ref : Ref) : IR :=
  match path with
  | [] => ir
  | sb :: rest =>
    match ir.GetField m [sb] with
    | none => ir
    | some f =>
      let ir := ir.updField f.id fun n => { n with refs := n.refs ++ [{ ref with pos := sb.pos }] }
      if rest.isEmpty then ir
      else if f.hasMap then ir.appendFieldRefs (.fld f.id) rest ref else ir

/-! ### DeleteField -/

/-- Go deletes from `currM.Edges` in place while ranging over it: `backing` is the array the range reads,
    `live` the current length of the slice; deleting position `j` shifts `[j+1, live)` left and leaves slot `live-1` as it was -/
def shiftDelete (backing : List ENode) (j live : Nat) : List ENode :=
  (backing.take j) ++ ((backing.take live).drop (j + 1)) ++ (backing.drop (live - 1))

def findIdx (l : List ENode) (p : ENode → Bool) : Option Nat :=
  let rec go : List ENode → Nat → Option Nat
    | [], _ => none
    | x :: r, i => if p x then some i else go r (i + 1)
  go l 0

def delAttachedLoop (ctx : Nat) : Nat → Nat → List ENode → Nat → List Nat → List Nat
  | 0, _, _, _, killed => killed
  | fuel + 1, i, backing, live, killed =>
    match backing[i]? with
    | none => killed
    | some e =>
      if e.refs.any (fun r => r.ctx == some ctx) then
        let eid : EID := { src := e.src, dst := e.dst, sa := e.sa, da := e.da, idx := some e.idx }
        match findIdx (backing.take live) (fun x => x.matchesEID eid) with
        | some j =>
          match backing[j]? with
          | some victim => delAttachedLoop ctx fuel (i + 1) (shiftDelete backing j live) (live - 1) (victim.id :: killed)
          | none => killed
        | none => delAttachedLoop ctx fuel (i + 1) backing live killed
      else delAttachedLoop ctx fuel (i + 1) backing live killed

/-- the edges of `m` that carry reference context `ctx` are deleted (by id, first match) -/
def IR.delAttached (ir : IR) (m : Owner) (ctx : Nat) : IR :=
  let es := ir.edgesOf m
  let killed := delAttachedLoop ctx es.length 0 es es.length []
  { ir with edges := ir.edges.map fun e => if killed.contains e.id then { e with alive := false } else e }

/-- walk from `m` up to the board root -/
def IR.delAttachedUp (ir : IR) (ctx : Nat) : Nat → Owner → IR
  | 0, _ => ir
  | fuel + 1, m =>
    let ir := ir.delAttached m ctx
    match m with
    | .root => ir
    | _ => match ir.parentMap m with
      | none => ir
      | some pm => ir.delAttachedUp ctx fuel pm

/-- `m.DeleteField(name)` with a single path element -/
def IR.deleteField (ir : IR) (m : Owner) (name : String) : IR :=
  match (ir.fieldsOf m).find? fun f => eqFold f.name.s name with
  | none => ir
  | some f =>
    let ctxs := f.refs.filterMap (·.ctx)
    let ir := ctxs.foldl (fun ir c => ir.delAttachedUp c ir.depthFuel m) ir
    let ir := ir.updField f.id fun n => { n with alive := false }
    -- an emptied keyword holder (`style`) is removed from its parent map
    match ir.parentField m with
    | some p =>
      if p.name.s == "style" && !p.name.q && (ir.fieldsOf (.fld p.id)).isEmpty then
        match (ir.fieldsOf p.owner).find? fun g => g.name.s == "style" && !g.name.q with
        | some g => ir.updField g.id fun n => { n with alive := false }
        | none => ir
      else ir
    | none => ir

/-! ### one declaration -/

def isNull (d : FDecl) : Bool := d.prim == some .null || d.val == some .null

/-- `_compileField` on field `fid`; returns the maps the body (if any) is compiled into -/
def IR.compileFieldVal (ir : IR) (fid : Nat) (d : FDecl) (edgeKey : Bool) : IR × List Owner :=
  match ir.field? fid with
  | none => (ir, [])
  | some f =>
    if !edgeKey && isNull d then (ir.deleteField f.owner f.name.s, []) else
    let ir := match d.prim with
      | some (.str s) => ir.updField fid fun n => { n with prim := some s }
      | _ => ir
    if d.opens then (ir.updField fid fun n => { n with hasMap := true }, [.fld fid])
    else match d.val with
      | some (.str s) => (ir.updField fid fun n => { n with prim := some s }, [])
      | _ => (ir, [])

/-- the per-edge tail of `_compileEdges` -/
def IR.compileEdgeVal (ir : IR) (eid : Nat) (ctx : Nat) (scope : Owner) (d : FDecl) : IR × List Owner :=
  if !d.ekey.isEmpty then
    let ir := ir.updEdge eid fun e => { e with hasMap := true }
    match ir.EnsureField (.edg eid) d.ekey (some (some ctx, scope)) true with
    | (ir, .error err) => (ir.addErr err, [])
    | (ir, .ok none) => (ir, [])
    | (ir, .ok (some f)) => ir.compileFieldVal f d true
  else
    let ir := match d.prim with
      | some (.str s) => ir.updEdge eid fun e => { e with prim := some s }
      | _ => ir
    if d.opens then (ir.updEdge eid fun e => { e with hasMap := true }, [.edg eid])
    else match d.val with
      | some (.str s) => (ir.updEdge eid fun e => { e with prim := some s }, [])
      | _ => (ir, [])

def IR.compileEdgeVals (ir : IR) (ctx : Nat) (scope : Owner) (d : FDecl) : List Nat → List Owner → IR × List Owner
  | [], acc => (ir, acc)
  | e :: es, acc =>
    let (ir, t) := ir.compileEdgeVal e ctx scope d
    ir.compileEdgeVals ctx scope d es (acc ++ t)

/-- one flattened declaration compiled into map `scope` -/
def IR.evalDecl (ir : IR) (rule : IdxRule) (scope : Owner) (d : FDecl) : IR × List Owner :=
  match d.edge with
  | none =>
    match ir.EnsureField scope d.key (some (none, scope)) true with
    | (ir, .error err) => (ir.addErr err, [])
    | (ir, .ok none) => (ir, [])
    | (ir, .ok (some f)) => ir.compileFieldVal f d false
  | some e =>
    -- compileEdges: the optional key prefix `a.(b -> c)`
    let pre : IR × Option Owner :=
      if d.key.isEmpty then (ir, some scope) else
      match ir.EnsureField scope d.key (some (none, scope)) true with
      | (ir, .error err) => (ir.addErr err, none)
      | (ir, .ok none) => (ir, none)
      | (ir, .ok (some f)) => (ir.updField f fun n => { n with hasMap := true }, some (.fld f))
    match pre with
    | (ir, none) => (ir, [])
    | (ir, some sc) =>
      if isNull d then (ir.deleteEdge sc { src := e.src, dst := e.dst, sa := e.sa, da := e.da, idx := d.idx }, []) else
      let ctx := ir.next
      let ir := { ir with next := ctx + 1 }
      if d.idx.isSome then
        let (ir, ea) := ir.getEdgesRef sc e d.idx
        if ea.isEmpty then (ir.addErr .idxMissing, []) else
        let ref : Ref := { ctx := some ctx, scope := sc, pos := e.pos }
        let ir := ea.foldl (fun ir x =>
          let ir := ir.updEdge x fun n => { n with refs := n.refs ++ [ref] }
          let ir := ir.appendFieldRefs sc e.src ref
          ir.appendFieldRefs sc e.dst ref) ir
        ir.compileEdgeVals ctx sc d ea []
      else
        match ir.createEdge rule sc e ctx with
        | (ir, .error err) => (ir.addErr err, [])
        | (ir, .ok x) => ir.compileEdgeVals ctx sc d [x] []

/-! ### the evaluator: a fold over the flattened program with a stack of scopes -/

structure St where
  ir : IR := {}
  stack : List (List Owner) := [[.root]]
deriving Repr, Inhabited

def evalScopes (rule : IdxRule) (ir : IR) (d : FDecl) : List Owner → List Owner → IR × List Owner
  | [], acc => (ir, acc)
  | sc :: rest, acc =>
    let (ir, t) := ir.evalDecl rule sc d
    evalScopes rule ir d rest (acc ++ t)

def step (rule : IdxRule) (st : St) : Item → St
  | .close => { st with stack := st.stack.drop 1 }
  | .decl d =>
    let scopes := st.stack.headD []
    let (ir, targets) := evalScopes rule st.ir d scopes []
    if d.opens then { ir, stack := targets :: st.stack } else { st with ir }

def evalItems (rule : IdxRule) (items : List Item) : St := items.foldl (step rule) {}

/-- the IR of a program under a given index rule -/
def evalWith (rule : IdxRule) (prog : List Decl) : IR := (evalItems rule (flattenList prog)).ir

/-- … under the rule read off the source (`D2V.Gen.SemKw.idxRule`) -/
def eval (prog : List Decl) : IR := evalWith idxRule prog

end D2V.Sem
