/-
  Model of `d2layouts/d2near/layout.go` over exact rationals:

    * `place`        — the eight-way switch on the near key + the outside-label adjustments
                       (`strings.Contains(*obj.LabelPosition, "_TOP_")` … are modelled on the strings themselves);
    * `boundingBox`  — shapes (+ their outside labels through `label.Position.GetPointOnBox`), route points of the
                       edges, already placed near shapes (top/bottom-center extend x only, center-left/right y only),
                       the `±Inf → 0` rule and the `len(g.Objects) == 0` shortcut;
    * `Layout`       — three phases in the order of the `[]set{…}` literal (regenerated: `Gen.Near.phase0/1/2`);
                       inside a phase every near shape is placed against the same box, then all of them are appended
                       to `g.Objects`.

  `pad` and `label.PADDING` are regenerated from the source (`D2V.Gen.Near`).
  float64 `math.Inf(±1)` accumulators are `Option (lo, hi)` (`none` = nothing seen yet): Go always updates the min
  and the max of an axis together, so the two are infinite together.
-/
import D2V.Gen.Near
namespace D2V.Near

def pad : Rat := (D2V.Gen.Near.pad : Rat)
def labelPadding : Rat := (D2V.Gen.Near.labelPadding : Rat)

/-- `strings.Contains` -/
def hasSubL : List Char → List Char → Bool
  | [], p => p.isEmpty
  | c :: r, p => p.isPrefixOf (c :: r) || hasSubL r p
def hasSub (s p : String) : Bool := hasSubL s.toList p.toList

inductive Key where
  | topLeft | topCenter | topRight | centerLeft | centerRight | bottomLeft | bottomCenter | bottomRight
deriving Repr, BEq, DecidableEq

def Key.name : Key → String
  | .topLeft => "top-left" | .topCenter => "top-center" | .topRight => "top-right"
  | .centerLeft => "center-left" | .centerRight => "center-right"
  | .bottomLeft => "bottom-left" | .bottomCenter => "bottom-center" | .bottomRight => "bottom-right"

def Key.all : List Key :=
  [.topLeft, .topCenter, .topRight, .centerLeft, .centerRight, .bottomLeft, .bottomCenter, .bottomRight]

def Key.ofName (s : String) : Option Key := Key.all.find? (fun k => k.name == s)

/-- index of the placement set (`currentSet`) that contains the key; 3 = in none of them (never placed) -/
def Key.phase (k : Key) : Nat :=
  if D2V.Gen.Near.phase0.contains k.name then 0
  else if D2V.Gen.Near.phase1.contains k.name then 1
  else if D2V.Gen.Near.phase2.contains k.name then 2
  else 3

/-- `case "top-center", "bottom-center"` / `case "center-left", "center-right"` of `boundingBox`, and the sides a key names -/
def Key.left : Key → Bool | .topLeft | .centerLeft | .bottomLeft => true | _ => false
def Key.right : Key → Bool | .topRight | .centerRight | .bottomRight => true | _ => false
def Key.top : Key → Bool | .topLeft | .topCenter | .topRight => true | _ => false
def Key.bottom : Key → Bool | .bottomLeft | .bottomCenter | .bottomRight => true | _ => false
def Key.hCenter : Key → Bool | .topCenter | .bottomCenter => true | _ => false
def Key.vCenter : Key → Bool | .centerLeft | .centerRight => true | _ => false

/-- box given by top-left corner and size -/
structure Box where
  x : Rat
  y : Rat
  w : Rat
  h : Rat
deriving Repr, BEq

/-- bounding box given by its two corners (`tl`, `br`) -/
structure BB where
  x1 : Rat
  y1 : Rat
  x2 : Rat
  y2 : Rat
deriving Repr, BEq

/-- `label.Position.GetPointOnBox(box, padding, width, height)` for the twelve positions with `IsOutside()`;
    `none` for every other string (`FromString` → not outside). -/
def outsideLabelTL (pos : String) (b : Box) (p lw lh : Rat) : Option (Rat × Rat) :=
  let cx := b.x + b.w / 2
  let cy := b.y + b.h / 2
  match pos with
  | "OUTSIDE_TOP_LEFT" => some (b.x - p, b.y - (p + lh))
  | "OUTSIDE_TOP_CENTER" => some (cx - lw / 2, b.y - (p + lh))
  | "OUTSIDE_TOP_RIGHT" => some (b.x + (b.w - lw - p), b.y - (p + lh))
  | "OUTSIDE_LEFT_TOP" => some (b.x - (p + lw), b.y + p)
  | "OUTSIDE_LEFT_MIDDLE" => some (b.x - (p + lw), cy - lh / 2)
  | "OUTSIDE_LEFT_BOTTOM" => some (b.x - (p + lw), b.y + (b.h - lh - p))
  | "OUTSIDE_RIGHT_TOP" => some (b.x + (b.w + p), b.y + p)
  | "OUTSIDE_RIGHT_MIDDLE" => some (b.x + (b.w + p), cy - lh / 2)
  | "OUTSIDE_RIGHT_BOTTOM" => some (b.x + (b.w + p), b.y + (b.h - lh - p))
  | "OUTSIDE_BOTTOM_LEFT" => some (b.x + p, b.y + (b.h + p))
  | "OUTSIDE_BOTTOM_CENTER" => some (cx - lw / 2, b.y + (b.h + p))
  | "OUTSIDE_BOTTOM_RIGHT" => some (b.x + (b.w - lw - p), b.y + (b.h + p))
  | _ => none

/-- a shape of the main diagram (`obj.NearKey == nil`, no near ancestor) -/
structure MainObj where
  box : Box
  hasLabel : Bool             -- `obj.Label.Value != ""`
  labelPos : Option String    -- `obj.LabelPosition`
  lw : Rat                    -- `obj.LabelDimensions.Width`
  lh : Rat
deriving Repr

/-- a shape with a constant near key, before placement -/
structure NearObj where
  id : Nat
  key : Key
  w : Rat
  h : Rat
  labelPos : Option String
  lw : Rat
  lh : Rat
deriving Repr

/-- what `boundingBox` sees in `g.Objects` -/
inductive Item where
  | main (o : MainObj)
  | near (k : Key) (b : Box)
deriving Repr

abbrev Iv := Rat × Rat
abbrev Acc := Option Iv

def Acc.ext (a : Acc) (iv : Iv) : Acc :=
  match a with
  | none => some iv
  | some (l, h) => some (min l iv.1, max h iv.2)

/-- the `math.IsInf(x1, 1) && math.IsInf(x2, -1)` rule -/
def Acc.fin (a : Acc) : Iv :=
  match a with
  | none => (0, 0)
  | some p => p

def hull (l : List Iv) : Acc := l.foldl Acc.ext none

def labelIvs (o : MainObj) : Option (Iv × Iv) :=
  if o.hasLabel then
    match o.labelPos with
    | some pos =>
      match outsideLabelTL pos o.box labelPadding o.lw o.lh with
      | some (lx, ly) => some ((lx, lx + o.lw), (ly, ly + o.lh))
      | none => none
    | none => none
  else none

/-- contributions of one element of `g.Objects` to the x extent, in the order Go applies them -/
def Item.xIvs : Item → List Iv
  | .main o => (o.box.x, o.box.x + o.box.w) :: (match labelIvs o with | some (ix, _) => [ix] | none => [])
  | .near k b => if k.hCenter then [(b.x, b.x + b.w)] else []

def Item.yIvs : Item → List Iv
  | .main o => (o.box.y, o.box.y + o.box.h) :: (match labelIvs o with | some (_, iy) => [iy] | none => [])
  | .near k b => if k.vCenter then [(b.y, b.y + b.h)] else []

/-- `boundingBox(g)`: `items` = `g.Objects` (minus descendants of near containers, which are skipped),
    `pts` = all route points of the edges that do not touch a near container -/
def bbox (items : List Item) (pts : List (Rat × Rat)) : BB :=
  if items.isEmpty then ⟨0, 0, 0, 0⟩
  else
    let ax := (hull (items.flatMap Item.xIvs ++ pts.map fun p => (p.1, p.1))).fin
    let ay := (hull (items.flatMap Item.yIvs ++ pts.map fun p => (p.2, p.2))).fin
    ⟨ax.1, ay.1, ax.2, ay.2⟩

/-- the switch of `place` -/
def place0 (bb : BB) (k : Key) (ow oh : Rat) : Rat × Rat :=
  let w := bb.x2 - bb.x1
  let h := bb.y2 - bb.y1
  match k with
  | .topLeft => (bb.x1 - ow - pad, bb.y1 - oh - pad)
  | .topCenter => (bb.x1 + w / 2 - ow / 2, bb.y1 - oh - pad)
  | .topRight => (bb.x2 + pad, bb.y1 - oh - pad)
  | .centerLeft => (bb.x1 - ow - pad, bb.y1 + h / 2 - oh / 2)
  | .centerRight => (bb.x2 + pad, bb.y1 + h / 2 - oh / 2)
  | .bottomLeft => (bb.x1 - ow - pad, bb.y2 + pad)
  | .bottomCenter => (bb.x2 - w / 2 - ow / 2, bb.y2 + pad)
  | .bottomRight => (bb.x2 + pad, bb.y2 + pad)

/-- the label adjustment of `place` (label outside or on the border: move the shape further away so that the
    label does not enter the diagram) -/
def adjust (k : Key) (labelPos : Option String) (lw lh : Rat) (p : Rat × Rat) : Rat × Rat :=
  match labelPos with
  | none => p
  | some lp =>
    if hasSub lp "INSIDE" then p
    else if hasSub lp "_TOP_" then
      (if hasSub k.name "bottom" then (p.1, p.2 + lh) else p)
    else if hasSub lp "_LEFT_" then
      (if hasSub k.name "right" then (p.1 + lw, p.2) else p)
    else if hasSub lp "_RIGHT_" then
      (if hasSub k.name "left" then (p.1 - lw, p.2) else p)
    else if hasSub lp "_BOTTOM_" then
      (if hasSub k.name "top" then (p.1, p.2 - lh) else p)
    else p

/-- `place(obj)` against the bounding box `bb` -/
def place (bb : BB) (o : NearObj) : Rat × Rat :=
  adjust o.key o.labelPos o.lw o.lh (place0 bb o.key o.w o.h)

structure Placed where
  obj : NearObj
  x : Rat
  y : Rat
deriving Repr

def Placed.item (p : Placed) : Item := .near p.obj.key ⟨p.x, p.y, p.obj.w, p.obj.h⟩
def Placed.box (p : Placed) : Box := ⟨p.x, p.y, p.obj.w, p.obj.h⟩

/-- first loop of a phase: every near shape of the phase is placed against the *same* box -/
def runPhase (ph : Nat) (bb : BB) (nears : List NearObj) : List Placed :=
  (nears.filter fun o => o.key.phase == ph).map fun o => let p := place bb o; ⟨o, p.1, p.2⟩

/-- `Layout`: result in placement order (phase 0, 1, 2; inside a phase the order of `constantNearGraphs`) -/
def layout (main : List MainObj) (pts : List (Rat × Rat)) (nears : List NearObj) : List Placed :=
  let items0 := main.map Item.main
  let p0 := runPhase 0 (bbox items0 pts) nears
  let items1 := items0 ++ p0.map Placed.item
  let p1 := runPhase 1 (bbox items1 pts) nears
  let items2 := items1 ++ p1.map Placed.item
  let p2 := runPhase 2 (bbox items2 pts) nears
  p0 ++ p1 ++ p2

/-- the bounding box of the main diagram alone (what the property calls "the main diagram") -/
def mainBox (main : List MainObj) (pts : List (Rat × Rat)) : BB := bbox (main.map Item.main) pts

/-! ### Spec: the property sentence on a placed box -/


/-- entirely outside `bb` on the named side(s), at least `d` away -/
def outsideOn (k : Key) (bb : BB) (b : Box) (d : Rat) : Prop :=
  (k.left = true → b.x + b.w ≤ bb.x1 - d) ∧ (k.right = true → bb.x2 + d ≤ b.x) ∧
  (k.top = true → b.y + b.h ≤ bb.y1 - d) ∧ (k.bottom = true → bb.y2 + d ≤ b.y)

instance (k : Key) (bb : BB) (b : Box) (d : Rat) : Decidable (outsideOn k bb b d) := by
  unfold outsideOn; infer_instance

/-- centred along the box where the position says center (up to `tol`) -/
def centeredOn (k : Key) (bb : BB) (b : Box) (tol : Rat) : Prop :=
  (k.hCenter = true → (b.x + b.w / 2) - (bb.x1 + bb.x2) / 2 ≤ tol ∧ (bb.x1 + bb.x2) / 2 - (b.x + b.w / 2) ≤ tol) ∧
  (k.vCenter = true → (b.y + b.h / 2) - (bb.y1 + bb.y2) / 2 ≤ tol ∧ (bb.y1 + bb.y2) / 2 - (b.y + b.h / 2) ≤ tol)

instance (k : Key) (bb : BB) (b : Box) (tol : Rat) : Decidable (centeredOn k bb b tol) := by
  unfold centeredOn; infer_instance

end D2V.Near
