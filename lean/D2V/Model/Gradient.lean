/-
  Model of `lib/color/gradient.go`: `ParseGradient` (regexp + `splitParams` + `parseColorStops`), `IsGradient`,
  and the SVG emitters `LinearGradientToSVG` / `RadialGradientToSVG` / `parseLinearGradientDirection`.

  * `strings.TrimSpace` / `strings.Fields` use `unicode.IsSpace` (`isGoSpace`).
  * the regexps `^(linear-gradient|radial-gradient)\((.*)\)$` and `^(linear|radial)-gradient\((.+)\)$` are modelled
    directly (`.` does not match `\n`, `$` is end of text).
  * the gradient ID (`"grad-" + hex(sha1(css))`) is a parameter of the emitter.
  * the coordinates of an `…deg` direction need `math.Cos/Sin`; `linearCoords` returns `none` for them and the emitter
    takes the four strings as a parameter (the driver checks that what Go printed is numeric text).
  * `gradientToSVG` is the emitter *after* the fix "escape gradient color stop positions and colors"
    (`escapeAttr` = `xml.EscapeText`); `gradientToSVGUnescaped` is the emitter of the unfixed tree, kept for the
    counterexample theorem `C30_cx_gradient_stop`.
-/
import D2V.Model.Escape
import D2V.Model.Xml
namespace D2V.Gradient
open D2V.Escape D2V.Xml

/-- `unicode.IsSpace` -/
def isGoSpace (c : Char) : Bool :=
  let n := c.toNat
  (9 ≤ n && n ≤ 13) || n = 0x20 || n = 0x85 || n = 0xA0 || n = 0x1680 || (0x2000 ≤ n && n ≤ 0x200A)
    || n = 0x2028 || n = 0x2029 || n = 0x202F || n = 0x205F || n = 0x3000

def trimLeft : List Char → List Char
  | c :: cs => if isGoSpace c then trimLeft cs else c :: cs
  | [] => []

def trimSpace (s : List Char) : List Char := (trimLeft (trimLeft s).reverse).reverse

/-- `strings.Fields`: scanner with the current field (reversed) and the fields so far (reversed) -/
def fieldsStep (st : List Char × List (List Char)) (c : Char) : List Char × List (List Char) :=
  if isGoSpace c then (if st.1.isEmpty then st else ([], st.1.reverse :: st.2))
  else (c :: st.1, st.2)

def fields (s : List Char) : List (List Char) :=
  let r := s.foldl fieldsStep ([], [])
  (if r.1.isEmpty then r.2 else r.1.reverse :: r.2).reverse

structure Stop where
  color : List Char
  position : List Char
  deriving DecidableEq, Repr

structure Gradient where
  type : String            -- "linear" | "radial"
  direction : List Char
  stops : List Stop
  deriving DecidableEq, Repr

/-- `splitParams`: (buffer reversed, nesting, parts reversed) -/
def splitStep (st : List Char × Nat × List (List Char)) (c : Char) : List Char × Nat × List (List Char) :=
  let (buf, nest, parts) := st
  if c = ',' then (if nest = 0 then ([], 0, buf.reverse :: parts) else (c :: buf, nest, parts))
  else if c = '(' then (c :: buf, nest + 1, parts)
  else if c = ')' then (c :: buf, nest - 1, parts)
  else (c :: buf, nest, parts)

def splitParams (s : List Char) : List (List Char) :=
  let (buf, _, parts) := s.foldl splitStep ([], 0, [])
  (if buf.isEmpty then parts else buf.reverse :: parts).reverse

def parseColorStops (ps : List (List Char)) : List Stop :=
  ps.filterMap fun p =>
    match fields (trimSpace p) with
    | [c] => some ⟨c, []⟩
    | [c, q] => some ⟨c, q⟩
    | _ => none

def linKw : List Char := "linear-gradient(".toList
def radKw : List Char := "radial-gradient(".toList

/-- the regexp `^(kw)\((body)\)$` with `.` not matching newline; `minLen` = 0 for `.*`, 1 for `.+` -/
def matchKw (kw : List Char) (minLen : Nat) (t : List Char) : Option (List Char) :=
  if kw.isPrefixOf t then
    let rest := t.drop kw.length
    match rest.reverse with
    | ')' :: bodyRev =>
      if bodyRev.all (· ≠ '\n') && minLen ≤ bodyRev.length then some bodyRev.reverse else none
    | _ => none
  else none

def isGradient (s : List Char) : Bool := (matchKw linKw 1 s).isSome || (matchKw radKw 1 s).isSome

def hasSuffix (suf s : List Char) : Bool := suf.reverse.isPrefixOf s.reverse

def parseGradient (css : List Char) : Option Gradient :=
  let t := trimSpace css
  let m : Option (String × List Char) :=
    match matchKw linKw 0 t with
    | some b => some ("linear", b)
    | none => (matchKw radKw 0 t).map fun b => ("radial", b)
  match m with
  | none => none
  | some (ty, params) =>
    match splitParams params with
    | [] => none
    | p0 :: rest =>
      let first := trimSpace p0
      if ty == "linear" && (hasSuffix "deg".toList first || "to ".toList.isPrefixOf first) then
        (if rest.isEmpty then none else some ⟨ty, first, parseColorStops rest⟩)
      else if ty == "radial" && (first == "circle".toList || first == "ellipse".toList) then
        (if rest.isEmpty then none else some ⟨ty, first, parseColorStops rest⟩)
      else some ⟨ty, [], parseColorStops (p0 :: rest)⟩

/-! ### emitter -/

def pct (s : String) : List Char := s.toList

/-- `parseLinearGradientDirection`; `none` for `…deg` (trigonometry: supplied by the observation) -/
def linearCoords (direction : List Char) : Option (List Char × List Char × List Char × List Char) :=
  let d := trimSpace direction
  if "to ".toList.isPrefixOf d then
    let parts := fields (trimSpace (d.drop 3))
    let r := parts.foldl (fun (acc : List Char × List Char × List Char × List Char) p =>
      let (xs, ys, xe, ye) := acc
      if p == "left".toList then (pct "100%", ys, pct "0%", ye)
      else if p == "right".toList then (pct "0%", ys, pct "100%", ye)
      else if p == "top".toList then (xs, pct "100%", xe, pct "0%")
      else if p == "bottom".toList then (xs, pct "0%", xe, pct "100%")
      else acc) (pct "50%", pct "50%", pct "50%", pct "50%")
    let (xs, ys, xe, ye) := r
    some (xs, ys, xe, ye)
  else if hasSuffix "deg".toList d then none
  else some (pct "0%", pct "0%", pct "0%", pct "100%")

def digit (n : Nat) : Char := Char.ofNat (48 + n % 10)

def natDigits (n : Nat) : List Char := (Nat.toDigits 10 n)

/-- `fmt.Sprintf("%.2f%%", float64(i)/float64(n-1)*100)` for 0 ≤ i < n; exact arithmetic, round half to even
    (ties need n-1 ≥ 32 and are outside what the correspondence stream generates) -/
def pct2 (i n : Nat) : List Char :=
  if n ≤ 1 then "NaN%".toList
  else
    let num := i * 10000      -- hundredths of a percent = num / (n-1)
    let den := n - 1
    let q := num / den
    let r := num % den
    let h := if 2 * r > den then q + 1 else if 2 * r < den then q else (if q % 2 = 0 then q else q + 1)
    natDigits (h / 100) ++ ['.', digit (h / 10), digit h, '%']

def offsetOf (i n : Nat) (s : Stop) : List Char := if s.position.isEmpty then pct2 i n else s.position

def stopLine (esc : List Char → List Char) (off col : List Char) : List Char :=
  ['<', 's', 't', 'o', 'p', ' ', 'o', 'f', 'f', 's', 'e', 't', '=', '"'] ++ esc off ++ ['"', ' ', 's', 't', 'o', 'p', '-', 'c', 'o', 'l', 'o', 'r', '=', '"'] ++ esc col ++ ['"', ' ', '/', '>', '\n']

def stopsFrom (esc : List Char → List Char) (n : Nat) : Nat → List Stop → List Char
  | _, [] => []
  | i, s :: rest => stopLine esc (offsetOf i n s) s.color ++ stopsFrom esc n (i + 1) rest

def emit (esc : List Char → List Char) (g : Gradient) (id : List Char)
    (coords : List Char × List Char × List Char × List Char) : List Char :=
  if g.type == "linear" then
    let (x1, y1, x2, y2) := coords
    ['<', 'l', 'i', 'n', 'e', 'a', 'r', 'G', 'r', 'a', 'd', 'i', 'e', 'n', 't', ' ', 'i', 'd', '=', '"'] ++ id ++ ['"', ' ', 'x', '1', '=', '"'] ++ x1 ++ ['"', ' ', 'y', '1', '=', '"'] ++ y1 ++ ['"', ' ', 'x', '2', '=', '"'] ++ x2
      ++ ['"', ' ', 'y', '2', '=', '"'] ++ y2 ++ ['"', '>', '\n'] ++ stopsFrom esc g.stops.length 0 g.stops ++ ['<', '/', 'l', 'i', 'n', 'e', 'a', 'r', 'G', 'r', 'a', 'd', 'i', 'e', 'n', 't', '>']
  else if g.type == "radial" then
    ['<', 'r', 'a', 'd', 'i', 'a', 'l', 'G', 'r', 'a', 'd', 'i', 'e', 'n', 't', ' ', 'i', 'd', '=', '"'] ++ id ++ ['"', '>', '\n'] ++ stopsFrom esc g.stops.length 0 g.stops ++ ['<', '/', 'r', 'a', 'd', 'i', 'a', 'l', 'G', 'r', 'a', 'd', 'i', 'e', 'n', 't', '>']
  else []

/-- the emitter with the fix (stop offset and colour escaped with `xml.EscapeText`) -/
def gradientToSVG := emit escapeText
/-- the emitter of the unfixed tree -/
def gradientToSVGUnescaped := emit id

/-! ### Spec of an emitted fragment (evaluated on what Go printed) -/

def linAttrs : List Name := ["id".toList, "x1".toList, "y1".toList, "x2".toList, "y2".toList]

def stopEvsOk : List Ev → Nat → Option String
  | [.close], 0 => none
  | .open n as :: .close :: rest, k + 1 =>
      if n != "stop".toList then some "unexpected element inside the gradient"
      else if as.map (·.1) != ["offset".toList, "stop-color".toList] then some "unexpected attribute on <stop>"
      else stopEvsOk rest k
  | _, _ => some "element structure differs from one <stop> per colour stop"

/-- `none` = exactly `<xGradient id …>` with one `<stop offset stop-color>` per colour stop and nothing else -/
def shapeOk (g : Gradient) (evs : List Ev) : Option String :=
  match evs with
  | .open n as :: rest =>
      let wantName := if g.type == "linear" then "linearGradient".toList else "radialGradient".toList
      let wantAttrs := if g.type == "linear" then linAttrs else ["id".toList]
      if n != wantName then some "unexpected root element"
      else if as.map (·.1) != wantAttrs then some "unexpected attribute on the gradient element"
      else stopEvsOk rest g.stops.length
  | _ => some "no gradient element"

/-- invalid XML characters replaced as `xml.EscapeText` does -/
def sanitize (s : List Char) : List Char := s.map fun c => if inCharRange c then c else repl

/-- an attribute value denotes the user string: escaped form resolves to it, or (unfixed emitter) it is verbatim -/
def valueMatches (raw user : List Char) : Bool := decodeRefs raw == sanitize user || raw == user

def numericText (s : List Char) : Bool :=
  s.all fun c => c.isDigit || c = '.' || c = '-' || c = '+' || c = '%' || c = 'N' || c = 'a' || c = 'I' || c = 'n' || c = 'f'

def stopValsOk (n : Nat) : Nat → List Stop → List Ev → Option String
  | _, [], _ => none
  | i, s :: rest, .open _ [(_, off), (_, col)] :: .close :: evs =>
      if !valueMatches off (offsetOf i n s) then some s!"stop {i}: offset differs from the model"
      else if !valueMatches col s.color then some s!"stop {i}: colour differs from the model"
      else stopValsOk n (i + 1) rest evs
  | _, _, _ => some "stop list shorter than the model's"

/-- tie K on values (call only after `shapeOk`) -/
def valuesOk (g : Gradient) (id : List Char) (evs : List Ev) : Option String :=
  match evs with
  | .open _ as :: rest =>
      let vals := as.map (·.2)
      let idOk := match vals with | v :: _ => v == id | [] => false
      if !idOk then some "id attribute differs"
      else
        let coordsOk : Bool :=
          if g.type == "linear" then
            match linearCoords g.direction, vals with
            | some (a, b, c, d), [_, x1, y1, x2, y2] => x1 == a && y1 == b && x2 == c && y2 == d
            | none, [_, x1, y1, x2, y2] => numericText x1 && numericText y1 && numericText x2 && numericText y2
            | _, _ => false
          else true
        if !coordsOk then some "direction coordinates differ from the model"
        else stopValsOk g.stops.length 0 g.stops rest
  | _ => some "no gradient element"

end D2V.Gradient
