/-
  Text layer, the parser proper.  A statement-by-statement transcription of

    d2parser/parse.go   Parse / ParseKey / ParseMapKey / ParseValue,
                        parseMap parseMapNode parseComment parseCommentLine parseBlockComment parseMapKey
                        parseMapKeyValue parseEdgeGroup parseEdgeIndex parseEdges parseEdge parseKey parseString
                        parseUnquotedString decodeEscape parseDoubleQuotedString parseSingleQuotedString
                        parseBlockString parseArray parseArrayNode parseValue parseSubstitution parseImport
                        trimSpaceAfterLastNewline trimCommonIndent trimIndent splitLeadingIndent getIndent

  over the reader algebra of `Reader.lean` (same peeks, commits, rewinds and replays in the same order, same
  error calls with the same positions, `defer`red `Range.End` assignments evaluated at the return points).
  Every `for { … }` is `loop` (bounded by `fuel`); the parseValue → parseMap/parseArray → … → parseValue recursion
  is tied through the parameter `pv` and `parseValueN` (structural on its fuel).  Crash points modelled:
  `Position.Subtract('\n')` and the slice `sb.String()[lastPatternIndex:]` in parseUnquotedString.

  Outside the model (parameters): `big.Rat.SetString` (which unquoted scalars are numbers) is the oracle `isNum`.
  The syntax tree is the generic tree `T` (kind, range, named children), which is what the correspondence
  check compares with the Go AST and what the range Spec walks.
-/
import D2V.Model.Reader
import D2V.Gen.ParserSites

namespace D2V.Text

structure Range where
  start : Pos
  stop : Pos
  deriving Repr, DecidableEq, Inhabited

inductive T where
  | null
  | bool (b : Bool)
  | str (s : String)
  | bytes (b : List UInt8)
  | arr (xs : List T)
  | obj (fields : List (String × T))
  | node (kind : String) (r : Range) (fields : List (String × T))
  deriving Inhabited

def optT : Option T → T
  | some t => t
  | none => .null

/-! ### string helpers (Go strings are UTF-8 byte strings) -/

def utf8Bytes (cs : List Char) : List UInt8 := (String.ofList cs).toUTF8.toList

def trimRightSpace (cs : List Char) : List Char := (cs.reverse.dropWhile isSpace).reverse

def splitOnNL (cs : List Char) : List (List Char) :=
  let rec go : List Char → List Char → List (List Char) → List (List Char)
    | [], cur, acc => (cur.reverse :: acc).reverse
    | c :: rest, cur, acc => if c = '\n' then go rest [] (cur.reverse :: acc) else go rest (c :: cur) acc
  go cs [] []

/-- `trimSpaceAfterLastNewline` -/
def trimSpaceAfterLastNewline (cs : List Char) : List Char :=
  if !cs.contains '\n' then trimRightSpace cs
  else
    let lastLineRev := cs.reverse.takeWhile (· ≠ '\n')
    let headRev := (cs.reverse.dropWhile (· ≠ '\n')).drop 1   -- s[:lastNewline], reversed
    let lastLine := trimRightSpace lastLineRev.reverse
    if lastLine.isEmpty then headRev.reverse else headRev.reverse ++ ['\n'] ++ lastLine

/-- `splitLeadingIndent(s, maxSpaces)`: the indent (as bytes written to `indentb`) and the rest `s[i:]`, where `i`
    counts *runes* but indexes *bytes*, as in the Go code. `maxSpaces = none` is `-1`. -/
def splitLeadingIndent (l : List Char) (maxSpaces : Option Nat) : List UInt8 × List UInt8 :=
  let rec go : List Char → Nat → List UInt8 → Nat × List UInt8
    | [], i, ind => (i, ind)
    | r :: rest, i, ind =>
      if !isSpace r then (i, ind)
      else
        let ind' := if r ≠ '\t' then ind ++ utf8Bytes [r] else ind ++ [32, 32]
        if maxSpaces == some ind'.length then (i + 1, ind') else go rest (i + 1) ind'
  let (i, ind) := go l 0 []
  (ind, (utf8Bytes l).drop i)

def joinNL : List (List UInt8) → List UInt8
  | [] => []
  | [l] => l
  | l :: ls => l ++ [10] ++ joinNL ls

/-- `trimIndent` -/
def trimIndent (cs : List Char) (indentLen : Nat) : List UInt8 :=
  joinNL ((splitOnNL cs).map fun l => if l.isEmpty then [] else (splitLeadingIndent l (some indentLen)).2)

/-- `trimCommonIndent` -/
def trimCommonIndent (cs : List Char) : List UInt8 :=
  let rec go : List (List Char) → List UInt8 → Option (List UInt8)   -- none = "return s"
    | [], common => some common
    | l :: ls, common =>
      if l.isEmpty then go ls common
      else
        let (ind, rest) := splitLeadingIndent l none
        if ind.isEmpty then none
        else if rest.isEmpty then go ls common
        else if common.isEmpty || ind.length < common.length then go ls ind else go ls common
  match go (splitOnNL cs) [] with
  | none => utf8Bytes cs
  | some common => if common.isEmpty then utf8Bytes cs else trimIndent cs common.length

/-- `decodeEscape` -/
def decodeEscape (r2 : Char) : Char :=
  if r2 = 'a' then Char.ofNat 7 else if r2 = 'b' then Char.ofNat 8 else if r2 = 'f' then Char.ofNat 12
  else if r2 = 'n' then '\n' else if r2 = 'r' then '\r' else if r2 = 't' then '\t'
  else if r2 = 'v' then Char.ofNat 11 else r2

/-- `strings.EqualFold(s, kw)` for an ASCII lower-case keyword: simple case folding, whose only non-ASCII
    members of the orbits of the letters involved are U+017F (ſ ~ s) and U+212A (K ~ k) -/
def foldChar (c : Char) : Char :=
  if 'A' ≤ c ∧ c ≤ 'Z' then Char.ofNat (c.toNat + 32)
  else if c.toNat = 0x17F then 's' else if c.toNat = 0x212A then 'k' else c

def equalFoldKw (s : String) (kw : String) : Bool := s.toList.map foldChar == kw.toList

/-- `strconv.Atoi` on a string that starts with a `unicode.IsDigit` rune and contains only such runes:
    0 on a syntax error (non-ASCII digit), the clamped value on overflow (the error is ignored by the caller) -/
def atoiDigits (cs : List Char) : Nat :=
  if cs.all (fun c => '0' ≤ c ∧ c ≤ '9') then
    let n := cs.foldl (fun a c => a * 10 + (c.toNat - 48)) 0
    if n > 9223372036854775807 then 9223372036854775807 else n
  else 0

/-! ### parse results -/

inductive StrKind where | uq | dq | sq | bs
  deriving DecidableEq, Repr, Inhabited

/-- a parsed `d2ast.String` -/
structure SBox where
  kind : StrKind
  range : Range
  scalar : String          -- ScalarString() (unquoted / quoted strings; block strings: unused)
  scalarLen : Nat          -- len(ScalarString()) in bytes
  typ : String             -- Type()
  firstSubst : Bool        -- len(Value) > 0 && Value[0].Substitution != nil  (unquoted only)
  nBoxes : Nat := 0        -- len(Value)  (unquoted only)
  json : T
  deriving Inhabited

structure KP where
  range : Range
  path : List SBox
  deriving Inhabited

def KP.json (k : KP) : T := .node "kp" k.range [("p", .arr (k.path.map (·.json)))]

inductive VKind where | none | null | susp | bool | num | str | arr | map | imp
  deriving DecidableEq, Repr, Inhabited

/-- a `d2ast.ValueBox` -/
structure VBox where
  kind : VKind
  json : T
  typ : String
  isScalar : Bool
  isBlockString : Bool
  uq : Option SBox        -- set when the box holds an UnquotedString
  deriving Inhabited

def VBox.none : VBox := ⟨.none, .null, "", false, false, Option.none⟩

structure KeyRec where
  start : Pos
  amp : Bool := false
  namp : Bool := false
  key : Option KP := none
  edges : List T := []
  edgeIndex : Option T := none
  edgeKey : Option KP := none
  primary : Option T := none
  value : VBox := VBox.none

def KeyRec.empty (k : KeyRec) : Bool := k.key.isNone && k.edges.isEmpty

def KeyRec.json (k : KeyRec) (stop : Pos) : T :=
  .node "key" ⟨k.start, stop⟩
    [("amp", .bool k.amp), ("namp", .bool k.namp), ("k", optT (k.key.map KP.json)), ("e", .arr k.edges),
     ("ei", optT k.edgeIndex), ("ek", optT (k.edgeKey.map KP.json)), ("pr", optT k.primary),
     ("v", k.value.json)]

/-- a `d2ast.MapNodeBox` / `ArrayNodeBox` as far as the callers look at it -/
structure NodeRes where
  json : Option T          -- none: Unbox() == nil
  isBlockComment : Bool
  afterTyp : String        -- what "unexpected text after %v%s" prints
  deriving Inhabited

/-! ### the parse functions -/

/-- `parseCommentLine` -/
def parseCommentLine (sb : String) : P String :=
  loop (σ := String × Bool) (fun (sb, firstRune) => do
    match ← peek with
    | none => pure (.inr sb)
    | some r =>
      if r = '\n' then do rewind; pure (.inr sb)
      else do
        commit
        if firstRune && r = ' ' then pure (.inl (sb, false))
        else pure (.inl (sb.push r, false))) (sb, true)

/-- `parseComment` -/
def parseComment : P T := do
  let start ← posSub '#'
  let sb ← parseCommentLine ""
  let sb ← loop (σ := String) (fun sb => do
    match ← peekNotSpace with
    | none => pure (.inr sb)
    | some (r, newlines) =>
      if r ≠ '#' || newlines ≥ 2 then do rewind; pure (.inr sb)
      else do
        commit
        let sb := if newlines = 1 then sb.push '\n' else sb
        let sb ← parseCommentLine sb
        pure (.inl sb)) sb
  let stop ← getPos
  pure (.node "comment" ⟨start, stop⟩ [("v", .str sb)])

def incDepth : P Unit := modify fun s => { s with depth := s.depth + 1 }
def decDepth : P Unit := modify fun s => { s with depth := s.depth - 1 }

def blockCommentMsg : String := "block comments must be terminated with \"\"\""

/-- `parseBlockComment` -/
def parseBlockComment : P T := do
  let start ← do let p ← getPos; subPosString p ['"', '"', '"']
  incDepth
  let fin (sb : String) : P T := do
    let stop ← getPos
    decDepth
    pure (.node "bcomment" ⟨start, stop⟩ [("v", .bytes (trimCommonIndent (trimSpaceAfterLastNewline sb.toList)))])
  -- skip the rest of the first line
  let eof ← loop (σ := Unit) (fun _ => do
    match ← peek with
    | none => do
      let rp ← getReaderPos
      errorf start rp blockCommentMsg
      pure (.inr true)
    | some r =>
      if !isSpace r then do rewind; pure (.inr false)
      else do
        commit
        if r = '\n' then pure (.inr false) else pure (.inl ())) ()
  if eof then fin ""
  else
    let sb ← loop (σ := String) (fun sb => do
      match ← read with
      | none => do
        let rp ← getReaderPos
        errorf start rp blockCommentMsg
        pure (.inr sb)
      | some r =>
        if r ≠ '"' then pure (.inl (sb.push r))
        else do
          let (s, eof) ← peekn 2
          if eof then do
            let rp ← getReaderPos
            errorf start rp blockCommentMsg
            pure (.inr sb)
          else if s ≠ ['"', '"'] then do
            rewind
            pure (.inl (sb.push '"'))
          else do
            commit
            pure (.inr sb)) ""
    fin sb

def substBeginMsg : String := "substitutions must begin on {"
def substEndMsg : String := "substitutions must be terminated by }"

/-- the deferred part of `parseKey`: `nil` for an empty path, else `Range.End` from the last element and the
    518-byte limit -/
def finishKey (start : Pos) (path : List SBox) : P (Option KP) :=
  match path.getLast? with
  | none => pure none
  | some last => do
    let stop := last.range.stop
    match path.find? (fun sb => sb.scalarLen > 518) with
    | some sb => errorf start stop s!"key length {sb.scalarLen} exceeds maximum allowed length of 518"
    | none => pure ()
    pure (some ⟨⟨start, stop⟩, path⟩)

/-- `parseKey`, given `parseString(true)` -/
def parseKeyWith (parseStringKey : P (Option SBox)) : P (Option KP) := do
  let start0 ← getPos
  let (start, path) ← loop (σ := Pos × List SBox) (fun (start, path) => do
    match ← peekNotSpace with
    | none => pure (.inr (start, path))
    | some (r, newlines) =>
      if newlines > 0 || r = '(' then do rewind; pure (.inr (start, path))
      else if r = '.' then pure (.inl (start, path))
      else do
        rewind
        match ← parseStringKey with
        | none => pure (.inr (start, path))
        | some sb =>
          if sb.kind = .uq && sb.scalar.startsWith "@" then
            errorf sb.range.start sb.range.stop s!"{sb.scalar} is not a valid import, did you mean ...{sb.scalar}?"
          let start := if path.isEmpty then sb.range.start else start
          let path := path ++ [sb]
          match ← peekNotSpace with
          | none => pure (.inr (start, path))
          | some (r, newlines) =>
            if newlines > 0 || r ≠ '.' then do rewind; pure (.inr (start, path))
            else do commit; pure (.inl (start, path))) (start0, [])
  finishKey start path

/-- `parseSubstitution`, given `parseKey` -/
def parseSubstitutionWith (parseKey : P (Option KP)) (spread : Bool) : P (Option T) := do
  let start ← do let p ← getPos; subPosString p ['$']
  let start ← if spread then subPosString start ['.', '.', '.'] else pure start
  match ← peekNotSpace with
  | none => pure none
  | some (r, newlines) =>
    if newlines > 0 then do rewind; pure none
    else if r ≠ '{' then do
      rewind
      let rp ← getReaderPos
      errorf start rp substBeginMsg
      pure none
    else do
      commit
      let k ← parseKey
      let path : List SBox := match k with | some k => k.path | none => []
      let mk (stop : Pos) : T :=
        .node "subst" ⟨start, stop⟩ [("spread", .bool spread), ("p", .arr (path.map (·.json)))]
      match ← peekNotSpace with
      | none => do
        let rp ← getReaderPos
        errorf start rp substEndMsg
        let stop ← getPos
        pure (some (mk stop))
      | some (r, newlines) =>
        if newlines > 0 || r ≠ '}' then do
          rewind
          let p ← getPos
          errorf start p substEndMsg
          pure (some (mk p))
        else do
          commit
          let stop ← getPos
          pure (some (mk stop))

def istr (s raw : Option String) : T :=
  .obj [("s", optT (s.map .str)), ("raw", optT (raw.map .str))]
def isub (t : T) : T := .obj [("sub", t)]

/-- one `d2ast.InterpolationBox`: the string (if it is one) and its tree -/
abbrev IBox := Option String × T

def scalarOf (value : List IBox) : String :=
  match value with
  | (some s, _) :: _ => s
  | _ => ""

def firstIsSubst (value : List IBox) : Bool :=
  match value with
  | (none, _) :: _ => true
  | _ => false

structure UQState where
  sb : String := ""
  rawb : String := ""
  lastPatternIndex : Nat := 0
  pattern : Option (List (List UInt8)) := none
  value : List IBox := []
  lastNonSpace : Pos

def patAppend (p : Option (List (List UInt8))) (xs : List (List UInt8)) : Option (List (List UInt8)) :=
  some ((p.getD []) ++ xs)

/-- the deferred part of `parseUnquotedString` -/
def finishUnquoted (start : Pos) (st : UQState) : Option SBox :=
  let sv := String.ofList (trimRightSpace st.sb.toList)
  let rawv := String.ofList (trimRightSpace st.rawb.toList)
  let pattern := match st.pattern with
    | some p => if st.lastPatternIndex < sv.utf8ByteSize then some (p ++ [sv.toUTF8.toList.drop st.lastPatternIndex]) else some p
    | none => none
  let mk (value : List IBox) : SBox :=
    { kind := .uq, range := ⟨start, st.lastNonSpace⟩, scalar := scalarOf value,
      scalarLen := (scalarOf value).utf8ByteSize, typ := "unquoted string",
      firstSubst := firstIsSubst value, nBoxes := value.length,
      json := .node "uq" ⟨start, st.lastNonSpace⟩
        [("v", .arr (value.map (·.2))), ("pat", match pattern with | some p => .arr (p.map .bytes) | none => .null)] }
  if sv.isEmpty then
    if st.value.isEmpty then none else some (mk st.value)
  else some (mk (st.value ++ [(some sv, istr (some sv) (some rawv))]))

/-- the rune lists of parseUnquotedString's switch statements come from the source (tie R) -/
def isTop (r : Char) : Bool := D2V.Gen.ParserSites.topStops.contains r
def isDashStop (r : Char) : Bool := D2V.Gen.ParserSites.dashStops.contains r
def isKeyStop (r : Char) : Bool := D2V.Gen.ParserSites.keyStops.contains r
def isEdgeGroupStop (r : Char) : Bool := D2V.Gen.ParserSites.edgeGroupStops.contains r

/-- the `...@` check at the head of `parseUnquotedString` -/
def uqPrologue : P Unit := do
  let (s4, eof4) ← peekn 4
  rewind
  if !eof4 && s4 = ['.', '.', '.', '@'] then do
    let p ← getPos
    let u16 := (← get).u16
    errorf p (p.advanceString ['.', '.', '.', '@'] u16)
      "unquoted strings cannot begin with ...@ as that's import spread syntax"
  else pure ()

/-- one iteration of `parseUnquotedString`'s loop: `.inl st` = next iteration, `.inr st` = return -/
def uqBody (parseSubst : P (Option T)) (inKey : Bool) (st : UQState) : P (UQState ⊕ UQState) := do
  match ← peek with
  | none => pure (.inr st)
  | some r =>
    let inEdgeGroup := (← get).inEdgeGroup
    if inEdgeGroup && r = ')' then do
      match ← peekNotSpace with
      | none => do rewind; pure (.inr st)
      | some (r2, newlines) =>
        if newlines > 0 then do rewind; pure (.inr st)
        else if isEdgeGroupStop r2 then do
          rewind; pure (.inr st)
        else do
          rewind
          let _ ← peek
          commit
          let p ← getPos
          pure (.inl { st with lastNonSpace := p, sb := st.sb.push r, rawb := st.rawb.push r })
    else if isTop r then do rewind; pure (.inr st)
    else do
      -- the `if inKey { switch r … }` block: `.inl st` = return, `.inr (st, r)` = go on with (possibly replaced) r
      let cont : UQState ⊕ (UQState × Char) ← (do
        if !inKey then pure (.inr (st, r))
        else if isKeyStop r then do rewind; pure (.inl st)
        else if r = '-' then do
          match ← peek with
          | none => pure (.inl st)
          | some r2 =>
            if isDashStop r2 then do
              rewind
              let _ ← peek
              commit
              pure (.inl { st with sb := st.sb.push r, rawb := st.rawb.push r })
            else if r2 = '-' || r2 = '>' || r2 = '*' then do rewind; pure (.inl st)
            else pure (.inr ({ st with sb := st.sb.push r, rawb := st.rawb.push r }, r2))
        else pure (.inr (st, r)) : P (UQState ⊕ (UQState × Char)))
      match cont with
      | .inl st => pure (.inr st)
      | .inr (st, r) => do
        let st ← (do
          if r = '*' then
            if st.sb.utf8ByteSize = 0 then
              pure { st with pattern := patAppend st.pattern [[42]], lastPatternIndex := st.sb.utf8ByteSize + 1 }
            else if st.lastPatternIndex > st.sb.utf8ByteSize then crash .sliceOOB
            else
              pure { st with pattern := patAppend st.pattern [st.sb.toUTF8.toList.drop st.lastPatternIndex, [42]],
                             lastPatternIndex := st.sb.utf8ByteSize + 1 }
          else pure st : P UQState)
        commit
        let p ← getPos
        let st := if !isSpace r then { st with lastNonSpace := p } else st
        if !inKey && r = '$' then do
          match ← parseSubst with
          | some subst =>
            let cfg := (← get).cfg
            let st := if st.sb.utf8ByteSize > 0 then
                { st with value := st.value ++ [(some st.sb, istr (some st.sb) (some st.rawb))], sb := "", rawb := "",
                          lastPatternIndex := if cfg.patReset then 0 else st.lastPatternIndex }
              else st
            pure (.inl { st with value := st.value ++ [(none, isub subst)] })
          | none => pure (.inl st)
        else if r ≠ '\\' then pure (.inl { st with sb := st.sb.push r, rawb := st.rawb.push r })
        else do
          match ← read with
          | none => do
            let a ← posSub '\\'
            let rp ← getReaderPos
            errorf a rp "unfinished escape sequence"
            pure (.inr st)
          | some r2 =>
            if r2 = '\n' then do
              match ← peekNotSpace with
              | none => do rewind; pure (.inr st)
              | some (r3, newlines) =>
                if newlines > 0 then do rewind; pure (.inr st)
                else do
                  commit
                  replay r3
                  pure (.inl st)
            else
              pure (.inl { st with sb := st.sb.push (decodeEscape r2), rawb := (st.rawb.push '\\').push r2 })

/-- `parseUnquotedString`, given `parseSubstitution(false)` -/
def parseUnquotedStringWith (parseSubst : P (Option T)) (inKey : Bool) : P (Option SBox) := do
  let start ← getPos
  uqPrologue
  let st ← loop (uqBody parseSubst inKey) { lastNonSpace := start }
  pure (finishUnquoted start st)


def dqMsg : String := "double quoted strings must be terminated with \""
def sqMsg : String := "single quoted strings must be terminated with '"

structure DQState where
  sb : String := ""
  rawb : String := ""
  value : List IBox := []

/-- `parseDoubleQuotedString`, given `parseSubstitution(false)` -/
def parseDoubleQuotedStringWith (parseSubst : P (Option T)) (inKey : Bool) : P SBox := do
  let start ← posSub '"'
  let st ← loop (σ := DQState) (fun st => do
    match ← peek with
    | none => do
      let rp ← getReaderPos
      errorf start rp dqMsg
      pure (.inr st)
    | some r =>
      if r = '\n' then do
        rewind
        let p ← getPos
        errorf start p dqMsg
        pure (.inr st)
      else do
        commit
        let sub : Option T ← (if !inKey && r = '$' then parseSubst else pure none : P (Option T))
        match sub with
        | some subst =>
          let st := if st.sb.utf8ByteSize > 0 then
              { st with value := st.value ++ [(some st.sb, istr (some st.sb) none)], sb := "" } else st
          pure (.inl { st with value := st.value ++ [(none, isub subst)] })
        | none =>
          if r = '"' then pure (.inr st)
          else if r ≠ '\\' then pure (.inl { st with sb := st.sb.push r, rawb := st.rawb.push r })
          else do
            match ← read with
            | none => do
              let a ← posSub '\\'
              let rp ← getReaderPos
              errorf a rp "unfinished escape sequence"
              errorf start rp dqMsg
              pure (.inr st)
            | some r2 =>
              if r2 = '\n' then pure (.inl st)
              else pure (.inl { st with sb := st.sb.push (decodeEscape r2), rawb := (st.rawb.push '\\').push r2 }))
    {}
  let stop ← getPos
  let value := if st.sb.utf8ByteSize > 0 then st.value ++ [(some st.sb, istr (some st.sb) (some st.rawb))] else st.value
  pure { kind := .dq, range := ⟨start, stop⟩, scalar := scalarOf value, scalarLen := (scalarOf value).utf8ByteSize,
         typ := "double quoted string", firstSubst := false,
         json := .node "dq" ⟨start, stop⟩ [("v", .arr (value.map (·.2)))] }

/-- `parseSingleQuotedString` -/
def parseSingleQuotedString : P SBox := do
  let start ← posSub '\''
  let sb ← loop (σ := String) (fun sb => do
    match ← peek with
    | none => do
      let rp ← getReaderPos
      errorf start rp sqMsg
      pure (.inr sb)
    | some r =>
      if r = '\n' then do
        rewind
        let p ← getPos
        errorf start p sqMsg
        pure (.inr sb)
      else do
        commit
        if r = '\'' then do
          match ← peek with
          | none => pure (.inr sb)
          | some r =>
            if r = '\'' then do commit; pure (.inl (sb.push '\''))
            else do rewind; pure (.inr sb)
        else if r ≠ '\\' then pure (.inl (sb.push r))
        else do
          match ← peek with
          | none => pure (.inl sb)
          | some r2 =>
            if r2 = '\n' then do commit; pure (.inl sb)
            else do rewind; pure (.inl (sb.push r))) ""
  let stop ← getPos
  pure { kind := .sq, range := ⟨start, stop⟩, scalar := sb, scalarLen := sb.utf8ByteSize, typ := "single quoted string",
         firstSubst := false, json := .node "sq" ⟨start, stop⟩ [("v", .str sb)] }

def bsMsg (quote : String) : String := s!"block string must be terminated with {quote}|"

/-- `parseBlockString` -/
def parseBlockString : P SBox := do
  let start ← posSub '|'
  incDepth
  let fin (quote tag : String) (sb : String) : P SBox := do
    let stop ← getPos
    decDepth
    let v := trimCommonIndent (trimSpaceAfterLastNewline sb.toList)
    pure { kind := .bs, range := ⟨start, stop⟩, scalar := "", scalarLen := v.length, typ := tag ++ " block string",
           firstSubst := false,
           json := .node "bs" ⟨start, stop⟩ [("q", .str quote), ("tag", .str tag), ("v", .bytes v)] }
  let eofErr (quote : String) : P Unit := do
    let rp ← getReaderPos
    errorf start rp (bsMsg quote)
  -- more symbol quotes?
  let (quote, eof) ← loop (σ := String) (fun quote => do
    match ← peek with
    | none => do eofErr quote; pure (.inr (quote, true))
    | some r =>
      if isSpace r || isLetter r || isDigit r || r = '_' then do rewind; pure (.inr (quote, false))
      else do commit; pure (.inl (quote.push r))) ""
  if eof then fin quote "" ""
  else
  -- a tag?
  let (tag, eof) ← loop (σ := String) (fun tag => do
    match ← peek with
    | none => do eofErr quote; pure (.inr (tag, true))
    | some r =>
      if isSpace r then do rewind; pure (.inr (tag, false))
      else do commit; pure (.inl (tag.push r))) ""
  if eof then fin quote tag ""
  else
  let tag := if tag.isEmpty then "md" else tag
  -- skip non newline whitespace
  let (sb, eof) ← loop (σ := Unit) (fun _ => do
    match ← peek with
    | none => do eofErr quote; pure (.inr ("", true))
    | some r =>
      if !isSpace r then do
        let d := (← get).depth
        rewind
        pure (.inr (String.ofList (List.replicate (d * 2) ' '), false))
      else do
        commit
        if r = '\n' then pure (.inr ("", false)) else pure (.inl ())) ()
  if eof then fin quote tag sb
  else
  let (endHint, endRest) : Char × List UInt8 :=
    match quote.toList.getLast? with
    | none => ('|', [])
    | some c => (c, (quote.toUTF8.toList.drop (utf8Len c)) ++ [124])
  let sb ← loop (σ := String) (fun sb => do
    match ← read with
    | none => do eofErr quote; pure (.inr sb)
    | some r =>
      if r ≠ endHint then pure (.inl (sb.push r))
      else do
        let (s, eof) ← peekn endRest.length
        if eof then do eofErr quote; pure (.inr sb)
        else if utf8Bytes s ≠ endRest then do rewind; pure (.inl (sb.push endHint))
        else do commit; pure (.inr sb)) sb
  fin quote tag sb

/-- `parseString` -/
def parseStringWith (parseSubst : P (Option T)) (inKey : Bool) : P (Option SBox) := do
  match ← peekNotSpace with
  | none => do rewind; pure none
  | some (r, newlines) =>
    if newlines > 0 then do rewind; pure none
    else do
      commit
      if r = '"' then some <$> parseDoubleQuotedStringWith parseSubst inKey
      else if r = '\'' then some <$> parseSingleQuotedString
      else if r = '|' then some <$> parseBlockString
      else do
        replay r
        parseUnquotedStringWith parseSubst inKey

/-- the lexical layer tied together: keys contain no substitutions, substitutions contain keys -/
def parseStringKey : P (Option SBox) := parseStringWith (pure none) true
def parseKey : P (Option KP) := parseKeyWith parseStringKey
def parseSubstitution (spread : Bool) : P (Option T) := parseSubstitutionWith parseKey spread
def parseStringVal : P (Option SBox) := parseStringWith (parseSubstitution false) false

/-- `parseImport` -/
def parseImport (spread : Bool) : P T := do
  let start ← do let p ← getPos; subPosString p ['$']
  let start ← if spread then subPosString start ['.', '.', '.'] else pure start
  let pre ← loop (σ := String) (fun pre => do
    match ← peek with
    | none => pure (.inr pre)
    | some r =>
      if r ≠ '.' && r ≠ '/' then do rewind; pure (.inr pre)
      else do commit; pure (.inl (pre.push r))) ""
  let k ← parseKey
  let stop ← getPos
  let path : List SBox := match k with
    | none => []
    | some k =>
      match k.path with
      | a :: b :: rest => if a.kind = .uq && b.kind = .uq && b.scalar = "d2" then a :: rest else k.path
      | _ => k.path
  pure (.node "import" ⟨start, stop⟩ [("spread", .bool spread), ("pre", .str pre), ("p", .arr (path.map (·.json)))])

/-- `parseEdge`: (ok, DstArrow, Range.End) -/
def parseEdge (start : Pos) : P (Bool × String × Pos) := do
  let (ok, da) ← loop (σ := Unit) (fun _ => do
    match ← peek with
    | none => do
      let rp ← getReaderPos
      errorf start rp "unterminated connection"
      pure (.inr (false, ""))
    | some r =>
      if r = '>' || r = '*' then do commit; pure (.inr (true, String.singleton r))
      else if r = '\\' then do
        commit
        match ← peekNotSpace with
        | none => pure (.inl ())
        | some (r, newlines) =>
          if newlines = 0 then do
            rewind
            let rp ← getReaderPos
            errorf start rp "only newline escapes are allowed in connections"
            pure (.inr (false, ""))
          else if newlines > 1 then do rewind; pure (.inl ())
          else do commit; replay r; pure (.inl ())
      else if r = '-' then do commit; pure (.inl ())
      else do rewind; pure (.inr (true, ""))) ()
  let stop ← getPos
  pure (ok, da, stop)

/-- `parseEdges`: the edges appended to `mk.Edges` -/
def parseEdges (src : Option KP) : P (List T) :=
  loop (σ := Option KP × List T) (fun (src, edges) => do
    let start ← match src with
      | some k => pure k.range.start
      | none => getPos
    match ← peekNotSpace with
    | none => pure (.inr edges)
    | some (r, newlines) =>
      if newlines > 0 then do rewind; pure (.inr edges)
      else if r ≠ '<' && r ≠ '*' && r ≠ '-' then do rewind; pure (.inr edges)
      else do
        let sa := if r = '<' || r = '*' then String.singleton r else ""
        let start ← (match src with
          | some _ => pure start
          | none => do
            let lp ← getLookaheadPos
            let a ← subPos lp r
            errorf a lp "connection missing source"
            pure a : P Pos)
        commit
        let (ok, da, edgeEnd) ← parseEdge start
        if !ok then pure (.inr edges)
        else do
          let dst ← parseKey
          let stop ← (match dst with
            | some d => pure d.range.stop
            | none => do
              let p ← getPos
              errorf start p "connection missing destination"
              pure edgeEnd : P Pos)
          let e := T.node "edge" ⟨start, stop⟩
            [("src", optT (src.map KP.json)), ("sa", .str sa), ("dst", optT (dst.map KP.json)), ("da", .str da)]
          pure (.inl (dst, edges ++ [e]))) (src, [])

def unexpIdxMsg : String := "unexpected character in edge index"
def untermIdxMsg : String := "unterminated edge index"

/-- `parseEdgeIndex` -/
def parseEdgeIndex : P (Option T) := do
  let start ← posSub '['
  match ← peekNotSpace with
  | none => do rewind; pure none
  | some (r, newlines) =>
    if newlines > 0 then do rewind; pure none
    else do
      -- `none` = the function already returned nil; `some (int, glob)` otherwise
      let body : Option (Option Nat × Bool) ← (do
        if isDigit r then do
          commit
          let digits ← loop (σ := List Char) (fun ds => do
            match ← peekNotSpace with
            | none => do
              rewind
              let p ← getPos
              errorf start p untermIdxMsg
              pure (.inr none)
            | some (r, newlines) =>
              if newlines > 0 then do
                rewind
                let p ← getPos
                errorf start p untermIdxMsg
                pure (.inr none)
              else if r = ']' then do rewind; pure (.inr (some ds))
              else do
                commit
                if !isDigit r then do
                  let a ← posSub r
                  let p ← getPos
                  errorf a p unexpIdxMsg
                  pure (.inl ds)
                else pure (.inl (ds ++ [r]))) [r]
          match digits with
          | none => pure none
          | some ds => pure (some (some (atoiDigits ds), false))
        else if r = '*' then do commit; pure (some (none, true))
        else do
          let a ← posSub r
          let p ← getPos
          errorf a p unexpIdxMsg
          pure (some (none, false)) : P (Option (Option Nat × Bool)))
      match body with
      | none => pure none
      | some (int, glob) =>
        let mk (stop : Pos) : T :=
          .node "ei" ⟨start, stop⟩ [("int", match int with | some n => .str (toString n) | none => .null), ("glob", .bool glob)]
        match ← peekNotSpace with
        | none => do
          rewind
          let p ← getPos
          errorf start p untermIdxMsg
          pure (some (mk p))
        | some (r, newlines) =>
          if newlines > 0 || r ≠ ']' then do
            rewind
            let p ← getPos
            errorf start p untermIdxMsg
            pure (some (mk p))
          else do
            commit
            let p ← getPos
            pure (some (mk p))

/-- `parseMapKeyValue` -/
def parseMapKeyValue (pv : P VBox) (mk : KeyRec) : P KeyRec := do
  match ← peekNotSpace with
  | none => pure mk
  | some (r, newlines) =>
    if newlines > 0 then do rewind; pure mk
    else do
      let go : Bool ← (do
        if r = '{' then do
          rewind
          pure (!mk.empty)
        else if r = ':' then do
          commit
          if mk.empty then do
            let p ← getPos
            errorf mk.start p "map value without key"
          pure true
        else do rewind; pure false : P Bool)
      if !go then pure mk
      else do
        let v ← pv
        if v.kind = .none then do
          let a ← posSub ':'
          let p ← getPos
          errorf a p "missing value after colon"
        let mk := { mk with value := v }
        if v.isScalar then do
          match ← peekNotSpace with
          | none => do rewind; pure mk
          | some (r, newlines) =>
            if newlines > 0 || r ≠ '{' then do rewind; pure mk
            else do
              commit
              replay r
              let v2 ← pv
              pure { mk with primary := some v.json, value := v2 }
        else pure mk

def setEdgeGroup (b : Bool) : P Unit := modify fun s => { s with inEdgeGroup := b }

/-- `parseEdgeGroup` -/
def parseEdgeGroup (pv : P VBox) (mk : KeyRec) : P KeyRec := do
  setEdgeGroup true
  let mk ← (do
    let src ← parseKey
    let edges ← parseEdges src
    let mk := { mk with edges := mk.edges ++ edges }
    match ← peekNotSpace with
    | none => do rewind; pure mk
    | some (r, newlines) =>
      if newlines > 0 then do rewind; pure mk
      else if r ≠ ')' then do
        rewind
        let p ← getPos
        errorf mk.start p "edge groups must be terminated with )"
        pure mk
      else do
        commit
        match ← peekNotSpace with
        | none => do rewind; pure mk
        | some (r, newlines) =>
          if newlines > 0 then do rewind; pure mk
          else do
            let mk ← (if r = '[' then do
                commit
                let ei ← parseEdgeIndex
                pure { mk with edgeIndex := ei }
              else do rewind; pure mk : P KeyRec)
            match ← peekNotSpace with
            | none => do rewind; pure mk
            | some (r, newlines) =>
              if newlines > 0 then do rewind; pure mk
              else do
                let mk ← (if r = '.' then do
                    commit
                    let ek ← parseKey
                    pure { mk with edgeKey := ek }
                  else do rewind; pure mk : P KeyRec)
                setEdgeGroup false
                parseMapKeyValue pv mk : P KeyRec)
  setEdgeGroup false
  pure mk

/-- what `parseMapKey` hands back: the record and `Range.End`; `none` when neither key nor edges -/
def finishMapKey (mk : KeyRec) : P (Option (KeyRec × Pos)) := do
  let stop ← getPos
  if mk.empty then pure none else pure (some (mk, stop))

/-- `parseMapKey` -/
def parseMapKey (pv : P VBox) : P (Option (KeyRec × Pos)) := do
  let start ← getPos
  let mk : KeyRec := { start }
  match ← peek with
  | none => finishMapKey mk
  | some r =>
    -- ampersand prefix; `none` = returned
    let mk? : Option KeyRec ← (do
      if r = '!' then do
        match ← peek with
        | none => pure none
        | some r2 =>
          if r2 = '&' then do commit; pure (some { mk with namp := true })
          else do rewind; pure (some mk)
      else if r = '&' then do commit; pure (some { mk with amp := true })
      else do rewind; pure (some mk) : P (Option KeyRec))
    match mk? with
    | none => finishMapKey mk
    | some mk =>
      match ← peek with
      | none => finishMapKey mk
      | some r =>
        if r = '(' then do
          commit
          let mk ← parseEdgeGroup pv mk
          finishMapKey mk
        else do
          rewind
          let k ← parseKey
          let mk := { mk with key := k }
          match ← peekNotSpace with
          | none => finishMapKey mk
          | some (r, newlines) =>
            if newlines > 0 then do rewind; finishMapKey mk
            else if r = '(' then do
              commit
              let mk ← parseEdgeGroup pv mk
              finishMapKey mk
            else if r = '<' || r = '>' || r = '-' then do
              rewind
              let mk := { mk with key := none }
              let edges ← parseEdges k
              let mk := { mk with edges := mk.edges ++ edges }
              let mk ← parseMapKeyValue pv mk
              finishMapKey mk
            else do
              rewind
              let mk ← parseMapKeyValue pv mk
              finishMapKey mk

def blockStringHint : String := ". See https://d2lang.com/tour/text#advanced-block-strings."

def keyNodeRes (r : Option (KeyRec × Pos)) : NodeRes :=
  match r with
  | none => ⟨none, false, ""⟩
  | some (mk, stop) =>
    let after := if mk.value.kind ≠ .none then mk.value.typ ++ (if mk.value.isBlockString then blockStringHint else "")
                 else "map key"
    ⟨some (mk.json stop), false, after⟩

/-- the shared prefix of `parseMapNode` / `parseArrayNode`: comments, block comments, spread substitutions and
    imports; `none` = fall through to `p.replay(r)` -/
def parseNodePrefix (r : Char) : P (Option NodeRes) := do
  if r = '#' then do
    let c ← parseComment
    pure (some ⟨some c, false, "comment"⟩)
  else if r = '"' then do
    let (s, eof) ← peekn 2
    if eof then pure none
    else if s ≠ ['"', '"'] then do rewind; pure none
    else do
      commit
      let c ← parseBlockComment
      pure (some ⟨some c, true, "block comment"⟩)
  else if r = '.' then do
    let (s, eof) ← peekn 2
    if eof then pure none
    else if s ≠ ['.', '.'] then do rewind; pure none
    else
      match ← peek with
      | none => pure none
      | some r2 =>
        if r2 = '$' then do
          commit
          match ← parseSubstitution true with
          | some t => pure (some ⟨some t, false, "substitution"⟩)
          | none => pure (some ⟨none, false, ""⟩)
        else if r2 = '@' then do
          commit
          let t ← parseImport true
          pure (some ⟨some t, false, "import"⟩)
        else do rewind; pure none
  else pure none

/-- `parseMapNode` -/
def parseMapNode (pv : P VBox) (r : Char) : P NodeRes := do
  match ← parseNodePrefix r with
  | some n => pure n
  | none => do
    replay r
    let mk ← parseMapKey pv
    pure (keyNodeRes mk)

/-- the "anything else on this line is an error" scan shared by `parseMap` and `parseArray` -/
def skipJunk (close : Char) : P Unit :=
  loop (σ := Unit) (fun _ => do
    match ← peekNotSpace with
    | none => do rewind; pure (.inr ())
    | some (r, newlines) =>
      if newlines ≠ 0 || r = ';' || r = close || r = '#' then do rewind; pure (.inr ())
      else do commit; pure (.inl ())) ()

/-- `parseMap` -/
def parseMap (pv : P VBox) (isFileMap : Bool) : P T := do
  let start0 ← getPos
  let start ← if isFileMap then pure start0 else subPos start0 '{'
  if !isFileMap then incDepth
  let nodes ← loop (σ := List T) (fun nodes => do
    match ← readNotSpace with
    | none => do
      if !isFileMap then do
        let rp ← getReaderPos
        errorf start rp "maps must be terminated with }"
      pure (.inr nodes)
    | some r =>
      if r = ';' then pure (.inl nodes)
      else if r = '}' then
        if isFileMap then do
          let a ← posSub r
          let p ← getPos
          errorf a p "unexpected map termination character } in file map"
          pure (.inl nodes)
        else pure (.inr nodes)
      else do
        let n ← parseMapNode pv r
        let nodes := match n.json with
          | some t => nodes ++ [t]
          | none => nodes
        if n.isBlockComment then pure (.inl nodes)
        else do
          let after ← getPos
          skipJunk '}'
          let p ← getPos
          if after ≠ p then
            match n.json with
            | some _ => errorf after p s!"unexpected text after {n.afterTyp}"
            | none => errorf after p "invalid text beginning unquoted key"
          pure (.inl nodes)) []
  let stop ← getPos
  if !isFileMap then decDepth
  pure (.node "map" ⟨start, stop⟩ [("n", .arr nodes)])

/-- `parseArrayNode` -/
def parseArrayNode (pv : P VBox) (r : Char) : P NodeRes := do
  match ← parseNodePrefix r with
  | some n => pure n
  | none => do
    replay r
    let v ← pv
    match v.uq with
    | some sb =>
      if sb.scalar = "" && !sb.firstSubst then do
        let p ← getPos
        let u16 := (← get).u16
        errorf p (p.advance r u16) "unquoted strings cannot start on"
    | none => pure ()
    -- Suspension is not copied into the ArrayNodeBox
    if v.kind = .none || v.kind = .susp then pure ⟨none, false, ""⟩
    else pure ⟨some v.json, false, v.typ⟩

/-- `parseArray` -/
def parseArray (pv : P VBox) : P T := do
  let start ← posSub '['
  incDepth
  let nodes ← loop (σ := List T) (fun nodes => do
    match ← readNotSpace with
    | none => do
      let rp ← getReaderPos
      errorf start rp "arrays must be terminated with ]"
      pure (.inr nodes)
    | some r =>
      if r = ';' then pure (.inl nodes)
      else if r = ']' then pure (.inr nodes)
      else do
        let n ← parseArrayNode pv r
        let nodes := match n.json with
          | some t => nodes ++ [t]
          | none => nodes
        if n.isBlockComment then pure (.inl nodes)
        else do
          let after ← getPos
          skipJunk ']'
          let p ← getPos
          if after ≠ p then
            match n.json with
            | some _ => errorf after p s!"unexpected text after {n.afterTyp}"
            | none => errorf after p "invalid text beginning unquoted string"
          pure (.inl nodes)) []
  let s ← get
  let stop := if s.cfg.arrayEndPos then s.pos else s.readerPos
  decDepth
  pure (.node "arr" ⟨start, stop⟩ [("n", .arr nodes)])

def strVBox (sb : SBox) : VBox :=
  ⟨.str, sb.json, sb.typ, true, sb.kind = .bs, if sb.kind = .uq then some sb else none⟩

/-- `parseValue`, one unfolding: `pv` is the recursive call -/
def parseValueBody (isNum : String → Bool) (pv : P VBox) : P VBox := do
  match ← peekNotSpace with
  | none => do rewind; pure VBox.none
  | some (r, newlines) =>
    if newlines > 0 then do rewind; pure VBox.none
    else do
      commit
      if r = '[' then do
        let a ← parseArray pv
        pure ⟨.arr, a, "array", false, false, none⟩
      else if r = '{' then do
        let m ← parseMap pv false
        pure ⟨.map, m, "map", false, false, none⟩
      else if r = '@' then do
        let i ← parseImport false
        pure ⟨.imp, i, "import", false, false, none⟩
      else do
        replay r
        match ← parseStringVal with
        | none => pure VBox.none
        | some sb => do
          let guard := (← get).cfg.valueSubstGuard
          if sb.kind ≠ .uq then pure (strVBox sb)
          else if guard && sb.nBoxes > 1 then pure (strVBox sb)
          else
            if equalFoldKw sb.scalar "null" then pure ⟨.null, .node "null" sb.range [], "null", true, false, none⟩
            else if equalFoldKw sb.scalar "suspend" then
              pure ⟨.susp, .node "susp" sb.range [("v", .bool true)], "suspension", true, false, none⟩
            else if equalFoldKw sb.scalar "unsuspend" then
              pure ⟨.susp, .node "susp" sb.range [("v", .bool false)], "suspension", true, false, none⟩
            else if equalFoldKw sb.scalar "true" then
              pure ⟨.bool, .node "bool" sb.range [("v", .bool true)], "boolean", true, false, none⟩
            else if equalFoldKw sb.scalar "false" then
              pure ⟨.bool, .node "bool" sb.range [("v", .bool false)], "boolean", true, false, none⟩
            else if isNum sb.scalar then
              pure ⟨.num, .node "num" sb.range [("raw", .str sb.scalar)], "number", true, false, none⟩
            else pure (strVBox sb)

/-- `parseValue` with the nesting bounded by `n` -/
def parseValueN (isNum : String → Bool) : Nat → P VBox
  | 0 => crash .outOfFuel
  | n + 1 => parseValueBody isNum (parseValueN isNum n)

/-! ### entry points -/

structure Outcome where
  ast : Option T
  errs : List PErr
  /-- the reader discipline held throughout the run (ghost monitor) -/
  disciplined : Bool

def fuelFor (runes : List Char) : Nat := runes.length + 4

def runP (u16 : Bool) (cfg : Cfg) (runes : List Char) (f : P α) : Except Crash (α × PState) :=
  f (PState.init u16 cfg runes (fuelFor runes))

/-- what an entry point hands back: the node (if any) and the error list, or the crash -/
def finishRun {α : Type} (x : Except Crash (α × PState)) (g : α → Option T) : Except Crash Outcome :=
  match x with
  | .ok (a, s) => .ok ⟨g a, s.errs.toList, s.guardOk⟩
  | .error c => .error c

/-- `Parse(path, r, opts)` on the bytes `bs` -/
def parseFile (cfg : Cfg) (isNum : String → Bool) (bs : List UInt8) (u16opt : Bool) : Except Crash Outcome :=
  finishRun (runP (entryRunes bs u16opt).2 cfg (entryRunes bs u16opt).1
    (parseMap (parseValueN isNum (fuelFor (entryRunes bs u16opt).1)) true)) some

/-- `ParseKey(key)` (strings.Reader: same rune decoding; positions in UTF-8) -/
def parseKeyEntry (cfg : Cfg) (bs : List UInt8) : Except Crash Outcome :=
  finishRun (runP false cfg (runesOf bs) parseKey) (fun k => k.map KP.json)

/-- `ParseMapKey(mapKey)` -/
def parseMapKeyEntry (cfg : Cfg) (isNum : String → Bool) (bs : List UInt8) : Except Crash Outcome :=
  finishRun (runP false cfg (runesOf bs) (parseMapKey (parseValueN isNum (fuelFor (runesOf bs)))))
    (fun k => k.map fun x => x.1.json x.2)

/-- `ParseValue(value)` -/
def parseValueEntry (cfg : Cfg) (isNum : String → Bool) (bs : List UInt8) : Except Crash Outcome :=
  finishRun (runP false cfg (runesOf bs) (parseValueN isNum (fuelFor (runesOf bs))))
    (fun v => if v.kind = .none then none else some v.json)

end D2V.Text
