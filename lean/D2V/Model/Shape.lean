/-
  Model of `lib/shape`: `GetDimensionsToFit` and `GetInnerBox` per shape type, over exact rationals
  (`math.Ceil` = `Rat.ceil`, `math.Round` = half away from zero, `math.Min/Max` exact).
  Numeric constants are regenerated from the source (`D2V.Gen.Shape`); the case structure of every shape is
  hand-written here and corresponded with the Go code on a dense grid (harness c27).

  Modelled (piecewise affine): the default rectangle family (square/rectangle and every type that inherits
  `baseShape`'s methods: class, table, code, text, image), real square, hexagon, diamond, cylinder, queue, package,
  page, step, parallelogram, document, stored data, callout, person.
  Not modelled (transcendental or ratio tables; judged on the implementation only): oval, circle, cloud, c4 person.
-/
import D2V.Gen.Shape
namespace D2V.Shape
open D2V.Gen.Shape

inductive Kind where
  | rect | realSquare | hexagon | diamond | cylinder | queue | package | page | step | parallelogram
  | document | storedData | callout | person | c4person
deriving Repr, BEq, DecidableEq

/-- the `shape.*_TYPE` strings -/
def Kind.ofType (s : String) : Option Kind :=
  match s with
  | "Square" | "Class" | "Table" | "Code" | "Text" | "Image" | "" => some .rect
  | "RealSquare" => some .realSquare
  | "Hexagon" => some .hexagon
  | "Diamond" => some .diamond
  | "Cylinder" => some .cylinder
  | "Queue" => some .queue
  | "Package" => some .package
  | "Page" => some .page
  | "Step" => some .step
  | "Parallelogram" => some .parallelogram
  | "Document" => some .document
  | "StoredData" => some .storedData
  | "Callout" => some .callout
  | "Person" => some .person
  | "C4Person" => some .c4person
  | _ => none

def ceilR (x : Rat) : Rat := (x.ceil : Rat)

/-- `math.Round`: nearest integer, halves away from zero -/
def roundR (x : Rat) : Rat :=
  if 0 ≤ x then ((x + 1 / 2).floor : Rat) else -(((-x) + 1 / 2).floor : Rat)

/-- `LimitAR(width, height, aspectRatio)` -/
def limitAR (w h ar : Rat) : Rat × Rat :=
  if w > ar * h then (w, roundR (w / ar))
  else if h > ar * w then (roundR (h / ar), h)
  else (w, h)

/-- `GetDimensionsToFit(width, height, paddingX, paddingY)` -/
def fit (k : Kind) (w h px py : Rat) : Rat × Rat :=
  match k with
  | .rect => (ceilR (w + px), ceilR (h + py))
  | .realSquare => let s := ceilR (max (w + px) (h + py)); (s, s)
  | .hexagon => (ceilR (3 / 2 * (w + px)), ceilR (3 / 2 * (h + py)))
  | .diamond => (ceilR (2 * (w + px)), ceilR (2 * (h + py)))
  | .cylinder => (ceilR (w + px), ceilR (h + py + 3 * arcDepth))
  | .queue => (ceilR (3 * arcDepth + w + px), ceilR (h + py))
  | .package =>
    let ih := h + py
    let top := ih * packageVerticalScalar / (1 - packageVerticalScalar)
    (ceilR (w + px), ceilR (ih + min top packageTopMaxHeight))
  | .page =>
    let tw0 := w + px
    let th0 := h + py
    let tw1 := if th0 < 3 * pageCornerHeight then tw0 + pageCornerWidth else tw0
    (ceilR (max tw1 (2 * pageCornerWidth)), ceilR (max th0 pageCornerHeight))
  | .step => (ceilR (w + px + 2 * stepWedgeWidth), ceilR (h + py))
  | .parallelogram => (ceilR (w + px + parallelWedgeWidth * 2), ceilR (h + py))
  | .document => (ceilR (w + px), ceilR ((h + py) * docPathHeight / docPathInnerBottom))
  | .storedData => (ceilR (w + px + 2 * storedDataWedgeWidth), ceilR (h + py))
  | .callout =>
    let b := h + py
    let b' := if b < tipHeight then b * 2 else b + tipHeight
    (ceilR (w + px), ceilR b')
  | .person =>
    let tw := w + px
    let sh := tw * personShoulderWidthFactor / (1 - 2 * personShoulderWidthFactor)
    let p := limitAR (tw + 2 * sh) (h + py) personARLimit
    (ceilR p.1, ceilR p.2)
  | .c4person =>
    let cw := w + px
    let ch := h + py
    let tw := cw / (9 / 10)
    let headRadius := tw * c4HeadRadiusFactor
    let bodyTop := headRadius + headRadius * c4BodyTopFactor
    let verticalPadding := tw * (6 / 100)
    let th0 := ch + bodyTop + verticalPadding
    let th := if th0 < tw * (95 / 100) then tw * (95 / 100) else th0
    let p := limitAR tw th c4PersonARLimit
    (ceilR p.1, ceilR p.2)

/-- a box relative to the shape's top-left corner -/
structure IBox where
  x : Rat
  y : Rat
  w : Rat
  h : Rat
deriving Repr, BEq

/-- `GetInnerBox()` of a shape whose box is `W × H` (top-left at the origin) -/
def inner (k : Kind) (W H : Rat) : IBox :=
  match k with
  | .rect | .realSquare => ⟨0, 0, W, H⟩
  | .hexagon => ⟨W / 6, H / 6, W / (3 / 2), H / (3 / 2)⟩
  | .diamond => ⟨W / 4, H / 4, W / 2, H / 2⟩
  | .cylinder =>
    let arc := if H < arcDepth * 2 then H / 2 else arcDepth
    ⟨0, 2 * arc, W, H - 3 * arc⟩
  | .queue =>
    let aw := if W < arcDepth * 2 then W / 2 else arcDepth
    ⟨aw, 0, W - 3 * aw, H⟩
  | .package =>
    let top := min packageTopMaxHeight (H * packageVerticalScalar)
    ⟨0, top, W, H - top⟩
  | .page => ⟨0, 0, if H < 3 * pageCornerHeight then W - pageCornerWidth else W, H⟩
  | .step => ⟨stepWedgeWidth, 0, W - 2 * stepWedgeWidth, H⟩
  | .parallelogram => ⟨parallelWedgeWidth, 0, W - 2 * parallelWedgeWidth, H⟩
  | .document => ⟨0, 0, W, H * docPathInnerBottom / docPathHeight⟩
  | .storedData => ⟨storedDataWedgeWidth, 0, W - 2 * storedDataWedgeWidth, H⟩
  | .callout =>
    let tip := if H < tipHeight * 2 then H / 2 else tipHeight
    ⟨0, 0, W, H - tip⟩
  | .person =>
    let sh := personShoulderWidthFactor * W
    ⟨sh, 0, W - sh * 2, H⟩
  | .c4person =>
    let headRadius := W * c4HeadRadiusFactor
    let bodyTop := headRadius + headRadius * c4BodyTopFactor
    let hp := W * (5 / 100)
    let vp := H * (3 / 100)
    ⟨hp, bodyTop + vp, W - hp * 2, H - bodyTop - vp * 2⟩

/-- Spec: the inner box holds a `cw × ch` content and lies inside the `W × H` box (slack `t`) -/
def innerOK (ib : IBox) (W H cw ch t : Rat) : Prop :=
  cw ≤ ib.w + t ∧ ch ≤ ib.h + t ∧ 0 ≤ ib.x + t ∧ 0 ≤ ib.y + t ∧ ib.x + ib.w ≤ W + t ∧ ib.y + ib.h ≤ H + t

instance (ib : IBox) (W H cw ch t : Rat) : Decidable (innerOK ib W H cw ch t) := by unfold innerOK; infer_instance

/-! ### cloud (ratio tables; not piecewise affine in the content because the table is chosen by an aspect ratio) -/

inductive CloudCat where | wide | tall | square
deriving Repr, BEq, DecidableEq

def cloudWideBoundary : Rat := (1 + cloudWideInnerWidth / cloudWideInnerHeight) / 2
def cloudTallBoundary : Rat := (1 + cloudTallInnerWidth / cloudTallInnerHeight) / 2

/-- the `aspectRatio > CLOUD_WIDE_ASPECT_BOUNDARY … else if aspectRatio < CLOUD_TALL_ASPECT_BOUNDARY …` cascade -/
def cloudCat (w h : Rat) : CloudCat :=
  let ar := w / h
  if ar > cloudWideBoundary then .wide else if ar < cloudTallBoundary then .tall else .square

def CloudCat.innerW : CloudCat → Rat
  | .wide => cloudWideInnerWidth | .tall => cloudTallInnerWidth | .square => cloudSquareInnerWidth
def CloudCat.innerH : CloudCat → Rat
  | .wide => cloudWideInnerHeight | .tall => cloudTallInnerHeight | .square => cloudSquareInnerHeight
def CloudCat.innerX : CloudCat → Rat
  | .wide => cloudWideInnerX | .tall => cloudTallInnerX | .square => cloudSquareInnerX
def CloudCat.innerY : CloudCat → Rat
  | .wide => cloudWideInnerY | .tall => cloudTallInnerY | .square => cloudSquareInnerY

/-- `shapeCloud.GetDimensionsToFit` -/
def cloudFitPre (w h px py : Rat) : Rat × Rat :=
  let c := cloudCat (w + px) (h + py)
  ((w + px) / c.innerW, (h + py) / c.innerH)

def cloudFit (w h px py : Rat) : Rat × Rat :=
  (ceilR (cloudFitPre w h px py).1, ceilR (cloudFitPre w h px py).2)

/-- the aspect ratio d2graph stores in `ContentAspectRatio` (`SizeToContent`): that of `GetInnerBoxForContent` for
    the *unpadded* content -/
def cloudHint (w h : Rat) : Rat :=
  let c := cloudCat w h
  (w * c.innerW) / (h * c.innerH)

/-- `shapeCloud.GetInnerBox` of a `W × H` cloud; `hint` = `innerBoxAspectRatio` when set and non-zero -/
def cloudInnerCat (hint : Option Rat) (W H : Rat) : CloudCat :=
  match hint with
  | some a => if a = 0 then cloudCat W H else cloudCat a 1
  | none => cloudCat W H

def cloudInner (hint : Option Rat) (W H : Rat) : IBox :=
  let c := cloudInnerCat hint W H
  ⟨ceilR (W * c.innerX), ceilR (H * c.innerY), W * c.innerW, H * c.innerH⟩

end D2V.Shape
