/-
  FS.Path — Unix `path/filepath` (lexical functions) and the output-path derivation of d2cli, for C34 / C35.

  Modelled Go:
    * `filepath.Clean / Join / Ext / Dir / Base / Rel` (GOOS=linux: separator '/', no volume names), on `List Char`
      (the Go code works on bytes; '/' and '.' are ASCII, so for valid UTF-8 the two agree).
      Clean is "split on '/', fold the elements over a stack, render" — the same result as Go's in-place scanner;
      the tie-K stream `path` compares every function with Go on random paths.
    * `d2cli/main.go: render` — the path derivation for nested boards: `Join(TrimSuffix(out, ext), Name) + ext`,
      `index` for boards with sub-boards, the `layers|scenarios|steps` sub-directories when boards of another kind
      exist, `os.RemoveAll` of a board's directory before its sub-boards are rendered, and the order of writes
      (sub-boards first, then the board itself unless it is folder-only).
    * `d2cli/main.go: resolveLinks / relink` — the same derivation as a map board-path ↦ file, and
      `Rel(Dir(file cur), file target)` (C35).
-/
namespace D2V.Path

abbrev Str := List Char

def slash : Char := '/'
def dot : Str := ['.']
def dotdot : Str := ['.', '.']

/-- prepend a character to the first element -/
def consHead (c : Char) : List Str → List Str
  | [] => [[c]]
  | h :: t => (c :: h) :: t

/-- `strings.Split(s, "/")` : "a//b" ↦ ["a","","b"], "" ↦ [""] -/
def splitSlash : Str → List Str
  | [] => [[]]
  | c :: r => if c = '/' then [] :: splitSlash r else consHead c (splitSlash r)

/-- `strings.Join(elems, "/")` -/
def inter : List Str → Str
  | [] => []
  | [a] => a
  | a :: r => a ++ '/' :: inter r

/-- one element of Clean's scan; the stack is kept reversed (top first) -/
def cleanStep (rooted : Bool) (st : List Str) (c : Str) : List Str :=
  if c = [] ∨ c = dot then st
  else if c = dotdot then
    match st with
    | [] => if rooted then [] else [dotdot]
    | t :: r => if t = dotdot then dotdot :: st else r
  else c :: st

def isRooted : Str → Bool
  | c :: _ => c == '/'
  | [] => false

/-- the cleaned element list (in order) of a path -/
def cleanComps (s : Str) : List Str := ((splitSlash s).foldl (cleanStep (isRooted s)) []).reverse

def render (rooted : Bool) (comps : List Str) : Str :=
  if rooted then '/' :: inter comps else if comps = [] then dot else inter comps

/-- `filepath.Clean` -/
def clean (s : Str) : Str := if s = [] then dot else render (isRooted s) (cleanComps s)

/-- `filepath.Join` -/
def join : List Str → Str
  | [] => []
  | e :: r => if e = [] then join r else clean (inter (e :: r))

/-- the reversed last element of a path (characters after the last '/') -/
def lastElemRev (s : Str) : Str := s.reverse.takeWhile (· ≠ '/')

/-- `filepath.Ext` -/
def ext (s : Str) : Str :=
  let seg := lastElemRev s
  if seg.contains '.' then '.' :: (seg.takeWhile (· ≠ '.')).reverse else []

/-- `strings.TrimSuffix` -/
def trimSuffix (s suf : Str) : Str :=
  if suf.length ≤ s.length ∧ s.drop (s.length - suf.length) = suf then s.take (s.length - suf.length) else s

/-- `filepath.Dir` -/
def dir (s : Str) : Str :=
  let r := s.reverse.dropWhile (· ≠ '/')     -- reversed prefix up to and including the last '/'
  clean r.reverse

def dropTrailingSlashes (s : Str) : Str := (s.reverse.dropWhile (· = '/')).reverse

/-- `filepath.Base` -/
def base (s : Str) : Str :=
  if s = [] then dot
  else
    let t := dropTrailingSlashes s
    let b := (lastElemRev t).reverse
    if b = [] then ['/'] else b

def dropCommon : List Str → List Str → List Str × List Str
  | a :: r, b :: q => if a = b then dropCommon r q else (a :: r, b :: q)
  | x, y => (x, y)

/-- `filepath.Rel`; `none` = "Rel: can't make … relative to …" -/
def rel (basepath targpath : Str) : Option Str :=
  let b := clean basepath
  let t := clean targpath
  if b = t then some dot
  else
    let bc := if b = dot then [] else cleanComps b
    let tc := if t = dot then [dot] else cleanComps t      -- Go keeps a cleaned target "." as an element
    let bRooted := isRooted b
    if bRooted != isRooted t then none
    else
      let (rb, rt) := dropCommon bc tc
      if rb.head? = some dotdot then none
      else some (inter (rb.map (fun _ => dotdot) ++ rt))

/-! ### boards and the files `d2 in.d2 out.svg` writes for them -/

inductive Board where
  | mk (name : Str) (folderOnly : Bool) (layers scenarios steps : List Board)

def Board.name : Board → Str | .mk n _ _ _ _ => n
def Board.folderOnly : Board → Bool | .mk _ f _ _ _ => f
def Board.layers : Board → List Board | .mk _ _ l _ _ => l
def Board.scenarios : Board → List Board | .mk _ _ _ s _ => s
def Board.steps : Board → List Board | .mk _ _ _ _ t => t
def Board.hasKids (b : Board) : Bool := !(b.layers.isEmpty && b.scenarios.isEmpty && b.steps.isEmpty)

inductive Ev where
  | removeAll (p : Str)     -- os.RemoveAll(p)
  | write (p : Str)         -- os.MkdirAll(Dir p) ; d2cli.Write(p, …)
  deriving DecidableEq, Repr

/-- `ext := Ext(p); p = TrimSuffix(p, ext); p = Join(p, sub); p += ext` -/
def withSub (p sub : Str) : Str :=
  let e := ext p
  join [trimSuffix p e, sub] ++ e

def stripExt (p : Str) : Str := trimSuffix p (ext p)

def sIndex : Str := "index".toList
def sLayers : Str := "layers".toList
def sScenarios : Str := "scenarios".toList
def sSteps : Str := "steps".toList

mutual
/-- `render(outputPath, diagram)` of d2cli/main.go, as the list of its file-system effects in order -/
def renderB (outputPath : Str) : Board → List Ev
  | .mk name fo ls ss st =>
    let op := if name ≠ [] then withSub outputPath name else outputPath
    let has := !(ls.isEmpty && ss.isEmpty && st.isEmpty)
    let pre := if has then [Ev.removeAll (stripExt op)] else []
    let bop := if has then withSub op sIndex else op
    let lp := if !ss.isEmpty || !st.isEmpty then withSub op sLayers else op
    let sp := if !ls.isEmpty || !st.isEmpty then withSub op sScenarios else op
    let tp := if !ls.isEmpty || !ss.isEmpty then withSub op sSteps else op
    pre ++ renderL lp ls ++ renderL sp ss ++ renderL tp st ++ (if fo then [] else [Ev.write bop])
def renderL (outputPath : Str) : List Board → List Ev
  | [] => []
  | b :: r => renderB outputPath b ++ renderL outputPath r
end

def writesOf (evs : List Ev) : List Str := evs.filterMap fun | .write p => some p | _ => none
def removesOf (evs : List Ev) : List Str := evs.filterMap fun | .removeAll p => some p | _ => none

/-- `q` is `p` or lies below the directory `p` (both cleaned paths) -/
def underOrEq (p q : Str) : Bool := q == p || (p ++ ['/']).isPrefixOf q

mutual
def countBoards : Board → Nat
  | .mk _ fo ls ss st => (if fo then 0 else 1) + countBoardsL ls + countBoardsL ss + countBoardsL st
def countBoardsL : List Board → Nat
  | [] => 0
  | b :: r => countBoards b + countBoardsL r
end

/-! ### file-system effect of an event list on a listing (files only; directories are implied) -/

/-- apply the events to the set of existing files; a write replaces/creates the file, RemoveAll deletes a file of that
    name and everything below a directory of that name -/
def applyEvs (files : List Str) : List Ev → List Str
  | [] => files
  | .removeAll p :: r => applyEvs (files.filter fun f => !underOrEq p f) r
  | .write p :: r => applyEvs (if files.contains p then files else files ++ [p]) r

/-! ### resolveLinks / relink (C35) -/

mutual
/-- `resolveLinks(currDiagramPath, outputPath, diagram)`: board path ↦ output file, in traversal order -/
def linkMapB (cur : Str) (outputPath : Str) : Board → List (Str × Str)
  | .mk name _ ls ss st =>
    let op := if name ≠ [] then withSub outputPath name else outputPath
    let has := !(ls.isEmpty && ss.isEmpty && st.isEmpty)
    let bop := if has then withSub op sIndex else op
    let lp := if !ss.isEmpty || !st.isEmpty then withSub op sLayers else op
    let sp := if !ls.isEmpty || !st.isEmpty then withSub op sScenarios else op
    let tp := if !ls.isEmpty || !ss.isEmpty then withSub op sSteps else op
    (cur, bop) :: (linkMapL cur sLayers lp ls ++ linkMapL cur sScenarios sp ss ++ linkMapL cur sSteps tp st)
def linkMapL (cur kind : Str) (outputPath : Str) : List Board → List (Str × Str)
  | [] => []
  | b :: r => linkMapB (cur ++ '.' :: kind ++ '.' :: b.name) outputPath b ++ linkMapL cur kind outputPath r
end

/-- Go map semantics of `linkToOutput[k] = v`: a later entry with the same key replaces the earlier one -/
def mapLookup (m : List (Str × Str)) (k : Str) : Option Str :=
  (m.reverse.find? fun kv => kv.1 == k).map (·.2)

/-- `relink` for one shape link: a link whose key is in the map becomes `Rel(Dir(file cur), file target)`;
    `key` is what is compared with the map keys, `link` the value left in place otherwise -/
def relinkOneK (m : List (Str × Str)) (cur key link : Str) : Option Str :=
  match mapLookup m key, mapLookup m cur with
  | some v, some c => rel (dir c) v
  | _, _ => some link

def relinkOne (m : List (Str × Str)) (cur link : Str) : Option Str := relinkOneK m cur link link

end D2V.Path
