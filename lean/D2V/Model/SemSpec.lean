/-
  Spec predicates of C09 / C10 / C11 — the property sentences themselves, as decidable predicates over the
  *observation* of the real compiler (the structural dump of a compiled `d2graph.Graph`).  They never mention
  the model.  Each predicate returns `none` when it holds and `some (sig, detail)` naming the first violated clause.
-/
import D2V.Model.SemGraph
namespace D2V.SemSpec
open D2V.SemG (fold)

structure DNode where
  id : String
  abs : String
  parent : Int            -- arena index of the parent, -1 = none
  children : List Nat     -- ChildrenArray
  cmap : List (String × Nat)   -- Children (key, child)
  label : String
  shape : String
  style : List (String × String)
  pos : Int               -- byte offset of the first reference; -1 = no reference; -2 = variable substitution
  nrefs : Nat
  sameGraph : Bool        -- obj.Graph is the board being dumped
  special : Bool          -- class / sql_table (fields are not objects)
deriving Repr, Inhabited

structure DEdge where
  src : Nat
  dst : Nat
  sa : Bool
  da : Bool
  index : Nat
  label : String
  style : List (String × String)
  pos : Int
  abs : String
deriving Repr, Inhabited

/-- node 0 is the board's root object; `objects` is `g.Objects` in order -/
structure Dump where
  name : String
  kind : String
  nodes : Array DNode
  objects : List Nat
  edges : List DEdge
  boards : List Dump
deriving Repr, Inhabited

abbrev Viol := Option (String × String)

def firstViol (l : List Viol) : Viol := l.findSome? id

def toLower (s : String) : String := String.ofList (fold s)

/-! ### C09 -/

def count (l : List Nat) (x : Nat) : Nat := (l.filter (· == x)).length

def nodupNat : List Nat → Bool
  | [] => true
  | x :: r => !r.contains x && nodupNat r

/-- follows parents from `i`; true when the root (node 0) is reached within `fuel` steps -/
def reachesRoot (d : Dump) : Nat → Nat → Bool
  | _, 0 => true
  | 0, _ => false
  | fuel + 1, i =>
    match d.nodes[i]? with
    | none => false
    | some n => if n.parent < 0 then false else reachesRoot d fuel n.parent.toNat

def lookupS (m : List (String × Nat)) (k : String) : Option Nat :=
  match m with
  | [] => none
  | (k', v) :: r => if k' == k then some v else lookupS r k

/-- each object is listed once -/
def listedOnce (d : Dump) : Viol :=
  if nodupNat d.objects then none else some ("object-listed-twice", s!"objects {d.objects.map fun i => (d.nodes[i]?.map (·.abs)).getD "?"}")

/-- clauses about one listed object: reachable from the root through its parent chain, its parent lists it exactly once
    among its children under its lower-cased ID -/
def objectWF (d : Dump) (i : Nat) : Viol :=
  match d.nodes[i]? with
  | none => some ("object-index", s!"{i}")
  | some n =>
    if i == 0 then some ("root-listed", "the root object is listed among the objects") else
    if !n.sameGraph then some ("object-of-other-board", n.abs) else
    if n.parent < 0 then some ("object-without-parent", n.abs) else
    if !reachesRoot d d.nodes.size i then some ("object-unreachable", n.abs) else
    match d.nodes[n.parent.toNat]? with
    | none => some ("parent-index", n.abs)
    | some p =>
      if count p.children i != 1 then some ("parent-lists-child-not-once", s!"{n.abs}: {count p.children i} times in the children of {p.abs.quote}") else
      if lookupS p.cmap (toLower n.id) != some i then some ("parent-map-key", s!"{n.abs}: children map of {p.abs.quote} has no entry {(toLower n.id).quote} for it") else
      none

/-- the children array and the children map of a node agree, and every child is a listed object pointing back -/
def childrenWF (d : Dump) (i : Nat) : Viol :=
  match d.nodes[i]? with
  | none => none
  | some n =>
    if n.children.length != n.cmap.length then some ("children-map-size", s!"{n.abs.quote}: {n.children.length} children, {n.cmap.length} map entries") else
    firstViol (n.children.map fun c =>
      match d.nodes[c]? with
      | none => some ("child-index", n.abs)
      | some cn =>
        if cn.parent != (i : Int) then some ("child-parent-mismatch", s!"{cn.abs} is a child of {n.abs.quote} but its parent is another object") else
        if !d.objects.contains c then some ("child-not-listed", s!"{cn.abs} is a child of {n.abs.quote} but not among the objects") else
        none)

def treeWF (d : Dump) : Viol :=
  firstViol ([listedOnce d] ++ d.objects.map (objectWF d) ++ (0 :: d.objects).map (childrenWF d))

/-- every connection joins two objects of this board -/
def endpointsSameBoard (d : Dump) : Viol :=
  firstViol (d.edges.map fun e =>
    match d.nodes[e.src]?, d.nodes[e.dst]? with
    | some s, some t =>
      if !(s.sameGraph && t.sameGraph) then some ("edge-across-boards", e.abs) else
      if !(d.objects.contains e.src && d.objects.contains e.dst) then some ("edge-endpoint-not-listed", e.abs) else none
    | _, _ => some ("edge-endpoint-index", e.abs))

def sortedInt : List Int → Bool
  | a :: b :: r => decide (a ≤ b) && sortedInt (b :: r)
  | _ => true

/-- objects and connections are listed in order of their first appearance in the source; an object that appears nowhere in
    the source has no place in that order -/
def orderBySource (d : Dump) : Viol :=
  let ns := d.objects.filterMap fun i => d.nodes[i]?
  match ns.find? fun n => n.pos == -1 with
  | some n => some ("object-without-source-reference", s!"{n.abs} is listed but nothing in the source refers to it")
  | none =>
    if ns.any fun n => n.pos == -2 then none else
    let where_ := if d.kind == "root" then "root-board" else "nested-board"
    if !sortedInt (ns.map (·.pos)) then some (s!"objects-out-of-source-order:{where_}", s!"board {d.name.quote} ({d.kind}): {ns.map fun n => (n.abs, n.pos)}") else
    if !sortedInt (d.edges.map (·.pos)) then some (s!"edges-out-of-source-order:{where_}", s!"board {d.name.quote} ({d.kind}): {d.edges.map fun e => (e.abs, e.pos)}") else none

mutual
def allBoards : Dump → List Dump
  | ⟨name, kind, nodes, objects, edges, bs⟩ => ⟨name, kind, nodes, objects, edges, bs⟩ :: allBoardsL bs
def allBoardsL : List Dump → List Dump
  | [] => []
  | b :: r => allBoards b ++ allBoardsL r
end

def C09spec (d : Dump) : Viol :=
  firstViol ((allBoards d).flatMap fun b => [treeWF b, endpointsSameBoard b, orderBySource b])

/-! ### C11 -/

def sameClass (a b : DEdge) : Bool := a.src == b.src && a.dst == b.dst && a.sa == b.sa && a.da == b.da

/-- connections with the same endpoints and direction are numbered 0, 1, 2, … in list order -/
def indicesConsecutive (d : Dump) : Viol :=
  let rec go (seen : List DEdge) : List DEdge → Viol
    | [] => none
    | e :: r =>
      let k := (seen.filter (sameClass e)).length
      if e.index != k then some ("index-not-consecutive", s!"{e.abs}: is number {k} of its endpoints/direction but has index {e.index}")
      else go (seen ++ [e]) r
  go [] d.edges

def nodupStr : List String → Bool
  | [] => true
  | x :: r => !r.contains x && nodupStr r

/-- no two connections of a board share an ID -/
def edgeIdsDistinct (d : Dump) : Viol :=
  if nodupStr (d.edges.map (·.abs)) then none else some ("edge-id-shared", s!"{d.edges.map (·.abs)}")

def C11graphSpec (d : Dump) : Viol :=
  firstViol ((allBoards d).flatMap fun b => [indicesConsecutive b, edgeIdsDistinct b])

/-! ### views used by the differential predicates (C10, C11) -/

structure VObj where
  abs : String
  label : String
  shape : String
  style : List (String × String)
deriving Repr, BEq, Inhabited

structure VEdge where
  src : String
  dst : String
  sa : Bool
  da : Bool
  index : Nat
  label : String
  style : List (String × String)
deriving Repr, BEq, Inhabited

def absOf (d : Dump) (i : Nat) : String := match d.nodes[i]? with | some n => n.abs | none => s!"?{i}"

def vobjs (d : Dump) : List VObj :=
  (d.objects.filterMap fun i => d.nodes[i]?).map fun n => { abs := n.abs, label := n.label, shape := n.shape, style := n.style }

def vedges (d : Dump) : List VEdge :=
  d.edges.map fun e => { src := absOf d e.src, dst := absOf d e.dst, sa := e.sa, da := e.da, index := e.index, label := e.label, style := e.style }

def eqFoldS (a b : String) : Bool := fold a == fold b

/-- `abs` is `k` or lies inside `k` (IDs compared case-insensitively) -/
def under (k abs : String) : Bool :=
  eqFoldS abs k || (fold (k ++ ".")).isPrefixOf (fold abs)

/-- C10 compares names case-insensitively: the identity of an object is its case-folded absolute ID -/
def foldObj (o : VObj) : VObj :=
  let last := ((toLower o.abs).splitOn ".").getLastD ""
  -- a label that is just the object's name (the default label) is a name, too
  { o with abs := toLower o.abs, label := if toLower o.label == last then last else o.label }
def foldEdge (e : VEdge) : VEdge := { e with src := toLower e.src, dst := toLower e.dst }

def showObj (o : VObj) : String := s!"<{o.abs} label={o.label.quote} shape={o.shape} style={o.style}>"
def showEdge (e : VEdge) : String :=
  s!"<{e.src} {if e.sa then "<" else ""}-{if e.da then ">" else "-"} {e.dst} [{e.index}] label={e.label.quote} style={e.style}>"

/-- C10, `k: null` appended: the object, everything inside it and the connections attached to it are gone; nothing else changed -/
def nullRemoves (k : String) (base after : Dump) : Viol :=
  let bo := vobjs base; let ao := vobjs after
  let be := vedges base; let ae := vedges after
  match ao.find? fun o => under k o.abs with
  | some o => some ("null-object-survives", s!"after `{k}: null` the object {o.abs} is still there")
  | none =>
    match ae.find? fun e => under k e.src || under k e.dst with
    | some e => some ("null-edge-survives", s!"after `{k}: null` the connection {showEdge e} is still there")
    | none =>
      let bo' := bo.filter fun o => !under k o.abs
      if bo'.map foldObj != ao.map foldObj then some ("null-changes-other-objects", s!"after `{k}: null`: expected {bo'.map showObj} got {ao.map showObj}") else
      let be' := be.filter fun e => !(under k e.src || under k e.dst)
      if be'.map (fun e => foldEdge { e with index := 0 }) != ae.map (fun e => foldEdge { e with index := 0 }) then
        some ("null-changes-other-edges", s!"after `{k}: null`: expected {be'.map showEdge} got {ae.map showEdge}") else none

/-- C10, `k: null` then `k: ZZfresh`: the object exists afresh — only the new content -/
def redeclareFresh (k : String) (after : Dump) : Viol :=
  let ao := vobjs after
  match ao.filter fun o => under k o.abs with
  | [o] =>
    if !eqFoldS o.abs k then some ("redeclare-wrong-object", showObj o) else
    if o.label != "ZZfresh" || o.shape != "rectangle" || !o.style.isEmpty then some ("redeclare-not-fresh", s!"{showObj o} kept earlier content") else
    match (vedges after).find? fun e => under k e.src || under k e.dst with
    | some e => some ("redeclare-keeps-edge", showEdge e)
    | none => none
  | [] => some ("redeclare-missing", s!"{k} does not exist after re-declaration")
  | os => some ("redeclare-keeps-children", s!"{os.map showObj}")

/-- C10, a re-declaration `k: L` (or of its case twin `K.label: L`) merges into the existing object: same objects, same
    connections, only that label changed -/
def redeclareMerges (k lbl : String) (base after : Dump) : Viol :=
  let bo := vobjs base; let ao := vobjs after
  if bo.length != ao.length then some ("redeclare-adds-object", s!"{bo.map (·.abs)} became {ao.map (·.abs)}") else
  let expect := bo.map fun o => if eqFoldS o.abs k then { o with label := lbl } else o
  if expect.map foldObj != ao.map foldObj then
    match (expect.zip ao).find? fun (a, b) => foldObj a != foldObj b with
    | some (a, b) => some ("redeclare-not-last-write", s!"expected {showObj a} got {showObj b}")
    | none => some ("redeclare-not-last-write", "")
  else if (vedges base).map foldEdge != (vedges after).map foldEdge then some ("redeclare-changes-edges", "") else none

/-- C10, `k: ZZprim` appended: the label is an attribute assigned last by this declaration -/
def primaryLastWins (k lbl : String) (base after : Dump) : Viol :=
  match redeclareMerges k lbl base after with
  | some ("redeclare-not-last-write", d) => some ("primary-label-not-last-write", d)
  | v => v

def dropStyle (k : String) (st : List (String × String)) : List (String × String) := st.filter fun kv => kv.1 != k

/-- C10, `k.style.opacity: v` then `k.style.opacity: null`: only that attribute is removed -/
def attrNullRemovesAttr (k : String) (withAttr after : Dump) : Viol :=
  let expect := (vobjs withAttr).map fun o => if eqFoldS o.abs k then { o with style := dropStyle "opacity" o.style } else o
  if expect.map foldObj != (vobjs after).map foldObj then
    some ("attribute-null-not-exact", s!"after `{k}.style.opacity: null`: expected {expect.map showObj} got {(vobjs after).map showObj}")
  else if (vedges withAttr).map foldEdge != (vedges after).map foldEdge then some ("attribute-null-changes-edges", k) else none

/-- C10, an attribute of a connection set and then assigned null (`(e)[i].style.opacity: null`, or `null` inside the connection's
    map): the connection stays, only that attribute is removed -/
def edgeAttrNullRemovesAttr (what : String) (withAttr after : Dump) : Viol :=
  let we := vedges withAttr; let ae := vedges after
  if ae.length < we.length then some ("edge-attribute-null-removes-edge", s!"{what}: {we.length} connections before, {ae.length} after") else
  let expect := we.map fun e => if e.style.any (fun kv => kv == ("opacity", "0.35")) then { e with style := dropStyle "opacity" e.style } else e
  if expect.map foldEdge != ae.map foldEdge then some ("edge-attribute-null-not-exact", s!"{what}: expected {expect.map showEdge} got {ae.map showEdge}")
  else if (vobjs withAttr).map foldObj != (vobjs after).map foldObj then some ("edge-attribute-null-changes-objects", what) else none

/-- C10, `a -> b -> c: null` (or `(a -> b -> c)[0]: null`) after the chain was declared: null removes the connection(s) the key
    names — every link of the chain is gone, the objects stay, nothing else changes -/
def chainNullRemovesAll (what : String) (base withChain after : Dump) : Viol :=
  let ae := vedges after
  match ae.find? fun e => e.label == "ZZl" with
  | some e => some ("chain-null-leaves-link", s!"{what}: the link {showEdge e} is still there")
  | none =>
    if (vedges base).map foldEdge != ae.map foldEdge then some ("chain-null-changes-other-edges", what) else
    if (vobjs withChain).map foldObj != (vobjs after).map foldObj then some ("chain-null-changes-objects", what) else none

/-- C11, `(e)[i].label: ZZhit` appended: exactly one connection changed, the one of that class -/
def indexedRefHitsOne (esrc edst : String) (sa da : Bool) (lbl : String) (base after : Dump) : Viol :=
  let be := vedges base; let ae := vedges after
  if be.length != ae.length then some ("indexed-ref-changes-edge-count", s!"{be.length} -> {ae.length}") else
  let changed := (be.zip ae).filter fun (a, b) => a != b
  match changed with
  | [(a, b)] =>
    if b != { a with label := lbl } then some ("indexed-ref-changed-more-than-label", s!"{showEdge a} -> {showEdge b}") else
    if !(eqFoldS a.src esrc && eqFoldS a.dst edst && a.sa == sa && a.da == da) then some ("indexed-ref-hit-other-class", showEdge a) else none
  | [] => some ("indexed-ref-hit-none", s!"no connection took the label {lbl}")
  | cs => some ("indexed-ref-hit-many", s!"{cs.length} connections changed: {cs.map fun (_, b) => showEdge b}")

end D2V.SemSpec
