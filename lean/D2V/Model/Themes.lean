/-
  Model of the theme layer (C31), over the tables regenerated from the Go sources (`D2V.Gen.Themes`):

    d2themes.(*Theme).ApplyOverrides        → `applyOverrides`  (fold over the extracted assignment list, in source order)
    d2themes.ResolveThemeColor              → `resolve`         (guard `!IsThemeColor → code`, switch table, default "")
    lib/color.IsThemeColor                  → `isThemeColor`    (membership in the expansion of the regexp)
    d2themescatalog.Find                    → `find`            (first match in search order, zero value otherwise)
    the rejection test used by d2graph.ApplyTheme, d2ir.validateConfigs and d2cli  (`Find(id) == Theme{}`) → `rejected`
    d2svg.singleThemeRulesets               → `rulesets` / `mdRules` / `appendixRule`
    d2svg.ThemeCSS                          → `themeCSS`        (light rules; dark rules inside the media query)
    d2themes.(*ThemableElement).Render colour branch + d2svg.Render's inline theme → `inlineColor`
-/
import D2V.Model.ThemeCode
import D2V.Gen.Themes

namespace D2V.Themes
open D2V.Gen.Themes

/-- `d2target.ThemeOverrides`: a pointer per colour code -/
abbrev Overrides := Code → Option String

def Overrides.none : Overrides := fun _ => Option.none

def applyPairs (ps : List (Code × Code)) (p : Palette) (o : Overrides) : Palette :=
  ps.foldl (fun p ab => match o ab.1 with
    | some v => p.set ab.2 v
    | Option.none => p) p

/-- `ApplyOverrides(overrides)`; a nil `overrides` is `Overrides.none` -/
def applyOverrides (p : Palette) (o : Overrides) : Palette := applyPairs overridePairs p o

def isThemeColor (s : String) : Bool := themeColorCodes.contains s

def resolve (p : Palette) (code : String) : String :=
  if !isThemeColor code then code
  else match resolveCases.lookup code with
    | some f => p.get f
    | Option.none => ""

def find (id : Int) : ThemeRec :=
  match findSearch.find? (fun t => t.id == id) with
  | some t => t
  | Option.none => ThemeRec.zero

/-- `d2themescatalog.Find(id) == (d2themes.Theme{})` — the test every entry point uses to refuse a theme ID -/
def rejected (id : Int) : Bool := find id == ThemeRec.zero

def isDark (t : ThemeRec) : Bool := decide (darkLo ≤ t.id) && decide (t.id < darkHi)

/-- palette a render works with: catalog theme + overrides -/
def themed (id : Int) (o : Overrides) : Palette := applyOverrides (find id).colors o

/-- the class rules of `singleThemeRulesets`: (property, class suffix, colour), in print order -/
def rulesets (p : Palette) : List (String × String × String) :=
  sheetProps.flatMap fun prop => sheetRules.map fun r => (prop, r.1, p.get r.2)

/-- the `.md{--var:…}` block: (variable, value) -/
def mdRules (p : Palette) : List (String × String) :=
  mdVars.map fun r => (r.1, p.get r.2)

def appendixRule (p : Palette) : String := p.get appendixFill

structure Sheet where
  light : List (String × String × String)
  dark : Option (List (String × String × String))
deriving Repr, BEq

/-- `ThemeCSS(hash, themeID, darkThemeID, overrides, darkOverrides)` restricted to the class rules -/
def themeCSS (id : Int) (dark : Option Int) (o od : Overrides) : Sheet :=
  { light := rulesets (themed id o), dark := dark.map fun d => rulesets (themed d od) }

/-- inline colour attribute a `ThemableElement` prints for a theme colour `code`:
    present iff no dark theme was requested (`inlineTheme ≠ nil`), value `ResolveThemeColor(inlineTheme, code)` -/
def inlineColor (id : Int) (dark : Option Int) (o : Overrides) (code : String) : Option String :=
  match dark with
  | some _ => Option.none
  | Option.none => some (resolve (themed id o) code)

end D2V.Themes
