import D2V.Model.Path
/-
  Sem.Links — board links, for C35.

  Modelled Go:
    * `d2ir/compile.go: compiler.compileLink`   a `link:` value that starts with an unquoted `layers|scenarios|steps`
      (any letter case) or `_` is made absolute: the scope (IDA of the map the link is written in) is chopped back to
      its board, every leading `_` pops one board (two path elements), and the rest of the link is appended
    * `d2ir/compile.go: compiler.extendLinks`   links stored by the compilation of an imported file are rebased onto
      the importing field: `IDA(importing field) ++ link[1:]`, leading `_` elements popping boards of the importing path
    * `d2compiler/compile.go: validateBoardLinks / hasBoard`   a non-remote link is kept only when it starts with
      `root`, `hasBoard` finds it in the board tree, and it is not the path of the object's own board
    * `d2cli/main.go: resolveLinks / relink`    (in D2V.Model.Path: `linkMapB`, `relinkOne`) a link equal to a key of
      the board ↦ file map is replaced by `Rel(Dir(file of current board), file of target)`
  A path element is `d2ast.String` = (ScalarString, IsUnquoted).  `strings.EqualFold` is modelled on ASCII.
-/
namespace D2V.Links
open D2V.Path

structure Seg where
  s : String
  unq : Bool
  deriving DecidableEq, Repr, Inhabited

def lowerAscii (s : String) : String := String.ofList (s.toList.map Char.toLower)

def isKindWord (s : String) : Bool := s == "layers" || s == "scenarios" || s == "steps"

/-- `strings.EqualFold(x, "layers") || …` -/
def isKindFold (x : Seg) : Bool := isKindWord (lowerAscii x.s)

def isUnderscore (x : Seg) : Bool := x.s == "_" && x.unq

def rootSeg : Seg := { s := "root", unq := true }

/-- `d2format.Format(d2ast.MakeKeyPathString(…))`: an element equal to a reserved keyword only up to letter case is either
    written unquoted and lower-cased by the formatter (legacy) or quoted by `RawString` so that it keeps its spelling
    (`keepCase`, regenerated flag).  Only the three board keywords are modelled (the generator uses no other reserved
    word as a board or object name). -/
def formatSeg (keepCase : Bool) (x : Seg) : Seg :=
  if x.unq && isKindFold x then
    if keepCase then (if lowerAscii x.s != x.s then { x with unq := false } else x)   -- RawString quotes it: spelling kept
    else { x with s := lowerAscii x.s }                                            -- written unquoted, printed lower-case
  else x


/-- the scope-chopping loop: scan `i = len-1 … 1` -/
def chopScope (scope : List Seg) : List Seg :=
  let rec go : Nat → List Seg
    | 0 => scope
    | i + 1 =>     -- here `i + 1` plays Go's `i`, so `scope[i]` is Go's `scopeIDA[i-1]`
      match scope[i]? with
      | some p =>
        if p.unq && isKindFold p then scope.take (i + 2)
        else if p.s == "root" && p.unq then scope.take (i + 1)
        else go i
      | none => go i
  go (scope.length - 1)

/-- the underscore loop; fuel = length of the link -/
def popUnderscores : Nat → List Seg → List Seg → List Seg × List Seg
  | 0, scope, link => (scope, link)
  | f + 1, scope, link =>
    match link with
    | x :: rest =>
      if isUnderscore x then
        if scope.length < 2 then (scope, link)
        else popUnderscores f (scope.take (scope.length - 2)) rest
      else (scope, link)
    | [] => (scope, link)

/-- `compileLink`: `none` = the value is left as written -/
def compileLink (keepCase : Bool) (scope link : List Seg) : Option (List Seg) :=
  match scope, link with
  | [], _ => none
  | _, [] => none
  | _, x :: _ =>
    if !x.unq then none
    else if !(isKindFold x) && x.s != "_" then none
    else
      let sc := chopScope scope
      let (sc, lk) := popUnderscores link.length sc link
      let sc := if sc.isEmpty then [rootSeg] else sc
      some ((sc ++ lk).map (formatSeg keepCase))

/-- `extendLinks` for one link of an imported map: `importIDA` is the IDA of the importing field, `link` the value the
    imported file's own compilation stored (its first element — the imported file's `root` — is replaced by the
    importing path; every leading `_` of the rest pops one board off the importing path while it has one) -/
def extendTail : List Seg → List Seg → List Seg
  | imp, x :: rest =>
    if isUnderscore x && decide (2 ≤ imp.length) then extendTail (imp.take (imp.length - 2)) rest
    else imp ++ (x :: rest)
  | imp, [] => imp

def extendLinkRaw (importIDA link : List Seg) : List Seg :=
  match link with
  | [] => []
  | _ :: tail => extendTail importIDA tail

/-- … printed with `d2format.Format` like every stored link -/
def extendLink (keepCase : Bool) (importIDA link : List Seg) : List Seg := (extendLinkRaw importIDA link).map (formatSeg keepCase)

/-! ### validation against the board tree -/

def findBoard (name : String) : List Board → Option Board
  | [] => none
  | b :: r => if String.ofList b.name == name then some b else findBoard name r

/-- the sub-boards selected by a kind word (the `switch id.ScalarString()` of `hasBoard`) -/
def kidsOf (b : Board) (k : String) : List Board :=
  if k == "layers" then b.layers else if k == "scenarios" then b.scenarios else if k == "steps" then b.steps else []

/-- which variant of the four link-handling spots the tree under test has (regenerated: D2V.Gen.LinksCfg) -/
structure Cfg where
  danglingFalse : Bool    -- hasBoard: `len(ida) == 1` ↦ false          (legacy: compare with the name of the board reached)
  singleRoot : Bool       -- hasBoard: one leading `root` is stripped    (legacy: every `root` element is skipped)
  idaPerLevel : Bool      -- Graph.IDA: a kind word per level            (legacy: only the board's own kind word)
  relinkByValue : Bool    -- relink compares element values              (legacy: compares the strings)
  keepKeywordCase : Bool  -- RawString quotes keywords in odd case       (legacy: printed unquoted and lower-cased)
  deriving DecidableEq, Repr

def Cfg.legacy : Cfg := ⟨false, false, false, false, false⟩
def Cfg.fixed : Cfg := ⟨true, true, true, true, true⟩

def isRootSeg (x : Seg) : Bool := x.s == "root" && x.unq

/-- the recursive part of `hasBoard`; fuel = length of the path -/
def hasBoardPath (cfg : Cfg) : Nat → Board → List Seg → Bool
  | 0, _, ida => ida.isEmpty
  | f + 1, b, ida =>
    match ida with
    | [] => true
    | x :: rest =>
      if !cfg.singleRoot && isRootSeg x then hasBoardPath cfg f b rest
      else match rest with
        | [] => if cfg.danglingFalse then false else String.ofList b.name == x.s
        | nx :: rest2 =>
          match findBoard nx.s (kidsOf b x.s) with
          | some c => hasBoardPath cfg f c rest2
          | none => false

/-- `hasBoard(root, ida)` -/
def hasBoard (cfg : Cfg) (fuel : Nat) (b : Board) (ida : List Seg) : Bool :=
  if cfg.singleRoot then
    match ida with
    | x :: rest => if isRootSeg x then hasBoardPath cfg fuel b rest else hasBoardPath cfg fuel b ida
    | [] => true
  else hasBoardPath cfg fuel b ida

/-- `d2graph.(*Graph).IDA()` for the board reached from the root through `path = root.kind₁.name₁.kind₂.name₂…`.
    legacy: `root`, then the kind word of the board itself (once), then the names of all its ancestors and itself;
    per level: the path itself -/
def graphIDA (cfg : Cfg) (path : List String) : List String :=
  let rec names : List String → List String
    | _ :: n :: r => n :: names r
    | _ => []
  let rec lastKind : List String → Option String
    | k :: _ :: [] => some k
    | _ :: _ :: r => lastKind r
    | _ => none
  if cfg.idaPerLevel then path
  else match path with
  | [] => ["root"]
  | _ :: rest =>
    let ns := (names rest).filter (· ≠ "")
    if ns.isEmpty then ["root"]
    else match lastKind rest with
      | some k => "root" :: k :: ns
      | none => "root" :: ns

/-- what `validateBoardLinks` does to one object's link (`remote` is Go's url.Parse test, computed by the harness):
    `true` = kept -/
def validateLink (cfg : Cfg) (root : Board) (boardIDA : List String) (remote : Bool) (link : List Seg) : Bool :=
  if remote then true
  else match link with
    | [] => false
    | x :: _ =>
      if x.s != "root" then false
      else if !(hasBoard cfg (link.length + 1) root link) then false
      else if link.map (·.s) == boardIDA then false
      else true

/-- the string `relink` looks up in the board ↦ file map for a shape link -/
def relinkKey (cfg : Cfg) (raw : String) (segs : Option (List Seg)) : String :=
  if cfg.relinkByValue then
    match segs with
    | some l => ".".intercalate (l.map (·.s))
    | none => raw
  else raw

/-! ### the property's own reading of "an absolute board path that exists" -/

/-- strict resolution: `root` followed by (kind, name) pairs, each naming an existing sub-board -/
def resolveStrict : Board → List Seg → Option Board
  | b, [] => some b
  | _, [_] => none
  | b, k :: nm :: rest =>
    match findBoard nm.s (kidsOf b k.s) with
    | some c => resolveStrict c rest
    | none => none

def existsStrict (root : Board) (link : List Seg) : Bool :=
  match link with
  | x :: rest => x.s == "root" && (resolveStrict root rest).isSome
  | [] => false

end D2V.Links
