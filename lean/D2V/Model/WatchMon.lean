/-
  Trace validation for the watch server (C44, C45): decides whether a recorded event trace of the real watcher is the
  visible projection of a run of `D2V.Watch.step`.  Core Lean only.

  Every transition taken here is `D2V.Watch.step` — so an accepted trace IS (the projection of) a run of the model the
  theorems are about.  What is hand-written is only the search strategy for the hidden (τ) steps:
    * `sendReq`   anywhere between the `request` event and its `request_sent`/`request_coalesced` event (branching);
    * `recv`, `bcastLock`, `recvWake`, `ctxDone`, `cancel`   as late as possible (right before the event that needs them);
    * `wake c`/`wakeCoalesced c` (the send itself) at its trace point, or earlier when the client's `woken` shows it;
    * `done`      right after `exit`;
    * `readRes`   lazily at the `read` event, or earlier than a `setres` event (branching there);
    * `fileRead`  lazily at `compile_end`, or earlier than a `change` event (branching there).
  Laziness/eagerness is justified by commutation (the delayed step touches only state no intermediate guard reads);
  it can only lose acceptance, never accept a non-run.
-/
import D2V.Model.Watch
namespace D2V.Watch

structure Ev where
  k : String
  c : Nat := 0
  v : Option Nat := none
  ok : Bool := true
  deriving Repr

def dedup (l : List State) : List State :=
  l.foldl (fun acc s => if acc.contains s then acc else acc ++ [s]) []

/-- all states reached from `s` by one of the alternative step sequences -/
def tryAll (s : State) (alts : List (List Step)) : List State :=
  alts.filterMap (run s)

/-- fork on firing `readRes` for every client at the loop head -/
def readBranches (s : State) : List State :=
  (List.range s.clients.length).foldl
    (fun acc i => acc ++ acc.filterMap (fun t => step t (.readRes i))) [s]

/-- a broadcast is in progress and client `c` has already been handled by it (its `wake`/`wake_coalesced` trace point
    can lag behind the send: the client's receive is not under wsclientsMu) -/
def wakeDone (s : State) (c : Nat) : Bool :=
  match s.comp with
  | .waking _ todo => !todo.contains c
  | _ => false

/-- the event's candidate step sequences from state `s` -/
def succs (s : State) (e : Ev) : List State :=
  let c := e.c
  match e.k with
  | "change" => tryAll s [[.change], [.fileRead, .change]]
  | "request" => tryAll s [[.request]]
  | "request_sent" | "request_coalesced" =>
    -- the send has happened by now
    if s.reqPending > 0 then tryAll s [[.sendReq]] else [s]
  | "compile_start" => tryAll s [[.compileStart], [.recv, .compileStart], [.sendReq, .recv, .compileStart]]
  | "compile_end" =>
    match e.v with
    | some v => tryAll s [[.compileEnd v], [.fileRead, .compileEnd v]]
    | none => []
  | "setres" =>
    match e.v with
    | some v => (readBranches s).filterMap fun t => step t (.setRes v)
    | none => []
  | "wake" =>
    tryAll s [[.wake c], [.recvWake c, .wake c], [.bcastLock, .wake c], [.bcastLock, .recvWake c, .wake c]]
      ++ (if wakeDone s c then [s] else [])
  | "wake_coalesced" =>
    tryAll s [[.wakeCoalesced c], [.bcastLock, .wakeCoalesced c]] ++ (if wakeDone s c then [s] else [])
  | "broadcast_done" => tryAll s [[.bcastDone], [.bcastLock, .bcastDone]]
  | "admitted" => tryAll s [[.admitC]]
  | "refuse" => tryAll s [[.refuse]]
  | "accept_fail" => tryAll s [[.acceptFail c]]
  | "register" => tryAll s [[.register c]]
  | "read" => tryAll s [[.readLog c e.v], [.readRes c, .readLog c e.v]]
  | "write" =>
    match e.v with
    | some v => tryAll s [[.write c v e.ok], [.cancel, .write c v e.ok]]
    | none => []
  | "woken" =>
    -- the broadcast's send to this client may have happened although its trace point has not been reached yet
    tryAll s [[.woken c], [.recvWake c, .woken c],
      [.wake c, .recvWake c, .woken c], [.bcastLock, .wake c, .recvWake c, .woken c],
      [.wakeCoalesced c, .recvWake c, .woken c], [.bcastLock, .wakeCoalesced c, .recvWake c, .woken c]]
  | "unregister" => tryAll s [[.unregister c], [.ctxDone c, .unregister c], [.cancel, .ctxDone c, .unregister c]]
  | "exit" => tryAll s [[.exit c, .done c]]
  | "drop" => tryAll s [[.drop c]]
  | "close_begin" => tryAll s [[.closeBegin]]
  | "close_noop" => tryAll s [[.closeNoop]]
  | "close_wait" => tryAll s [[.closeWait], [.cancel, .closeWait]]
  | "close_return" => tryAll s [[.closeReturn]]
  | "shutdown" => tryAll s [[.shutdown]]
  | _ => []

/-- a pending request's send may already have happened -/
def expandReq (ss : List State) : List State :=
  ss ++ ss.filterMap fun s => if s.reqPending > 0 then step s .sendReq else none

def advance (ss : List State) (e : Ev) : List State :=
  dedup ((expandReq ss).flatMap fun s => succs s e)

/-- feed a trace; `inl (i, states before)` = event `i` has no explanation -/
def validate (cap : Nat) : List State → Nat → List Ev → Except (Nat × List State) (List State)
  | ss, _, [] => .ok ss
  | ss, i, e :: r =>
    let ss' := advance ss e
    if ss'.isEmpty then .error (i, ss)
    else if ss'.length > cap then .error (i, [])
    else validate cap ss' (i + 1) r

def allGone (s : State) : Bool := s.clients.all fun c => !c.pc.active

end D2V.Watch
