/-
  Model of the D2 formatter on the *structural fragment* (C03, C04; agent `format`).

  Modelled Go (d2format/format.go, d2ast/d2ast.go):
    printer.node / interpolationBoxes (raw text + reserved-keyword lower-casing of unquoted strings),
    printer.path / key / substitution / _import (simple first segment), printer.edgeArrowAndDst / edgeIndex,
    printer.mapKey (primary, value, empty map values dropped), printer.array (one-line `; ` vs multi-line, blank
    lines), printer._map (board nodes `layers / scenarios / steps` skipped and deferred to the end of the map,
    empty boards dropped, blank lines from ranges, the `Start.Line != 0` rule, file map trailing newline),
    MapNodeBox.IsBoardNode.
  Outside the fragment (handled only by Spec-on-impl in the drivers): comments, block comments, block strings,
  strings with interpolation boxes, strings spanning lines, imports with a directory prefix.

  An AST of the fragment carries the layout the printer reads from source ranges:
    `one`   Range.OneLine() of a map / array,
    `blank` n.Start.Line − prev.End.Line > 1 (prev = previous sibling in the ORIGINAL node list),
    `l0`    n.Start.Line == 0 (read only for deferred board nodes).

  `fmtFile`   — d2format.Format on a file map.
  `normFile`  — what d2parser.Parse ∘ d2format.Format does to a fragment AST, layout included
                (the re-parsed `one` of a node is "its printed text has no newline").
  `erase`     — forgets layout; `norm` = the AST→AST rewrite on erased trees
                (= dropEmpty ∘ boardsLast ∘ lowerKeywords, one traversal like the printer).
  `lowerKeywords`, `boardsLast` — the two semantic rewrites in isolation (C04).
  Core Lean only.
-/
import D2V.Gen.FmtKw

namespace D2V.Fmt
open D2V.Gen

abbrev Text := List Char

inductive Q where
  | u | d | s
  deriving DecidableEq, Repr, Inhabited

/-- a string node: quote kind, raw text (as the parser stored it), value (ScalarString) -/
structure Str where
  q : Q
  raw : Text
  val : Text
  deriving DecidableEq, Repr, Inhabited

abbrev Path := List Str

inductive Scalar where
  | null
  | susp (b : Bool)
  | bool (b : Bool)
  | num (raw : Text)
  | str (s : Str)
  deriving DecidableEq, Repr, Inhabited

structure Hop where
  sa : Text
  da : Text
  dst : Path
  deriving DecidableEq, Repr, Inhabited

inductive EIdx where
  | none | glob | int (digits : Text)   -- strconv.Itoa(*ei.Int)
  deriving DecidableEq, Repr, Inhabited

/-- everything of a d2ast.Key before the primary/value -/
structure KeyHead where
  amp : Nat            -- 0 none, 1 `&`, 2 `!&`
  key : Option Path
  src : Option Path    -- Edges[0].Src (edges present iff hops ≠ [])
  hops : List Hop
  eidx : EIdx
  ekey : Option Path
  deriving DecidableEq, Repr, Inhabited

/-- one node type for values, array items and map nodes (ill-sorted trees are harmless: every function is total) -/
inductive N where
  | absent
  | scalar (s : Scalar)
  | sub (spread : Bool) (path : Path)
  | imp (spread : Bool) (path : Path)
  | arr (one : Bool) (items : List N)
  | map (one : Bool) (nodes : List N)
  | item (blank : Bool) (v : N)
  | mnode (blank l0 : Bool) (v : N)
  | key (h : KeyHead) (prim : Option Scalar) (val : N)
  deriving Repr, Inhabited

/-! ## keyword lower-casing (interpolationBoxes) -/

/-- strings.ToLower on the characters that can reach an ASCII keyword: A–Z, U+212A KELVIN SIGN → k,
    U+0130 LATIN CAPITAL I WITH DOT ABOVE → i; other characters never lower-case to ASCII letters, so a string
    containing one is never a keyword after lower-casing and `lowerKw` leaves it alone. -/
def lowerChar (c : Char) : Char :=
  if 'A' ≤ c ∧ c ≤ 'Z' then Char.ofNat (c.toNat + 32)
  else if c = 'K' then 'k'
  else if c = 'İ' then 'i'
  else c

def lower (s : Text) : Text := s.map lowerChar

def isReserved (s : Text) : Bool := FmtKw.reservedKeywords.contains s

/-- `if _, ok := ReservedKeywords[strings.ToLower(raw)]; ok { raw = strings.ToLower(raw) }` -/
def lowerKw (s : Text) : Text := if isReserved (lower s) then lower s else s

/-! ## printer -/

def indentStr (ind : Nat) : Text := List.replicate (2 * ind) ' '
def nl (ind : Nat) : Text := '\n' :: indentStr ind

def escSq : Text → Text
  | [] => []
  | c :: cs => if c = '\'' then '\'' :: '\'' :: escSq cs else c :: escSq cs

/-- does the printer lower-case keyword-like unquoted strings at this position?  `inKey` = printer.inKey (key paths,
    edge ends, edge keys).  The regenerated flag says whether the lower-casing is restricted to key position. -/
def lowersHere (inKey : Bool) : Bool := inKey || !FmtKw.lowerOnlyInKey

def fmtStr (inKey : Bool) (s : Str) : Text :=
  match s.q with
  | .u => if lowersHere inKey then lowerKw s.raw else s.raw
  | .d => '"' :: (s.raw ++ ['"'])
  | .s => '\'' :: (escSq s.val ++ ['\''])

def fmtPath (inKey : Bool) : Path → Text
  | [] => []
  | [s] => fmtStr inKey s
  | s :: rest => fmtStr inKey s ++ '.' :: fmtPath inKey rest

def spreadDots (sp : Bool) : Text := if sp then ['.', '.', '.'] else []

def fmtSub (sp : Bool) (p : Path) : Text := spreadDots sp ++ '$' :: '{' :: (fmtPath false p ++ ['}'])

/-- d2ast.RawString(value, inKey = true) on the simple names of the fragment: unquoted, or double-quoted when the
    name is a reserved keyword only up to letter case (so that the printer does not lower-case it) -/
def impHead (s : Str) : Str :=
  if FmtKw.rawStringQuotesKeywordCase && lower s.val != s.val && isReserved (lower s.val)
  then { q := .d, raw := s.val, val := s.val }
  else { q := .u, raw := s.val, val := s.val }

/-- `_import`: `pre` is empty in the fragment; the first segment is rebuilt with RawString from its value -/
def impPath : Path → Path
  | [] => []
  | s :: rest => impHead s :: rest

def fmtImp (sp : Bool) (p : Path) : Text := spreadDots sp ++ '@' :: fmtPath false (impPath p)

def fmtScalar : Scalar → Text
  | .null => ['n', 'u', 'l', 'l']
  | .susp true => ['s', 'u', 's', 'p', 'e', 'n', 'd']
  | .susp false => ['u', 'n', 's', 'u', 's', 'p', 'e', 'n', 'd']
  | .bool true => ['t', 'r', 'u', 'e']
  | .bool false => ['f', 'a', 'l', 's', 'e']
  | .num raw => raw
  | .str s => fmtStr false s

def fmtArrowDst (h : Hop) : Text :=
  (if h.sa = [] then ['-'] else h.sa) ++
  (if h.da = [] then ['-'] else (if h.sa = [] then [] else ['-']) ++ h.da) ++
  ' ' :: fmtPath true h.dst

def fmtHops : List Hop → Text
  | [] => []
  | [h] => fmtArrowDst h
  | h :: rest => fmtArrowDst h ++ ' ' :: fmtHops rest

def fmtEIdx : EIdx → Text
  | .none => []
  | .glob => ['[', '*', ']']
  | .int ds => '[' :: (ds ++ [']'])

def optPath : Option Path → Text
  | none => []
  | some p => fmtPath true p

def fmtHead (h : KeyHead) : Text :=
  (if h.amp = 1 then ['&'] else if h.amp = 2 then ['!', '&'] else []) ++
  optPath h.key ++
  (if h.hops = [] then [] else
    let paren := h.key.isSome || h.eidx != .none || h.ekey.isSome
    (if h.key.isSome then ['.'] else []) ++
    (if paren then ['('] else []) ++
    (match h.src with | some p => fmtPath true p ++ [' '] | none => []) ++
    fmtHops h.hops ++
    (if paren then [')'] else []) ++
    fmtEIdx h.eidx ++
    (match h.ekey with | some p => '.' :: fmtPath true p | none => []))

def boardName (s : Text) : Bool := FmtKw.isBoardNodeLabels.contains s

/-- MapNodeBox.IsBoardNode on the key head: `MapKey.Key != nil ∧ len(Path) == 1 ∧ ScalarString ∈ labels` -/
def headIsBoard (h : KeyHead) : Bool :=
  match h.key with
  | some [s] => boardName s.val
  | _ => false

def isBoard : N → Bool
  | .mnode _ _ (.key h _ _) => headIsBoard h
  | _ => false

/-- the board nodes the printer keeps: `Value.Map != nil ∧ len(Value.Map.Nodes) > 0` -/
def isKeptBoard : N → Bool
  | .mnode _ _ (.key h _ (.map _ (_ :: _))) => headIsBoard h
  | _ => false

def l0Of : N → Bool
  | .mnode _ l0 _ => l0
  | _ => false

def blankOf : N → Bool
  | .mnode b _ _ => b
  | .item b _ => b
  | _ => false

/-- replace the blank-line flag of an array item / map node wrapper -/
def setBlank (b : Bool) : N → N
  | .mnode _ l0 v => .mnode b l0 v
  | .item _ v => .item b v
  | n => n

mutual
  /-- printer.node for values / keys at indentation `ind` -/
  def fmtV (ind : Nat) : N → Text
    | .absent => []
    | .scalar s => fmtScalar s
    | .sub sp p => fmtSub sp p
    | .imp sp p => fmtImp sp p
    | .arr one items =>
        if one then '[' :: (fmtItemsOne ind true items ++ [']'])
        else '[' :: (fmtItemsMulti (ind + 1) true items ++ nl ind ++ [']'])
    | .map one nodes =>
        if one then
          '{' :: (fmtNodes false true ind 0 true nodes ++ fmtBoards ind (decide (nodes.length > (nodes.filter isKeptBoard).length)) true nodes ++ ['}'])
        else
          '{' :: (fmtNodes false false (ind + 1) 0 true nodes
                  ++ fmtBoards (ind + 1) (decide (nodes.length > (nodes.filter isKeptBoard).length)) true nodes ++ nl ind ++ ['}'])
    | .item _ v => fmtV ind v
    | .mnode _ _ v => fmtV ind v
    | .key h prim val =>
        fmtHead h ++
        (match prim with | some s => ':' :: ' ' :: fmtScalar s | none => []) ++
        (match val with
         | .absent => []
         | .map _ [] => []
         | v => (if prim.isSome then [' '] else [':', ' ']) ++ fmtV ind v)

  /-- one-line array body; `first` = no item printed yet -/
  def fmtItemsOne (ind : Nat) (first : Bool) : List N → Text
    | [] => []
    | x :: xs => (if first then [] else [';', ' ']) ++ fmtV ind x ++ fmtItemsOne ind false xs

  /-- multi-line array body at inner indentation `ind` -/
  def fmtItemsMulti (ind : Nat) (first : Bool) : List N → Text
    | [] => []
    | x :: xs =>
        (if !first && blankOf x then ['\n'] else []) ++ nl ind ++ fmtV ind x ++ fmtItemsMulti ind false xs

  /-- the main loop of printer._map over the non-board nodes.
      `i` = index in the original node list, `prevIsM` = (prev == m) i.e. nothing — not even a skipped board — seen yet -/
  def fmtNodes (file one : Bool) (ind : Nat) (i : Nat) (prevIsM : Bool) : List N → Text
    | [] => []
    | x :: xs =>
        if isBoard x then fmtNodes file one ind (i + 1) false xs
        else
          (if one then (if i > 0 then [';', ' '] else [])
           else (if !prevIsM && blankOf x then ['\n'] else []) ++ (if !file || i > 0 then nl ind else [])) ++
          fmtV ind x ++ fmtNodes file one ind (i + 1) false xs

  /-- "draw board nodes": `more` = len(m.Nodes) > len(boardNodes), `first` = this is boardNodes[0] -/
  def fmtBoards (ind : Nat) (more : Bool) (first : Bool) : List N → Text
    | [] => []
    | x :: xs =>
        if isKeptBoard x then
          (if l0Of x then [] else ['\n']) ++ (if !first || more then ['\n'] else []) ++ indentStr ind ++
          fmtV ind x ++ fmtBoards ind more false xs
        else fmtBoards ind more first xs
end

/-- d2format.Format of a file map (`m.IsFileMap()`): no braces, no indentation, trailing newline when non-empty -/
def fmtFile : N → Text
  | .map one nodes =>
      fmtNodes true one 0 0 true nodes
        ++ fmtBoards 0 (decide (nodes.length > (nodes.filter isKeptBoard).length)) true nodes
        ++ (if nodes.isEmpty then [] else ['\n'])
  | n => fmtV 0 n

/-! ## what Parse ∘ Format does to a fragment AST (layout included) -/

def hasNL (t : Text) : Bool := t.any (· == '\n')

def normStr (inKey : Bool) (s : Str) : Str :=
  match s.q with
  | .u => if lowersHere inKey && isReserved (lower s.raw) then { q := .u, raw := lower s.raw, val := lower s.raw } else s
  | _ => s

def normPath (inKey : Bool) (p : Path) : Path := p.map (normStr inKey)

def normScalar : Scalar → Scalar
  | .str s => .str (normStr false s)
  | s => s

def normHop (h : Hop) : Hop := { h with dst := normPath true h.dst }

def normHead (h : KeyHead) : KeyHead :=
  { h with key := h.key.map (normPath true), src := h.src.map (normPath true), hops := h.hops.map normHop,
           ekey := h.ekey.map (normPath true) }

/-- a key whose value was dropped keeps its primary as the value -/
def mkKey (h : KeyHead) (prim : Option Scalar) (val : N) : N :=
  match prim, val with
  | some s, .absent => .key h none (.scalar s)
  | _, _ => .key h prim val

mutual
  /-- re-parsed node; `ind` as in `fmtV` (needed because `one` of the re-parsed node is read off the printed text) -/
  def normL (ind : Nat) : N → N
    | .absent => .absent
    | .scalar s => .scalar (normScalar s)
    | .sub sp p => .sub sp (normPath false p)
    | .imp sp p => .imp sp (normPath false (impPath p))
    | .arr one items =>
        .arr (!hasNL (fmtV ind (.arr one items))) (normItems (if one then ind else ind + 1) one true items)
    | .map one nodes =>
        let ind' := if one then ind else ind + 1
        let more := decide (nodes.length > (nodes.filter isKeptBoard).length)
        .map (!hasNL (fmtV ind (.map one nodes)))
          (normNodes one ind' true nodes ++ normBoards ind' more true (!(nodes.filter (fun n => !isBoard n)).isEmpty) nodes)
    | .item b v => .item b (normL ind v)
    | .mnode b l0 v => .mnode b l0 (normL ind v)
    | .key h prim val =>
        -- `k: p {}` prints `k: p`, which re-parses with `p` as the value (a primary needs a following `{`)
        mkKey (normHead h) (prim.map normScalar)
          (match val with
           | .absent => .absent
           | .map _ [] => .absent
           | v => normL ind v)

  def normItems (ind : Nat) (one : Bool) (first : Bool) : List N → List N
    | [] => []
    | x :: xs => setBlank (!one && !first && blankOf x) (normL ind x) :: normItems ind one false xs

  /-- the non-board nodes in printed order; `first` = nothing printed yet in this map -/
  def normNodes (one : Bool) (ind : Nat) (first : Bool) : List N → List N
    | [] => []
    | x :: xs =>
        if isBoard x then normNodes one ind first xs
        else setBlank (!one && !first && blankOf x) (normL ind x) :: normNodes one ind false xs

  /-- the kept boards in printed order; `printed` = some node of this map was printed before this board -/
  def normBoards (ind : Nat) (more : Bool) (first : Bool) (printed : Bool) : List N → List N
    | [] => []
    | x :: xs =>
        if isKeptBoard x then
          setBlank (!l0Of x && (!first || more) && printed) (normL ind x) :: normBoards ind more false true xs
        else normBoards ind more first printed xs
end

def normFile : N → N
  | .map one nodes =>
      let more := decide (nodes.length > (nodes.filter isKeptBoard).length)
      .map (!hasNL (fmtFile (.map one nodes)))
        (normNodes one 0 true nodes ++ normBoards 0 more true (!(nodes.filter (fun n => !isBoard n)).isEmpty) nodes)
  | n => normL 0 n

/-! ## layout-free view: the AST → AST rewrites -/

mutual
  /-- forget layout flags -/
  def erase : N → N
    | .absent => .absent
    | .scalar s => .scalar s
    | .sub sp p => .sub sp p
    | .imp sp p => .imp sp p
    | .arr _ items => .arr false (eraseL items)
    | .map _ nodes => .map false (eraseL nodes)
    | .item _ v => .item false (erase v)
    | .mnode _ _ v => .mnode false false (erase v)
    | .key h prim val => .key h prim (erase val)
  def eraseL : List N → List N
    | [] => []
    | x :: xs => erase x :: eraseL xs
end

mutual
  /-- `lowerKeywords`: the printer lower-cases every unquoted string that is a reserved keyword up to case
      (keys AND values, import heads) -/
  def lowerKeywords : N → N
    | .absent => .absent
    | .scalar s => .scalar (normScalar s)
    | .sub sp p => .sub sp (normPath false p)
    | .imp sp p => .imp sp (normPath false (impPath p))
    | .arr one items => .arr one (lowerKeywordsL items)
    | .map one nodes => .map one (lowerKeywordsL nodes)
    | .item b v => .item b (lowerKeywords v)
    | .mnode b l v => .mnode b l (lowerKeywords v)
    | .key h prim val => .key (normHead h) (prim.map normScalar) (lowerKeywords val)
  def lowerKeywordsL : List N → List N
    | [] => []
    | x :: xs => lowerKeywords x :: lowerKeywordsL xs
end

mutual
  /-- `boardsLast`: in every map the board nodes that hold a non-empty map move behind the other nodes (relative
      order kept); board nodes without a non-empty map are dropped; an empty map value of a key is dropped.
      (`isBoard` / `isKeptBoard` are tested on the ORIGINAL node, as the printer does.) -/
  def boardsLast : N → N
    | .absent => .absent
    | .scalar s => .scalar s
    | .sub sp p => .sub sp p
    | .imp sp p => .imp sp p
    | .arr one items => .arr one (boardsLastL items)
    | .map one nodes => .map one (blNon nodes ++ blKept nodes)
    | .item b v => .item b (boardsLast v)
    | .mnode b l v => .mnode b l (boardsLast v)
    | .key h prim val =>
        .key h prim (match val with
          | .absent => .absent
          | .map _ [] => .absent
          | v => boardsLast v)
  def boardsLastL : List N → List N
    | [] => []
    | x :: xs => boardsLast x :: boardsLastL xs
  /-- the non-board nodes, rewritten -/
  def blNon : List N → List N
    | [] => []
    | x :: xs => if isBoard x then blNon xs else boardsLast x :: blNon xs
  /-- the kept board nodes, rewritten -/
  def blKept : List N → List N
    | [] => []
    | x :: xs => if isKeptBoard x then boardsLast x :: blKept xs else blKept xs
end

/-- what parse ∘ fmt does to a layout-free AST: both rewrites in one pass, in the printer's order
    (board test on the ORIGINAL key text, lower-casing on output) -/
def norm (a : N) : N := lowerKeywords (boardsLast a)

end D2V.Fmt

/-! ## the region on which formatting is a fixpoint after one pass (hypothesis of `C03_idempotent_struct_partial`) -/
namespace D2V.Fmt

/-- the node is not a board node now but is one after keyword lower-casing (`Steps`, `LAYERS: {…}`) -/
def isBoardAfter : N → Bool
  | .mnode _ _ (.key h _ _) => headIsBoard (normHead h)
  | _ => false

/-- well-formed string: no line break; an unquoted string that is a keyword up to case has no escapes (raw = value) -/
def strOk (s : Str) : Bool :=
  !hasNL s.raw && !hasNL s.val && (!(s.q == .u && isReserved (lower s.raw)) || s.val == s.raw)

def pathOk (p : Path) : Bool := p.all strOk

def scalarOk : Scalar → Bool
  | .str s => strOk s
  | .num raw => !hasNL raw
  | _ => true

def headOk (h : KeyHead) : Bool :=
  (match h.key with | some p => pathOk p | none => true) &&
  (match h.src with | some p => pathOk p | none => true) &&
  h.hops.all (fun x => !hasNL x.sa && !hasNL x.da && pathOk x.dst) &&
  (match h.eidx with | .int ds => !hasNL ds | _ => true) &&
  (match h.ekey with | some p => pathOk p | none => true)

/-- after the first board node only board nodes follow -/
def boardsSuffix : List N → Bool
  | [] => true
  | x :: xs => if isBoard x then xs.all isBoard else boardsSuffix xs

mutual
  /-- prints on one line: one-line containers only, no deferred board inside -/
  def flat : N → Bool
    | .arr one items => one && flatL items
    | .map one nodes => one && nodes.all (fun n => !isBoard n) && flatL nodes
    | .item _ v => flat v
    | .mnode _ _ v => flat v
    | .key _ _ v => flat v
    | _ => true
  def flatL : List N → Bool
    | [] => true
    | x :: xs => flat x && flatL xs
end

mutual
  def stable : N → Bool
    | .absent => true
    | .scalar s => scalarOk s
    | .sub _ p => pathOk p
    | .imp _ p => pathOk p && pathOk (impPath p)
    | .arr one items => (!one || flatL items) && stableL items
    | .map one nodes =>
        (!one || (nodes.all (fun n => !isBoard n) && flatL nodes)) &&
        nodes.all (fun n => !isBoard n || isKeptBoard n) &&
        nodes.all (fun n => !isBoardAfter n || isBoard n) &&
        boardsSuffix nodes && stableL nodes
    | .item _ v => stable v
    | .mnode _ _ v => stable v
    | .key h prim v => headOk h && (match prim with | some s => scalarOk s | none => true) && stable v
  def stableL : List N → Bool
    | [] => true
    | x :: xs => stable x && stableL xs
end

/-- a kept board node that stands on the first line of the file although something is printed before it
    (`y; steps: {…}`, or nested in a map opened on line 0): the printer omits its blank line (`Start.Line != 0`).
    `file` = the list is the node list of the file map, whose first node may legitimately be on line 0. -/
def l0Bad (file : Bool) (nodes : List N) : Bool :=
  (if file then nodes.drop 1 else nodes).any (fun n => isKeptBoard n && l0Of n)

mutual
  def l0Free (file : Bool) : N → Bool
    | .arr _ items => l0FreeL items
    | .map _ nodes => !l0Bad file nodes && l0FreeL nodes
    | .item _ v => l0Free false v
    | .mnode _ _ v => l0Free false v
    | .key _ _ v => l0Free false v
    | _ => true
  def l0FreeL : List N → Bool
    | [] => true
    | x :: xs => l0Free false x && l0FreeL xs
end

/-- the file map: as `stable`, a file map on one line holds at most one node (its re-parsed range always spans the
    trailing newline), and no deferred board stands on the first line behind other output -/
def stableFile : N → Bool
  | .map one nodes =>
      stable (.map false nodes) && (!one || (nodes.length ≤ 1 && flatL nodes && nodes.all (fun n => !isBoard n)))
        && l0Free true (.map one nodes)
  | _ => false

/-- which clause of `stableFile` fails first somewhere in the tree (names the signature of a C03 violation) -/
def mapWhy (file one : Bool) (nodes : List N) : Option String :=
  if file && one && nodes.length ≥ 2 then some "filemap-one-line"
  else if nodes.any (fun n => isBoardAfter n && !isBoard n) then some "boards-key-case"
  else if nodes.any (fun n => isBoard n && !isKeptBoard n) then some "boards-dropped"
  else if one && nodes.any isBoard then some "boards-in-one-line-map"
  else if !boardsSuffix nodes then some "boards-not-last"
  else if l0Bad file nodes then some "boards-first-line"
  else none

mutual
  def whyV (file : Bool) : N → Option String
    | .arr _ items => whyL items
    | .map one nodes => (mapWhy file one nodes).orElse fun _ => whyL nodes
    | .item _ v => whyV false v
    | .mnode _ _ v => whyV false v
    | .key _ _ v => whyV false v
    | _ => none
  def whyL : List N → Option String
    | [] => none
    | x :: xs => (whyV false x).orElse fun _ => whyL xs
end

end D2V.Fmt
