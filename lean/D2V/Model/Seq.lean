/-
  C23 — placement arithmetic of sequence diagrams, `d2layouts/d2sequence/sequence_diagram.go`, over exact
  rationals.

    * `newSequenceDiagram`   `actorXStep[rank]` = max of: half widths + HORIZONTAL_PAD, MIN_ACTOR_DISTANCE, the widest
                             note of the two neighbouring actors / 2 + HORIZONTAL_PAD, every message's label width
                             distributed over the ranks it crosses + LABEL_HORIZONTAL_PAD, a self message's label
                             width + 4·label.PADDING (`stepsOf`)
    * `placeActors`          centres advance by the steps, `TopLeft.X = Round(centre − w/2)`, actors bottom aligned on
                             `maxActorHeight` (label of person / image actors below the shape included) (`placeX`,
                             `actorTop`)
    * `routeMessages`        the running `messageOffset`, the note offset of every message, the two shapes of a route
                             (straight between different actors; a four point loop for a self message, a message
                             to a descendant / ancestor / sibling span) (`routeYs`, `routeMsgs`)
    * `adjustRouteEndpoints` ends moved from the lifeline to the border of a span (`adjustEnds`)
  Not modelled: `placeSpans`, `placeNotes`, `placeGroups` / `adjustGroupLabel` (groups move later messages down by the
  height of their label: the correspondence compares exact positions only on diagrams without groups; the ordering
  Spec is evaluated on all of them).
-/
import D2V.Model.Clip
namespace D2V.Seq
open D2V.Clip (roundGo)

def HORIZONTAL_PAD : Rat := 40
def LABEL_HORIZONTAL_PAD : Rat := 60
def VERTICAL_PAD : Rat := 40
def MIN_ACTOR_DISTANCE : Rat := 150
def MIN_ACTOR_WIDTH : Rat := 100
def SELF_MESSAGE_HORIZONTAL_TRAVEL : Rat := 80
def MIN_MESSAGE_DISTANCE : Rat := 30
def LABEL_PADDING : Rat := 5

/-- the vertical step between messages after `sd.yStep += VERTICAL_PAD` -/
def yStep : Rat := MIN_MESSAGE_DISTANCE + VERTICAL_PAD

structure Actor where
  w : Rat                 -- width after the MIN_ACTOR_WIDTH clamp
  preW : Rat              -- width before the clamp (`newSequenceDiagram` reads the *next* actor's width before
                          -- the loop reaches it, i.e. unclamped)
  h : Rat
  belowLabelH : Rat       -- label height when the actor has its label below the shape (person / image), else 0
  maxNoteW : Rat          -- widest note among the actor's descendants (0 if none)
deriving Repr

structure Msg where
  srcRank : Nat
  dstRank : Nat
  srcIsActor : Bool
  dstIsActor : Bool
  srcW : Rat              -- width of the source object (span) — used when it is not an actor
  dstW : Rat
  labelW : Int
  labelH : Int
  loop : Bool             -- self message, or to a descendant / ancestor / sibling: drawn as a four point loop
  noteOff : Rat           -- Σ (note.Height + yStep) over the notes declared before this message
deriving Repr

/-! ### actor steps and placement -/

/-- initial `actorXStep[rank]` for neighbours `a`, `b` -/
def baseStep (a b : Actor) : Rat :=
  max (a.w / 2 + b.preW / 2 + HORIZONTAL_PAD) MIN_ACTOR_DISTANCE

def baseSteps : List Actor → List Rat
  | a :: b :: rest => baseStep a b :: baseSteps (b :: rest)
  | _ => []

def listSet (l : List Rat) (i : Nat) (f : Rat → Rat) : List Rat :=
  l.mapIdx fun j x => if j = i then f x else x

/-- the note widening: an actor's widest note widens the step on its right and the step on its left -/
def noteWiden (actors : List Actor) (steps : List Rat) : List Rat :=
  (actors.zipIdx).foldl (fun st (a, rank) =>
    if rank + 1 < actors.length then
      let st := listSet st rank (fun x => max (a.maxNoteW / 2 + HORIZONTAL_PAD) x)
      if rank > 0 then listSet st (rank - 1) (fun x => max (a.maxNoteW / 2 + HORIZONTAL_PAD) x) else st
    else st) steps

/-- the message widening -/
def msgWiden (msgs : List Msg) (steps : List Rat) : List Rat :=
  msgs.foldl (fun st m =>
    if m.srcRank ≠ m.dstRank then
      let lo := min m.srcRank m.dstRank
      let hi := max m.srcRank m.dstRank
      let dist : Rat := (m.labelW : Rat) / ((hi - lo : Nat) : Rat) + LABEL_HORIZONTAL_PAD
      st.mapIdx fun j x => if lo ≤ j ∧ j < hi then max x dist else x
    else
      listSet st m.srcRank (fun x => max x ((m.labelW : Rat) + LABEL_PADDING * 4))) steps

def stepsOf (actors : List Actor) (msgs : List Msg) : List Rat :=
  msgWiden msgs (noteWiden actors (baseSteps actors))

/-- `placeActors`, x part: left edges, given the centre of the first actor -/
def placeX : Rat → List Actor → List Rat → List Rat
  | _, [], _ => []
  | c, a :: rest, s :: ss => roundGo (c - a.w / 2) :: placeX (c + s) rest ss
  | c, a :: rest, [] => roundGo (c - a.w / 2) :: placeX c rest []

def actorLefts (actors : List Actor) (steps : List Rat) : List Rat :=
  match actors with
  | [] => []
  | a :: _ => placeX (a.w / 2) actors steps

def maxActorH (actors : List Actor) : Rat := actors.foldl (fun m a => max m a.h) 0

/-- `placeActors`, y part (relative to `maxActorHeight`, which also contains VERTICAL_PAD and the root label) -/
def actorTop (maxH : Rat) (a : Actor) : Rat := maxH - a.h - a.belowLabelH

/-- the baseline of an actor: bottom of the shape, or of the label drawn below it -/
def baseline (top : Rat) (a : Actor) : Rat := top + a.h + a.belowLabelH

/-! ### message routing -/

/-- `Height/2.` on an `int` field is Go integer division -/
def halfInt (h : Int) : Rat := ((h / 2 : Int) : Rat)

/-- `noteOffset` of `routeMessages` for a message on source line `line`: every note declared on an earlier line
    (`verticalIndices`) pushes it down by the note's height and one step; notes are (line, height) -/
def noteOffOf (notes : List (Int × Rat)) (line : Int) : Rat :=
  ((notes.filter fun n => n.1 < line).map fun n => n.2 + yStep).sum

/-- vertical extent (first y, last y) of every message, from the running `messageOffset` -/
def routeYs : Rat → List Msg → List (Rat × Rat)
  | _, [] => []
  | off, m :: rest =>
    if m.loop then
      let sy := off + m.noteOff
      let ey := sy + max (m.labelH : Rat) MIN_MESSAGE_DISTANCE * (3 / 2)
      (sy, ey) :: routeYs (ey + yStep - m.noteOff) rest
    else
      let sy := off + m.noteOff + halfInt m.labelH
      (sy, sy) :: routeYs (sy + halfInt m.labelH + yStep - m.noteOff) rest

/-- x coordinates of a route before `adjustRouteEndpoints`: centres of source and destination -/
def centreOf (lefts : List Rat) (actors : List Actor) (rank : Nat) : Rat :=
  lefts.getD rank 0 + (actors.getD rank ⟨0, 0, 0, 0, 0⟩).w / 2

/-- `adjustRouteEndpoints` -/
def adjustEnds (m : Msg) (sx ex : Rat) : Rat × Rat :=
  let sx' := if m.srcIsActor then sx else if m.srcRank ≤ m.dstRank then sx + m.srcW / 2 else sx - m.srcW / 2
  let ex' := if m.dstIsActor then ex else if m.srcRank < m.dstRank then ex - m.dstW / 2 else ex + m.dstW / 2
  (sx', ex')

/-- the route of one message, given its vertical extent -/
def routeOf (lefts : List Rat) (actors : List Actor) (m : Msg) (ys : Rat × Rat) : List (Rat × Rat) :=
  let sx := centreOf lefts actors m.srcRank
  let ex := centreOf lefts actors m.dstRank
  let e := adjustEnds m sx ex
  if m.loop then
    let mid := sx + max SELF_MESSAGE_HORIZONTAL_TRAVEL ((m.labelW : Rat) / 2 + LABEL_PADDING * 2)
    [(e.1, ys.1), (mid, ys.1), (mid, ys.2), (e.2, ys.2)]
  else [(e.1, ys.1), (e.2, ys.1)]

/-- the route points of every message -/
def routeMsgs (lefts : List Rat) (actors : List Actor) (off : Rat) (msgs : List Msg) : List (List (Rat × Rat)) :=
  (msgs.zip (routeYs off msgs)).map fun p => routeOf lefts actors p.1 p.2

end D2V.Seq
