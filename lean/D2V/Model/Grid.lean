/-
  Model of `d2layouts/d2grid` over exact rationals.

    * `derive`, `gaps`            — `newGridDiagram`: rows/columns from the attributes, direction from which keyword
                                    comes first, capacity growth (`for capacity < len(gd.objects)`), gap overrides;
    * `margin`                    — `d2graph.Object.GetMargin` (outside label / outside icon / 3d-multiple offsets);
    * `inflate` / `revert`        — `sizeForOutsideLabels` and the closure it returns;
    * `evenly`                    — `layoutEvenly` (both directions);
    * `dynamic`                   — `layoutDynamic` (both directions) for a partition of the cells into lines — the
                                    result of `getBestLayout` is a *parameter* (observed through a verif hook);
    * `layoutGrid`                — inflate → evenly/dynamic → revert, in declaration order.

  A *line* is a row when the grid is row-directed and a column otherwise; `m` is the coordinate along the line
  (x for rows), `c` the coordinate across it.  Both directions of the Go code are the same program with x/y swapped,
  which is how they are modelled (`toSz`/`toBox` do the swap).  A *slot* is what the layout places: the box inflated
  by its margin; the final box is carved out of its slot by `revert`.
  Constants are regenerated from the source (`D2V.Gen.Grid`).
-/
import D2V.Gen.Grid
namespace D2V.Grid

def labelPadding : Rat := (D2V.Gen.Grid.labelPadding : Rat)
def maxIconSize : Rat := (D2V.Gen.Grid.maxIconSize : Rat)
def defaultGap : Int := D2V.Gen.Grid.defaultGap

/-! ### newGridDiagram -/

/-- `for capacity < len(gd.objects) { a++; capacity += b }` with `capacity = a*b`; fuel = number of cells -/
def growTo (a b n : Nat) : Nat → Nat
  | 0 => a
  | f + 1 => if a * b < n then growTo (a + 1) b n f else a

structure Dims where
  rows : Nat
  cols : Nat
  rowDirected : Bool
deriving Repr, BEq, DecidableEq

/-- `rowsA`/`colsA`: the attribute values (0 = absent), `rowsFirst`: `grid-rows` is written before `grid-columns`,
    `n`: number of cells -/
def derive (rowsA colsA : Nat) (rowsFirst : Bool) (n : Nat) : Dims :=
  if rowsA ≠ 0 ∧ colsA ≠ 0 then
    if rowsFirst then ⟨growTo rowsA colsA n n, colsA, true⟩
    else ⟨rowsA, growTo colsA rowsA n n, false⟩
  else if colsA = 0 then ⟨if n < rowsA then n else rowsA, 0, true⟩
  else ⟨0, if n < colsA then n else colsA, false⟩

/-- (verticalGap, horizontalGap) -/
def gaps (gridGap vGap hGap : Option Int) : Int × Int :=
  let v0 := match gridGap with | some g => g | none => defaultGap
  let h0 := v0
  ((match vGap with | some g => g | none => v0), (match hGap with | some g => g | none => h0))

/-! ### margins -/

inductive Side where | top | bottom | left | right
deriving Repr, BEq, DecidableEq
inductive Align where | first | middle | last   -- Left/Top, Center/Middle, Right/Bottom
deriving Repr, BEq, DecidableEq

/-- `label.FromString` restricted to what `GetMargin` distinguishes: the twelve outside positions -/
def outsidePos (s : String) : Option (Side × Align) :=
  match s with
  | "OUTSIDE_TOP_LEFT" => some (.top, .first)
  | "OUTSIDE_TOP_CENTER" => some (.top, .middle)
  | "OUTSIDE_TOP_RIGHT" => some (.top, .last)
  | "OUTSIDE_BOTTOM_LEFT" => some (.bottom, .first)
  | "OUTSIDE_BOTTOM_CENTER" => some (.bottom, .middle)
  | "OUTSIDE_BOTTOM_RIGHT" => some (.bottom, .last)
  | "OUTSIDE_LEFT_TOP" => some (.left, .first)
  | "OUTSIDE_LEFT_MIDDLE" => some (.left, .middle)
  | "OUTSIDE_LEFT_BOTTOM" => some (.left, .last)
  | "OUTSIDE_RIGHT_TOP" => some (.right, .first)
  | "OUTSIDE_RIGHT_MIDDLE" => some (.right, .middle)
  | "OUTSIDE_RIGHT_BOTTOM" => some (.right, .last)
  | _ => none

/-- what `GetMargin` reads from an object besides its size -/
structure Deco where
  hasLabel : Bool              -- `obj.HasLabel()`
  labelPos : Option String     -- `obj.LabelPosition`
  lw : Int                     -- `obj.LabelDimensions.Width`
  lh : Int
  hasIcon : Bool               -- `obj.HasIcon()`
  iconPos : Option String
  modDx : Rat                  -- `obj.GetModifierElementAdjustments()`
  modDy : Rat
deriving Repr

structure Margin where
  top : Rat
  bottom : Rat
  left : Rat
  right : Rat
deriving Repr, BEq

def ceilR (x : Rat) : Rat := (x.ceil : Rat)

/-- the label part of `GetMargin` for an outside label at (`side`, `al`) of padded size `lw × lh` on a `w × h` object -/
def labelMargin (side : Side) (al : Align) (lw lh w h : Rat) : Margin :=
  let m0 : Margin := ⟨0, 0, 0, 0⟩
  let a : Margin :=
    match side with
    | .top => { m0 with top := lh }
    | .bottom => { m0 with bottom := lh }
    | .left => { m0 with left := lw }
    | .right => { m0 with right := lw }
  let b : Margin :=
    if lw > w then
      let dx := lw - w
      match side, al with
      | .top, .first | .bottom, .first => { a with right := dx }
      | .top, .middle | .bottom, .middle => { a with left := ceilR (dx / 2), right := ceilR (dx / 2) }
      | .top, .last | .bottom, .last => { a with left := dx }
      | _, _ => a
    else a
  if lh > h then
    let dy := lh - h
    match side, al with
    | .left, .first | .right, .first => { b with bottom := dy }
    | .left, .middle | .right, .middle => { b with top := ceilR (dy / 2), bottom := ceilR (dy / 2) }
    | .left, .last | .right, .last => { b with top := dy }
    | _, _ => b
  else b

/-- the icon part: an outside icon needs at least `sz` on its side -/
def iconMargin (pos : Option (Side × Align)) (sz : Rat) (m1 : Margin) : Margin :=
  match pos with
  | some (.top, _) => { m1 with top := max m1.top sz }
  | some (.bottom, _) => { m1 with bottom := max m1.bottom sz }
  | some (.left, _) => { m1 with left := max m1.left sz }
  | some (.right, _) => { m1 with right := max m1.right sz }
  | none => m1

/-- `if obj.HasLabel() && obj.LabelPosition != nil { … }` -/
def labelPart (d : Deco) (w h : Rat) : Margin :=
  match d.hasLabel, d.labelPos with
  | true, some ps =>
    match outsidePos ps with
    | none => ⟨0, 0, 0, 0⟩
    | some (side, al) =>
      labelMargin side al ((d.lw + D2V.Gen.Grid.labelPadding : Int) : Rat) ((d.lh + D2V.Gen.Grid.labelPadding : Int) : Rat) w h
  | _, _ => ⟨0, 0, 0, 0⟩

/-- `if obj.HasIcon() && obj.IconPosition != nil { … }` -/
def iconPart (d : Deco) (m1 : Margin) : Margin :=
  match d.hasIcon, d.iconPos with
  | true, some ps => iconMargin (outsidePos ps) (maxIconSize + labelPadding) m1
  | _, _ => m1

/-- `obj.GetMargin()` for an object of size `w × h` -/
def margin (d : Deco) (w h : Rat) : Margin :=
  let m2 := iconPart d (labelPart d w h)
  { m2 with right := m2.right + d.modDx, top := m2.top + d.modDy }

/-! ### lines -/

/-- size of a slot: `m` along its line, `c` across -/
structure Sz where
  m : Rat
  c : Rat
deriving Repr, BEq

/-- a placed slot in line coordinates -/
structure B where
  m : Rat
  c : Rat
  ms : Rat
  cs : Rat
deriving Repr, BEq

structure Box where
  x : Rat
  y : Rat
  w : Rat
  h : Rat
deriving Repr, BEq

def toSz (rowDirected : Bool) (w h : Rat) : Sz := if rowDirected then ⟨w, h⟩ else ⟨h, w⟩
def toBox (rowDirected : Bool) (b : B) : Box := if rowDirected then ⟨b.m, b.c, b.ms, b.cs⟩ else ⟨b.c, b.m, b.cs, b.ms⟩

/-- consecutive chunks of length `L` (fuel = length of the list) — `getObject(i, j)` = element `j` of chunk `i` -/
def chunks (L : Nat) : Nat → List α → List (List α)
  | 0, _ => []
  | _ + 1, [] => []
  | f + 1, a :: l => (a :: l).take L :: chunks L f ((a :: l).drop L)

/-- `rowHeight := 0.; for … rowHeight = math.Max(rowHeight, o.Height)` -/
def lineCross (line : List Sz) : Rat := line.foldl (fun m s => max m s.c) 0

def zipMax : List Rat → List Rat → List Rat
  | [], ys => ys
  | xs, [] => xs
  | x :: xs, y :: ys => max x y :: zipMax xs ys

/-- `colWidths`: for every position in a line the largest `m` over all lines (starting from 0) -/
def posMax (L : Nat) (lines : List (List Sz)) : List Rat :=
  lines.foldl (fun acc l => zipMax acc (l.map (·.m))) (List.replicate L 0)

/-- one line: `o.MoveWithDescendantsTo(cursor); cursor.m += o.m + gap`; every slot gets the line's cross size -/
def placeLine (gm c cs : Rat) : List Sz → Rat → List B
  | [], _ => []
  | s :: r, cur => ⟨cur, c, s.m, cs⟩ :: placeLine gm c cs r (cur + s.m + gm)

/-- all lines: `cursor.m = 0; cursor.c += lineCross + gap` -/
def placeLines (gm gc : Rat) : List (List Sz) → Rat → List (List B)
  | [], _ => []
  | l :: r, cur => placeLine gm cur (lineCross l) l 0 :: placeLines gm gc r (cur + lineCross l + gc)

/-- `x := 0.; for … x += o.m + gap; len := x - gap` -/
def lineLen (gm : Rat) (line : List Sz) : Rat := line.foldl (fun x s => x + s.m + gm) 0 - gm

structure Out where
  lines : List (List B)     -- placed slots, line by line
  rest : List B             -- cells the loops never reach (none when the capacity is sufficient)
  mainLen : Rat             -- `gd.width` (row-directed) / `gd.height`
  crossLen : Rat
deriving Repr

/-- `layoutEvenly`: lines of length `L` (= `gd.columns` when row-directed), at most `R` of them are visited -/
def evenly (cells : List Sz) (L R : Nat) (gm gc : Rat) : Out :=
  let all := chunks L cells.length cells
  let placed := all.take R
  let cm := posMax L placed
  let sized := placed.map fun l => l.zipWith (fun s m => (⟨m, s.c⟩ : Sz)) cm
  let crosses := (placed.map lineCross) ++ List.replicate (R - placed.length) 0
  { lines := placeLines gm gc sized 0
    rest := (all.drop R).flatten.map fun s => ⟨0, 0, s.m, s.c⟩
    mainLen := cm.foldl (fun x w => x + w + gm) 0 - gm
    crossLen := crosses.foldl (fun x w => x + w + gc) 0 - gc }

/-- the "expand thinnest objects to make each row the same width" block for one line -/
def growLine (gm maxLen : Rat) (line : List Sz) : List Sz :=
  let len := lineLen gm line
  if len = maxLen then line
  else
    let delta := maxLen - len
    let widest := line.foldl (fun m s => max m s.m) 0
    let total := line.foldl (fun t s => t + (widest - s.m)) 0
    let line1 :=
      if total > 0 then
        let growth := min delta total
        line.map fun s => (⟨s.m + (widest - s.m) / total * growth, s.c⟩ : Sz)
      else line
    if delta > total then
      let g := (delta - total) / (line.length : Rat)
      line1.map fun s => (⟨s.m + g, s.c⟩ : Sz)
    else line1

def maxLen (gm : Rat) (lines : List (List Sz)) : Rat := lines.foldl (fun m l => max m (lineLen gm l)) 0

/-- `layoutDynamic` for the partition `lines` -/
def dynamic (lines : List (List Sz)) (gm gc : Rat) : Out :=
  let mx := maxLen gm lines
  let grown := lines.map (growLine gm mx)
  { lines := placeLines gm gc grown 0
    rest := []
    mainLen := mx
    crossLen := (grown.map lineCross).foldl (fun x w => x + w + gc) 0 - gc }

/-- split a list into consecutive runs of the given lengths (what `GenLayout` does with its cut indices) -/
def splitRuns : List Nat → List α → List (List α)
  | [], _ => []
  | k :: ks, l => l.take k :: splitRuns ks (l.drop k)

/-! ### the whole of layoutGrid, in declaration order -/

structure CellIn where
  w : Rat
  h : Rat
  deco : Deco
deriving Repr

structure CellOut where
  slot : Box     -- what the layout placed
  box : Box      -- the shape after `revertAdjustments`
deriving Repr

/-- the closure returned by `sizeForOutsideLabels`, for one object placed at `slot` -/
def revert (c : CellIn) (slot : Box) : Box :=
  let m0 := margin c.deco c.w c.h
  let dx := m0.left + m0.right
  let dy := m0.top + m0.bottom
  let w1 := slot.w - dx
  let h1 := slot.h - dy
  let m := margin c.deco w1 h1
  let mx := m.left + m.right
  let my := m.top + m.bottom
  let w2 := if mx < dx then w1 + (dx - mx) else w1
  let h2 := if my < dy then h1 + (dy - my) else h1
  if m.left > 0 ∨ m.top > 0 then ⟨slot.x + m.left, slot.y + m.top, w2, h2⟩ else ⟨slot.x, slot.y, w2, h2⟩

structure GridOut where
  cells : List CellOut
  width : Rat
  height : Rat
deriving Repr

/-- `layoutGrid`: `runs` = line lengths chosen by `getBestLayout` (ignored when both rows and columns are set) -/
def layoutGrid (cells : List CellIn) (d : Dims) (vGap hGap : Int) (runs : List Nat) : GridOut :=
  let slots : List Sz := cells.map fun c =>
    let m := margin c.deco c.w c.h
    toSz d.rowDirected (c.w + (m.left + m.right)) (c.h + (m.top + m.bottom))
  let gm : Rat := if d.rowDirected then (hGap : Rat) else (vGap : Rat)
  let gc : Rat := if d.rowDirected then (vGap : Rat) else (hGap : Rat)
  let out : Out :=
    if d.rows ≠ 0 ∧ d.cols ≠ 0 then
      if d.rowDirected then evenly slots d.cols d.rows gm gc else evenly slots d.rows d.cols gm gc
    else dynamic (splitRuns runs slots) gm gc
  let placed := (out.lines.flatten ++ out.rest).map (toBox d.rowDirected)
  { cells := (cells.zip placed).map fun (c, s) => ⟨s, revert c s⟩
    width := if d.rowDirected then out.mainLen else out.crossLen
    height := if d.rowDirected then out.crossLen else out.mainLen }

end D2V.Grid
