/-
  Model of `encoding/base64`'s `URLEncoding` (padded, URL-safe alphabet, non-strict) as used by
  `lib/urlenc/urlenc.go`.  Bytes in, ASCII bytes out.  Sextets are `Nat`s below 64.
  `decode` is the quantum decoder of `Encoding.DecodeString` restricted to inputs without CR/LF
  (the Go decoder skips those two bytes; `Encode` never emits them).
-/
namespace D2V.B64

/-- `encodeURL` alphabet: A–Z a–z 0–9 - _ -/
def enc6 (n : Nat) : UInt8 :=
  if n < 26 then UInt8.ofNat (65 + n)
  else if n < 52 then UInt8.ofNat (97 + (n - 26))
  else if n < 62 then UInt8.ofNat (48 + (n - 52))
  else if n = 62 then 45 else 95

def dec6 (c : UInt8) : Option Nat :=
  let v := c.toNat
  if 65 ≤ v ∧ v ≤ 90 then some (v - 65)
  else if 97 ≤ v ∧ v ≤ 122 then some (v - 97 + 26)
  else if 48 ≤ v ∧ v ≤ 57 then some (v - 48 + 52)
  else if v = 45 then some 62
  else if v = 95 then some 63
  else none

def pad : UInt8 := 61

def encode : List UInt8 → List UInt8
  | [] => []
  | [a] => [enc6 (a.toNat / 4), enc6 (a.toNat % 4 * 16), pad, pad]
  | [a, b] => [enc6 (a.toNat / 4), enc6 (a.toNat % 4 * 16 + b.toNat / 16), enc6 (b.toNat % 16 * 4), pad]
  | a :: b :: c :: rest =>
      enc6 (a.toNat / 4) :: enc6 (a.toNat % 4 * 16 + b.toNat / 16)
        :: enc6 (b.toNat % 16 * 4 + c.toNat / 64) :: enc6 (c.toNat % 64) :: encode rest

def byte0 (s0 s1 : Nat) : UInt8 := UInt8.ofNat (s0 * 4 + s1 / 16)
def byte1 (s1 s2 : Nat) : UInt8 := UInt8.ofNat (s1 % 16 * 16 + s2 / 4)
def byte2 (s2 s3 : Nat) : UInt8 := UInt8.ofNat (s2 % 4 * 64 + s3)

/-- quantum decoder: full quanta, then at most one padded quantum, which must be last -/
def decode : List UInt8 → Option (List UInt8)
  | [] => some []
  | [c0, c1, c2, c3] =>
      if c3 = pad then
        if c2 = pad then
          match dec6 c0, dec6 c1 with
          | some s0, some s1 => some [byte0 s0 s1]
          | _, _ => none
        else
          match dec6 c0, dec6 c1, dec6 c2 with
          | some s0, some s1, some s2 => some [byte0 s0 s1, byte1 s1 s2]
          | _, _, _ => none
      else
        match dec6 c0, dec6 c1, dec6 c2, dec6 c3 with
        | some s0, some s1, some s2, some s3 => some [byte0 s0 s1, byte1 s1 s2, byte2 s2 s3]
        | _, _, _, _ => none
  | c0 :: c1 :: c2 :: c3 :: rest =>
      match dec6 c0, dec6 c1, dec6 c2, dec6 c3, decode rest with
      | some s0, some s1, some s2, some s3, some tl =>
          some (byte0 s0 s1 :: byte1 s1 s2 :: byte2 s2 s3 :: tl)
      | _, _, _, _, _ => none
  | _ => none

def urlSafe (c : UInt8) : Bool :=
  let v := c.toNat
  (65 ≤ v && v ≤ 90) || (97 ≤ v && v ≤ 122) || (48 ≤ v && v ≤ 57) || v == 45 || v == 95 || v == 61

/-- `urlenc.Encode` / `urlenc.Decode` with `compress/flate` as a parameter pair -/
def Encode (deflate : List UInt8 → List UInt8) (s : List UInt8) : List UInt8 := encode (deflate s)
def Decode (inflate : List UInt8 → Option (List UInt8)) (e : List UInt8) : Option (List UInt8) :=
  (decode e).bind inflate

end D2V.B64
