/-
  C20 — where a route is cut at a shape: the rectangular path of `d2graph/layout.go: Edge.TraceToShape` and the
  `lib/geo` intersection code it calls, over exact rationals.

    * `geo.IntersectionPoint(u0,u1,v0,v1)`   Cramer's rule for the two segment parameters `s`, `t`; `nil` when the
      lines are parallel or a parameter is outside [0,1]; the result is `u0 + Round(s·ud)` per coordinate
      (`math.Round`: half away from zero)
    * `(*Box).Intersections(segment)`        the four sides in the order top, right, bottom, left
    * `TraceToShape` for a shape whose outline is its box and that has no outside label / icon: the end point is
      replaced by the first intersection of the last segment with the box, if any (`clipEnd`); with no
      intersection the point stays where the router put it (`shape.TraceToShapeBorder` returns its argument for
      rectangular shapes)
  Curved outlines (`TraceToShapeBorder` against Bézier / ellipse perimeters) are not modelled.
-/
import D2V.Model.LaySpec
namespace D2V.Clip
open D2V.Lay

/-- `math.Round` on an exact rational: nearest integer, halves away from zero -/
def roundGo (x : Rat) : Rat :=
  if 0 ≤ x then ((x + 1 / 2).floor : Rat) else -(((-x + 1 / 2).floor : Int) : Rat)

structure Cramer where
  s : Rat
  t : Rat
deriving Repr

/-- the parameters of the intersection of line u with line v; `none` when parallel -/
def cramer (u0 u1 v0 v1 : Pt) : Option Cramer :=
  let udx := u1.x - u0.x
  let vdx := v1.x - v0.x
  let uvdx := v0.x - u0.x
  let udy := u1.y - u0.y
  let vdy := v1.y - v0.y
  let uvdy := v0.y - u0.y
  let denom := udy * vdx - udx * vdy
  if denom = 0 then none
  else some { s := (vdx * uvdy - vdy * uvdx) / denom, t := (udx * uvdy - udy * uvdx) / denom }

/-- `geo.IntersectionPoint` -/
def intersectionPoint (u0 u1 v0 v1 : Pt) : Option Pt :=
  match cramer u0 u1 v0 v1 with
  | none => none
  | some c =>
    if c.s < 0 ∨ c.s > 1 ∨ c.t < 0 ∨ c.t > 1 then none
    else some { x := u0.x + roundGo (c.s * (u1.x - u0.x)), y := u0.y + roundGo (c.s * (u1.y - u0.y)) }

def Box.tl (b : Box) : Pt := ⟨b.x, b.y⟩
def Box.tr (b : Box) : Pt := ⟨b.x + b.w, b.y⟩
def Box.br (b : Box) : Pt := ⟨b.x + b.w, b.y + b.h⟩
def Box.bl (b : Box) : Pt := ⟨b.x, b.y + b.h⟩

/-- `(*Box).Intersections(Segment{s0, s1})`: top, right, bottom, left -/
def boxIntersections (b : Box) (s0 s1 : Pt) : List Pt :=
  [intersectionPoint s0 s1 (Box.tl b) (Box.tr b), intersectionPoint s0 s1 (Box.tr b) (Box.br b),
   intersectionPoint s0 s1 (Box.br b) (Box.bl b), intersectionPoint s0 s1 (Box.bl b) (Box.tl b)].filterMap id

/-- the end point after `TraceToShape` for a rectangular outline without outside label/icon:
    `prev` is the point before the end, `last` the end the router produced -/
def clipEnd (b : Box) (prev last : Pt) : Pt :=
  match boxIntersections b prev last with
  | q :: _ => q
  | [] => last

/-- the start point: `TraceToShape` intersects the segment running from the second point to the first -/
def clipStart (b : Box) (first second : Pt) : Pt := clipEnd b second first

end D2V.Clip
