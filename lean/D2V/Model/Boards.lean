/-
  C15 — boards.  (1) A functional specification of board composition over maps: what
  `d2ir/compile.go: compiler.overlay / Map.CopyBase`, the `BoardScenario / BoardStep / BoardLayer` cases of
  `_compileField` and `d2compiler.compileBoard` are meant to compute:

      scenario  = the base board as declared *before* the scenario, overlaid with the scenario's own declarations
      step i    = step i−1 (the base for the first step) overlaid with its own declarations
      layer     = its own declarations on an empty board

  Board content is an ordered map  object name ↦ attributes; declarations set an attribute, declare an object or
  delete one (`null`).  Because the specification is functional, a board's body cannot influence its base or
  its siblings: `Props/C15` states that as theorems; the Go code (which copies and mutates IR maps in place) is
  checked against this specification on every run.

  (2) The reference transformations over the small AST used by the differential oracle:
      `flatten body path` — a single-board program whose root board must equal the board at `path`,
      `stripBoards`, `emptyBoard` — for the "changes never leak back" clause.
-/
import D2V.Model.SemAst
namespace D2V.Boards
open D2V.SemAst

/-! ### functional specification -/

abbrev Attrs := List (String × String)
/-- content of one board: objects in declaration order -/
abbrev Content := List (String × Attrs)

inductive Kind | layer | scenario | step
deriving Repr, BEq, DecidableEq

def setAttr (a : Attrs) (k v : String) : Attrs :=
  if a.any (·.1 == k) then a.map (fun e => if e.1 == k then (k, v) else e) else a ++ [(k, v)]

def Content.has (c : Content) (n : String) : Bool := c.any (·.1 == n)

def Content.get (c : Content) (n : String) : Option Attrs :=
  match c.find? (·.1 == n) with
  | some e => some e.2
  | none => none

inductive Op
  | decl (name : String)
  | set (name key val : String)
  | del (name : String)
deriving Repr, BEq, DecidableEq

def applyOp (c : Content) : Op → Content
  | .decl n => if c.has n then c else c ++ [(n, [])]
  | .set n k v =>
    if c.has n then c.map (fun e => if e.1 == n then (n, setAttr e.2 k v) else e)
    else c ++ [(n, [(k, v)])]
  | .del n => c.filter (·.1 != n)

def applyOps (c : Content) (ops : List Op) : Content := ops.foldl applyOp c

/-- a board body: declarations and board blocks, in source order -/
inductive Item
  | op (o : Op)
  | boards (k : Kind) (bs : List (String × List Item))

/-- evaluated board: its content and its nested boards -/
inductive Board
  | mk (content : Content) (children : List (Kind × String × Board))

def Board.content : Board → Content | .mk c _ => c
def Board.children : Board → List (Kind × String × Board) | .mk _ ch => ch

mutual
/-- evaluate the items of a board whose inherited content is `inh`; returns the final content and the nested
    boards.  `cur` is the content declared so far (what a scenario declared at this point inherits). -/
def evalItems : Content → List Item → Content × List (Kind × String × Board)
  | cur, [] => (cur, [])
  | cur, .op o :: rest => evalItems (applyOp cur o) rest
  | cur, .boards k bs :: rest =>
    let here := evalBoards k cur cur bs
    let (fin, more) := evalItems cur rest
    (fin, here ++ more)
/-- the boards of one block: `base` is the content of the enclosing board at the point of declaration, `prev`
    the content a step inherits (the previous step's, or the base for the first) -/
def evalBoards : Kind → Content → Content → List (String × List Item) → List (Kind × String × Board)
  | _, _, _, [] => []
  | k, base, prev, (n, body) :: rest =>
    let inh := match k with
      | .layer => []
      | .scenario => base
      | .step => prev
    let (c, ch) := evalItems inh body
    (k, n, Board.mk c ch) :: evalBoards k base c rest
end

def evalProg (items : List Item) : Board :=
  let (c, ch) := evalItems [] items
  .mk c ch

/-- own declarations of a body, nested boards ignored -/
def ownOps : List Item → List Op
  | [] => []
  | .op o :: r => o :: ownOps r
  | .boards _ _ :: r => ownOps r

/-! ### transformations over the small AST -/

def boardKw (k : Key) : Option String :=
  match k with
  | [s] => if s.q == 0 && (s.s == "layers" || s.s == "scenarios" || s.s == "steps") then some s.s else none
  | _ => none

def isBoardStmt : Stmt → Bool
  | .field _ k _ _ => (boardKw k).isSome
  | _ => false

/-- the root board alone: every board block removed (`Map.CopyBase`) -/
def stripBoards (body : Body) : Body := body.filter (!isBoardStmt ·)

def kwOfKind (kind : String) : String :=
  if kind == "layer" then "layers" else if kind == "scenario" then "scenarios" else "steps"

/-- bodies of the boards declared in a block `layers: {…}` (name, body) in order -/
def blockBoards (b : Body) : List (String × Body) :=
  b.filterMap fun s => match s with
    | .field 0 [n] _ (.map body) => some (n.s, body)
    | .field 0 [n] _ .none => some (n.s, [])
    | _ => none

def isTripleGlobStmt : Stmt → Bool
  | .field _ (k :: _) _ _ => k.q == 0 && k.s == "***"
  | _ => false

def isClassesOrVars : Stmt → Bool
  | .field _ [k] _ _ => k.q == 0 && (k.s == "classes" || k.s == "vars")
  | _ => false

/-- split a body at the first block of the given keyword that declares `name` -/
def findBlock (kw name : String) : Body → Body → Option (Body × Body × Body)
  | _, [] => none
  | pre, s :: rest =>
    match s with
    | .field 0 k _ (.map b) =>
      if boardKw k == some kw && (blockBoards b).any (·.1 == name) then some (pre.reverse, b, rest)
      else findBlock kw name (s :: pre) rest
    | _ => findBlock kw name (s :: pre) rest

/-- a single-board program whose root board is the board `(kind, name)` of `body`:
    scenario: what was declared before the block, then the scenario's body;
    step i:   what was declared before the block, then the bodies of steps 1..i (nested boards of earlier steps dropped);
    layer:    the base's classes, vars (whole base) and the board-wide globs declared before the block, then the body -/
def flatten1 (body : Body) (kind name : String) : Option Body :=
  match findBlock (kwOfKind kind) name [] body with
  | none => none
  | some (pre, block, rest) =>
    let bs := blockBoards block
    let base := stripBoards pre
    if kind == "scenario" then
      (bs.find? (·.1 == name)).map fun b => base ++ b.2
    else if kind == "step" then
      let idx := bs.findIdx (·.1 == name)
      let earlier := (bs.take idx).flatMap fun b => stripBoards b.2
      (bs.find? (·.1 == name)).map fun b => base ++ earlier ++ b.2
    else
      let inherited := (stripBoards (pre ++ rest)).filter fun s =>
        isClassesOrVars s || (isTripleGlobStmt s && pre.any (· == s))
      (bs.find? (·.1 == name)).map fun b => inherited ++ b.2

def flatten : Body → List (String × String) → Option Body
  | body, [] => some body
  | body, (k, n) :: rest => match flatten1 body k n with
    | some b => flatten b rest
    | none => none

/-- all board paths of a body (depth-first, declaration order) -/
partial def boardPaths (body : Body) : List (List (String × String)) :=
  body.flatMap fun s => match s with
    | .field 0 k _ (.map b) =>
      match boardKw k with
      | some kw =>
        let kind := if kw == "layers" then "layer" else if kw == "scenarios" then "scenario" else "step"
        (blockBoards b).flatMap fun (n, bb) =>
          [(kind, n)] :: (boardPaths bb).map ((kind, n) :: ·)
      | none => []
    | _ => []

/-- `body` with the body of the board at `path` replaced by `new` -/
partial def replaceBoard (body : Body) (path : List (String × String)) (new : Body) : Body :=
  match path with
  | [] => new
  | (kind, name) :: rest =>
    body.map fun s => match s with
      | .field a k p (.map b) =>
        if boardKw k == some (kwOfKind kind) then
          .field a k p (.map (b.map fun t => match t with
            | .field a' [n] p' (.map bb) => if n.s == name then .field a' [n] p' (.map (replaceBoard bb rest new)) else t
            | t => t))
        else s
      | s => s

end D2V.Boards
