/-
  C17 — the Go side of the dagre bridge.

  `d2layouts/d2dagrelayout/object_mapper.go`
    * `escapeID`            the edge's AbsID is spliced into a JS *template literal* (`` `…` ``) by
                            `generateAddEdgeLine`; `escapeID` must make that literal evaluate to the ID again
                            (a syntax error or a `${…}` substitution makes the whole dagre layout fail).
                            Modelled twice: `escapeID` (the code after the fix: five `strings.ReplaceAll` passes)
                            and `escapeIDOld` (the code before the fix, with the regexp `[^\\]\n` → `\\n`).
    * `objectMapper`        nodes are named by decimal numbers (`strconv.Itoa(len(idToObj))`): nothing to escape.
  JS side: `jsTemplateDecode` is the cooked value of a no-substitution template literal body as ECMAScript
  defines it (TV of TemplateCharacters): `\` escapes, CR / CRLF → LF, an unescaped backtick ends the literal
  (syntax error for the enclosing call), an unescaped `${` starts a substitution.  `\x`, `\u` escapes are not
  modelled (`escapeID` never produces them; the correspondence stream does not generate them).

  `d2layouts/d2layouts.go: validateObjectPositions` is modelled over an extended-float type.
-/
namespace D2V.JsTemplate

/-! ### escapeID -/

/-- `strings.ReplaceAll(s, string(c), rep)` for a one-character pattern -/
def replaceAllChar (c : Char) (rep : List Char) (s : List Char) : List Char :=
  s.flatMap fun x => if x = c then rep else [x]

/-- `escapeID` as it is after the fix: five passes, in the order of the source -/
def escapeID (id : List Char) : List Char :=
  let id := replaceAllChar '\\' ['\\', '\\'] id
  let id := replaceAllChar '`' ['\\', '`'] id
  let id := replaceAllChar '$' ['\\', '$'] id
  let id := replaceAllChar '\n' ['\\', 'n'] id
  let id := replaceAllChar '\r' ['\\', 'r'] id
  id

/-- what the five passes do to one character -/
def escChar (c : Char) : List Char :=
  if c = '\\' then ['\\', '\\']
  else if c = '`' then ['\\', '`']
  else if c = '$' then ['\\', '$']
  else if c = '\n' then ['\\', 'n']
  else if c = '\r' then ['\\', 'r']
  else [c]

/-- `regexp.MustCompile("[^\\\\]\n").ReplaceAllString(s, "\\\\n")`: leftmost non-overlapping matches of
    "any character but a backslash (newline included), then a newline"; both characters are replaced by the
    three characters `\`, `\`, `n` -/
def reNewlineOld : List Char → List Char
  | a :: b :: rest =>
    if a ≠ '\\' ∧ b = '\n' then '\\' :: '\\' :: 'n' :: reNewlineOld rest
    else a :: reNewlineOld (b :: rest)
  | l => l

/-- `escapeID` before the fix -/
def escapeIDOld (id : List Char) : List Char :=
  let id := replaceAllChar '\\' ['\\', '\\'] id
  let id := reNewlineOld id
  let id := replaceAllChar '\r' ['\\', 'r'] id
  id

/-! ### cooked value of a template literal body -/

inductive St where
  | normal
  | esc      -- after a backslash
  | cr       -- after a raw CR (LF already emitted; a following LF belongs to the same line terminator)
  | dollar   -- after a raw `$` (already emitted; a following `{` starts a substitution)
  | escCr    -- after backslash + CR (line continuation; a following LF belongs to it)
  | zero     -- after `\0` (NUL already emitted; a following octal digit makes it an octal escape: error —
             -- goja, the engine d2 embeds, accepts `\08` and `\09` as NUL + digit, and so does this model)
deriving DecidableEq, Repr

def stepNormal (c : Char) : Option (St × List Char) :=
  if c = '`' then none
  else if c = '\\' then some (.esc, [])
  else if c = '\r' then some (.cr, ['\n'])
  else if c = '$' then some (.dollar, ['$'])
  else some (.normal, [c])

def stepEsc (c : Char) : Option (St × List Char) :=
  if c = 'n' then some (.normal, ['\n'])
  else if c = 'r' then some (.normal, ['\r'])
  else if c = 't' then some (.normal, ['\t'])
  else if c = 'b' then some (.normal, [Char.ofNat 8])
  else if c = 'v' then some (.normal, [Char.ofNat 11])
  else if c = 'f' then some (.normal, [Char.ofNat 12])
  else if c = '0' then some (.zero, [Char.ofNat 0])
  else if c.isDigit then none
  else if c = 'x' ∨ c = 'u' then none
  else if c = '\n' ∨ c = Char.ofNat 0x2028 ∨ c = Char.ofNat 0x2029 then some (.normal, [])
  else if c = '\r' then some (.escCr, [])
  else some (.normal, [c])

def step : St → Char → Option (St × List Char)
  | .normal, c => stepNormal c
  | .esc, c => stepEsc c
  | .cr, c => if c = '\n' then some (.normal, []) else stepNormal c
  | .dollar, c => if c = '{' then none else stepNormal c
  | .escCr, c => if c = '\n' then some (.normal, []) else stepNormal c
  | .zero, c => if '0' ≤ c ∧ c ≤ '7' then none else stepNormal c

def run : St → List Char → Option (List Char)
  | .esc, [] => none
  | _, [] => some []
  | st, c :: rest =>
    match step st c with
    | none => none
    | some (st', out) => (run st' rest).map (out ++ ·)

/-- the string a JS engine sees for `` `body` ``; `none` = the script does not evaluate to a plain string
    (syntax error, unterminated literal, or a `${}` substitution) -/
def jsTemplateDecode (body : List Char) : Option (List Char) := run .normal body

/-! ### validateObjectPositions -/

/-- a float64 as far as `math.IsInf` can tell -/
inductive F where
  | fin (r : Rat)
  | pinf
  | ninf
  | nan
deriving DecidableEq, Repr

def F.isInf : F → Bool
  | .pinf => true
  | .ninf => true
  | _ => false

def F.isFinite : F → Bool
  | .fin _ => true
  | _ => false

structure Pos where
  x : F
  y : F
deriving DecidableEq, Repr

/-- `validateObjectPositions`: objects without a TopLeft are skipped; `true` = no error returned -/
def validate (objs : List (Option Pos)) : Bool :=
  objs.all fun
    | none => true
    | some p => !(p.x.isInf || p.y.isInf)

end D2V.JsTemplate
