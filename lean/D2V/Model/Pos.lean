/-
  Text layer, positions.  Models

    d2ast/d2ast.go   Position.Advance / Subtract / AdvanceString / SubtractString
    unicode/utf8     RuneLen, DecodeRune (as used by bufio.Reader.ReadRune / strings.Reader.ReadRune:
                     an invalid or truncated sequence yields (U+FFFD, size 1))
    unicode/utf16    EncodeRune (only through "is it a surrogate pair": size 2 iff astral)

  Runes are `Char` (Unicode scalar values): `ReadRune` never returns anything else.
  `Position` fields are Go `int`s and `Subtract` can drive `Column` below zero, so they are `Int`.
  `Position.Subtract`'s `panic("d2ast: cannot subtract newline from Position")` is the explicit
  outcome `.error Crash.subtractNewline`.
-/
namespace D2V.Text

/-- `utf8.RuneLen` on scalar values -/
def utf8Len (c : Char) : Nat :=
  if c.val.toNat < 0x80 then 1 else if c.val.toNat < 0x800 then 2 else if c.val.toNat < 0x10000 then 3 else 4

/-- size used by `Position.Advance` when `byUTF16`: 2 iff `utf16.EncodeRune` yields a surrogate pair -/
def utf16Len (c : Char) : Nat := if c.val.toNat < 0x10000 then 1 else 2

def runeSize (u16 : Bool) (c : Char) : Nat := if u16 then utf16Len c else utf8Len c

structure Pos where
  line : Int
  col : Int
  byte : Int
  deriving DecidableEq, Repr, Inhabited

def Pos.zero : Pos := ⟨0, 0, 0⟩

inductive Crash where
  | subtractNewline   -- panic("d2ast: cannot subtract newline from Position")
  | sliceOOB          -- runtime error: slice bounds out of range (sb.String()[lastPatternIndex:])
  | outOfFuel         -- the model's loop/recursion bound was hit (not a behaviour of the Go code)
  deriving DecidableEq, Repr

/-- `Position.Advance` -/
def Pos.advance (p : Pos) (c : Char) (u16 : Bool) : Pos :=
  if c = '\n' then ⟨p.line + 1, 0, p.byte + runeSize u16 c⟩
  else ⟨p.line, p.col + runeSize u16 c, p.byte + runeSize u16 c⟩

/-- `Position.Subtract` -/
def Pos.subtract (p : Pos) (c : Char) (u16 : Bool) : Except Crash Pos :=
  if c = '\n' then .error .subtractNewline
  else .ok ⟨p.line, p.col - runeSize u16 c, p.byte - runeSize u16 c⟩

/-- `Position.AdvanceString` (a Go string ranged over by rune) -/
def Pos.advanceString (p : Pos) (cs : List Char) (u16 : Bool) : Pos :=
  cs.foldl (fun q c => q.advance c u16) p

/-- `Position.SubtractString` -/
def Pos.subtractString (p : Pos) (cs : List Char) (u16 : Bool) : Except Crash Pos :=
  cs.foldlM (fun q c => q.subtract c u16) p

/-! ### UTF-8 decoding as `ReadRune` does it -/

def isCont (b : UInt8) : Bool := 0x80 ≤ b.toNat && b.toNat ≤ 0xBF

def replacement : Char := Char.ofNat 0xFFFD

/-- `utf8.DecodeRune` on a non-empty buffer `b0 :: rest`: the rune and the number of bytes it took.
    Mirrors the `first`/`acceptRanges` tables: overlong forms, surrogates and values above U+10FFFF
    are invalid; every invalid or truncated sequence is `(U+FFFD, 1)`. -/
def decode1 (b0 : UInt8) (rest : List UInt8) : Char × Nat :=
  let x := b0.toNat
  if x < 0x80 then (Char.ofNat x, 1)
  else if 0xC2 ≤ x ∧ x ≤ 0xDF then
    match rest with
    | b1 :: _ => if isCont b1 then (Char.ofNat ((x % 32) * 64 + b1.toNat % 64), 2) else (replacement, 1)
    | _ => (replacement, 1)
  else if 0xE0 ≤ x ∧ x ≤ 0xEF then
    match rest with
    | b1 :: b2 :: _ =>
      let lo := if x = 0xE0 then 0xA0 else 0x80
      let hi := if x = 0xED then 0x9F else 0xBF
      if lo ≤ b1.toNat ∧ b1.toNat ≤ hi ∧ isCont b2 then
        (Char.ofNat ((x % 16) * 4096 + (b1.toNat % 64) * 64 + b2.toNat % 64), 3)
      else (replacement, 1)
    | _ => (replacement, 1)
  else if 0xF0 ≤ x ∧ x ≤ 0xF4 then
    match rest with
    | b1 :: b2 :: b3 :: _ =>
      let lo := if x = 0xF0 then 0x90 else 0x80
      let hi := if x = 0xF4 then 0x8F else 0xBF
      if lo ≤ b1.toNat ∧ b1.toNat ≤ hi ∧ isCont b2 ∧ isCont b3 then
        (Char.ofNat ((x % 8) * 262144 + (b1.toNat % 64) * 4096 + (b2.toNat % 64) * 64 + b3.toNat % 64), 4)
      else (replacement, 1)
    | _ => (replacement, 1)
  else (replacement, 1)

theorem decode1_size (b0 : UInt8) (rest : List UInt8) :
    1 ≤ (decode1 b0 rest).2 ∧ (decode1 b0 rest).2 ≤ rest.length + 1 := by
  unfold decode1
  simp only
  repeat' split
  all_goals simp

/-- the rune stream `ReadRune` produces from a byte buffer, with the size each read reported.
    `skip` bytes belong to the rune decoded just before (structural, so the kernel can evaluate it). -/
def decodeAux : Nat → List UInt8 → List (Char × Nat)
  | _, [] => []
  | skip + 1, _ :: rest => decodeAux skip rest
  | 0, b0 :: rest => (decode1 b0 rest) :: decodeAux ((decode1 b0 rest).2 - 1) rest

def decodeRunes (bs : List UInt8) : List (Char × Nat) := decodeAux 0 bs

def runesOf (bs : List UInt8) : List Char := (decodeRunes bs).map (·.1)

/-- no read reported a size different from the rune's own encoded length,
    i.e. no byte was replaced by U+FFFD -/
def validUTF8 (bs : List UInt8) : Bool := (decodeRunes bs).all fun p => p.2 == utf8Len p.1

/-! ### UTF-16 -/

/-- `utf16.Encode` of one scalar value -/
def encodeUTF16One (c : Char) : List UInt16 :=
  let v := c.val.toNat
  if v < 0x10000 then [UInt16.ofNat v]
  else [UInt16.ofNat (0xD800 + (v - 0x10000) / 1024), UInt16.ofNat (0xDC00 + (v - 0x10000) % 1024)]

def encodeUTF16 (cs : List Char) : List UInt16 := cs.flatMap encodeUTF16One

/-- UTF-16LE code units → runes as golang.org/x/text's `unicode.UTF16(LittleEndian, UseBOM)` decoder
    (utf16Decoder.Transform) followed by `ReadRune` delivers them.  A unit in D800–DFFF followed by a unit
    in DC00–DFFF is consumed *together* (`utf16.DecodeRune`, which yields U+FFFD unless the first is a high
    surrogate); any other surrogate unit alone becomes U+FFFD. -/
def decodeUTF16Units : List Nat → List Char
  | [] => []
  | [u] => if 0xD800 ≤ u ∧ u ≤ 0xDFFF then [replacement] else [Char.ofNat u]
  | u :: v :: rest =>
    if 0xD800 ≤ u ∧ u ≤ 0xDFFF then
      if 0xDC00 ≤ v ∧ v ≤ 0xDFFF then
        (if u ≤ 0xDBFF then Char.ofNat (0x10000 + (u - 0xD800) * 1024 + (v - 0xDC00)) else replacement)
          :: decodeUTF16Units rest
      else replacement :: decodeUTF16Units (v :: rest)
    else Char.ofNat u :: decodeUTF16Units (v :: rest)

/-- pair little-endian bytes into 16-bit units; the flag reports a dangling last byte -/
def pairUnitsLE : List UInt8 → List Nat × Bool
  | [] => ([], false)
  | [_] => ([], true)
  | a :: b :: rest =>
    let (us, odd) := pairUnitsLE rest
    ((b.toNat * 256 + a.toNat) :: us, odd)

/-- `d2parser.Parse`'s entry: input starting `FF FE` is transcoded from UTF-16LE (BOM dropped, a single
    trailing byte becomes U+FFFD) and positions are forced to UTF-16; anything else is read as UTF-8.
    Returns the rune stream and the effective position mode. -/
def entryRunes (bs : List UInt8) (u16opt : Bool) : List Char × Bool :=
  match bs with
  | 0xFF :: 0xFE :: rest =>
    let (us, odd) := pairUnitsLE rest
    (decodeUTF16Units us ++ (if odd then [replacement] else []), true)
  | _ => (runesOf bs, u16opt)

end D2V.Text
