/-
  FS.Crash — a file system under process kill, for C48.

  Modelled Go (all in terms of the system calls they make on Unix):
    * `os.WriteFile(p, b, 0644)`            = `writeFile`  : open(p, O_WRONLY|O_CREAT|O_TRUNC); write*; close
      (reached through `xmain.(*State).WritePath`)
    * `xmain.(*State).AtomicWritePath(p, b)` = `atomicWrite`: os.CreateTemp(dir p, "tmp-"+base+"-") = open(tmp, O_RDWR|O_CREAT|O_EXCL);
      write*; close; rename(tmp, p); on any error the deferred `os.Remove(tmp)`
    * `d2cli.Write(ms, p, b)`               = `cliWrite`   : interpretation of the statement shape that the tie-R
      generator (translator/fswrite) extracts from d2cli/main.go: try AtomicWritePath, return when it reported no
      error, otherwise fall back to WritePath.

  File system = names (path ↦ inode), inode contents, open descriptors (fd ↦ inode).  Rename is atomic and O_TRUNC
  truncates (assumed OS contract, DESIGN §4).  A process kill is "the operations executed are a prefix of the
  operation list"; `write` may be split in any way (the theorems quantify over the chunk list).  Writes append:
  every descriptor the modelled code writes to was opened with O_TRUNC or O_EXCL and is written sequentially.
  Durability (fsync, power loss) is out of scope.
-/
namespace D2V.FsCrash

abbrev Bytes := List UInt8
abbrev Path := String

structure FS where
  names : Path → Option Nat      -- directory entries
  data  : Nat → Bytes            -- inode contents
  fds   : Nat → Option Nat       -- open descriptors
  next  : Nat                    -- every inode in use is < next

inductive Op where
  | openTrunc (fd : Nat) (p : Path)     -- open(p, O_WRONLY|O_CREAT|O_TRUNC)
  | createExcl (fd : Nat) (p : Path)    -- open(p, O_RDWR|O_CREAT|O_EXCL)   (os.CreateTemp)
  | write (fd : Nat) (bs : Bytes)
  | close (fd : Nat)
  | rename (src dst : Path)
  | remove (p : Path)
  | nop                                  -- a call without effect on names or contents (chmod, mkdir, a failed call)
  deriving Repr

def upd {α β : Type} [DecidableEq α] (f : α → β) (a : α) (b : β) : α → β := fun x => if x = a then b else f x

def step (fs : FS) : Op → FS
  | .openTrunc fd p =>
    match fs.names p with
    | some i => { fs with data := upd fs.data i [], fds := upd fs.fds fd (some i) }
    | none => { names := upd fs.names p (some fs.next), data := upd fs.data fs.next [],
                fds := upd fs.fds fd (some fs.next), next := fs.next + 1 }
  | .createExcl fd p =>
    match fs.names p with
    | some _ => fs                       -- EEXIST: nothing happens
    | none => { names := upd fs.names p (some fs.next), data := upd fs.data fs.next [],
                fds := upd fs.fds fd (some fs.next), next := fs.next + 1 }
  | .write fd bs =>
    match fs.fds fd with
    | some i => { fs with data := upd fs.data i (fs.data i ++ bs) }
    | none => fs                         -- EBADF
  | .close fd => { fs with fds := upd fs.fds fd none }
  | .rename s d =>
    match fs.names s with
    | some i => { fs with names := upd (upd fs.names d (some i)) s none }
    | none => fs                         -- ENOENT
  | .remove p => { fs with names := upd fs.names p none }
  | .nop => fs

def run (fs : FS) (ops : List Op) : FS := ops.foldl step fs

/-- what a reader of `p` sees -/
def content (fs : FS) (p : Path) : Option Bytes := (fs.names p).map fs.data

/-- inodes in use are below `next` (so a freshly created file aliases nothing) -/
def WF (fs : FS) : Prop :=
  (∀ p i, fs.names p = some i → i < fs.next) ∧ (∀ fd i, fs.fds fd = some i → i < fs.next)

/-- `P` holds after every prefix of `ops` (= at every possible kill point) -/
def AllPrefixes (P : FS → Prop) : FS → List Op → Prop
  | fs, [] => P fs
  | fs, o :: r => P fs ∧ AllPrefixes P (step fs o) r

/-- the property's predicate at one instant: the file holds its complete previous or its complete new content -/
def OldOrNew (p : Path) (old : Option Bytes) (new : Bytes) (fs : FS) : Prop :=
  content fs p = old ∨ content fs p = some new

def writes (fd : Nat) (chunks : List Bytes) : List Op := chunks.map (Op.write fd)

/-- `os.WriteFile` -/
def writeFile (fd : Nat) (p : Path) (chunks : List Bytes) : List Op :=
  Op.openTrunc fd p :: (writes fd chunks ++ [Op.close fd])

/-- `AtomicWritePath` when nothing fails -/
def atomicWrite (fd : Nat) (p tmp : Path) (chunks : List Bytes) : List Op :=
  Op.createExcl fd tmp :: (writes fd chunks ++ [Op.close fd, Op.rename tmp p])

/-- where `AtomicWritePath` can report an error -/
inductive Fault where
  | create                         -- CreateTemp failed: nothing was created
  | write (done : Nat)             -- the write after `done` complete chunks failed (the deferred Remove runs; no close)
  | close                          -- Close reported an error
  | rename                         -- Rename failed (cross-device, permissions …): the target is untouched
  deriving Repr, DecidableEq

/-- the operations of one `AtomicWritePath` call with an optional fault; `true` = it returned an error -/
def atomicAttempt (fd : Nat) (p tmp : Path) (chunks : List Bytes) : Option Fault → List Op × Bool
  | none => (atomicWrite fd p tmp chunks, false)
  | some .create => ([], true)
  | some (.write k) => (Op.createExcl fd tmp :: (writes fd (chunks.take k) ++ [Op.remove tmp]), true)
  | some .close => (Op.createExcl fd tmp :: (writes fd chunks ++ [Op.close fd, Op.remove tmp]), true)
  | some .rename => (Op.createExcl fd tmp :: (writes fd chunks ++ [Op.close fd, Op.nop, Op.remove tmp]), true)

/-- statements of `d2cli.Write` as extracted from the source (tie R) -/
inductive WStep where
  | tryAtomic        -- err := ms.AtomicWritePath(path, out)
  | tryPlain         -- err := ms.WritePath(path, out)
  | retIfOk          -- if err == nil { return nil }
  | retAtomic        -- return ms.AtomicWritePath(path, out)
  | retPlain         -- return ms.WritePath(path, out)
  deriving Repr, DecidableEq

def WStep.ofString : String → Option WStep
  | "try:AtomicWritePath" => some .tryAtomic
  | "try:WritePath" => some .tryPlain
  | "ifok:return" => some .retIfOk
  | "return:AtomicWritePath" => some .retAtomic
  | "return:WritePath" => some .retPlain
  | _ => none

/-- operations performed by a `Write`-shaped function; `lastErr` = the value of `err` so far -/
def cliWriteFrom (fd : Nat) (p tmp : Path) (chunks : List Bytes) (fault : Option Fault) :
    List WStep → Bool → List Op
  | [], _ => []
  | .tryAtomic :: r, _ =>
    let a := atomicAttempt fd p tmp chunks fault
    a.1 ++ cliWriteFrom fd p tmp chunks fault r a.2
  | .tryPlain :: r, _ => writeFile fd p chunks ++ cliWriteFrom fd p tmp chunks fault r false
  | .retIfOk :: r, e => if e then cliWriteFrom fd p tmp chunks fault r e else []
  | .retAtomic :: _, _ => (atomicAttempt fd p tmp chunks fault).1
  | .retPlain :: _, _ => writeFile fd p chunks

def cliWrite (shape : List WStep) (fd : Nat) (p tmp : Path) (chunks : List Bytes) (fault : Option Fault) : List Op :=
  cliWriteFrom fd p tmp chunks fault shape true

/-! ### executable prefix checker used by the driver on real system-call traces -/

def optBytesEq (a b : Option Bytes) : Bool := a == b

/-- index of the first prefix (number of executed operations) after which `p` holds neither `old` nor `new` -/
def firstBadPrefix (p : Path) (old : Option Bytes) (new : Bytes) : FS → List Op → Nat → Option Nat
  | fs, ops, k =>
    if !(optBytesEq (content fs p) old || optBytesEq (content fs p) (some new)) then some k
    else match ops with
      | [] => none
      | o :: r => firstBadPrefix p old new (step fs o) r (k + 1)

/-- the initial file system of a sandbox: the listed files exist with the listed contents, nothing is open -/
def mkFS (files : List (Path × Bytes)) : FS :=
  let rec go : List (Path × Bytes) → Nat → FS
    | [], n => { names := fun _ => none, data := fun _ => [], fds := fun _ => none, next := n }
    | (p, b) :: r, n =>
      let fs := go r (n + 1)
      { fs with names := upd fs.names p (some n), data := upd fs.data n b }
  go files 0

end D2V.FsCrash
