/-
  d2lsp editor support — model of `d2lsp.getBoardPathAtPosition` (behind `GetBoardAtPosition`) over the tree of
  map-valued keys of a parsed file, and the specification "innermost board block containing the position".

  Go (d2lsp/d2lsp.go):
      inRange r := !pos.Before(r.Start) && pos.Before(r.End)         -- positions compared by (line, column): Byte = -1
      get(m, cur):  if !inRange(m.Range) → nil
                    for every key n of m with a map value, in source order:
                       at even depth (len cur % 2 = 0) only `layers` / `scenarios` / `steps` are looked at
                       if inRange(n.map.Range): newPath = cur ++ [first key segment]
                           deeper = get(n.map, newPath); if deeper ≠ nil → deeper
                           if len newPath is odd → nil      ("in between boards")
                           else → newPath
                    nil
  The tree here is exactly what that loop looks at: `Node name range kids` for every key with a map value, `name` the
  FIRST segment of the key.  Core Lean only.
-/
namespace D2V.Lsp

structure Pos where
  line : Nat
  col : Nat
deriving Repr, BEq, DecidableEq

/-- `Position.Before` with `Byte = -1` -/
def Pos.before (p q : Pos) : Bool := if p.line != q.line then decide (p.line < q.line) else decide (p.col < q.col)

structure Rng where
  s : Pos
  e : Pos
deriving Repr, BEq, DecidableEq

def Rng.has (r : Rng) (p : Pos) : Bool := !p.before r.s && p.before r.e

inductive Node where
  | mk (name : String) (r : Rng) (kids : List Node)
deriving Repr

def Node.name : Node → String | .mk n _ _ => n
def Node.r : Node → Rng | .mk _ r _ => r
def Node.kids : Node → List Node | .mk _ _ k => k

def isBoardKw (s : String) : Bool := s == "layers" || s == "scenarios" || s == "steps"

mutual
/-- the loop of `getBoardPathAtPosition` over the keys of a map already known to contain `p` -/
def atList : List Node → List String → Pos → Option (List String)
  | [], _, _ => none
  | n :: rest, cur, p =>
    match atNode n cur p with
    | some res => res
    | none => atList rest cur p
/-- one key: `none` = the loop goes on to the next key; `some r` = the function returns `r` -/
def atNode : Node → List String → Pos → Option (Option (List String))
  | .mk name r kids, cur, p =>
    if cur.length % 2 == 0 && !isBoardKw name then none
    else if r.has p then
      match atList kids (cur ++ [name]) p with
      | some d => some (some d)
      | none => if (cur.length + 1) % 2 == 1 then some none else some (some (cur ++ [name]))
    else none
end

/-- `GetBoardAtPosition` on the tree of a parsed file: `none` is Go's nil (the root board) -/
def boardAtPos (root : Rng) (kids : List Node) (p : Pos) : Option (List String) :=
  if root.has p then atList kids [] p else none

/-! ### specification: the board blocks of a file and the innermost one containing a position -/

structure Block where
  path : List String     -- kind, name, kind, name, …
  r : Rng
deriving Repr, BEq

mutual
/-- blocks below a list of keys at depth `cur.length`: at even depth only board-keyword keys count (their map is the
    container of boards), at odd depth every map-valued key is a board and its map is the board's block -/
def blocksList : List Node → List String → List Block
  | [], _ => []
  | n :: rest, cur => blocksNode n cur ++ blocksList rest cur
def blocksNode : Node → List String → List Block
  | .mk name r kids, cur =>
    if cur.length % 2 == 0 then
      if isBoardKw name then blocksList kids (cur ++ [name]) else []
    else ⟨cur ++ [name], r⟩ :: blocksList kids (cur ++ [name])
end

/-- the longest path among the blocks containing `p` (first one on ties); `none` when no block contains `p` -/
def innermost : List Block → Pos → Option (List String)
  | [], _ => none
  | b :: rest, p =>
    match innermost rest p with
    | some q => if b.r.has p && q.length < b.path.length then some b.path else some q
    | none => if b.r.has p then some b.path else none

/-- property wording: "the innermost board whose block contains the position" -/
def innermostBoard (blocks : List Block) (p : Pos) : Option (List String) := innermost blocks p

/-- the one place where the code deliberately deviates: inside a `layers/scenarios/steps` container of the innermost
    board but outside every board declared there ("in between boards") the code answers nil (root) -/
def betweenBoards (containers : List Block) (p : Pos) (inner : Option (List String)) : Bool :=
  containers.any fun c => c.r.has p && c.path.dropLast == inner.getD []

mutual
/-- container blocks (`layers: {…}`) with the path of the board they belong to extended by the keyword -/
def containersList : List Node → List String → List Block
  | [], _ => []
  | n :: rest, cur => containersNode n cur ++ containersList rest cur
def containersNode : Node → List String → List Block
  | .mk name r kids, cur =>
    if cur.length % 2 == 0 then
      if isBoardKw name then ⟨cur ++ [name], r⟩ :: containersList kids (cur ++ [name]) else []
    else containersList kids (cur ++ [name])
end

mutual
/-- executable well-nestedness at `p` (the hypothesis of `board_at_pos_innermost`, evaluated by the driver on every
    tree the real parser produced): a key whose child contains `p` contains `p`; sibling keys never both contain `p` -/
def wnListB (p : Pos) : List Node → Bool
  | [] => true
  | n :: rest => wnNodeB p n && wnListB p rest && (!n.r.has p || rest.all fun m => !m.r.has p)
def wnNodeB (p : Pos) : Node → Bool
  | .mk _ r kids => wnListB p kids && kids.all fun k => !k.r.has p || r.has p
end

end D2V.Lsp
