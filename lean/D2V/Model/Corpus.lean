/-
  Model of the font corpus of a diagram: `d2target.Diagram.GetCorpus` / `GetNestedCorpus` (d2target/d2target.go),
  `ClassField.Text/VisibilityToken`, `ClassMethod.…`, `SQLColumn.Texts/ConstraintAbbr` (d2target/class.go, sqltable.go),
  and the dedupe loop of `d2fonts.Font.GetEncodedSubset` (`uniqueChars`).

  `drawn` is the Spec side: the texts the SVG renderer draws from the same diagram fields (d2svg.go `drawShape`,
  `drawConnection`, `RenderLegend`, class.go, table.go, appendix.go): labels, tooltips (`<title>` and appendix line),
  appendix numerals, pretty links, class rows (visibility token, name, type drawn separately), table cells, connection
  and arrowhead labels, the legend.  Characters the renderer *adds* that are in no diagram field (the single space drawn
  for a blank label line, the U+00A0 the code-snippet replacer substitutes for spaces) are outside this model; they
  are judged by the Spec-on-impl stream (decoded fonts vs. SVG text).
-/
namespace D2V.Corpus

structure Row where            -- ClassField / ClassMethod
  name : List Char
  ty : List Char               -- Type / Return
  vis : String
  deriving Repr

structure Column where
  name : List Char
  ty : List Char
  cons : List (List Char)
  deriving Repr

structure Shape where
  label : List Char
  tooltip : List Char
  link : List Char
  pretty : List Char
  kind : String
  fields : List Row
  methods : List Row
  cols : List Column
  deriving Repr

structure Conn where
  label : List Char
  src : Option (List Char)
  dst : Option (List Char)
  deriving Repr

structure Legend where
  label : List Char
  shapes : List (List Char)
  conns : List (List Char)
  deriving Repr

structure Board where
  shapes : List Shape
  conns : List Conn
  legend : Option Legend
  deriving Repr

inductive Tree where
  | node (b : Board) (kids : List Tree)

def visToken (v : String) : List Char :=
  if v == "protected" then ['#'] else if v == "private" then ['-'] else ['+']

def abbr (c : List Char) : List Char :=
  if c == "primary_key".toList then ['P', 'K']
  else if c == "foreign_key".toList then ['F', 'K']
  else if c == "unique".toList then ['U', 'N', 'Q']
  else c

def joinComma : List (List Char) → List Char
  | [] => []
  | [a] => a
  | a :: rest => a ++ ',' :: ' ' :: joinComma rest

def constraintAbbr (cs : List (List Char)) : List Char := joinComma (cs.map abbr)

/-- `fmt.Sprint(n)` -/
def sprint (n : Nat) : List Char := Nat.toDigits 10 n

/-- pieces a class row contributes: `cf.Text(0).Text + cf.VisibilityToken()` -/
def rowPieces (r : Row) : List (List Char) := [r.name ++ r.ty, visToken r.vis]
def colPieces (c : Column) : List (List Char) := [c.name, c.ty, constraintAbbr c.cons, constraintAbbr c.cons]

/-- appendix counter after a shape that started at `cnt` -/
def cntAfterTip (s : Shape) (cnt : Nat) : Nat := if s.tooltip.isEmpty then cnt else cnt + 1
def cntAfter (s : Shape) (cnt : Nat) : Nat := if s.link.isEmpty then cntAfterTip s cnt else cntAfterTip s cnt + 1

def tipPieces (s : Shape) (cnt : Nat) : List (List Char) := if s.tooltip.isEmpty then [] else [s.tooltip, sprint (cnt + 1)]
def linkPieces (s : Shape) (cnt : Nat) : List (List Char) :=
  (if s.link.isEmpty then [] else [s.link, sprint (cntAfterTip s cnt + 1)]) ++ [s.pretty]
def classPieces (s : Shape) : List (List Char) :=
  if s.kind == "class" then s.fields.flatMap rowPieces ++ s.methods.flatMap rowPieces else []
def tablePieces (s : Shape) : List (List Char) := if s.kind == "sql_table" then s.cols.flatMap colPieces else []

/-- pieces of one shape (the loop body of `GetCorpus`), in the order they are appended -/
def shapePieces (s : Shape) (cnt : Nat) : List (List Char) × Nat :=
  ([s.label] ++ tipPieces s cnt ++ linkPieces s cnt ++ classPieces s ++ tablePieces s, cntAfter s cnt)

def shapesPieces : List Shape → Nat → List (List Char)
  | [], _ => []
  | s :: rest, cnt => (shapePieces s cnt).1 ++ shapesPieces rest (shapePieces s cnt).2

def connPieces (c : Conn) : List (List Char) :=
  [c.label] ++ (match c.src with | some l => [l] | none => []) ++ (match c.dst with | some l => [l] | none => [])

def legendPieces (l : Legend) : List (List Char) :=
  [if l.label.isEmpty then "Legend".toList else l.label] ++ l.shapes ++ l.conns

def boardPieces (b : Board) : List (List Char) :=
  shapesPieces b.shapes 0 ++ b.conns.flatMap connPieces ++ (match b.legend with | some l => legendPieces l | none => [])

/-- `Diagram.GetCorpus` -/
def corpus (b : Board) : List Char := (boardPieces b).flatten

mutual
  /-- `Diagram.GetNestedCorpus`: own corpus, then layers, scenarios, steps (the children, in that order) -/
  def nestedCorpus : Tree → List Char
    | .node b kids => corpus b ++ nestedCorpusList kids
  def nestedCorpusList : List Tree → List Char
    | [] => []
    | t :: ts => nestedCorpus t ++ nestedCorpusList ts
end

/-! ### what is drawn (Spec) -/

def rowDrawn (r : Row) : List (List Char) := [visToken r.vis, r.name, r.ty]
def colDrawn (c : Column) : List (List Char) := [c.name, c.ty, constraintAbbr c.cons]

def tipDrawn (s : Shape) (cnt : Nat) : List (List Char) := if s.tooltip.isEmpty then [] else [s.tooltip, sprint (cnt + 1)]
def linkDrawn (s : Shape) (cnt : Nat) : List (List Char) :=
  if s.link.isEmpty then [] else [sprint (cntAfterTip s cnt + 1), s.pretty]
def classDrawn (s : Shape) : List (List Char) :=
  if s.kind == "class" then s.fields.flatMap rowDrawn ++ s.methods.flatMap rowDrawn else []
def tableDrawn (s : Shape) : List (List Char) := if s.kind == "sql_table" then s.cols.flatMap colDrawn else []

/-- texts drawn for one shape, given the appendix counter before it -/
def shapeDrawn (s : Shape) (cnt : Nat) : List (List Char) × Nat :=
  ([s.label] ++ tipDrawn s cnt ++ linkDrawn s cnt ++ classDrawn s ++ tableDrawn s, cntAfter s cnt)

def shapesDrawn : List Shape → Nat → List (List Char)
  | [], _ => []
  | s :: rest, cnt => (shapeDrawn s cnt).1 ++ shapesDrawn rest (shapeDrawn s cnt).2

def drawn (b : Board) : List (List Char) :=
  shapesDrawn b.shapes 0 ++ b.conns.flatMap connPieces ++ (match b.legend with | some l => legendPieces l | none => [])

mutual
  /-- every text drawn on any board of the tree (an animated SVG embeds one font set for all boards) -/
  def nestedDrawn : Tree → List (List Char)
    | .node b kids => drawn b ++ nestedDrawnList kids
  def nestedDrawnList : List Tree → List (List Char)
    | [] => []
    | t :: ts => nestedDrawn t ++ nestedDrawnList ts
end

/-- Spec on an observation: every character of every drawn text occurs in the corpus -/
def covered (texts : List (List Char)) (corp : List Char) : Bool := texts.all fun t => t.all fun c => corp.contains c

/-! ### `GetEncodedSubset`'s dedupe loop -/

/-- `uniqueChars`: first occurrences, in order (the accumulator is reversed) -/
def uniqStep (acc : List Char) (c : Char) : List Char := if acc.contains c then acc else c :: acc
def uniqueChars (s : List Char) : List Char := (s.foldl uniqStep []).reverse

end D2V.Corpus
