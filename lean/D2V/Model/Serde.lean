/-
  Wire.Serde — the layout-plugin wire format of d2graph/serde.go, for C26.

  Modelled Go:
    * `Object.AbsID`            parent chain joined with "." (a parent with ID "" — the root — contributes nothing)
    * `SerializeGraph`          root, objects in `g.Objects` order, each with `AbsID` and (when non-empty) the AbsIDs of
                                its `ChildrenArray`; edges with `Src`/`Dst` AbsIDs
    * `DeserializeGraph`        table `idToObj` keyed by AbsID (`""` ↦ root first, then every object, a later equal key
                                replaces the earlier one); for every serialized object followed by the root, when it has
                                a children list: look the children up, set their `Parent` to `idToObj[AbsID]`, store the
                                list on `idToObj[AbsID]`; edges get `Src`/`Dst` by lookup (missing key ↦ nil)
  The graph is an arena: node 0 is the root, node i+1 is `g.Objects[i]`; `Parent`/`ChildrenArray`/`Src`/`Dst` are arena
  indices.  Everything else an object or edge carries (ID, attributes, geometry …) travels through `encoding/json`
  (`Convert`) and is the opaque token `attrs` here (assumed: Unmarshal ∘ Marshal preserves it; sampled by the harness).
  A nil dereference in Go (`o.ID` of a child that is not in the table) is `none`.
-/
namespace D2V.Serde

structure Node where
  id : String
  attrs : String
  parent : Option Nat
  kids : List Nat
  deriving DecidableEq, Repr, Inhabited

structure Edge where
  attrs : String
  src : Option Nat
  dst : Option Nat
  deriving DecidableEq, Repr

structure Graph where
  n : Nat                 -- number of nodes, root included
  node : Nat → Node
  edges : List Edge

/-- `Object.AbsID` with fuel (the parent chain of a well-formed graph is shorter than the number of nodes) -/
def absIDF (g : Graph) : Nat → Nat → String
  | 0, _ => ""
  | f + 1, i =>
    match (g.node i).parent with
    | some p => if (g.node p).id ≠ "" then absIDF g f p ++ "." ++ (g.node i).id else (g.node i).id
    | none => (g.node i).id

def absID (g : Graph) (i : Nat) : String := absIDF g g.n i

structure SObj where
  id : String
  attrs : String
  absID : String
  kids : List String      -- `ChildrenArray`; absent on the wire when empty
  deriving DecidableEq, Repr

structure SEdge where
  attrs : String
  src : Option String
  dst : Option String
  deriving DecidableEq, Repr

structure SGraph where
  root : SObj
  objs : List SObj
  edges : List SEdge
  deriving Repr

def sobj (g : Graph) (i : Nat) : SObj :=
  { id := (g.node i).id, attrs := (g.node i).attrs, absID := absID g i, kids := (g.node i).kids.map (absID g) }

/-- `SerializeGraph` -/
def serialize (g : Graph) : SGraph :=
  { root := sobj g 0
    objs := (List.range' 1 (g.n - 1)).map (sobj g)
    edges := g.edges.map fun e => { attrs := e.attrs, src := e.src.map (absID g), dst := e.dst.map (absID g) } }

def upd {β : Type} (f : Nat → β) (a : Nat) (b : β) : Nat → β := fun x => if x = a then b else f x

abbrev Table := String → Option Nat

def tblSet (t : Table) (k : String) (v : Nat) : Table := fun x => if x = k then some v else t x

/-- `idToObj`: "" ↦ root, then object i (1-based arena index) under its AbsID, later entries win -/
def mkTable (objs : List SObj) : Table :=
  let rec go : List SObj → Nat → Table → Table
    | [], _, t => t
    | so :: r, i, t => go r (i + 1) (tblSet t so.absID i)
  go objs 1 (tblSet (fun _ => none) "" 0)

def lookupAll (t : Table) : List String → Option (List Nat)
  | [] => some []
  | k :: r => match t k, lookupAll t r with
    | some i, some l => some (i :: l)
    | _, _ => none

def setParents (node : Nat → Node) (self : Nat) : List Nat → Nat → Node
  | [] => node
  | c :: r => setParents (upd node c { node c with parent := some self }) self r

/-- one iteration of the children loop of `DeserializeGraph` -/
def linkStep (t : Table) (node : Nat → Node) (so : SObj) : Option (Nat → Node) :=
  if so.kids = [] then some node
  else
    match t so.absID, lookupAll t so.kids with
    | some self, some ks =>
      let node := setParents node self ks
      some (upd node self { node self with kids := ks })
    | _, _ => none

def linkAll (t : Table) : (Nat → Node) → List SObj → Option (Nat → Node)
  | node, [] => some node
  | node, so :: r => match linkStep t node so with
    | some node' => linkAll t node' r
    | none => none

def initNode (sg : SGraph) (i : Nat) : Node :=
  match i with
  | 0 => { id := sg.root.id, attrs := sg.root.attrs, parent := none, kids := [] }
  | k + 1 => match sg.objs[k]? with
    | some so => { id := so.id, attrs := so.attrs, parent := none, kids := [] }
    | none => default

/-- `DeserializeGraph`; `none` = nil dereference -/
def deserialize (sg : SGraph) : Option Graph :=
  let t := mkTable sg.objs
  match linkAll t (initNode sg) (sg.objs ++ [sg.root]) with
  | none => none
  | some node =>
    some { n := sg.objs.length + 1, node := node,
           edges := sg.edges.map fun se => { attrs := se.attrs, src := se.src.bind t, dst := se.dst.bind t } }

/-- the part of a graph the wire format is about: nodes below `n` and the edge list -/
def Graph.sameAs (a b : Graph) : Prop := a.n = b.n ∧ (∀ i, i < a.n → a.node i = b.node i) ∧ a.edges = b.edges

def Graph.sameAsB (a b : Graph) : Bool :=
  a.n == b.n && (List.range a.n).all (fun i => a.node i == b.node i) && a.edges == b.edges

/-- hierarchy is a forest hanging off node 0: parent pointers and children lists agree, all indices are in range -/
structure TreeWF (g : Graph) : Prop where
  pos : 0 < g.n
  root_id : (g.node 0).id = ""
  root_parent : (g.node 0).parent = none
  kid_parent : ∀ p c, p < g.n → c ∈ (g.node p).kids → c < g.n ∧ (g.node c).parent = some p
  parent_kid : ∀ c p, c < g.n → (g.node c).parent = some p → p < g.n ∧ c ∈ (g.node p).kids
  edges_in : ∀ e ∈ g.edges, (∀ s, e.src = some s → s < g.n) ∧ (∀ d, e.dst = some d → d < g.n)

/-- AbsIDs name nodes uniquely (C06 for the objects; the root's is "") -/
def AbsInj (g : Graph) : Prop := ∀ i j, i < g.n → j < g.n → absID g i = absID g j → i = j

end D2V.Serde
