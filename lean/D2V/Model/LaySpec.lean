/-
  Spec layer of the layout group (C17, C19, C20): the property sentences as decidable predicates over what
  the real layout returned (exact rationals).  Core Lean only.  Nothing here mentions a model of the layout
  engines: dagre.js / elk.js run inside goja and are outside any Lean model; these predicates are evaluated by
  the drivers on every laid-out diagram ("Spec-on-impl"), and the lemmas proved about them in Props/C19, C20
  are what makes the evaluation meaningful (symmetry, transitivity, invariance under the translations that
  `PositionNested` / `FitToGraph` / `shift` apply).
-/
namespace D2V.Lay

structure Box where
  x : Rat
  y : Rat
  w : Rat
  h : Rat
deriving Repr, BEq, DecidableEq

def Box.right (b : Box) : Rat := b.x + b.w
def Box.bottom (b : Box) : Rat := b.y + b.h

def Box.translate (b : Box) (dx dy : Rat) : Box := { b with x := b.x + dx, y := b.y + dy }

/-- `inner` lies inside `outer`, up to `tol` on every side -/
def encloses (tol : Rat) (outer inner : Box) : Prop :=
  outer.x - tol ≤ inner.x ∧ outer.y - tol ≤ inner.y ∧
    inner.right ≤ outer.right + tol ∧ inner.bottom ≤ outer.bottom + tol

instance (tol : Rat) (a b : Box) : Decidable (encloses tol a b) := by unfold encloses; infer_instance

/-- the two boxes do not overlap by more than `tol` (in at least one axis their overlap is ≤ tol) -/
def disjointTol (tol : Rat) (a b : Box) : Prop :=
  a.right ≤ b.x + tol ∨ b.right ≤ a.x + tol ∨ a.bottom ≤ b.y + tol ∨ b.bottom ≤ a.y + tol

instance (tol : Rat) (a b : Box) : Decidable (disjointTol tol a b) := by unfold disjointTol; infer_instance

/-- the one-pixel rounding tolerance the property states -/
def px : Rat := 1

def disjoint1px (a b : Box) : Prop := disjointTol px a b
def encloses1px (a b : Box) : Prop := encloses px a b
instance (a b : Box) : Decidable (disjoint1px a b) := by unfold disjoint1px; infer_instance
instance (a b : Box) : Decidable (encloses1px a b) := by unfold encloses1px; infer_instance

structure Pt where
  x : Rat
  y : Rat
deriving Repr, BEq, DecidableEq

/-- `p` is in the closed box inflated by `tol` -/
def Box.containsTol (b : Box) (tol : Rat) (p : Pt) : Prop :=
  b.x - tol ≤ p.x ∧ p.x ≤ b.right + tol ∧ b.y - tol ≤ p.y ∧ p.y ≤ b.bottom + tol

/-- `p` is strictly inside the box deflated by `tol` -/
def Box.strictlyInsideTol (b : Box) (tol : Rat) (p : Pt) : Prop :=
  b.x + tol < p.x ∧ p.x < b.right - tol ∧ b.y + tol < p.y ∧ p.y < b.bottom - tol

/-- `p` lies on the border of `b` within `tol` -/
def Box.onBorder (b : Box) (tol : Rat) (p : Pt) : Prop :=
  b.containsTol tol p ∧ ¬ b.strictlyInsideTol tol p

instance (b : Box) (tol : Rat) (p : Pt) : Decidable (b.containsTol tol p) := by unfold Box.containsTol; infer_instance
instance (b : Box) (tol : Rat) (p : Pt) : Decidable (b.strictlyInsideTol tol p) := by
  unfold Box.strictlyInsideTol; infer_instance
instance (b : Box) (tol : Rat) (p : Pt) : Decidable (b.onBorder tol p) := by unfold Box.onBorder; infer_instance

/-- what the harness reports about one laid-out shape -/
structure Obj where
  id : String
  parent : String
  shape : String
  box : Box
  olabel : Option Box     -- rectangle of an outside label (as `TraceToShape` computes it)
  oicon : Option Box      -- rectangle of an outside icon, as drawn (`GetIconSize`)
  oiconMax : Option Box   -- the same icon at MAX_ICON_SIZE: the rectangle `TraceToShape` uses for a *source*
  is3d : Bool
  multiple : Bool
  inSeq : Bool            -- some ancestor is a sequence diagram
  isSeq : Bool
  isGrid : Bool
  constNear : Bool
  container : Bool
  near : String           -- the near key (a constant such as top-left when `constNear`)
  labelPos : String
  labelH : Int
  labelW : Int
  hasLabel : Bool
  preW : Rat              -- width after SetDimensions, before layout
  seqGroup : Bool         -- `IsSequenceDiagramGroup`
  seqNote : Bool          -- `IsSequenceDiagramNote`
  line : Int              -- earliest source line of a (non-glob) reference
deriving Repr

structure Edge where
  id : String
  src : String
  dst : String
  route : List Pt
  lifeline : Bool
  inSeq : Bool
  labelH : Int
  labelW : Int
  line : Int
  srcPerim : String       -- "yes" / "no": first point within 2 px of the source's real outline; "rect": outline = box
  dstPerim : String
deriving Repr

/-- `GetModifierElementAdjustments`: (dx, dy) of the 3D / multiple decoration -/
def modifierOffsets (o : Obj) : Rat × Rat :=
  if o.is3d then (15, if o.shape = "hexagon" then 15 / 2 else 15)
  else if o.multiple then (10, 10)
  else (0, 0)

/-- the rectangles that make up the visual extent of a shape: its box, the outside label (with the ±PADDING the
    tracer adds left and right) and the outside icon — and all of these shifted by the 3D/multiple offset (right
    and up): `Layout` of dagre moves the whole object by that offset before tracing when the route arrives in the
    decorated corner, so the label/icon rectangles move with it -/
def extentRects (o : Obj) : List Box :=
  let (dx, dy) := modifierOffsets o
  let base : List Box :=
    [o.box] ++
    (match o.olabel with | some l => [{ l with x := l.x - 5, w := l.w + 10 }, l] | none => []) ++
    (match o.oicon with | some i => [i] | none => [])
  if dx ≠ 0 ∨ dy ≠ 0 then base ++ base.map (fun b => b.translate dx (-dy)) else base

/-- shapes whose outline is their bounding box -/
def rectangularShapes : List String :=
  ["", "rectangle", "square", "text", "code", "class", "sql_table", "image", "sequence_diagram", "hierarchy"]

/-- half length of the harness' outline probes (lay.nearPerimeter) -/
def probeReach : Rat := 2

/-- the extent rectangles other than the shape's own box (labels, icons, and their decorated copies) -/
def attachmentRects (o : Obj) : List Box := (extentRects o).filter (· != o.box)

/-- C20 for one endpoint.  Rectangular outline: on the border of one of the extent rectangles.  Other outlines
    (`perim` = what the harness measured with lib/shape + lib/geo: the point is within 2 px of the real outline):
    on the outline, or on the border of an outside label / icon / decorated copy; in any case inside the extent. -/
def endsOnExtent (tol : Rat) (o : Obj) (perim : String) (p : Pt) : Bool :=
  if rectangularShapes.contains o.shape || perim == "rect" then
    (extentRects o).any fun r => decide (r.onBorder tol p)
  else
    -- the outline probe has a reach of 2 px: the accompanying "inside the extent" test uses the same reach, so that
    -- an end the probe places on the outline is not rejected for being 1.3 px outside a fractional bounding box
    ((extentRects o).any fun r => decide (r.containsTol (max tol probeReach) p)) &&
      (perim == "yes" || (attachmentRects o).any fun r => decide (r.onBorder tol p))

/-- distance of `p` from the border of `b`: outside the box the larger of the two axis distances, inside it the
    distance to the nearest side -/
def Box.borderDist (b : Box) (p : Pt) : Rat :=
  let dx := max (b.x - p.x) (max (p.x - b.right) 0)
  let dy := max (b.y - p.y) (max (p.y - b.bottom) 0)
  if dx > 0 ∨ dy > 0 then max dx dy
  else min (min (p.x - b.x) (b.right - p.x)) (min (p.y - b.y) (b.bottom - p.y))

/-- distance of `p` from the nearest border of the rectangles of the visual extent -/
def extentDist (o : Obj) (p : Pt) : Rat :=
  match (extentRects o).map (fun r => r.borderDist p) with
  | [] => 0
  | d :: ds => ds.foldl min d

/-- where `p` lies relative to the shape's own box: "inside"; "left" / "right" / "top" / "bottom" when it faces
    that side (the other coordinate is strictly within the side, more than 1 px from its ends); "corner" otherwise
    (beyond two sides, or on the prolongation of a side) -/
def sideOf (o : Obj) (p : Pt) : String :=
  let b := o.box
  let inX := decide (b.x + 1 < p.x ∧ p.x < b.right - 1)
  let inY := decide (b.y + 1 < p.y ∧ p.y < b.bottom - 1)
  let outL := decide (p.x < b.x)
  let outR := decide (b.right < p.x)
  let outT := decide (p.y < b.y)
  let outB := decide (b.bottom < p.y)
  if !(outL || outR || outT || outB) then "inside"
  else if inY && outL then "left"
  else if inY && outR then "right"
  else if inX && outT then "top"
  else if inX && outB then "bottom"
  else "corner"

/-- the point sits on the border of the MAX_ICON_SIZE rectangle of an outside icon (or its decorated copy):
    `TraceToShape` cuts a route at that rectangle for a source while the icon is drawn smaller -/
def onMaxIcon (tol : Rat) (o : Obj) (p : Pt) : Bool :=
  match o.oiconMax with
  | none => false
  | some r =>
    let (dx, dy) := modifierOffsets o
    decide (r.onBorder tol p) || decide ((r.translate dx (-dy)).onBorder tol p)

/-- C17: sizes are non-negative (finiteness is decided when the exact rationals are read: a NaN or an infinity
    is not a rational) and routes have at least two points -/
def finiteGeometry (objs : List Obj) (edges : List Edge) : Bool :=
  objs.all (fun o => decide (0 ≤ o.box.w ∧ 0 ≤ o.box.h)) && edges.all (fun e => decide (2 ≤ e.route.length))

end D2V.Lay
