/-
  Model of the sizing decision of `d2graph.Graph.SetDimensions` for one object, with `GetDefaultSize` (simple label
  shapes, text, code, image) and `Object.SizeToContent`, over exact rationals.

  Inputs are what the decision reads: the shape (DSL name and `lib/shape` type, classified by `Dsl.ofString` /
  `TC.ofType` / `Kind.ofType` into the cases the Go code distinguishes), whether the label is empty, the measured
  label size (the ruler is outside the model), explicit `width` / `height` (0 = not given), icon, link + tooltip,
  the font size (code shapes), whether the object is a "content shape" (`SQLTable != nil || Class != nil ||
  Language != ""`), the default padding of the shape type, and — for class / sql_table whose default size is
  computed from their rows — the content size `GetDefaultSize` returned.
  Per-shape `GetDimensionsToFit` comes from `D2V.Shape` (C27).
-/
import D2V.Model.Shape
namespace D2V.Sizing
open D2V.Shape

def innerLabelPadding : Rat := 5
def defaultShapeSize : Rat := 100
def minShapeSize : Rat := 5

/-- the DSL shape names `SetDimensions` / `GetDefaultSize` single out -/
inductive Dsl where
  | circle | square | image | cls | sqlTable | text | code | other
deriving Repr, BEq, DecidableEq

def Dsl.ofString (s : String) : Dsl :=
  match s with
  | "circle" => .circle | "square" => .square | "image" => .image | "class" => .cls
  | "sql_table" => .sqlTable | "text" => .text | "code" => .code | _ => .other

/-- the `lib/shape` types `SetDimensions` / `SizeToContent` single out -/
inductive TC where
  | table | cls | code | text | person | oval | circle | other
deriving Repr, BEq, DecidableEq

def TC.ofType (s : String) : TC :=
  match s with
  | "Table" => .table | "Class" => .cls | "Code" => .code | "Text" => .text
  | "Person" => .person | "Oval" => .oval | "Circle" => .circle | _ => .other

structure In where
  dsl : Dsl             -- `strings.ToLower(obj.Shape.Value)`, classified
  tc : TC               -- `d2target.DSL_SHAPE_TO_SHAPE_TYPE[dsl]`, classified
  kind : Option Kind    -- the same type as a modelled `lib/shape` kind (`none`: oval, circle, cloud)
  labelEmpty : Bool
  lw : Rat
  lh : Rat
  dw : Rat              -- desiredWidth (0 = absent)
  dh : Rat
  hasIcon : Bool
  linkTooltip : Bool    -- `obj.Link != nil && obj.Tooltip != nil`
  fontSize : Rat
  contentShape : Bool
  padX : Rat            -- `s.GetDefaultPadding()`
  padY : Rat
  content : Option (Rat × Rat)   -- observed `GetDefaultSize` for class / sql_table
deriving Repr

/-- `GetDefaultSize` for the shapes whose default size is a function of the label size alone -/
def defaultDims (i : In) (withPad : Bool) : Option (Rat × Rat) :=
  let l : Rat × Rat :=
    if i.dsl = .code then (i.lw + i.fontSize, i.lh + i.fontSize)
    else if withPad then (i.lw + innerLabelPadding, i.lh + innerLabelPadding)
    else (i.lw, i.lh)
  match i.dsl with
  | .text => some (max l.1 minShapeSize, max l.2 minShapeSize)
  | .image => some (128, 128)
  | .cls | .sqlTable => i.content
  | _ => some l

/-- `s.AspectRatio1()`: real squares and circles -/
def isAR1 (i : In) : Bool := decide (i.kind = some .realSquare ∨ i.tc = .circle)

/-- `obj.SizeToContent(cw, ch, px, py)`; `none` when the shape's `GetDimensionsToFit` is not modelled -/
def sizeToContent (i : In) (cw ch px py : Rat) : Option (Rat × Rat) :=
  let fitted : Option (Rat × Rat) :=
    if i.tc = .person then some (cw + px, ch + py)
    else match i.kind with
      | some k => some (fit k cw ch px py)
      | none => none
  match fitted with
  | none => none
  | some f =>
    let w0 := if i.dw ≠ 0 then i.dw else f.1
    let h0 := if i.dh ≠ 0 then i.dh else f.2
    let w1 := if i.contentShape then max i.dw f.1 else w0
    let h1 := if i.contentShape then max i.dh f.2 else h0
    if isAR1 i then some (max w1 h1, max w1 h1)
    else if i.dh = 0 ∨ i.dw = 0 then
      if i.tc = .person then some (limitAR w1 h1 D2V.Gen.Shape.personARLimit)
      else if i.tc = .oval then some (limitAR w1 h1 D2V.Gen.Shape.ovalARLimit)
      else some (w1, h1)
    else some (w1, h1)

/-- the paddings `SetDimensions` passes to `SizeToContent` -/
def paddings (i : In) : Rat × Rat :=
  let px0 := if i.dw ≠ 0 then 0 else i.padX
  let py0 := if i.dh ≠ 0 then 0 else i.padY
  let noIconPad := i.tc = .table ∨ i.tc = .cls ∨ i.tc = .code ∨ i.tc = .text
  let labelHeight := i.lh + innerLabelPadding
  let px1 := if i.hasIcon = true ∧ ¬ noIconPad ∧ i.dw = 0 then px0 + labelHeight else px0
  let py1 := if i.hasIcon = true ∧ ¬ noIconPad ∧ i.dh = 0 then py0 + labelHeight else py0
  let noLinkPad := i.tc = .table ∨ i.tc = .cls ∨ i.tc = .code
  let px2 := if i.dw = 0 ∧ ¬ noLinkPad ∧ i.linkTooltip = true then px1 + 64 else px1
  (px2, py1)

/-- `withInnerLabelPadding` -/
def withPad (i : In) : Bool := decide (i.dw = 0) && decide (i.dh = 0) && decide (i.dsl ≠ .text) && !i.labelEmpty

/-- the per-object body of `SetDimensions` -/
def sizeOfObj (i : In) : Option (Rat × Rat) :=
  if i.labelEmpty = true ∧ i.dsl ≠ .image ∧ i.dsl ≠ .sqlTable ∧ i.dsl ≠ .cls then
    if i.dsl = .circle ∨ i.dsl = .square then
      let s := if i.dw ≠ 0 ∨ i.dh ≠ 0 then max i.dw i.dh else defaultShapeSize
      some (s, s)
    else
      some (if i.dw ≠ 0 then i.dw else defaultShapeSize, if i.dh ≠ 0 then i.dh else defaultShapeSize)
  else
    match defaultDims i (withPad i) with
    | none => none
    | some c =>
      if i.dsl = .image then
        some (max minShapeSize (if i.dw = 0 then c.1 else i.dw), max minShapeSize (if i.dh = 0 then c.2 else i.dh))
      else
        sizeToContent i c.1 c.2 (paddings i).1 (paddings i).2

end D2V.Sizing
