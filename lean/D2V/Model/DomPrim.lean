/-
  Value-parsing primitives that d2's attribute validation calls (Go standard library), modelled exactly:
    `strconv.Atoi`, `strconv.ParseBool`, `strconv.ParseFloat(s, 64)` (accept set + correctly rounded value),
    the hex-colour regexp of `lib/color`, `strings.ToLower` on ASCII.
  and the comparison vocabulary `Cmp` used by the guards that `translator/domains` regenerates from the Go source.
  A float64 is `FVal`: a finite value carried as the exact rational it denotes, or NaN / ±Inf. Comparisons with
  NaN are false, as in IEEE 754 / Go.
-/
namespace D2V.Dom

inductive FVal where
  | fin (r : Rat)
  | nan
  | posInf
  | negInf
deriving Repr, DecidableEq

def FVal.ofInt (n : Int) : FVal := .fin (n : Rat)
def FVal.ofRat (r : Rat) : FVal := .fin r

/-- comparison operators of Go on `int` and on `float64` -/
class Cmp (α : Type) where
  lt : α → α → Bool
  le : α → α → Bool
  eq : α → α → Bool
  isNaN : α → Bool
  isInf : α → Bool

def Cmp.gt {α} [Cmp α] (a b : α) : Bool := Cmp.lt b a
def Cmp.ge {α} [Cmp α] (a b : α) : Bool := Cmp.le b a
def Cmp.ne {α} [Cmp α] (a b : α) : Bool := !Cmp.eq a b

instance : Cmp Int where
  lt a b := decide (a < b)
  le a b := decide (a ≤ b)
  eq a b := decide (a = b)
  isNaN _ := false
  isInf _ := false

def FVal.lt : FVal → FVal → Bool
  | .nan, _ | _, .nan => false
  | .fin a, .fin b => decide (a < b)
  | .negInf, .negInf => false
  | .negInf, _ => true
  | _, .negInf => false
  | .posInf, _ => false
  | _, .posInf => true

def FVal.le : FVal → FVal → Bool
  | .nan, _ | _, .nan => false
  | .fin a, .fin b => decide (a ≤ b)
  | .negInf, _ => true
  | _, .negInf => false
  | _, .posInf => true
  | .posInf, _ => false

instance : Cmp FVal where
  lt := FVal.lt
  le := FVal.le
  eq a b := match a, b with
    | .nan, _ | _, .nan => false
    | a, b => decide (a = b)
  isNaN a := match a with | .nan => true | _ => false
  isInf a := match a with | .posInf | .negInf => true | _ => false

/-- which enumeration a keyword's value is looked up in (lower-cased) -/
inductive EnumName | fillPatterns | textTransforms | fonts | dirs | shape
deriving Repr, DecidableEq

/-- the parsing primitive a `case "<kw>":` clause applies to the value -/
inductive Prim | int | float | bool | color | enum (e : EnumName) | none
deriving Repr, DecidableEq

/-! ### ASCII helpers -/
def isDigit (c : Char) : Bool := '0' ≤ c && c ≤ '9'
def digitVal (c : Char) : Nat := c.toNat - '0'.toNat
def isHexDigit (c : Char) : Bool := isDigit c || ('a' ≤ c && c ≤ 'f') || ('A' ≤ c && c ≤ 'F')
def hexVal (c : Char) : Nat :=
  if isDigit c then digitVal c else if 'a' ≤ c && c ≤ 'f' then c.toNat - 'a'.toNat + 10 else c.toNat - 'A'.toNat + 10
def lowerAscii (c : Char) : Char := if 'A' ≤ c && c ≤ 'Z' then Char.ofNat (c.toNat + 32) else c
def lowerStr (s : String) : String := String.ofList (s.toList.map lowerAscii)

/-! ### strconv.Atoi (64-bit int) -/
def digitsVal (ds : List Char) : Nat := ds.foldl (fun acc c => acc * 10 + digitVal c) 0

def atoi (s : String) : Option Int :=
  let cs := s.toList
  let (neg, ds) := match cs with
    | '-' :: r => (true, r)
    | '+' :: r => (false, r)
    | r => (false, r)
  if ds.isEmpty || !ds.all isDigit then none
  else
    let n := digitsVal ds
    if neg then (if n ≤ 9223372036854775808 then some (-(n : Int)) else none)
    else (if n ≤ 9223372036854775807 then some (n : Int) else none)

/-! ### strconv.ParseBool -/
def parseBool (s : String) : Option Bool :=
  if s ∈ ["1", "t", "T", "TRUE", "true", "True"] then some true
  else if s ∈ ["0", "f", "F", "FALSE", "false", "False"] then some false
  else none

/-! ### hex colour: `^#(([0-9a-fA-F]{2}){3}|([0-9a-fA-F]){3})$` -/
def hexColorRegexText : String := "^#(([0-9a-fA-F]{2}){3}|([0-9a-fA-F]){3})$"
def isHexColor (s : String) : Bool :=
  match s.toList with
  | '#' :: r => (r.length == 3 || r.length == 6) && r.all isHexDigit
  | _ => false

/-! ### strconv.ParseFloat(s, 64): syntax (readFloat + special + underscoreOK) and correctly rounded value -/

/-- round a non-negative rational to the nearest float64 (ties to even); `none` = overflow (ParseFloat reports ErrRange) -/
def pow2 (e : Int) : Rat := if e ≥ 0 then ((2 ^ e.toNat : Nat) : Rat) else 1 / ((2 ^ (-e).toNat : Nat) : Rat)

/-- largest e with 2^e ≤ r, for r > 0, searched from a starting guess by fuel -/
def ilog2Aux : Nat → Rat → Int → Int
  | 0, _, e => e
  | fuel + 1, r, e =>
    if r < pow2 e then ilog2Aux fuel r (e - 1)
    else if pow2 (e + 1) ≤ r then ilog2Aux fuel r (e + 1)
    else e

def ilog2 (r : Rat) : Int :=
  -- initial guess from the bit lengths of numerator and denominator; at most 2 correction steps are needed
  let g : Int := (Nat.log2 r.num.natAbs : Int) - (Nat.log2 r.den : Int)
  ilog2Aux 8 r g

def roundHalfEven (q : Rat) : Int :=
  let f := q.floor
  let d := q - (f : Rat)
  if d < 1/2 then f else if d > 1/2 then f + 1 else (if f % 2 = 0 then f else f + 1)

def roundPos (r : Rat) : Option Rat :=
  if r = 0 then some 0
  else
    let e := ilog2 r
    -- normal numbers: 52 fractional bits relative to 2^e; subnormals: fixed quantum 2^-1074
    let q : Int := if e < -1022 then -1074 else e - 52
    let m := roundHalfEven (r / pow2 q)
    let v := (m : Rat) * pow2 q
    if v ≥ pow2 1024 then none else some v

def roundF64 (r : Rat) : Option FVal :=
  if r ≥ 0 then (roundPos r).map FVal.fin else (roundPos (-r)).map fun v => FVal.fin (-v)

def eqFold (a b : List Char) : Bool := a.map lowerAscii == b.map lowerAscii

/-- `special`: optional sign + inf/infinity, or unsigned nan (case-insensitive); must consume the whole string -/
def parseSpecial (cs : List Char) : Option FVal :=
  match cs with
  | '+' :: r => if eqFold r "inf".toList || eqFold r "infinity".toList then some .posInf else none
  | '-' :: r => if eqFold r "inf".toList || eqFold r "infinity".toList then some .negInf else none
  | r =>
    if eqFold r "inf".toList || eqFold r "infinity".toList then some .posInf
    else if eqFold r "nan".toList then some .nan else none

/-- `underscoreOK`: underscores only between digits (a base prefix counts as a digit) -/
def underscoreOK (cs : List Char) : Bool :=
  let cs := match cs with | '+' :: r => r | '-' :: r => r | r => r
  let (cs, saw0, hex) : List Char × Char × Bool := match cs with
    | '0' :: b :: r =>
      let lb := lowerAscii b
      if lb == 'b' || lb == 'o' || lb == 'x' then (r, '0', lb == 'x') else (cs, '^', false)
    | _ => (cs, '^', false)
  let rec go (cs : List Char) (saw : Char) : Bool :=
    match cs with
    | [] => saw != '_'
    | c :: r =>
      if isDigit c || (hex && 'a' ≤ lowerAscii c && lowerAscii c ≤ 'f') then go r '0'
      else if c == '_' then (if saw != '0' then false else go r '_')
      else (if saw == '_' then false else go r '!')
  go cs saw0

structure Mant where
  digits : Nat := 0      -- mantissa as an integer in the given base
  ndigits : Nat := 0     -- digits seen (incl. leading zeros)
  fracDigits : Nat := 0  -- digits after the point
  sawDot : Bool := false
  sawDigits : Bool := false

/-- mantissa scanner: digits, one `.`, underscores (recorded) — stops at the first other character -/
def scanMant (base : Nat) : List Char → Mant → Bool → (Mant × Bool × List Char)
  | [], m, us => (m, us, [])
  | c :: r, m, us =>
    if c == '_' then scanMant base r m true
    else if c == '.' then
      if m.sawDot then (m, us, c :: r) else scanMant base r { m with sawDot := true } us
    else if isDigit c || (base == 16 && isHexDigit c) then
      scanMant base r { m with digits := m.digits * base + hexVal c, ndigits := m.ndigits + 1,
                               fracDigits := if m.sawDot then m.fracDigits + 1 else m.fracDigits, sawDigits := true } us
    else (m, us, c :: r)

/-- exponent digits (underscores allowed, recorded) -/
def scanExp : List Char → Nat → Bool → Bool → (Nat × Bool × Bool × List Char)
  | [], n, seen, us => (n, seen, us, [])
  | c :: r, n, seen, us =>
    if c == '_' then scanExp r n seen true
    else if isDigit c then scanExp r (if n < 100000 then n * 10 + digitVal c else n) true us
    else (n, seen, us, c :: r)

/-- accept set and exact value of `readFloat` (before rounding); `none` = syntax error -/
def parseFloatExact (cs0 : List Char) : Option (Bool × Rat) :=
  let (neg, cs) := match cs0 with
    | '+' :: r => (false, r)
    | '-' :: r => (true, r)
    | r => (false, r)
  let (base, cs) : Nat × List Char := match cs with
    | '0' :: x :: r => if lowerAscii x == 'x' then (16, r) else (10, cs)
    | _ => (10, cs)
  let (m, us1, rest) := scanMant base cs {} false
  if !m.sawDigits then none
  else
    -- exponent
    let expChar : Char := if base == 16 then 'p' else 'e'
    let res : Option (Int × Bool × List Char) :=
      match rest with
      | c :: r =>
        if lowerAscii c == expChar then
          let (esign, r) : Int × List Char := match r with
            | '+' :: r' => (1, r')
            | '-' :: r' => (-1, r')
            | r' => (1, r')
          let (e, seen, us2, rest') := scanExp r 0 false false
          if !seen then none else some (esign * (e : Int), us2, rest')
        else some (0, false, rest)
      | [] => some (0, false, [])
    match res with
    | none => none
    | some (e, us2, rest') =>
      if !rest'.isEmpty then none
      else if base == 16 && !(rest.head?.map (fun c => lowerAscii c == 'p')).getD false then none  -- hex float needs a p exponent
      else if (us1 || us2) && !underscoreOK cs0 then none
      else
        let mant : Rat := (m.digits : Rat)
        let scale : Rat :=
          if base == 16 then pow2 (e - 4 * (m.fracDigits : Int))
          else (if e - (m.fracDigits : Int) ≥ 0 then ((10 ^ (e - (m.fracDigits : Int)).toNat : Nat) : Rat)
                else 1 / ((10 ^ ((m.fracDigits : Int) - e).toNat : Nat) : Rat))
        some (neg, mant * scale)

/-- `strconv.ParseFloat(s, 64)` with `err == nil`: the value; `none` = any error (syntax or range) -/
def parseFloat (s : String) : Option FVal :=
  let cs := s.toList
  match parseSpecial cs with
  | some v => some v
  | none =>
    match parseFloatExact cs with
    | none => none
    | some (neg, r) =>
      match roundPos r with
      | none => none
      | some v => some (.fin (if neg then -v else v))

end D2V.Dom
