/-
  C07 — the crash-capable leaves of the compiler, each in `Except Crash`.

  Modelled Go (every partial operation — slice, index, nil dereference, unbounded recursion — is explicit):

  * `d2ir/pattern.go: matchPattern`            → `matchGo` (current code) / `matchOld` (before the fix)
      `strings.ToLower` is an external parameter (`lower`); `strings.Index` / `HasPrefix` / slicing are modelled
      on byte lists.
  * `d2ir/compile.go: compiler.compileArray`   → `compileArray` / `compileArrayOld`
      the type switch over `ArrayNode` kinds: value, skip, reported error, or a nil `Value` stored in the array
      (which every consumer dereferences — modelled as the crash it causes).
  * `d2compiler/compile.go: compileThemeOverrides` → `themeOverrides` / `themeOverridesOld`
      `f.Primary()` and `f.LastPrimaryKey()` may be nil.
  * `d2ir/d2ir.go: Map.createEdge` keyword checks → `edgeKeyword` / `edgeKeywordOld`
      the index found in the *resolved* edge path was used to index the *original* key path.
  * `d2ir/d2ir.go: EdgeID.resolve` underscore loop → `resolve` / `resolveOld`
  * `d2ir/compile.go: compiler.resolveSubstitutions` case split → `resolveSubst` / `resolveSubstOld`
  * `d2ir/d2ir.go: Map.DeleteField` keyword-holder test → `holderEmpty` / `holderEmptyOld`
  * `d2graph/d2graph.go: Object.newObject` on an object whose `Children` map is nil → `newObject` / `newObjectOld`
  * `d2compiler/compile.go: compiler.compileMap` class application → `applyClass` / fuel model of the old
      unguarded recursion; the class stack discipline.
  * `d2ir/import.go: pushImportStack / __import` → `importWalk`: the stack holds pairwise distinct paths, the
      cycle test refuses a path already on it.
-/
namespace D2V.CompileLeaves

inductive Crash where
  | sliceBounds      -- s[a:] with a > len(s)
  | indexRange       -- xs[i] with i ≥ len(xs) or i < 0
  | nilDeref         -- method call / field read through a nil pointer or nil interface
  | stackOverflow    -- unbounded recursion (kills the process, not recoverable)
  | nilMapWrite      -- assignment to an entry of a nil map
deriving Repr, BEq, DecidableEq

abbrev Bytes := List UInt8

deriving instance DecidableEq for Except

/-! ### byte-string primitives (`strings.HasPrefix`, `strings.Index`, `s[k:]`) -/

/-- `strings.Index(s, p)` counted from offset `k` -/
def indexFrom (p : Bytes) : Bytes → Nat → Option Nat
  | [], k => if p.isPrefixOf [] then some k else none
  | c :: t, k => if p.isPrefixOf (c :: t) then some k else indexFrom p t (k + 1)

def index (s p : Bytes) : Option Nat := indexFrom p s 0

/-- `s[k:]` — panics when `k > len(s)` -/
def sliceFrom (s : Bytes) (k : Nat) : Except Crash Bytes :=
  if k ≤ s.length then .ok (s.drop k) else .error .sliceBounds

def star : Bytes := [0x2A]

/-! ### matchPattern -/

/-- Before the fix: the name is lowered for the comparison but the *original* name is sliced by the length of
    the *original* pattern part, and the remainder is lowered again. -/
def matchOld (lower : Bytes → Bytes) (s : Bytes) : List Bytes → Except Crash Bool
  | [] => .ok true
  | p :: rest =>
    if p = star then
      match rest with
      | [] => .ok true
      | q :: rest' =>
        match index (lower s) (lower q) with
        | none => .ok false
        | some j =>
          match sliceFrom s (j + q.length) with
          | .error e => .error e
          | .ok s' => matchOld lower s' rest'
    else if (lower p).isPrefixOf (lower s) then
      match sliceFrom s p.length with
      | .error e => .error e
      | .ok s' => matchOld lower s' rest
    else .ok false

/-- A pattern part as the current code sees it: is the original part `"*"`, and its lowered bytes. -/
structure Part where
  isStar : Bool
  low : Bytes
deriving Repr, BEq, DecidableEq

/-- Current code: `s = strings.ToLower(s)` once, every part lowered, all offsets within the lowered forms. -/
def matchGo (ls : Bytes) : List Part → Except Crash Bool
  | [] => .ok true
  | p :: rest =>
    if p.isStar then
      match rest with
      | [] => .ok true
      | q :: rest' =>
        match index ls q.low with
        | none => .ok false
        | some j =>
          match sliceFrom ls (j + q.low.length) with
          | .error e => .error e
          | .ok s' => matchGo s' rest'
    else if p.low.isPrefixOf ls then
      match sliceFrom ls p.low.length with
      | .error e => .error e
      | .ok s' => matchGo s' rest
    else .ok false

/-- `matchPattern(s, pattern)`: empty pattern matches, a name whose lower-cased form is a reserved keyword never
    does (`reserved` is that test, made after `s = strings.ToLower(s)`). -/
def matchPattern (reserved : Bool) (ls : Bytes) (pat : List Part) : Except Crash Bool :=
  if pat.isEmpty then .ok true else if reserved then .ok false else matchGo ls pat

def matchPatternOld (lower : Bytes → Bytes) (reserved : Bool) (s : Bytes) (pat : List Bytes) : Except Crash Bool :=
  if pat.isEmpty then .ok true else if reserved then .ok false else matchOld lower s pat

/-- a miniature `strings.ToLower`: ASCII letters, and U+023A `Ⱥ` (C8 BA) ↦ U+2C65 `ⱥ` (E2 B1 A5) -/
def demoLower : Bytes → Bytes
  | 0xC8 :: 0xBA :: t => 0xE2 :: 0xB1 :: 0xA5 :: demoLower t
  | c :: t => (if 0x41 ≤ c ∧ c ≤ 0x5A then c + 0x20 else c) :: demoLower t
  | [] => []

/-! ### compileArray -/

/-- what an import inside an array resolved to -/
inductive ImpTarget where
  | failed                       -- `_import` reported an error (missing file, missing key, cycle)
  | fieldScalar                  -- a field with a primary value only
  | fieldArray (n : Nat)         -- a field whose composite is an array of `n` values
  | fieldMap                     -- a field whose composite is a map
  | fieldEmpty                   -- a field with neither primary nor composite (`z` declared without a value)
  | file                         -- the whole file (a map)
deriving Repr, BEq, DecidableEq

inductive ANode where
  | scalar
  | array (ns : List ANode)
  | map
  | import_ (spread : Bool) (t : ImpTarget)
  | subst (spread : Bool)
  | comment
  | blockComment
  | nilBox                       -- an `ArrayNodeBox` with every field nil (not produced by the parser)
deriving Repr

inductive Val where
  | scalar
  | array (vs : List Val)
  | map
  | subst (spread : Bool)        -- placeholder scalar resolved by compileSubstitutions
deriving Repr, BEq

structure ArrOut where
  vals : List Val
  errs : Nat
deriving Repr, BEq

mutual
/-- current `compileArray` -/
def compileArray : List ANode → Except Crash ArrOut
  | [] => .ok ⟨[], 0⟩
  | n :: rest =>
    match compileNode n, compileArray rest with
    | .error e, _ => .error e
    | _, .error e => .error e
    | .ok a, .ok b => .ok ⟨a.vals ++ b.vals, a.errs + b.errs⟩

def compileNode : ANode → Except Crash ArrOut
  | .scalar => .ok ⟨[.scalar], 0⟩
  | .array ns =>
    match compileArray ns with
    | .error e => .error e
    | .ok o => .ok ⟨[.array o.vals], o.errs⟩
  | .map => .ok ⟨[.map], 0⟩
  | .subst sp => .ok ⟨[.subst sp], 0⟩
  | .comment => .ok ⟨[], 0⟩
  | .blockComment => .ok ⟨[], 0⟩
  | .nilBox => .ok ⟨[], 0⟩
  | .import_ _ .failed => .ok ⟨[], 1⟩
  | .import_ true (.fieldArray k) => .ok ⟨List.replicate k .scalar, 0⟩
  | .import_ true _ => .ok ⟨[], 1⟩                       -- "can only spread import array into array"
  | .import_ false .fieldScalar => .ok ⟨[.scalar], 0⟩
  | .import_ false (.fieldArray k) => .ok ⟨[.array (List.replicate k .scalar)], 0⟩
  | .import_ false .fieldMap => .ok ⟨[.map], 0⟩
  | .import_ false .file => .ok ⟨[.map], 0⟩
  | .import_ false .fieldEmpty => .ok ⟨[], 1⟩            -- "import key … has no value"
end

mutual
/-- `compileArray` before the fixes: a block comment (or a nil box) falls through the type switch and a nil
    `Value` is appended; a value-less imported key stores a typed-nil `*Scalar`.  Both are dereferenced by the
    next consumer (`Array.Copy`, `resolveSubstitutions`) — modelled as the crash. -/
def compileArrayOld : List ANode → Except Crash ArrOut
  | [] => .ok ⟨[], 0⟩
  | n :: rest =>
    match compileNodeOld n, compileArrayOld rest with
    | .error e, _ => .error e
    | _, .error e => .error e
    | .ok a, .ok b => .ok ⟨a.vals ++ b.vals, a.errs + b.errs⟩

def compileNodeOld : ANode → Except Crash ArrOut
  | .scalar => .ok ⟨[.scalar], 0⟩
  | .array ns =>
    match compileArrayOld ns with
    | .error e => .error e
    | .ok o => .ok ⟨[.array o.vals], o.errs⟩
  | .map => .ok ⟨[.map], 0⟩
  | .subst sp => .ok ⟨[.subst sp], 0⟩
  | .comment => .ok ⟨[], 0⟩
  | .blockComment => .error .nilDeref
  | .nilBox => .error .nilDeref
  | .import_ _ .failed => .ok ⟨[], 1⟩
  | .import_ true (.fieldArray k) => .ok ⟨List.replicate k .scalar, 0⟩
  | .import_ true _ => .ok ⟨[], 1⟩
  | .import_ false .fieldScalar => .ok ⟨[.scalar], 0⟩
  | .import_ false (.fieldArray k) => .ok ⟨[.array (List.replicate k .scalar)], 0⟩
  | .import_ false .fieldMap => .ok ⟨[.map], 0⟩
  | .import_ false .file => .ok ⟨[.map], 0⟩
  | .import_ false .fieldEmpty => .error .nilDeref
end

/-! ### compileThemeOverrides -/

def themeCodes : List String :=
  ["N1", "N2", "N3", "N4", "N5", "N6", "N7", "B1", "B2", "B3", "B4", "B5", "B6", "AA2", "AA4", "AA5", "AB4", "AB5"]

/-- one field of the `theme-overrides` map as the function sees it -/
structure TField where
  code : String          -- `strings.ToUpper(f.Name)`
  hasPrimary : Bool      -- `f.Primary() != nil`
  colorOk : Bool         -- the primary value is a named colour or a hex code
  hasPrimaryKey : Bool   -- `f.LastPrimaryKey() != nil`
deriving Repr, BEq, DecidableEq

/-- number of errors reported (0 = the overrides are returned) -/
def themeOverrides : List TField → Except Crash Nat
  | [] => .ok 0
  | f :: rest =>
    match themeOverrides rest with
    | .error e => .error e
    | .ok n =>
      if !f.hasPrimary then .ok (n + 1)                       -- new guard: "expected … a valid named color"
      else if themeCodes.contains f.code then .ok (if f.colorOk then n else n + 1)
      else if f.hasPrimaryKey then .ok (n + 1)                -- "… is not a valid theme code" at LastPrimaryKey()
      else .error .nilDeref

def themeOverridesOld : List TField → Except Crash Nat
  | [] => .ok 0
  | f :: rest =>
    match themeOverridesOld rest with
    | .error e => .error e
    | .ok n =>
      if themeCodes.contains f.code then
        if !f.hasPrimary then .error .nilDeref                  -- f.Primary().Value
        else .ok (if f.colorOk then n else n + 1)
      else if f.hasPrimaryKey then .ok (n + 1)
      else .error .nilDeref                                     -- Errorf(nil *Key)

/-! ### createEdge: keyword checks on the resolved edge path -/

inductive Seg where
  | plain | prohibited | board
deriving Repr, BEq, DecidableEq

/-- `findProhibitedEdgeKeyword` / `findBoardKeyword`: first index with the given kind -/
def findSeg (k : Seg) : List Seg → Option Nat
  | [] => none
  | s :: t => if s == k then some 0 else (findSeg k t).map (· + 1)

/-- old: the index into the resolved path `res` is used on the original key path of length `origLen`
    (`refctx.Edge.Src.Path[ij]`); `ij == len(res)-1` is also true for `ij = -1`, `len(res) = 0`. -/
def edgeKeywordOld (origLen : Nat) (res : List Seg) : Except Crash (Option Nat) :=
  match findSeg .prohibited res with
  | some i => if i < origLen then .ok (some i) else .error .indexRange
  | none =>
    match findSeg .board res with
    | some i => if i + 1 = res.length then (if i < origLen then .ok (some i) else .error .indexRange) else .ok none
    | none => if res.length = 0 then .error .indexRange else .ok none

/-- current: the error is reported on `res[ij]` itself -/
def edgeKeyword (res : List Seg) : Except Crash (Option Nat) :=
  match findSeg .prohibited res with
  | some i => if i < res.length then .ok (some i) else .error .indexRange
  | none =>
    match findSeg .board res with
    | some i => if i + 1 = res.length then (if i < res.length then .ok (some i) else .error .indexRange) else .ok none
    | none => .ok none

/-! ### EdgeID.resolve: consuming underscores -/

/-- an edge endpoint while `resolve` runs: `true` = an unquoted `_` path element -/
abbrev UPath := List Bool

def countUnderscores : UPath → Nat
  | true :: t => countUnderscores t + 1
  | _ => 0

/-- one iteration on one endpoint, before the fix: `eid.SrcPath[0]` is read unconditionally -/
def stripOld : UPath → Except Crash UPath
  | [] => .error .indexRange
  | true :: t => .ok t
  | false :: t => .ok (false :: false :: t)      -- the container's name is prepended

/-- current: an exhausted endpoint takes the container name like any non-underscore path -/
def strip : UPath → Except Crash UPath
  | [] => .ok [false]
  | true :: t => .ok t
  | false :: t => .ok (false :: false :: t)

def iterBoth (f : UPath → Except Crash UPath) : Nat → UPath → UPath → Except Crash (UPath × UPath)
  | 0, s, d => .ok (s, d)
  | n + 1, s, d =>
    match f s, f d with
    | .error e, _ => .error e
    | _, .error e => .error e
    | .ok s', .ok d' => iterBoth f n s' d'

def resolveOld (s d : UPath) : Except Crash (UPath × UPath) := iterBoth stripOld (max (countUnderscores s) (countUnderscores d)) s d
def resolve (s d : UPath) : Except Crash (UPath × UPath) := iterBoth strip (max (countUnderscores s) (countUnderscores d)) s d

/-! ### resolveSubstitutions: one `${x}` by the shape of the variable, the string form and the node -/

inductive VShape where
  | scalar | null | noValue | map | array | missing
deriving Repr, BEq, DecidableEq

inductive SForm where
  | unqWhole | unqPart | dqWhole | dqPart | sq | md
deriving Repr, BEq, DecidableEq

inductive SNode where
  | field | edge | arrayElem
deriving Repr, BEq, DecidableEq

inductive SubRes where
  | substituted      -- the node now carries the value (or the string is left alone: single quotes, markdown)
  | reported         -- a positioned error was recorded
deriving Repr, BEq, DecidableEq

/-- `resolveSubstitutions` (d2ir/compile.go), the case split of its three branches.  `dqNoValue` is what the
    double-quoted branch does with a variable that has neither a primary value nor a composite. -/
def resolveSubstWith (dqNoValue : Except Crash SubRes) (n : SNode) : SForm → VShape → Except Crash SubRes
  | .sq, _ => .ok .substituted                       -- single-quoted strings carry no substitution boxes
  | .md, _ => .ok .substituted                       -- block strings: only known scalar variables are replaced
  | .unqWhole, .scalar => .ok .substituted
  | .unqPart, .scalar => .ok .substituted
  | .unqWhole, .map => .ok .substituted
  | .unqWhole, .array => if n = .edge then .ok .reported else .ok .substituted   -- "cannot substitute array variable … to an edge"
  | .unqPart, .map => .ok .reported                  -- "cannot substitute composite variable … as part of a string"
  | .unqPart, .array => .ok .reported
  | .unqWhole, .null => .ok .reported                -- a null variable counts as unresolved
  | .unqPart, .null => .ok .reported
  | .unqWhole, .noValue => .ok .reported             -- "cannot substitute variable without value"
  | .unqPart, .noValue => .ok .reported
  | .unqWhole, .missing => .ok .reported
  | .unqPart, .missing => .ok .reported
  | .dqWhole, .scalar => .ok .substituted
  | .dqPart, .scalar => .ok .substituted
  | .dqWhole, .null => .ok .substituted              -- Primary() is the Null scalar, its string is ""
  | .dqPart, .null => .ok .substituted
  | .dqWhole, .map => .ok .reported                  -- "cannot substitute map variable … in quotes"
  | .dqPart, .map => .ok .reported
  | .dqWhole, .array => .ok .reported
  | .dqPart, .array => .ok .reported
  | .dqWhole, .missing => .ok .reported
  | .dqPart, .missing => .ok .reported
  | .dqWhole, .noValue => dqNoValue
  | .dqPart, .noValue => dqNoValue

/-- before the fix: `resolvedField.Primary().Value` with `Primary() == nil` -/
def resolveSubstOld := resolveSubstWith (.error .nilDeref)
/-- current: "cannot substitute variable without value", as in the unquoted branch -/
def resolveSubst := resolveSubstWith (.ok .reported)

/-! ### DeleteField: "did the keyword holder become empty?" -/

/-- what the parent field (`style`) of the deleted field holds -/
inductive Holder where
  | map (fields : Nat) | array | none
deriving Repr, BEq, DecidableEq

/-- old: `len(parent.Map().Fields) == 0` with `parent.Map() == nil` when `style` holds an array -/
def holderEmptyOld : Holder → Except Crash Bool
  | .map n => .ok (n == 0)
  | _ => .error .nilDeref

/-- current: `parent.Map() != nil && len(…) == 0` -/
def holderEmpty : Holder → Except Crash Bool
  | .map n => .ok (n == 0)
  | _ => .ok false

/-! ### d2graph `Object.newObject` under a class / sql_table object -/

/-- `obj.Children[id] = child`: `compileClass` / `compileSQLTable` leave `obj.Children = nil`, and
    `compileEdge` re-creates the scope object of an edge with `Root.EnsureChild(BoardIDA(scope))` -/
def newObjectOld (childrenNil : Bool) : Except Crash Unit := if childrenNil then .error .nilMapWrite else .ok ()

/-- current: the map is re-created when nil -/
def newObject (_childrenNil : Bool) : Except Crash Unit := .ok ()

/-! ### class application (d2compiler `compileMap` → `GetClassMap` → `compileMap`) -/

/-- `classes`: name ↦ the class names its own `class:` field lists -/
abbrev ClassEnv := List (String × List String)

def ClassEnv.refs (env : ClassEnv) (c : String) : Option (List String) := (env.find? (·.1 == c)).map (·.2)

/-- old: unguarded recursion.  Fuel stands for the goroutine stack: running out is the stack overflow. -/
def applyClassOld (env : ClassEnv) : Nat → String → Except Crash Nat
  | 0, _ => .error .stackOverflow
  | fuel + 1, c =>
    match env.refs c with
    | none => .ok 0
    | some rs =>
      rs.foldl (fun acc r => match acc, applyClassOld env fuel r with
        | .error e, _ => .error e
        | _, .error e => .error e
        | .ok a, .ok b => .ok (a + b)) (.ok 1)

/-- Guarded recursion over a finite set of keys: a key that is already on the stack is not entered again (it
    contributes `hit`), a key without an entry contributes 0, an entered key contributes `node` plus its references.
    `fuel` is only the termination device: `guardedWalk_fuel_enough` shows `env.length + 1` always suffices, so no run
    reaches the `stackOverflow` branch. -/
def guardedWalk (hit node : Nat) (env : ClassEnv) : Nat → List String → String → Except Crash Nat
  | 0, _, _ => .error .stackOverflow
  | fuel + 1, stack, c =>
    if stack.contains c then .ok hit else
    match env.refs c with
    | none => .ok 0
    | some rs =>
      rs.foldl (fun acc r => match acc, guardedWalk hit node env fuel (c :: stack) r with
        | .error e, _ => .error e
        | _, .error e => .error e
        | .ok a, .ok b => .ok (a + b)) (.ok node)

/-- current class application: a class that is already being applied (on `classStack`) is not entered again.
    Returns the number of class maps applied. -/
def applyClass (env : ClassEnv) : Nat → List String → String → Except Crash Nat := guardedWalk 0 1 env

/-- `__import` → `compileMap` → `_import` …: `env` maps a file to the files it imports; a path already on the import
    stack is refused with "detected cyclic import chain".  Returns the number of refusals. -/
def importWalk (files : ClassEnv) : Nat → List String → String → Except Crash Nat := guardedWalk 1 0 files

/-! ### import stack (d2ir `pushImportStack`) -/

/-- `pushImportStack`: refuse a path already on the stack ("detected cyclic import chain") -/
def pushImport (stack : List String) (p : String) : Option (List String) :=
  if stack.contains p then none else some (p :: stack)

/-! ### Spec: the property sentence on one observed compilation (`compileOutcomeOk`) -/

/-- one reported error as observed: the file it names (known = index.d2 or an importable file), that file's byte
    length and newline count, the range, and whether the message starts with `path:line:col: ` of the range start -/
structure ErrObs where
  known : Bool
  flen : Nat
  nl : Nat
  sl : Int
  sb : Int
  eb : Int
  prefixOk : Bool
deriving Repr

/-- "an error with a source position": names a file of the compilation and a range inside it -/
def ErrObs.why (e : ErrObs) : Option String :=
  if !e.known then some "nopath"
  else if e.sb < 0 ∨ e.eb < e.sb ∨ (e.flen : Int) < e.eb then some "range"
  else if e.sl < 0 ∨ (e.nl : Int) < e.sl then some "line"
  else if !e.prefixOk then some "message"
  else none

/-- wall-time bound in microseconds for `n` input bytes (all files): 20 × the largest ratio
    µs / (200 + bytes) ≈ 250 measured on the unchanged tree over 300 k generated programs -/
def timeBoundUs (n : Nat) : Nat := 5000 * (200 + n)

end D2V.CompileLeaves
