/-
  C12 — glob matching.  Byte-exact model of `d2ir/pattern.go: matchPattern` and the textbook specification
  `wildcard` it is meant to implement.

  Go (strings are byte strings, `s[a:]` panics when `a > len(s)`):

      func matchPattern(s string, pattern []string) bool {
        if len(pattern) == 0 { return true }
        if _, ok := d2ast.ReservedKeywords[s]; ok { return false }
        for i := 0; i < len(pattern); i++ {
          if pattern[i] == "*" {
            if i != len(pattern)-1 {
              j := strings.Index(strings.ToLower(s), strings.ToLower(pattern[i+1]))
              if j == -1 { return false }
              s = s[j+len(pattern[i+1]):]
              i++
            }
          } else {
            if !strings.HasPrefix(strings.ToLower(s), strings.ToLower(pattern[i])) { return false }
            s = s[len(pattern[i]):]
          }
        }
        return true
      }

  `strings.ToLower` is modelled on UTF-8 bytes: Go's decoder (invalid byte → U+FFFD, width 1; re-encoded as
  EF BF BD), a lower-case map that is exact on the alphabet the harness draws from (ASCII, Latin-1, basic Greek and
  Cyrillic and the length-changing mappings İ Ⱥ Ⱦ K Å ẞ Ω — the driver re-checks every character of that alphabet
  against `unicode.ToLower` on each run), and Go's encoder.

  Tie R: `Gen/GlobCfg.lean` (regenerated from the source on every run) says whether the function lower-cases the
  name once before the loop (`lowersOnce`, the prepared fix) and carries the reserved-keyword set; the model takes
  that flag as a parameter, the theorems are stated for both values.
-/
import D2V.Gen.GlobCfg
namespace D2V.Glob

abbrev Bytes := List UInt8

inductive Crash
  | sliceOOB (lo len : Nat)       -- "slice bounds out of range [lo:len]"
deriving Repr, BEq, DecidableEq

deriving instance DecidableEq for Except

/-! ### UTF-8 as Go decodes / encodes it -/

def inR (b : UInt8) (lo hi : Nat) : Bool := lo ≤ b.toNat && b.toNat ≤ hi
def cont (b : UInt8) : Bool := inR b 0x80 0xBF
def low6 (b : UInt8) : Nat := b.toNat % 64

/-- `utf8.DecodeRune`: (code point, width); invalid input gives (0xFFFD, 1) -/
def decodeRune : Bytes → Nat × Nat
  | [] => (0xFFFD, 1)
  | b0 :: rest =>
    if b0.toNat < 0x80 then (b0.toNat, 1)
    else if inR b0 0xC2 0xDF then
      match rest with
      | b1 :: _ => if cont b1 then ((b0.toNat % 32) * 64 + low6 b1, 2) else (0xFFFD, 1)
      | _ => (0xFFFD, 1)
    else if inR b0 0xE0 0xEF then
      match rest with
      | b1 :: b2 :: _ =>
        let lo := if b0.toNat == 0xE0 then 0xA0 else 0x80
        let hi := if b0.toNat == 0xED then 0x9F else 0xBF
        if inR b1 lo hi && cont b2 then ((b0.toNat % 16) * 4096 + low6 b1 * 64 + low6 b2, 3) else (0xFFFD, 1)
      | _ => (0xFFFD, 1)
    else if inR b0 0xF0 0xF4 then
      match rest with
      | b1 :: b2 :: b3 :: _ =>
        let lo := if b0.toNat == 0xF0 then 0x90 else 0x80
        let hi := if b0.toNat == 0xF4 then 0x8F else 0xBF
        if inR b1 lo hi && cont b2 && cont b3 then
          ((b0.toNat % 8) * 262144 + low6 b1 * 4096 + low6 b2 * 64 + low6 b3, 4)
        else (0xFFFD, 1)
      | _ => (0xFFFD, 1)
    else (0xFFFD, 1)

def u8 (n : Nat) : UInt8 := UInt8.ofNat n

/-- `utf8.AppendRune` -/
def encodeRune (r : Nat) : Bytes :=
  if r < 0x80 then [u8 r]
  else if r < 0x800 then [u8 (0xC0 + r / 64), u8 (0x80 + r % 64)]
  else if r < 0x10000 then [u8 (0xE0 + r / 4096), u8 (0x80 + r / 64 % 64), u8 (0x80 + r % 64)]
  else [u8 (0xF0 + r / 262144), u8 (0x80 + r / 4096 % 64), u8 (0x80 + r / 64 % 64), u8 (0x80 + r % 64)]

/-- `unicode.ToLower` on the harness alphabet -/
def lowerRune (r : Nat) : Nat :=
  if 0x41 ≤ r ∧ r ≤ 0x5A then r + 32
  else if 0xC0 ≤ r ∧ r ≤ 0xDE ∧ r ≠ 0xD7 then r + 32
  else if 0x391 ≤ r ∧ r ≤ 0x3AB ∧ r ≠ 0x3A2 then r + 32
  else if 0x410 ≤ r ∧ r ≤ 0x42F then r + 32
  else if 0x400 ≤ r ∧ r ≤ 0x40F then r + 80
  else if r = 0x130 then 0x69
  else if r = 0x23A then 0x2C65
  else if r = 0x23E then 0x2C66
  else if r = 0x212A then 0x6B
  else if r = 0x212B then 0xE5
  else if r = 0x1E9E then 0xDF
  else if r = 0x2126 then 0x3C9
  else r

/-- `strings.ToLower` (via `strings.Map`): rune by rune, an invalid byte becomes U+FFFD.  Fuel = number of bytes. -/
def lowerAux : Nat → Bytes → Bytes
  | 0, _ => []
  | _, [] => []
  | n + 1, s =>
    let (r, w) := decodeRune s
    encodeRune (lowerRune r) ++ lowerAux n (s.drop w)

def lower (s : Bytes) : Bytes := lowerAux s.length s

/-! ### `strings.HasPrefix`, `strings.Index` -/

def hasPrefix : Bytes → Bytes → Bool
  | _, [] => true
  | [], _ :: _ => false
  | a :: s, b :: p => a == b && hasPrefix s p

/-- leftmost occurrence -/
def indexOf : Bytes → Bytes → Option Nat
  | [], p => if p.isEmpty then some 0 else none
  | a :: s, p =>
    if hasPrefix (a :: s) p then some 0
    else match indexOf s p with
      | some j => some (j + 1)
      | none => none

def star : Bytes := [0x2A]

/-- the loop of `matchPattern` (after the keyword test); structural over the pattern.
    `lo = false`: the code as pinned — the haystack is lower-cased at each step but the *original* string is sliced
    with the byte length of the *original* pattern element.
    `lo = true`: the name was lower-cased once on entry and pattern elements are lower-cased before use. -/
def matchLoop (lo : Bool) : Bytes → List Bytes → Except Crash Bool
  | _, [] => .ok true
  | s, p :: rest =>
    let hay := if lo then s else lower s
    if p = star then
      match rest with
      | [] => .ok true
      | q :: rest' =>
        let ql := if lo then (lower q).length else q.length
        match indexOf hay (lower q) with
        | none => .ok false
        | some j =>
          if j + ql > s.length then .error (.sliceOOB (j + ql) s.length)
          else matchLoop lo (s.drop (j + ql)) rest'
    else
      let pl := if lo then (lower p).length else p.length
      if !hasPrefix hay (lower p) then .ok false
      else if pl > s.length then .error (.sliceOOB pl s.length)
      else matchLoop lo (s.drop pl) rest

/-- `matchPattern`; `kw` = `d2ast.ReservedKeywords` -/
def matchPattern (lo : Bool) (kw : List Bytes) (s : Bytes) (pattern : List Bytes) : Except Crash Bool :=
  if pattern.isEmpty then .ok true
  else
    let s := if lo then lower s else s
    if kw.contains s then .ok false
    else matchLoop lo s pattern

/-! ### specification: anchored `*` matching on case-folded strings -/

/-- all suffixes of a string, longest first -/
def suffixes : Bytes → List Bytes
  | [] => [[]]
  | a :: s => (a :: s) :: suffixes s

/-- textbook wildcard match of a whole string: `*` = any (possibly empty) substring, everything else literal -/
def wild : Bytes → List Bytes → Bool
  | s, [] => s.isEmpty
  | s, p :: rest =>
    if p = star then (suffixes s).any fun t => wild t rest
    else hasPrefix s p && wild (s.drop p.length) rest

/-- the property's matcher: whole-name match, case-insensitive, never a reserved keyword (in any case) -/
def wildcard (kw : List Bytes) (s : Bytes) (pattern : List Bytes) : Bool :=
  !(kw.contains (lower s)) && wild (lower s) (pattern.map fun p => if p = star then star else lower p)

/-! ### edge globs: the pairs `createEdge` connects when source or destination is a glob -/

/-- `for src in srcFA { for dst in dstFA { if src == dst && (glob) { continue } … } }` -/
def globEdgePairs (srcs dsts : List String) : List (String × String) :=
  srcs.flatMap fun s => (dsts.filter (· != s)).map fun d => (s, d)

/-- `d2ast.ReservedKeywords`, regenerated from d2ast/keywords.go (the harness also sends the live set) -/
def reservedKeywords : List String := D2V.Gen.GlobCfg.reservedKeywords

def bytesOf (s : String) : Bytes := s.toUTF8.toList

def kwBytes : List Bytes := reservedKeywords.map bytesOf

/-- the matcher of the tree under test -/
def matchPatternCur (s : Bytes) (pattern : List Bytes) : Except Crash Bool :=
  matchPattern D2V.Gen.GlobCfg.lowersOnce kwBytes s pattern

end D2V.Glob
