/-
  Base vocabulary of the quoting layer (C05, C06): strings as `List Char` (Go strings restricted to valid
  UTF-8), the three quoting kinds of `d2ast.RawString`, and exact models of the Go library calls the
  quoting code makes:

    unicode.IsSpace                      `isSpace`       (the White_Space table, complete)
    strings.ToLower  (keyword lookups)   `lowerStr`      exact whenever the Go result is ASCII, see below
    strings.EqualFold(s, <ASCII word>)   `equalFold`     simple folding orbits of the ASCII letters
    s[i+1]  (byte after a rune start)    `byteAt1`       UTF-8 arithmetic

  `lowerChar` maps A–Z, U+0130 (İ → i) and U+212A (Kelvin → k) to ASCII and leaves every other character
  alone; Go's `unicode.ToLower` sends exactly these non-ASCII runes into ASCII.  `foldKey` additionally folds
  U+017F (ſ → s).  Both tables are compared with Go's `unicode` package over every rune on each run
  (harness case `unitab`).  Since every reserved keyword / fold word is ASCII, membership tests and
  `l != s` comparisons made through these functions agree with Go for every valid UTF-8 string.

  Core Lean only: imported by the generated `D2V.Gen.Quote`, by `D2V.Model.Quote` and by the drivers.
-/
namespace D2V.Quote

abbrev Str := List Char

/-- result kinds of `d2ast.RawString`: `FlatUnquotedString`, `FlatDoubleQuotedString`, `&SingleQuotedString{}` -/
inductive Quoting where
  | unq | dq | sq
  deriving DecidableEq, Repr, Inhabited

def Quoting.name : Quoting → String
  | .unq => "unq" | .dq => "dq" | .sq => "sq"

/-- `unicode.IsSpace` -/
def isSpace (c : Char) : Bool :=
  let n := c.toNat
  (9 ≤ n && n ≤ 13) || n == 32 || n == 0x85 || n == 0xA0 || n == 0x1680 ||
  (0x2000 ≤ n && n ≤ 0x200A) || n == 0x2028 || n == 0x2029 || n == 0x202F || n == 0x205F || n == 0x3000

/-- `unicode.ToLower` on the runes whose image is ASCII; identity elsewhere -/
def lowerChar (c : Char) : Char :=
  if 'A' ≤ c ∧ c ≤ 'Z' then Char.ofNat (c.toNat + 32)
  else if c.toNat = 0x130 then 'i'
  else if c.toNat = 0x212A then 'k'
  else c

def lowerStr (s : Str) : Str := s.map lowerChar

/-- representative of the simple-folding orbit, for orbits that contain an ASCII character -/
def foldKey (c : Char) : Char :=
  if 'A' ≤ c ∧ c ≤ 'Z' then Char.ofNat (c.toNat + 32)
  else if c.toNat = 0x212A then 'k'
  else if c.toNat = 0x17F then 's'
  else c

/-- `strings.EqualFold(s, w)` for an ASCII word `w` -/
def equalFold (s : Str) (w : String) : Bool := s.map foldKey == w.toList.map foldKey

/-- `strings.ContainsAny(s, set)` / `strings.ContainsRune(set, r)` -/
def containsAny (s : Str) (set : List Char) : Bool := s.any fun c => set.contains c

/-- `hasSurroundingWhitespace` of d2ast: first or last rune is a space (false on the empty string) -/
def surroundingWs (s : Str) : Bool :=
  match s.head?, s.getLast? with
  | some a, some b => isSpace a || isSpace b
  | _, _ => false

/-- first byte of the UTF-8 encoding -/
def firstByte (c : Char) : Nat :=
  let n := c.toNat
  if n < 0x80 then n else if n < 0x800 then 0xC0 + n / 64 else if n < 0x10000 then 0xE0 + n / 4096 else 0xF0 + n / 262144

/-- second byte of the UTF-8 encoding of a multi-byte character -/
def secondByte (c : Char) : Nat :=
  let n := c.toNat
  if n < 0x800 then 0x80 + n % 64 else if n < 0x10000 then 0x80 + n / 64 % 64 else 0x80 + n / 4096 % 64

def utf8Len (c : Char) : Nat :=
  let n := c.toNat
  if n < 0x80 then 1 else if n < 0x800 then 2 else if n < 0x10000 then 3 else 4

def utf8LenStr (s : Str) : Nat := (s.map utf8Len).sum

/-- the byte `s[i+1]` where `i` is the byte offset at which rune `r` starts and `rest` is what follows `r`;
    `none` when `i+1 = len(s)` -/
def byteAt1 (r : Char) (rest : Str) : Option Nat :=
  if r.toNat < 0x80 then rest.head?.map firstByte else some (secondByte r)

/-- `p.sb.WriteString(strings.ToLower(raw))` when the lower-cased text is a reserved keyword -/
def isKeywordCI (kws : List String) (s : Str) : Bool := kws.contains (String.ofList (lowerStr s))

def strOf (s : String) : Str := s.toList

end D2V.Quote
