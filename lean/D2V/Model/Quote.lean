/-
  Text.Quote — model of how d2 turns a string into D2 syntax and reads it back (C05, C06).

  Printer side (tables, guards and per-rune escape actions come from the regenerated `D2V.Gen.Quote`):
    d2ast.RawString                      `rawString`     (key loop with the byte-indexed `s[i+1]` dash test,
                                                          value guard, keyword-case guard, whitespace tail)
    d2format.escapeSingleQuotedValue     `escSingle`
    d2format.escapeDoubledQuotedValue    `escDouble`
    d2format.escapeUnquotedValue         `escUnquoted`
    printer.interpolationBoxes           `printBoxes`    (one fresh box; reserved-keyword lower-casing)
    printer.node for the three strings   `fmtString`;  `fmtKey s` = Format(KeyPath{RawString(s,true)}),
                                                        `fmtValue s` = Format(RawString(s,false))
  Parser side (hand-written, compared with d2parser on every run):
    parser.parseDoubleQuotedString       `scanDQ`        single-pass automata with explicit state; `peek`/
    parser.parseSingleQuotedString       `scanSQ`        `rewind` of the Go code become "give back" lists
    parser.parseUnquotedString           `scanUQ` / `parseUnquoted`
    parser.parseString                   `parseString`
    parser.parseKey / d2parser.ParseKey  `parseKey`      (dots, `(`, newlines, `@` prefix, 518-byte limit)
    parser.parseValue / ParseValue       `parseValue`    (null / suspend / unsuspend / true / false ladder of
                                                          the generated table, number classification)
    big.Rat.SetString                    `isNumeral`     decidable numeral grammar
  Block strings, substitutions `${`, arrays, maps and imports are outside the model: the parser functions
  answer `unsupported` there and the theorems show the printer never produces such text for a string.
  A parse error anywhere makes `ParseKey`/`ParseValue` fail, so the model stops at the first error.
-/
import D2V.Model.QuoteBase
import D2V.Gen.Quote

namespace D2V.Quote
open D2V.Gen.Quote

/-! ## RawString -/

/-- `for i, r := range s` of the key branch; `s` is the whole string, the second argument what is left -/
def rawKeyLoop (s : Str) : Str → Option Quoting
  | [] => none
  | r :: rest =>
    match rawKeyStep s r (byteAt1 r rest) with
    | some q => some q
    | none => rawKeyLoop s rest

/-- `l := strings.ToLower(s); l != s && ReservedKeywords[l]` -/
def kwCase (s : Str) : Bool := reservedKeywords.contains (lowerStr s) && lowerStr s != s

/-- the condition of `else if …` in RawString, from the extracted word lists -/
def rawValueGuard (s : Str) : Bool :=
  rawValueExactWords.contains s ||
  rawValueFoldWords.any (fun w => equalFold s w) ||
  rawValueFoldNeWords.any (fun w => s != w.toList && equalFold s w) ||
  (rawValueChecksSpecials && containsAny s valueSpecials)

def rawString (s : Str) (inKey : Bool) : Quoting :=
  if s.isEmpty then rawEmpty
  else if inKey then
    match rawKeyLoop s s with
    | some q => q
    | none => if rawKeyQuotesKeywordCase && kwCase s then .dq else rawTail s
  else if rawValueGuard s then rawValueQuoted s
  else rawTail s

/-! ## Escapers and printer -/

def escSingle (s : Str) : Str := s.flatMap sqEsc

def escDouble (inKey : Bool) (s : Str) : Str := s.flatMap (dqEsc inKey)

def escUnqLoop (inKey : Bool) : Bool → Str → Str
  | _, [] => []
  | first, r :: rest => uqEsc inKey first (byteAt1 r rest) r ++ escUnqLoop inKey false rest

def uqFoldResult (s : Str) : Str :=
  match uqFoldLiteral with
  | some l => l
  | none => '\'' :: s ++ ['\'']

def escUnquoted (inKey : Bool) (s : Str) : Str :=
  if s.isEmpty then uqEmpty
  else if equalFold s uqFoldWord then uqFoldResult s
  else escUnqLoop inKey true s

/-- `printer.interpolationBoxes` on the single box `{String: &s}` that `Flat*String` builds -/
def printBoxes (isDouble inKey : Bool) (s : Str) : Str :=
  let raw := if isDouble then escDouble inKey s else escUnquoted inKey s
  if lowerGuard isDouble inKey && reservedKeywords.contains (lowerStr raw) then lowerStr raw else raw

def fmtString (q : Quoting) (inKey : Bool) (s : Str) : Str :=
  match q with
  | .unq => printBoxes false inKey s
  | .dq => '"' :: (printBoxes true inKey s ++ ['"'])
  | .sq => '\'' :: (escSingle s ++ ['\''])

/-- `d2format.Format(&d2ast.KeyPath{Path: [RawString(s, true)]})` -/
def fmtKey (s : Str) : Str := fmtString (rawString s true) true s

/-- `d2format.Format(d2ast.RawString(s, false))` -/
def fmtValue (s : Str) : Str := fmtString (rawString s false) false s

/-! ## Scanners -/

inductive PRes (α : Type) where
  | ok (a : α) (rest : Str)
  | err
  | unsupported
  deriving Repr, DecidableEq

/-- `parseSubstitution` up to its first decision: `peekNotSpace`, then `{` or not -/
inductive SubstLook where
  | nil      -- eof or a newline first: returns nil without error
  | error    -- "substitutions must begin on {"
  | brace    -- a substitution follows (outside the model)
  deriving DecidableEq, Repr

def substLook : Str → SubstLook
  | [] => .nil
  | c :: rest =>
    if isSpace c then (if c == '\n' then .nil else substLook rest)
    else if c == '{' then .brace else .error

/-- `parseDoubleQuotedString` after the opening quote; `esc` = a backslash was just read;
    the accumulator is reversed -/
def scanDQ (inKey : Bool) : Bool → Str → Str → PRes Str
  | _, [], _ => .err
  | true, c :: rest, acc =>
    if c == '\n' then scanDQ inKey false rest acc
    else scanDQ inKey false rest (decodeEscape c :: acc)
  | false, c :: rest, acc =>
    if c == '\n' then .err
    else if !inKey && c == '$' then
      match substLook rest with
      | .nil => scanDQ inKey false rest (c :: acc)
      | .error => .err
      | .brace => .unsupported
    else if c == '"' then .ok acc.reverse rest
    else if c == '\\' then scanDQ inKey true rest acc
    else scanDQ inKey false rest (c :: acc)

inductive SQSt where
  | n   -- normal
  | q   -- a quote was read: doubled quote or end
  | b   -- a backslash was read: line continuation or literal backslash
  deriving DecidableEq, Repr

/-- `parseSingleQuotedString` after the opening quote -/
def scanSQ : SQSt → Str → Str → PRes Str
  | .n, [], _ => .err
  | .q, [], acc => .ok acc.reverse []
  | .b, [], _ => .err
  | .n, c :: rest, acc =>
    if c == '\n' then .err
    else if c == '\'' then scanSQ .q rest acc
    else if c == '\\' then scanSQ .b rest acc
    else scanSQ .n rest (c :: acc)
  | .q, c :: rest, acc =>
    if c == '\'' then scanSQ .n rest ('\'' :: acc) else .ok acc.reverse (c :: rest)
  | .b, c :: rest, acc =>
    if c == '\n' then scanSQ .n rest acc
    else if c == '\'' then scanSQ .q rest ('\\' :: acc)
    else if c == '\\' then scanSQ .b rest ('\\' :: acc)
    else scanSQ .n rest (c :: '\\' :: acc)

/-- `peekNotSpace`: the first non-space rune and what follows it; `none` at eof or once a newline was crossed -/
def skipSpacesNL : Str → Option (Char × Str)
  | [] => none
  | c :: rest => if isSpace c then (if c == '\n' then none else skipSpacesNL rest) else some (c, rest)

inductive UQSt where
  | normal
  | dash                  -- key mode: a `-` was peeked, the next rune decides
  | esc                   -- a backslash was committed
  | skip (start : Str)    -- after backslash-newline: skipping spaces; `start` = input after the newline
  deriving Repr

inductive UQStep where
  | done (acc : Str) (rest : Str)
  | err
  | unsup
  | next (st : UQSt) (acc : Str)

/-- a committed rune: substitution marker (values), escape introducer, or text -/
def uqRaw (inKey : Bool) (c : Char) (rest acc : Str) : UQStep :=
  if !inKey && c == '$' then
    match substLook rest with
    | .nil => .next .normal acc
    | .error => .err
    | .brace => .unsup
  else if c == '\\' then .next .esc acc
  else .next .normal (c :: acc)

/-- `p.inEdgeGroup && r == ')'`: the parenthesis ends the string when, after it, the line ends or one of
    `\n # { } [ ] : .` follows (`peekNotSpace`) -/
def closeParenStops (rest : Str) : Bool :=
  match skipSpacesNL rest with
  | none => true
  | some (r2, _) => ['\n', '#', '{', '}', '[', ']', ':', '.'].contains r2

def uqNormal (inKey inEdge : Bool) (c : Char) (rest acc : Str) : UQStep :=
  if inEdge && c == ')' then
    (if closeParenStops rest then .done acc (c :: rest) else .next .normal (c :: acc))
  else if uqStopTop.contains c then .done acc (c :: rest)
  else if inKey && uqStopKey.contains c then .done acc (c :: rest)
  else if inKey && c == '-' then .next .dash acc
  else uqRaw inKey c rest acc

def uqStep (inKey inEdge : Bool) (st : UQSt) (c : Char) (rest acc : Str) : UQStep :=
  match st with
  | .normal => uqNormal inKey inEdge c rest acc
  | .dash =>
    if uqStopTop.contains c then .done ('-' :: acc) (c :: rest)
    else if c == '-' || c == '>' || c == '*' then .done acc ('-' :: c :: rest)
    else uqRaw inKey c rest ('-' :: acc)
  | .esc => if c == '\n' then .next (.skip rest) acc else .next .normal (decodeEscape c :: acc)
  | .skip start =>
    if isSpace c then (if c == '\n' then .done acc start else .next (.skip start) acc)
    else uqNormal inKey inEdge c rest acc

/-- the loop of `parseUnquotedString` (not in an edge group); answers the reversed accumulator -/
def scanUQ (inKey inEdge : Bool) : UQSt → Str → Str → PRes Str
  | st, [], acc =>
    match st with
    | .normal => .ok acc []
    | .dash => .ok acc ['-']
    | .esc => .err
    | .skip start => .ok acc start
  | st, c :: rest, acc =>
    match uqStep inKey inEdge st c rest acc with
    | .done a r => .ok a r
    | .err => .err
    | .unsup => .unsupported
    | .next st' acc' => scanUQ inKey inEdge st' rest acc'

def startsWith (p : Str) : Str → Bool
  | s => p.isPrefixOf s

inductive StrRes where
  | nostring                                    -- no string here (s == nil)
  | seg (kind : Quoting) (val : Str) (rest : Str)
  | err
  | unsupported
  deriving Repr, DecidableEq

/-- `parseUnquotedString`: the `...@` test, the loop, `TrimRightFunc(…, unicode.IsSpace)`, nil when empty -/
def parseUnquoted (inKey inEdge : Bool) (inp : Str) : StrRes :=
  if startsWith ['.', '.', '.', '@'] inp then .err
  else
    match scanUQ inKey inEdge .normal inp [] with
    | .err => .err
    | .unsupported => .unsupported
    | .ok acc rest =>
      let v := (acc.dropWhile isSpace).reverse
      if v.isEmpty then .nostring else .seg .unq v rest

def parseString (inKey inEdge : Bool) (inp : Str) : StrRes :=
  match skipSpacesNL inp with
  | none => .nostring
  | some (c, rest) =>
    if c == '"' then
      match scanDQ inKey false rest [] with
      | .ok v r => .seg .dq v r
      | .err => .err
      | .unsupported => .unsupported
    else if c == '\'' then
      match scanSQ .n rest [] with
      | .ok v r => .seg .sq v r
      | .err => .err
      | .unsupported => .unsupported
    else if c == '|' then .unsupported
    else parseUnquoted inKey inEdge (c :: rest)

/-! ## ParseKey -/

structure Seg where
  kind : Quoting
  val : Str
  deriving DecidableEq, Repr

inductive KeyRes where
  | ok (path : List Seg) (rest : Str)
  | empty          -- "empty key"
  | err
  | unsupported
  deriving DecidableEq, Repr

inductive Look where
  | ret | go
  deriving DecidableEq, Repr

/-- the prologue of the `for` in `parseKey`: `peekNotSpace`, repeated over leading dots -/
def keyLook : Str → Look
  | [] => .ret
  | c :: rest =>
    if isSpace c then (if c == '\n' then .ret else keyLook rest)
    else if c == '(' then .ret
    else if c == '.' then keyLook rest
    else .go

/-- after a segment: is there a `.` on the same line?  `some rest` = input after the dot -/
def afterSeg : Str → Option Str
  | [] => none
  | c :: rest =>
    if isSpace c then (if c == '\n' then none else afterSeg rest)
    else if c == '.' then some rest else none

def maxKeyLen : Nat := 518

def finishKey (path : List Seg) (rest : Str) : KeyRes :=
  if path.isEmpty then .empty
  else if path.any (fun g => utf8LenStr g.val > maxKeyLen) then .err
  else .ok path rest

def parseKeyLoop (inEdge : Bool) : Nat → Str → List Seg → KeyRes
  | 0, _, _ => .unsupported
  | n + 1, inp, path =>
    match keyLook inp with
    | .ret => finishKey path inp
    | .go =>
      match parseString true inEdge inp with
      | .nostring => finishKey path inp
      | .err => .err
      | .unsupported => .unsupported
      | .seg k v rest =>
        if k == .unq && v.head? == some '@' then .err
        else
          match afterSeg rest with
          | none => finishKey (path ++ [⟨k, v⟩]) rest
          | some rest' => parseKeyLoop inEdge n rest' (path ++ [⟨k, v⟩])

/-- `d2parser.ParseKey` -/
def parseKey (inp : Str) : KeyRes := parseKeyLoop false (inp.length + 1) inp []

/-! ## big.Rat.SetString as a decidable numeral grammar

  `nat.scan(r, 0, fracOk)`, `scanExponent(r, true, true)`, `Int.SetString(s, 0)` and the exponent range tests of
  `Rat.SetString`.  Only acceptance is modelled (the value does not matter to the quoting code); a byte
  ≥ 0x80 is never a digit, so characters stand for their first byte. -/

def digitVal (c : Char) : Nat :=
  if '0' ≤ c ∧ c ≤ '9' then c.toNat - '0'.toNat
  else if 'a' ≤ c ∧ c ≤ 'z' then c.toNat - 'a'.toNat + 10
  else if 'A' ≤ c ∧ c ≤ 'Z' then c.toNat - 'A'.toNat + 10
  else 99

structure NatScan where
  ok : Bool          -- err == nil
  zero : Bool        -- the scanned value is 0
  base : Nat
  count : Int        -- digit count, or minus the number of fractional digits when a point was seen
  rest : Str
  deriving Repr

structure NSt where
  fracOk : Bool
  prev : Char        -- '_', '0' (digit) or '.' (anything else)
  invalSep : Bool
  count : Nat
  dp : Option Nat
  nonzero : Bool

/-- the digit loop of `nat.scan`; answers the final state and the unread input -/
def natLoop (b : Nat) : NSt → Str → NSt × Str
  | st, [] => (st, [])
  | st, c :: rest =>
    if c == '.' && st.fracOk then
      natLoop b { st with fracOk := false, invalSep := st.invalSep || st.prev == '_', prev := '.', dp := some st.count } rest
    else if c == '_' then
      natLoop b { st with invalSep := st.invalSep || st.prev != '0', prev := '_' } rest
    else
      let d := digitVal c
      if d ≥ b then (st, c :: rest)
      else natLoop b { st with prev := '0', count := st.count + 1, nonzero := st.nonzero || d != 0 } rest

def natFinish (prefix0 : Bool) (b : Nat) (p : NSt × Str) : NatScan :=
  let st := p.1
  let sepErr := st.invalSep || st.prev == '_'
  if st.count == 0 then
    if prefix0 then { ok := !sepErr, zero := true, base := 10, count := 1, rest := p.2 }
    else { ok := false, zero := true, base := b, count := 0, rest := p.2 }
  else
    let cnt : Int := match st.dp with
      | some dp => (dp : Int) - (st.count : Int)
      | none => (st.count : Int)
    { ok := !sepErr, zero := !st.nonzero, base := b, count := cnt, rest := p.2 }

/-- `nat.scan(r, 0, fracOk)` -/
def natScan (fracOk : Bool) (inp : Str) : NatScan :=
  let st0 : NSt := { fracOk := fracOk, prev := '.', invalSep := false, count := 0, dp := none, nonzero := false }
  match inp with
  | '0' :: rest =>
    let st1 := { st0 with prev := '0', count := 1 }
    match rest with
    | [] => natFinish false 10 (st1, [])
    | c :: rest2 =>
      if c == 'b' || c == 'B' then natFinish false 2 (natLoop 2 { st1 with count := 0 } rest2)
      else if c == 'o' || c == 'O' then natFinish false 8 (natLoop 8 { st1 with count := 0 } rest2)
      else if c == 'x' || c == 'X' then natFinish false 16 (natLoop 16 { st1 with count := 0 } rest2)
      else if !fracOk then natFinish true 8 (natLoop 8 { st1 with count := 0 } rest)
      else natFinish false 10 (natLoop 10 st1 rest)
  | _ => natFinish false 10 (natLoop 10 st0 inp)

structure ExpScan where
  ok : Bool
  exp : Int
  base : Nat
  rest : Str

structure ESt where
  prev : Char
  invalSep : Bool
  hasDigits : Bool
  val : Nat

def expLoop : ESt → Str → ESt × Str
  | st, [] => (st, [])
  | st, c :: rest =>
    if '0' ≤ c ∧ c ≤ '9' then
      expLoop { st with prev := '0', hasDigits := true, val := st.val * 10 + (c.toNat - '0'.toNat) } rest
    else if c == '_' then expLoop { st with invalSep := st.invalSep || st.prev != '0', prev := '_' } rest
    else (st, c :: rest)

/-- `scanExponent(r, true, true)`; `strconv.ParseInt(digits, 10, 64)` must succeed -/
def scanExponent (inp : Str) : ExpScan :=
  match inp with
  | [] => { ok := true, exp := 0, base := 10, rest := [] }
  | c :: rest =>
    let eb : Nat := if c == 'e' || c == 'E' then 10 else if c == 'p' || c == 'P' then 2 else 0
    if eb == 0 then { ok := true, exp := 0, base := 10, rest := inp }
    else
      let (neg, rest1) := match rest with
        | '+' :: r => (false, r)
        | '-' :: r => (true, r)
        | _ => (false, rest)
      let (st, rest2) := expLoop { prev := '.', invalSep := false, hasDigits := false, val := 0 } rest1
      let inRange := if neg then st.val ≤ 2 ^ 63 else st.val < 2 ^ 63
      let ok := st.hasDigits && inRange && !(st.invalSep || st.prev == '_')
      { ok := ok, exp := if neg then - (st.val : Int) else (st.val : Int), base := eb, rest := rest2 }

def scanSign : Str → Str
  | '-' :: r => r
  | '+' :: r => r
  | s => s

/-- `Int.SetString(s, 0)` succeeds -/
def intSetString (s : Str) : Bool :=
  if s.isEmpty then false
  else
    let n := natScan false (scanSign s)
    n.ok && n.rest.isEmpty

def splitSlash : Str → Option (Str × Str)
  | [] => none
  | c :: rest =>
    if c == '/' then some ([], rest)
    else (splitSlash rest).map fun p => (c :: p.1, p.2)

/-- `big.NewRat(0,1).SetString(s)` succeeds -/
def isNumeral (s : Str) : Bool :=
  if s.isEmpty then false
  else
    match splitSlash s with
    | some (a, b) =>
      intSetString a &&
        (let d := natScan false b
         d.ok && d.rest.isEmpty && !d.zero)
    | none =>
      let m := natScan true (scanSign s)
      if !m.ok then false
      else
        let e := scanExponent m.rest
        if !e.ok || !e.rest.isEmpty then false
        else if m.zero then true
        else
          let d : Int := if m.count < 0 then m.count else 0
          let exp5a : Int := if m.base == 10 then d else 0
          let exp2a : Int := if m.base == 10 || m.base == 2 then d else if m.base == 8 then d * 3 else d * 4
          let exp5 : Int := if e.base == 10 then exp5a + e.exp else exp5a
          let exp2 : Int := exp2a + e.exp
          if exp5.natAbs > 1000000 then false
          else if exp2 < -10000000 || exp2 > 10000000 then false
          else true

/-! ## ParseValue -/

inductive ValKind where
  | null | suspension (v : Bool) | boolean (v : Bool) | number | unq | dq | sq
  deriving DecidableEq, Repr

def ValKind.name : ValKind → String
  | .null => "null" | .suspension true => "suspend" | .suspension false => "unsuspend"
  | .boolean _ => "boolean" | .number => "number" | .unq => "unq" | .dq => "dq" | .sq => "sq"

inductive ValRes where
  | ok (kind : ValKind) (scalar : Str) (rest : Str)
  | empty          -- "empty value"
  | err
  | unsupported
  deriving DecidableEq, Repr

def foldKindOf (v : Str) : Option FoldKind :=
  (valueFoldLadder.find? fun p => equalFold v p.1).map (·.2)

/-- the scalar that `parseValue` builds from an unquoted string `v`; `isNum` = `big.Rat.SetString` succeeds -/
def classify (isNum : Str → Bool) (v : Str) : ValKind × Str :=
  match foldKindOf v with
  | some .null => (.null, [])
  | some (.suspension b) => (.suspension b, [])
  | some (.boolean b) => (.boolean b, if b then "true".toList else "false".toList)
  | none => if isNum v then (.number, v) else (.unq, v)

/-- `d2parser.ParseValue` (arrays, maps, imports, block strings: outside the model) -/
def parseValue (isNum : Str → Bool) (inp : Str) : ValRes :=
  match skipSpacesNL inp with
  | none => .empty
  | some (c, rest) =>
    if c == '[' || c == '{' || c == '@' then .unsupported
    else
      match parseString false false (c :: rest) with
      | .nostring => .empty
      | .err => .err
      | .unsupported => .unsupported
      | .seg .dq v r => .ok .dq v r
      | .seg .sq v r => .ok .sq v r
      | .seg .unq v r => let (k, sc) := classify isNum v; .ok k sc r

/-! ## whether the tree under test carries the case-folding fix (closed Booleans over the generated tables) -/

/-- the words `parseValue` matches case-insensitively -/
def foldWords : List String := ["null", "suspend", "unsuspend", "true", "false"]

/-- the code under test quotes keyword case variants in keys and keeps the spelling of an unquoted null key -/
def keyFixApplied : Bool := rawKeyQuotesKeywordCase && uqFoldLiteral.isNone

/-- the code under test does not lower-case values, quotes every case variant of null / suspend / unsuspend
    and every non-canonical spelling of true / false -/
def valueFixApplied : Bool :=
  !(lowerGuard false false) &&
  ["null", "suspend", "unsuspend"].all (fun w => rawValueFoldWords.contains w) &&
  ["true", "false"].all (fun w => rawValueFoldWords.contains w || rawValueFoldNeWords.contains w)

end D2V.Quote
