/-
  Vocabulary of the theme layer (C28, C31): the 18 theme colour codes of d2 (`lib/color`: N1–N7, B1–B6,
  AA2/AA4/AA5, AB4/AB5), a palette record (`d2themes.ColorPalette` with `Neutrals` flattened), the
  `d2themes.SpecialRules` record and a catalog entry (`d2themes.Theme`).
  The *tables* (catalog, override assignments, resolve switch, stylesheet rules …) are regenerated from the Go
  sources into `D2V/Gen/Themes.lean`, which imports this file only for the types.
-/
namespace D2V.Themes

inductive Code where
  | N1 | N2 | N3 | N4 | N5 | N6 | N7
  | B1 | B2 | B3 | B4 | B5 | B6
  | AA2 | AA4 | AA5
  | AB4 | AB5
deriving DecidableEq, Repr, Inhabited

def Code.all : List Code :=
  [.N1, .N2, .N3, .N4, .N5, .N6, .N7, .B1, .B2, .B3, .B4, .B5, .B6, .AA2, .AA4, .AA5, .AB4, .AB5]

def Code.name : Code → String
  | .N1 => "N1" | .N2 => "N2" | .N3 => "N3" | .N4 => "N4" | .N5 => "N5" | .N6 => "N6" | .N7 => "N7"
  | .B1 => "B1" | .B2 => "B2" | .B3 => "B3" | .B4 => "B4" | .B5 => "B5" | .B6 => "B6"
  | .AA2 => "AA2" | .AA4 => "AA4" | .AA5 => "AA5"
  | .AB4 => "AB4" | .AB5 => "AB5"

def Code.ofName? (s : String) : Option Code := Code.all.find? (fun c => c.name == s)

/-- `d2themes.ColorPalette` (the `Neutrals` sub-struct flattened) -/
structure Palette where
  n1 : String := ""
  n2 : String := ""
  n3 : String := ""
  n4 : String := ""
  n5 : String := ""
  n6 : String := ""
  n7 : String := ""
  b1 : String := ""
  b2 : String := ""
  b3 : String := ""
  b4 : String := ""
  b5 : String := ""
  b6 : String := ""
  aa2 : String := ""
  aa4 : String := ""
  aa5 : String := ""
  ab4 : String := ""
  ab5 : String := ""
deriving DecidableEq, Repr, Inhabited

def Palette.get (p : Palette) : Code → String
  | .N1 => p.n1 | .N2 => p.n2 | .N3 => p.n3 | .N4 => p.n4 | .N5 => p.n5 | .N6 => p.n6 | .N7 => p.n7
  | .B1 => p.b1 | .B2 => p.b2 | .B3 => p.b3 | .B4 => p.b4 | .B5 => p.b5 | .B6 => p.b6
  | .AA2 => p.aa2 | .AA4 => p.aa4 | .AA5 => p.aa5
  | .AB4 => p.ab4 | .AB5 => p.ab5

def Palette.set (p : Palette) (c : Code) (v : String) : Palette :=
  match c with
  | .N1 => { p with n1 := v } | .N2 => { p with n2 := v } | .N3 => { p with n3 := v }
  | .N4 => { p with n4 := v } | .N5 => { p with n5 := v } | .N6 => { p with n6 := v }
  | .N7 => { p with n7 := v }
  | .B1 => { p with b1 := v } | .B2 => { p with b2 := v } | .B3 => { p with b3 := v }
  | .B4 => { p with b4 := v } | .B5 => { p with b5 := v } | .B6 => { p with b6 := v }
  | .AA2 => { p with aa2 := v } | .AA4 => { p with aa4 := v } | .AA5 => { p with aa5 := v }
  | .AB4 => { p with ab4 := v } | .AB5 => { p with ab5 := v }

/-- `d2themes.SpecialRules` (the generator fails when the Go struct's field list differs) -/
structure Rules where
  mono : Bool := false
  noCornerRadius : Bool := false
  outerContainerDoubleBorder : Bool := false
  containerDots : Bool := false
  capsLock : Bool := false
  c4 : Bool := false
  allPaper : Bool := false
deriving DecidableEq, Repr, Inhabited

/-- the Go field names of `SpecialRules`, in the order of `Rules` -/
def Rules.fieldNames : List String :=
  ["Mono", "NoCornerRadius", "OuterContainerDoubleBorder", "ContainerDots", "CapsLock", "C4", "AllPaper"]

/-- `d2themes.Theme` -/
structure ThemeRec where
  id : Int := 0
  name : String := ""
  colors : Palette := {}
  rules : Rules := {}
deriving DecidableEq, Repr, Inhabited

/-- Go's zero value `d2themes.Theme{}` (what `Find` returns for an unknown ID) -/
def ThemeRec.zero : ThemeRec := {}

end D2V.Themes
