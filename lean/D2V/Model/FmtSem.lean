/-
  A small evaluator for the `core+boards` sub-fragment of D2 (C04; agent `format`): which objects exist on which
  board.  It models the part of d2ir/compile.go that makes the position of a board block meaningful:

    compiler.compileMap      declarations of a map are compiled in source order;
    compiler._compileField   a `layers` board starts from nothing, a `scenarios` board is created by
                             `overlay(ParentBoard(f).Map(), f)` — a COPY OF THE PARENT BOARD AS IT IS AT THAT MOMENT
                             (Map.CopyBase: without the parent's own layers/scenarios/steps) — and a `steps` board
                             copies the previous step (the first one copies the parent board);
    Map.EnsureField          a key path `a.b.c` creates the missing objects `a`, `a.b`, `a.b.c`.

  Programs (`Decl`): object declarations with a key path and a nested body, and board blocks.  Labels, shapes,
  styles, edges are outside this evaluator (they are covered by Spec-on-impl in the driver).

  `blDecls` is `boardsLast` on programs: in every declaration list the non-empty board blocks move behind the
  other declarations (stable), empty board blocks are dropped.
  Core Lean only.
-/
import D2V.Model.Fmt

namespace D2V.FmtSem
open D2V.Fmt

abbrev Name := List Char
abbrev OPath := List Name

inductive BKind where
  | layers | scenarios | steps
  deriving DecidableEq, Repr, Inhabited

inductive Decl where
  | obj (path : OPath) (body : List Decl)
  | boards (kind : BKind) (bs : List Decl)      -- entries are `.board`
  | board (name : Name) (body : List Decl)
  deriving Repr, Inhabited

/-- result: the objects of a board (absolute key paths, in creation order) and its sub-boards -/
inductive BoardV where
  | mk (objs : List OPath) (layers scenarios steps : List (Name × BoardV))
  deriving Repr, Inhabited

def BoardV.objs : BoardV → List OPath
  | .mk o _ _ _ => o

def BoardV.layers : BoardV → List (Name × BoardV)
  | .mk _ l _ _ => l

def BoardV.scenarios : BoardV → List (Name × BoardV)
  | .mk _ _ s _ => s

def BoardV.steps : BoardV → List (Name × BoardV)
  | .mk _ _ _ t => t

/-- the object sets of the scenarios of a board (decidable view used by the counterexample theorems) -/
def BoardV.scenarioObjs (b : BoardV) : List (Name × List OPath) := b.scenarios.map fun (n, x) => (n, x.objs)

structure St where
  objs : List OPath
  layers : List (Name × BoardV)
  scenarios : List (Name × BoardV)
  steps : List (Name × BoardV)
  deriving Repr, Inhabited

def St.toBoard (s : St) : BoardV := .mk s.objs s.layers s.scenarios s.steps

/-- a fresh board that inherits the objects `base` -/
def St.init (base : List OPath) : St := { objs := base, layers := [], scenarios := [], steps := [] }

def addObj (objs : List OPath) (p : OPath) : List OPath := if objs.contains p then objs else objs ++ [p]

/-- EnsureField: every non-empty prefix of the path exists afterwards -/
def ensureFrom (objs : List OPath) (done : OPath) : OPath → List OPath
  | [] => objs
  | n :: rest => ensureFrom (addObj objs (done ++ [n])) (done ++ [n]) rest

def isBoards : Decl → Bool
  | .boards _ _ => true
  | _ => false

def isKept : Decl → Bool
  | .boards _ (_ :: _) => true
  | _ => false

mutual
  /-- the objects created by the declarations INSIDE an object whose key path is `pre` (board keywords are not
      allowed there; the evaluator ignores them) -/
  def objsDecls (pre : OPath) (objs : List OPath) : List Decl → List OPath
    | [] => objs
    | d :: ds => objsDecls pre (objsDecl pre objs d) ds
  def objsDecl (pre : OPath) (objs : List OPath) : Decl → List OPath
    | .obj path body => objsDecls (pre ++ path) (ensureFrom objs pre path) body
    | .boards _ _ => objs
    | .board _ _ => objs
end

mutual
  /-- compile the declarations of a board root in source order -/
  def evalDecls (s : St) : List Decl → St
    | [] => s
    | d :: ds => evalDecls (evalDecl s d) ds

  def evalDecl (s : St) : Decl → St
    | .obj path body => { s with objs := objsDecls path (ensureFrom s.objs [] path) body }
    | .boards .layers bs => { s with layers := s.layers ++ evalLayers bs }
    | .boards .scenarios bs => { s with scenarios := s.scenarios ++ evalScenarios s.objs bs }
    | .boards .steps bs => { s with steps := s.steps ++ evalSteps s.objs bs }
    | .board _ _ => s

  def evalLayers : List Decl → List (Name × BoardV)
    | [] => []
    | .board n body :: rest => (n, (evalDecls (St.init []) body).toBoard) :: evalLayers rest
    | _ :: rest => evalLayers rest

  def evalScenarios (base : List OPath) : List Decl → List (Name × BoardV)
    | [] => []
    | .board n body :: rest => (n, (evalDecls (St.init base) body).toBoard) :: evalScenarios base rest
    | _ :: rest => evalScenarios base rest

  def evalSteps (base : List OPath) : List Decl → List (Name × BoardV)
    | [] => []
    | .board n body :: rest =>
        let b := (evalDecls (St.init base) body).toBoard
        (n, b) :: evalSteps b.objs rest
    | _ :: rest => evalSteps base rest
end

/-- a board: `base` objects inherited, then its own declarations -/
def evalBoard (base : List OPath) (body : List Decl) : BoardV := (evalDecls (St.init base) body).toBoard

def evalRoot (p : List Decl) : BoardV := evalBoard [] p

/-! ## `boardsLast` on programs -/

mutual
  def blDecl : Decl → Decl
    | .obj p body => .obj p (blNon body ++ blKept body)
    | .boards k bs => .boards k (blAll bs)
    | .board n body => .board n (blNon body ++ blKept body)
  def blAll : List Decl → List Decl
    | [] => []
    | d :: ds => blDecl d :: blAll ds
  def blNon : List Decl → List Decl
    | [] => []
    | d :: ds => if isBoards d then blNon ds else blDecl d :: blNon ds
  def blKept : List Decl → List Decl
    | [] => []
    | d :: ds => if isKept d then blDecl d :: blKept ds else blKept ds
end

def blDecls (l : List Decl) : List Decl := blNon l ++ blKept l

/-- a non-empty `scenarios` / `steps` block: its boards copy the parent board at the point of declaration -/
def inherits : Decl → Bool
  | .boards .scenarios (_ :: _) => true
  | .boards .steps (_ :: _) => true
  | _ => false

mutual
  /-- the region of `boardsLast_sound_partial`: in every board root, no non-board declaration follows a non-empty
      scenarios / steps block (layers blocks may stand anywhere) -/
  def okD : Decl → Bool
    | .obj _ _ => true
    | .boards _ bs => okAll bs
    | .board _ body => okL body
  def okAll : List Decl → Bool
    | [] => true
    | d :: ds => okD d && okAll ds
  def okL : List Decl → Bool
    | [] => true
    | d :: ds => okD d && (!inherits d || ds.all isBoards) && okL ds
end

/-! ## reading a fragment AST as a program (partial: `none` outside the evaluator's sub-fragment) -/

def nameChar (c : Char) : Bool := c.isAlphanum || c = '_' || c = ' ' || c = '-'

def goodName (n : Name) : Bool :=
  !n.isEmpty && n.all nameChar && n.head? != some ' ' && n.getLast? != some ' ' && n.head? != some '-' && n.getLast? != some '-'
    && !isReserved (lower n) && !(n.zip (n.drop 1)).any (fun (a, b) => a == '-' && b == '-')
    && n != ['_'] && !(["null", "true", "false", "suspend", "unsuspend"].map String.toList).contains (lower n)

def segName (s : Str) : Option Name :=
  if goodName s.val && (s.q != .u || s.raw == s.val) then some s.val else none

def pathNames : Path → Option OPath
  | [] => some []
  | s :: rest => do
      let n ← segName s
      let r ← pathNames rest
      pure (n :: r)

def boardKind (s : Str) : Option BKind :=
  if s.q != .u then none
  else if s.raw = "layers".toList then some .layers
  else if s.raw = "scenarios".toList then some .scenarios
  else if s.raw = "steps".toList then some .steps
  else none

def labelOk : Option Scalar → Bool
  | none => true
  | some (.str s) => !isReserved (lower s.raw) || s.q != .u
  | some _ => false

def plainHead (h : KeyHead) : Option Path :=
  if h.amp = 0 && h.hops.isEmpty && h.eidx == .none && h.ekey.isNone && h.src.isNone then h.key else none

mutual
  /-- `root` = the map is a board root (board blocks allowed) -/
  partial def declOf (root : Bool) : N → Option Decl
    | .mnode _ _ (.key h prim val) => do
        let p ← plainHead h
        match p with
        | [s] =>
          match boardKind s with
          | some k =>
            if !root || prim.isSome then none else
            match val with
            | .map _ nodes => do
                let bs ← nodes.mapM boardOf
                pure (.boards k bs)
            | _ => none
          | none => objOf p prim val
        | _ => objOf p prim val
    | _ => none

  partial def objOf (p : Path) (prim : Option Scalar) (val : N) : Option Decl := do
    let names ← pathNames p
    if names.isEmpty || !labelOk prim then none else
    match val with
    | .absent => pure (.obj names [])
    | .scalar (.str s) => if prim.isNone && labelOk (some (.str s)) then pure (.obj names []) else none
    | .map _ nodes => do
        let body ← nodes.mapM (declOf false)
        pure (.obj names body)
    | _ => none

  partial def boardOf : N → Option Decl
    | .mnode _ _ (.key _ none (.map _ [])) => none   -- `name: {}` is printed as `name`: outside the sub-fragment
    | .mnode _ _ (.key h none (.map _ nodes)) => do
        let p ← plainHead h
        match p with
        | [s] => do
            let n ← segName s
            let body ← nodes.mapM (declOf true)
            pure (.board n body)
        | _ => none
    | _ => none
end

mutual
  partial def namesOf : Decl → List Name
    | .obj p body => p ++ namesOfL body
    | .boards _ bs => namesOfL bs
    | .board n body => n :: namesOfL body
  partial def namesOfL : List Decl → List Name
    | [] => []
    | d :: ds => namesOf d ++ namesOfL ds
end

mutual
  /-- no two boards of one kind share a name within a board (field merging is not modelled) -/
  partial def boardNamesDistinct : List Decl → Bool
    | ds =>
      let names (k : BKind) : List Name := ds.flatMap fun d => match d with
        | .boards k' bs => if k' == k then bs.filterMap (fun b => match b with | .board n _ => some n | _ => none) else []
        | _ => []
      let distinct (l : List Name) : Bool := (l.map lower).eraseDups.length == l.length
      distinct (names .layers) && distinct (names .scenarios) && distinct (names .steps) && ds.all fun d => match d with
        | .obj _ body => boardNamesDistinct body
        | .boards _ bs => bs.all fun b => match b with | .board _ body => boardNamesDistinct body | _ => true
        | .board _ body => boardNamesDistinct body
end

/-- the program of a file map, when it lies in the evaluator's sub-fragment: plain object declarations and board
    blocks only, names that differ only in letter case do not occur (ids are matched case-insensitively by d2) -/
def ofAst : N → Option (List Decl)
  | .map _ nodes => do
      let ds ← nodes.mapM (declOf true)
      let ns := namesOfL ds
      let spellings := ns.eraseDups
      if (spellings.map lower).eraseDups.length == spellings.length && boardNamesDistinct ds then pure ds else none
  | _ => none

/-! ## labels (for the value-case counterexample) -/

/-- `name: text` declarations of a file map: the label text each one assigns -/
def labelOfNode : N → Option (Text × Text)
  | .mnode _ _ (.key h none (.scalar (.str s))) =>
      match plainHead h with
      | some [k] => some (k.val, s.val)
      | _ => none
  | _ => none

def labelsOf : N → List (Text × Text)
  | .map _ nodes => nodes.filterMap labelOfNode
  | _ => []

/-! ## canonical rendering (compared with the projection of the real compile) -/

def joinWith (sep : String) (l : List String) : String := sep.intercalate l

def insertSorted (x : String) : List String → List String
  | [] => [x]
  | y :: ys => if x ≤ y then x :: y :: ys else y :: insertSorted x ys

def sortStrings (l : List String) : List String := l.foldr insertSorted []

partial def render : BoardV → String
  | .mk objs ls ss ts =>
    let ids := sortStrings (objs.map fun p => joinWith "." (p.map String.ofList))
    let sub (l : List (Name × BoardV)) := joinWith "," (l.map fun (n, b) => String.ofList n ++ render b)
    "{" ++ joinWith "," ids ++ "|L:" ++ sub ls ++ "|S:" ++ sub ss ++ "|T:" ++ sub ts ++ "}"

end D2V.FmtSem
