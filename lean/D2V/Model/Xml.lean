/-
  A strict, executable XML 1.0 (5th ed.) well-formedness checker as a single-pass structural automaton over
  `List Char` (the document decoded from UTF-8).  It is the *Spec* of C30 ("the SVG output is a well-formed XML
  document") and is run by the driver on the real SVG bytes; the same `step` function is what the theorems of
  `Props/C30.lean` reason about, so nothing separates "the checker that was proved about" from "the checker that ran".

  Checked (production numbers of the XML 1.0 recommendation):
    [1] document = prolog element Misc*        exactly one root element, only S / comments / PIs around it
    [2] Char                                   every character, everywhere
    [5] Name, [4] NameStartChar/NameChar       element, attribute and PI target names
    [10] AttValue                              quoted, no `<`, `&` only as a reference
    [14] CharData                              no `]]>` in character data
    [15] Comment                               no `--` inside, [16] PI (target ≠ xml), [18] CDSect
    [23] XMLDecl                               only at offset 0, version / encoding / standalone pseudo-attributes
    [28] doctypedecl                           accepted only without an internal subset, before the root, once
    [39]–[44] element / STag / ETag / EmptyElemTag: nesting, matching names, S between attributes,
                                               WFC "Unique Att Spec"
    [66]–[68] references                       the five predefined entities; character references must denote a Char
                                               (WFC "Legal Character", "Entity Declared": no DTD ⇒ nothing else exists)
  Not checked: namespace well-formedness (prefix declarations), anything needing a DTD.

  Output: besides acceptance the automaton records the element / attribute structure as a list of events
  (`open name attrs` / `close`), which is the element tree in document order.  Attribute values are kept raw
  (references unresolved); `decodeRefs` resolves them.
-/
import D2V.Model.Escape
namespace D2V.Xml
open D2V.Escape

def isSpace (c : Char) : Bool := c = ' ' || c = '\t' || c = '\n' || c = '\r'

/-- [4] NameStartChar -/
def isNameStart (c : Char) : Bool :=
  let n := c.toNat
  c = ':' || c = '_' || (65 ≤ n && n ≤ 90) || (97 ≤ n && n ≤ 122)
    || (0xC0 ≤ n && n ≤ 0xD6) || (0xD8 ≤ n && n ≤ 0xF6) || (0xF8 ≤ n && n ≤ 0x2FF)
    || (0x370 ≤ n && n ≤ 0x37D) || (0x37F ≤ n && n ≤ 0x1FFF) || (0x200C ≤ n && n ≤ 0x200D)
    || (0x2070 ≤ n && n ≤ 0x218F) || (0x2C00 ≤ n && n ≤ 0x2FEF) || (0x3001 ≤ n && n ≤ 0xD7FF)
    || (0xF900 ≤ n && n ≤ 0xFDCF) || (0xFDF0 ≤ n && n ≤ 0xFFFD) || (0x10000 ≤ n && n ≤ 0xEFFFF)

/-- [4a] NameChar -/
def isNameChar (c : Char) : Bool :=
  let n := c.toNat
  isNameStart c || c = '-' || c = '.' || (48 ≤ n && n ≤ 57) || n = 0xB7
    || (0x300 ≤ n && n ≤ 0x36F) || (0x203F ≤ n && n ≤ 0x2040)

abbrev Name := List Char

inductive Ev where
  | open (name : Name) (attrs : List (Name × List Char))
  | close
  deriving DecidableEq, Repr

inductive Mode where
  | start                          -- nothing consumed yet
  | content (br : Nat)             -- character data / between markup; br = consecutive `]` just seen (capped at 2)
  | lt                             -- `<`
  | bang                           -- `<!`
  | bangDash                       -- `<!-`
  | comment (d : Nat)              -- inside a comment; d = consecutive `-` just seen (0, 1, 2)
  | cdataOpen (k : Nat)            -- matched k characters of `[CDATA[`
  | cdata (br : Nat)               -- inside a CDATA section; br as in content
  | doctypeKw (k : Nat)            -- matched k characters of `DOCTYPE`
  | doctype (q : Option Char)      -- inside `<!DOCTYPE … >`; q = open quote
  | piTarget (t : Name)            -- reading a PI target (reversed)
  | pi (q : Bool)                  -- inside a PI; q = the previous character was `?`
  | xmlDecl (body : List Char) (q : Bool)  -- inside `<?xml …?>` at offset 0 (body reversed)
  | tagName (n : Name)             -- reading the name of a start tag (reversed)
  | tagSpace (ws : Bool)           -- inside a start tag after the name or an attribute; ws = S seen since
  | attrName (n : Name)            -- reversed
  | attrEq                         -- attribute name read, `=` expected
  | attrQuote                      -- `=` read, opening quote expected
  | attrVal (q : Char)
  | attrRef (q : Char) (r : List Char)   -- inside `&…;` in an attribute value (reversed)
  | slash                          -- `/` inside a start tag: `>` must follow
  | closeName (n : Name)           -- reading `</name` (reversed)
  | closeSpace                     -- `</name` S* : `>` must follow
  | textRef (r : List Char)        -- inside `&…;` in content (reversed)
  | err (why : String)
  deriving DecidableEq, Repr

structure St where
  mode : Mode := .start
  stack : List Name := []          -- open elements, innermost first
  rootSeen : Bool := false
  rootDone : Bool := false
  doctypeSeen : Bool := false
  first : Bool := false            -- the markup being read started at offset 0
  name : Name := []                -- name of the start tag being read
  attrs : List (Name × List Char) := []   -- its attributes so far (reversed)
  aname : Name := []
  aval : List Char := []           -- raw value so far (reversed)
  evs : List Ev := []              -- reversed
  deriving DecidableEq, Repr

def init : St := {}

def fail (st : St) (why : String) : St := { st with mode := .err why }

def hexVal? (c : Char) : Option Nat :=
  let n := c.toNat
  if 48 ≤ n && n ≤ 57 then some (n - 48)
  else if 97 ≤ n && n ≤ 102 then some (n - 87)
  else if 65 ≤ n && n ≤ 70 then some (n - 55)
  else none

def decVal? (c : Char) : Option Nat :=
  let n := c.toNat
  if 48 ≤ n && n ≤ 57 then some (n - 48) else none

/-- value of a digit string in the given base; `none` when empty or a non-digit occurs.  Saturates above 0x110000. -/
def digitsVal (base : Nat) (dig : Char → Option Nat) : List Char → Option Nat
  | [] => none
  | cs => cs.foldl (fun acc c => match acc, dig c with
      | some a, some d => some (min (a * base + d) 0x110000)
      | _, _ => none) (some 0)

def natIsChar (n : Nat) : Bool :=
  n = 0x9 || n = 0xA || n = 0xD || (0x20 ≤ n && n ≤ 0xD7FF) || (0xE000 ≤ n && n ≤ 0xFFFD) || (0x10000 ≤ n && n ≤ 0x10FFFF)

/-- code point denoted by a character reference body (`#60`, `#x3C`), if legal -/
def charRefVal (r : List Char) : Option Nat :=
  match r with
  | '#' :: 'x' :: ds => (digitsVal 16 hexVal? ds).bind fun n => if natIsChar n then some n else none
  | '#' :: ds => (digitsVal 10 decVal? ds).bind fun n => if natIsChar n then some n else none
  | _ => none

/-- [67] Reference, body between `&` and `;`: a predefined entity or a legal character reference -/
def refOk (r : List Char) : Bool :=
  r == ['l', 't'] || r == ['g', 't'] || r == ['a', 'm', 'p'] || r == ['q', 'u', 'o', 't'] || r == ['a', 'p', 'o', 's']
    || (charRefVal r).isSome

def cdataKw : List Char := ['[', 'C', 'D', 'A', 'T', 'A', '[']
def doctypeKwd : List Char := ['D', 'O', 'C', 'T', 'Y', 'P', 'E']

def isXmlName (t : Name) : Bool :=
  match t with
  | [a, b, c] => (a = 'x' || a = 'X') && (b = 'm' || b = 'M') && (c = 'l' || c = 'L')
  | _ => false

/-! ### XML declaration body: `version="1.x"` [S `encoding="…"`] [S `standalone="yes|no"`] [S] -/

def dropSpace : List Char → List Char
  | c :: cs => if isSpace c then dropSpace cs else c :: cs
  | [] => []

/-- strip `kw`, optional S, `=`, optional S, a quoted value; returns (value, rest) -/
def pseudoAttr (kw : List Char) (s : List Char) : Option (List Char × List Char) :=
  if kw.isPrefixOf s then
    match dropSpace (s.drop kw.length) with
    | '=' :: r =>
      match dropSpace r with
      | q :: r2 =>
        if q = '"' || q = '\'' then
          let v := r2.takeWhile (· ≠ q)
          match r2.dropWhile (· ≠ q) with
          | _ :: rest => some (v, rest)
          | [] => none
        else none
      | [] => none
    | _ => none
  else none

def versionOk (v : List Char) : Bool :=
  match v with
  | '1' :: '.' :: d :: ds => (d :: ds).all Char.isDigit
  | _ => false

def encNameOk (v : List Char) : Bool :=
  match v with
  | c :: cs => c.isAlpha && cs.all fun x => x.isAlphanum || x = '.' || x = '_' || x = '-'
  | [] => false

def declOk (body : List Char) : Bool :=
  match pseudoAttr ['v','e','r','s','i','o','n'] (dropSpace body) with
  | none => false
  | some (v, rest) =>
    versionOk v &&
    (let r1 := dropSpace rest
     if r1.isEmpty then true
     else if r1.length == rest.length then false   -- S required before the next pseudo-attribute
     else
      let afterEnc : Option (List Char) :=
        match pseudoAttr ['e','n','c','o','d','i','n','g'] r1 with
        | some (e, r2) => if encNameOk e then some r2 else none
        | none => some rest
      match afterEnc with
      | none => false
      | some r2 =>
        let r3 := dropSpace r2
        if r3.isEmpty then true
        else if r3.length == r2.length then false
        else match pseudoAttr ['s','t','a','n','d','a','l','o','n','e'] r3 with
          | some (s, r4) => (s == ['y','e','s'] || s == ['n','o']) && (dropSpace r4).isEmpty
          | none => false)

/-- effect of completing a start tag (`>`): record the element and descend.  The scratch fields (`name`, `attrs`,
    `aname`, `aval`, `first`) are cleared whenever the automaton returns to content mode, so that content-mode states
    are canonical. -/
def openElem (st : St) : St :=
  { st with mode := .content 0, stack := st.name :: st.stack, rootSeen := true,
            evs := .open st.name st.attrs.reverse :: st.evs, name := [], attrs := [], aname := [], aval := [], first := false }

/-- effect of completing an empty-element tag (`/>`) -/
def emptyElem (st : St) : St :=
  { st with mode := .content 0, rootSeen := true, rootDone := st.rootDone || st.stack.isEmpty,
            evs := .close :: .open st.name st.attrs.reverse :: st.evs,
            name := [], attrs := [], aname := [], aval := [], first := false }

/-- effect of completing an end tag -/
def closeElem (st : St) : St :=
  match st.stack with
  | _ :: rest => { st with mode := .content 0, stack := rest, rootDone := st.rootDone || rest.isEmpty,
                           evs := .close :: st.evs, first := false }
  | [] => fail st "end tag without open element"

def step (st : St) (c : Char) : St :=
  match st.mode with
  | .err _ => st
  | .start =>
      if c = '<' then { st with mode := .lt, first := true }
      else if isSpace c then { st with mode := .content 0 }
      else fail st "text before the root element"
  | .content br =>
      if c = '<' then { st with mode := .lt }
      else if c = '&' then
        (if st.stack.isEmpty then fail st "reference outside the root element" else { st with mode := .textRef [] })
      else if isSpace c then { st with mode := .content 0 }
      else if st.stack.isEmpty then fail st "text outside the root element"
      else if c = ']' then { st with mode := .content (min (br + 1) 2) }
      else if c = '>' then (if br = 2 then fail st "]]> in character data" else { st with mode := .content 0 })
      else if inCharRange c then { st with mode := .content 0 }
      else fail st "character not allowed in XML"
  | .lt =>
      if isNameStart c then
        (if st.stack.isEmpty && st.rootSeen then fail st "second root element"
         else { st with mode := .tagName [c], attrs := [], first := false })
      else if c = '!' then { st with mode := .bang }
      else if c = '?' then { st with mode := .piTarget [] }
      else if c = '/' then
        (if st.stack.isEmpty then fail st "end tag without open element" else { st with mode := .closeName [], first := false })
      else fail st "bad character after <"
  | .bang =>
      if c = '-' then { st with mode := .bangDash, first := false }
      else if c = '[' then
        (if st.stack.isEmpty then fail st "CDATA outside the root element" else { st with mode := .cdataOpen 1, first := false })
      else if c = 'D' then
        (if st.stack.isEmpty && !st.rootSeen && !st.doctypeSeen then { st with mode := .doctypeKw 1, first := false }
         else fail st "misplaced DOCTYPE")
      else fail st "bad markup declaration"
  | .bangDash => if c = '-' then { st with mode := .comment 0 } else fail st "bad comment start"
  | .comment d =>
      if d = 2 then (if c = '>' then { st with mode := .content 0 } else fail st "-- inside comment")
      else if c = '-' then { st with mode := .comment (d + 1) }
      else if inCharRange c then { st with mode := .comment 0 }
      else fail st "character not allowed in XML (comment)"
  | .cdataOpen k =>
      if cdataKw[k]? = some c then (if k + 1 = 7 then { st with mode := .cdata 0 } else { st with mode := .cdataOpen (k + 1) })
      else fail st "bad CDATA start"
  | .cdata br =>
      if c = ']' then { st with mode := .cdata (min (br + 1) 2) }
      else if c = '>' && br = 2 then { st with mode := .content 0 }
      else if inCharRange c then { st with mode := .cdata 0 }
      else fail st "character not allowed in XML (CDATA)"
  | .doctypeKw k =>
      if k = 7 then (if isSpace c then { st with mode := .doctype none, doctypeSeen := true } else fail st "bad DOCTYPE")
      else if doctypeKwd[k]? = some c then { st with mode := .doctypeKw (k + 1) }
      else fail st "bad DOCTYPE"
  | .doctype q =>
      match q with
      | some qc => if c = qc then { st with mode := .doctype none }
                   else if inCharRange c then st else fail st "character not allowed in XML (DOCTYPE)"
      | none =>
        if c = '>' then { st with mode := .content 0 }
        else if c = '"' || c = '\'' then { st with mode := .doctype (some c) }
        else if c = '[' || c = '<' then fail st "DOCTYPE with internal subset not supported"
        else if inCharRange c then st else fail st "character not allowed in XML (DOCTYPE)"
  | .piTarget t =>
      if t.isEmpty then (if isNameStart c then { st with mode := .piTarget [c] } else fail st "bad PI target")
      else if isNameChar c then { st with mode := .piTarget (c :: t) }
      else if isSpace c then
        (if isXmlName t.reverse then
           (if st.first && t.reverse == ['x', 'm', 'l'] then { st with mode := .xmlDecl [] false }
            else fail st "PI target xml is reserved")
         else { st with mode := .pi false, first := false })
      else if c = '?' then
        (if isXmlName t.reverse then fail st "PI target xml is reserved" else { st with mode := .pi true, first := false })
      else fail st "bad PI target"
  | .pi q =>
      if q && c = '>' then { st with mode := .content 0 }
      else if c = '?' then { st with mode := .pi true }
      else if inCharRange c then { st with mode := .pi false }
      else fail st "character not allowed in XML (PI)"
  | .xmlDecl body q =>
      if q && c = '>' then
        (if declOk (body.drop 1).reverse then { st with mode := .content 0, first := false } else fail st "bad XML declaration")
      else if inCharRange c then { st with mode := .xmlDecl (c :: body) (c = '?') }
      else fail st "character not allowed in XML (XML declaration)"
  | .tagName n =>
      if isNameChar c then { st with mode := .tagName (c :: n) }
      else if isSpace c then { st with mode := .tagSpace true, name := n.reverse }
      else if c = '>' then openElem { st with name := n.reverse }
      else if c = '/' then { st with mode := .slash, name := n.reverse }
      else fail st "bad character in element name"
  | .tagSpace ws =>
      if isNameStart c then
        (if ws then { st with mode := .attrName [c] } else fail st "whitespace required between attributes")
      else if isSpace c then { st with mode := .tagSpace true }
      else if c = '>' then openElem st
      else if c = '/' then { st with mode := .slash }
      else fail st "bad character in start tag"
  | .attrName n =>
      if isNameChar c then { st with mode := .attrName (c :: n) }
      else if isSpace c then { st with mode := .attrEq, aname := n.reverse }
      else if c = '=' then { st with mode := .attrQuote, aname := n.reverse }
      else fail st "bad character in attribute name"
  | .attrEq =>
      if isSpace c then st
      else if c = '=' then { st with mode := .attrQuote }
      else fail st "= expected after attribute name"
  | .attrQuote =>
      if isSpace c then st
      else if c = '"' || c = '\'' then { st with mode := .attrVal c, aval := [] }
      else fail st "attribute value must be quoted"
  | .attrVal q =>
      if c = q then
        (if st.attrs.any (fun a => a.1 == st.aname) then fail st "duplicate attribute"
         else { st with mode := .tagSpace false, attrs := (st.aname, st.aval.reverse) :: st.attrs, aname := [], aval := [] })
      else if c = '<' then fail st "< in attribute value"
      else if c = '&' then { st with mode := .attrRef q [] }
      else if inCharRange c then { st with aval := c :: st.aval }
      else fail st "character not allowed in XML (attribute value)"
  | .attrRef q r =>
      if c = ';' then
        (if refOk r.reverse then { st with mode := .attrVal q, aval := ';' :: (r ++ '&' :: st.aval) }
         else fail st "undefined entity or illegal character reference (attribute value)")
      else if isNameChar c || c = '#' then { st with mode := .attrRef q (c :: r) }
      else fail st "bad reference (attribute value)"
  | .slash => if c = '>' then emptyElem st else fail st "> expected after /"
  | .closeName n =>
      if n.isEmpty then (if isNameStart c then { st with mode := .closeName [c] } else fail st "bad end tag")
      else if isNameChar c then { st with mode := .closeName (c :: n) }
      else if isSpace c then
        (if st.stack.head? = some n.reverse then { st with mode := .closeSpace } else fail st "mismatched end tag")
      else if c = '>' then
        (if st.stack.head? = some n.reverse then closeElem st else fail st "mismatched end tag")
      else fail st "bad character in end tag"
  | .closeSpace =>
      if isSpace c then st
      else if c = '>' then closeElem st
      else fail st "> expected in end tag"
  | .textRef r =>
      if c = ';' then
        (if refOk r.reverse then { st with mode := .content 0 }
         else fail st "undefined entity or illegal character reference")
      else if isNameChar c || c = '#' then { st with mode := .textRef (c :: r) }
      else fail st "bad reference"

def run (st : St) (s : List Char) : St := s.foldl step st

/-- end of input: between markup, every element closed, the root element seen -/
def accepting (st : St) : Bool :=
  (match st.mode with | .content _ => true | _ => false) && st.stack.isEmpty && st.rootDone

/-- the element / attribute events of a document, in document order -/
def events (s : List Char) : List Ev := (run init s).evs.reverse

/-- [1] document -/
def wf (s : List Char) : Bool := accepting (run init s)

def elementNames (evs : List Ev) : List Name :=
  evs.filterMap fun | .open n _ => some n | .close => none

def attributeNames (evs : List Ev) : List Name :=
  evs.flatMap fun | .open _ as => as.map (·.1) | .close => []

/-! ### resolving references in a raw attribute value / text -/

def entityVal (r : List Char) : Option Char :=
  if r == ['l', 't'] then some '<' else if r == ['g', 't'] then some '>' else if r == ['a', 'm', 'p'] then some '&'
  else if r == ['q', 'u', 'o', 't'] then some '"' else if r == ['a', 'p', 'o', 's'] then some '\''
  else (charRefVal r).map Char.ofNat

/-- scanner: `none` = outside a reference, `some acc` = inside (reversed) -/
def decodeStep (st : Option (List Char) × List Char) (c : Char) : Option (List Char) × List Char :=
  match st.1 with
  | none => if c = '&' then (some [], st.2) else (none, c :: st.2)
  | some acc =>
      if c = ';' then
        match entityVal acc.reverse with
        | some v => (none, v :: st.2)
        | none => (none, ';' :: (acc ++ '&' :: st.2))
      else (some (c :: acc), st.2)

/-- attribute value / text with the predefined entities and character references resolved -/
def decodeRefs (s : List Char) : List Char :=
  let r := s.foldl decodeStep (none, [])
  match r.1 with
  | none => r.2.reverse
  | some acc => (acc ++ '&' :: r.2).reverse

/-! ### driver support: first error with its offset -/

def runPos : St → List Char → Nat → St × Nat
  | st, [], n => (st, n)
  | st, c :: cs, n =>
      let st' := step st c
      match st'.mode with
      | .err _ => (st', n)
      | _ => runPos st' cs (n + 1)

end D2V.Xml
