/-
  Model of the two escaping functions the SVG renderer relies on, as character maps over `List Char`
  (Go strings restricted to valid UTF-8; d2's reader already turns invalid bytes into U+FFFD):

  * `escapeText`  — `lib/svg.EscapeText` = `encoding/xml.EscapeText` (`escapeText(w, s, escapeNewline=true)`):
        "  → &#34;   '  → &#39;   &  → &amp;   <  → &lt;   >  → &gt;
        \t → &#x9;   \n → &#xA;   \r → &#xD;   rune outside `isInCharacterRange` → U+FFFD
  * `escapeHtml`  — `html.EscapeString` (`htmlEscaper` replacer): & ' < > " only; nothing else is touched.

  `inCharRange` is `encoding/xml.isInCharacterRange`, which is also production [2] `Char` of XML 1.0.
  `noMarkup` is the Spec "no `<`, no raw quote, no `>`, `&` only as one of the references the escaper emits, only XML
  characters", written as a single-pass automaton.
-/
namespace D2V.Escape

/-- `encoding/xml.isInCharacterRange` = XML 1.0 production [2] Char -/
def inCharRange (c : Char) : Bool :=
  let n := c.toNat
  n == 0x9 || n == 0xA || n == 0xD || (0x20 ≤ n && n ≤ 0xD7FF) || (0xE000 ≤ n && n ≤ 0xFFFD)
    || (0x10000 ≤ n && n ≤ 0x10FFFF)

def repl : Char := Char.ofNat 0xFFFD

/-- one rune of `xml.EscapeText` -/
def escXml (c : Char) : List Char :=
  if c = '"' then ['&', '#', '3', '4', ';']
  else if c = '\'' then ['&', '#', '3', '9', ';']
  else if c = '&' then ['&', 'a', 'm', 'p', ';']
  else if c = '<' then ['&', 'l', 't', ';']
  else if c = '>' then ['&', 'g', 't', ';']
  else if c = '\t' then ['&', '#', 'x', '9', ';']
  else if c = '\n' then ['&', '#', 'x', 'A', ';']
  else if c = '\r' then ['&', '#', 'x', 'D', ';']
  else if inCharRange c then [c]
  else [repl]

def escapeText (s : List Char) : List Char := s.flatMap escXml

/-- one rune of `html.EscapeString` -/
def escHtml (c : Char) : List Char :=
  if c = '&' then ['&', 'a', 'm', 'p', ';']
  else if c = '\'' then ['&', '#', '3', '9', ';']
  else if c = '<' then ['&', 'l', 't', ';']
  else if c = '>' then ['&', 'g', 't', ';']
  else if c = '"' then ['&', '#', '3', '4', ';']
  else [c]

def escapeHtml (s : List Char) : List Char := s.flatMap escHtml

/-- the references `escapeText`/`escapeHtml` can emit (text between `&` and `;`) -/
def knownRef (r : List Char) : Bool :=
  r == ['#', '3', '4'] || r == ['#', '3', '9'] || r == ['a', 'm', 'p'] || r == ['l', 't'] || r == ['g', 't']
    || r == ['#', 'x', '9'] || r == ['#', 'x', 'A'] || r == ['#', 'x', 'D']

/-- scanner state of `noMarkup`: outside a reference, inside one (characters since `&`, reversed), or failed -/
inductive Scan where
  | plain
  | ref (acc : List Char)
  | bad
  deriving DecidableEq, Repr

def scanStep : Scan → Char → Scan
  | .plain, c =>
      if c = '&' then .ref []
      else if c = '<' || c = '>' || c = '"' || c = '\'' then .bad
      else if inCharRange c then .plain
      else .bad
  | .ref acc, c =>
      if c = ';' then (if knownRef acc.reverse then .plain else .bad)
      else if acc.length < 4 && (c.isAlphanum || c = '#') then .ref (c :: acc)
      else .bad
  | .bad, _ => .bad

def scan (st : Scan) (s : List Char) : Scan := s.foldl scanStep st

/-- no `<`, `>`, `"`, `'`; every `&` opens one of the known references; every character is an XML character -/
def noMarkup (s : List Char) : Bool := scan .plain s == .plain

end D2V.Escape
