/-
  Model of the group opening tag that `drawShape` / `drawConnection` (d2renderers/d2svg/d2svg.go) write for every
  shape and connection:

      classes := []string{base64.URLEncoding.EncodeToString([]byte(svg.EscapeText(ID)))}
      [classes = append(classes, "animated-shape")]
      classes = append(classes, Classes...)                       -- user strings, `class: …`
      classStr := fmt.Sprintf(` class="%s"`, svg.EscapeText(strings.Join(classes, " ")))   -- after the fix
      fmt.Fprintf(writer, `<g%s%s>`, classStr, opacityStyle)

  `groupOpen` is the tag after the fix "escape user class names…"; `groupOpenUnescaped` is the unfixed tree
  (`strings.Join(classes, " ")` interpolated verbatim), kept for the counterexample `C30_cx_class_attr`.
  The opacity style (` style='opacity:%f'`) is numeric and is a parameter here.
-/
import D2V.Model.Escape
namespace D2V.SvgAttr
open D2V.Escape

def joinSp : List (List Char) → List Char
  | [] => []
  | [a] => a
  | a :: rest => a ++ ' ' :: joinSp rest

def classValue (id64 : List Char) (animated : Bool) (classes : List (List Char)) : List Char :=
  joinSp (id64 :: (if animated then [['a', 'n', 'i', 'm', 'a', 't', 'e', 'd', '-', 's', 'h', 'a', 'p', 'e']] else []) ++ classes)

def groupOpenWith (esc : List Char → List Char) (id64 : List Char) (animated : Bool) (classes : List (List Char)) : List Char :=
  ['<', 'g', ' ', 'c', 'l', 'a', 's', 's', '=', '"'] ++ esc (classValue id64 animated classes) ++ ['"', '>']

def groupOpen := groupOpenWith escapeText
def groupOpenUnescaped := groupOpenWith id

end D2V.SvgAttr
