/-
  C12 — operational semantics of attribute globs in one block, as `d2ir/compile.go` implements it
  (`globContext.appliedFields`, `compileKey` on the glob's own declaration, the lazy pass over all active globs after
  every creation in `EnsureField`), and the reference expansion on the same fragment.

  Board content is the ordered map of `Model/Boards.lean`.  Deleting an object leaves the applied sets alone, as the
  Go code does.  `Props/C12` proves that, without deletions, the bookkeeping computes exactly the expanded program.
-/
import D2V.Model.Boards
namespace D2V.GlobSem
open D2V.Boards

/-- an active glob `pat.key: val` with its `appliedFields` -/
structure G where
  pat : String
  key : String
  val : String
  applied : List String
deriving Repr, BEq, DecidableEq

inductive GStmt
  | decl (n : String)
  | set (n k v : String)
  | glob (pat k v : String)
  | del (n : String)
deriving Repr, BEq, DecidableEq

structure St where
  c : Content := []
  gs : List G := []

def names (c : Content) : List String := c.map (·.1)

/-- `compileKey` on a glob: every matching target it has not been applied to yet gets the value and is recorded -/
def applyG (m : String → String → Bool) (g : G) (c : Content) : G × Content :=
  let targets := (names c).filter fun n => m g.pat n && !g.applied.contains n
  ({ g with applied := g.applied ++ targets }, targets.foldl (fun c n => applyOp c (.set n g.key g.val)) c)

/-- the lazy pass: all active globs, in order -/
def lazyRun (m : String → String → Bool) : List G → Content → List G × Content
  | [], c => ([], c)
  | g :: rest, c =>
    let (g', c') := applyG m g c
    let (rest', c'') := lazyRun m rest c'
    (g' :: rest', c'')

def step (m : String → String → Bool) (st : St) : GStmt → St
  | .decl n =>
    if st.c.has n then st
    else
      let (gs, c) := lazyRun m st.gs (applyOp st.c (.decl n))
      { c := c, gs := gs }
  | .set n k v =>
    if st.c.has n then { st with c := applyOp st.c (.set n k v) }
    else
      let (gs, c) := lazyRun m st.gs (applyOp st.c (.decl n))
      { c := applyOp c (.set n k v), gs := gs }
  | .glob p k v =>
    let (g, c) := applyG m { pat := p, key := k, val := v, applied := [] } st.c
    { c := c, gs := st.gs ++ [g] }
  | .del n => { st with c := applyOp st.c (.del n) }

def run (m : String → String → Bool) (p : List GStmt) : St := p.foldl (step m) {}

/-! ### the reference expansion -/

structure XSt where
  ns : List String := []                          -- existing objects, in creation order
  gs : List (String × String × String) := []      -- active globs (pattern, key, value)

def lazyOps (m : String → String → Bool) (gs : List (String × String × String)) (n : String) : List Op :=
  (gs.filter fun g => m g.1 n).map fun g => Op.set n g.2.1 g.2.2

def xstep (m : String → String → Bool) (x : XSt) : GStmt → List Op × XSt
  | .decl n =>
    if x.ns.contains n then ([], x)
    else (.decl n :: lazyOps m x.gs n, { x with ns := x.ns ++ [n] })
  | .set n k v =>
    if x.ns.contains n then ([.set n k v], x)
    else (.decl n :: lazyOps m x.gs n ++ [.set n k v], { x with ns := x.ns ++ [n] })
  | .glob p k v =>
    (((x.ns.filter fun n => m p n).map fun n => Op.set n k v), { x with gs := x.gs ++ [(p, k, v)] })
  | .del n => ([.del n], { x with ns := x.ns.filter (· != n) })

def expand (m : String → String → Bool) : XSt → List GStmt → List Op
  | _, [] => []
  | x, s :: rest => (xstep m x s).1 ++ expand m (xstep m x s).2 rest

def noDel : List GStmt → Bool
  | [] => true
  | .del _ :: _ => false
  | _ :: r => noDel r

end D2V.GlobSem
