/-
  C12 — operational semantics of attribute globs in one block, as `d2ir/compile.go` implements it
  (`globContext.appliedFields`, `compileKey` on the glob's own declaration, the lazy pass over all active globs after
  every creation in `EnsureField`), and the reference expansion on the same fragment.

  Board content is the ordered map of `Model/Boards.lean`.  Deleting an object leaves the applied sets alone, as the
  Go code does.  `Props/C12` proves that, without deletions, the bookkeeping computes exactly the expanded program.
-/
import D2V.Model.Boards
namespace D2V.GlobSem
open D2V.Boards

/-- an active glob `pat.key: val` with its `appliedFields` -/
structure G where
  pat : String
  key : String
  val : String
  applied : List String
deriving Repr, BEq, DecidableEq

inductive GStmt
  | decl (n : String)
  | set (n k v : String)
  | glob (pat k v : String)
  | del (n : String)
deriving Repr, BEq, DecidableEq

structure St where
  c : Content := []
  gs : List G := []
  /-- objects whose creating declaration addresses the object itself (`x`, `x: label`), not one of its attributes
      (`x.shape: …`): only these carry a non-lazy *primary* reference -/
  prim : List String := []

def names (c : Content) : List String := c.map (·.1)

def hasLabel (c : Content) (n : String) : Bool :=
  match c.get n with
  | some a => a.any (·.1 == "Label")
  | none => false

/-- a lazily applied glob does not replace a primary value (label) the object already has: `ignoreLazyGlob` looks at
    the object's last primary reference, which is the (non-lazy) declaration that created it — so of several globs
    that give a later object a label the *first* one wins, while for every other attribute the last one does; an
    object created through one of its attributes (`x.shape: …`) has no primary reference and takes the last label -/
def lazySet (prim : List String) (c : Content) (n : String) (g : G) : Content :=
  if g.key == "Label" && hasLabel c n && prim.contains n then c else applyOp c (.set n g.key g.val)

/-- `compileKey` on a glob: every matching target it has not been applied to yet gets the value and is recorded -/
def applyG (m : String → String → Bool) (lazy : Bool) (prim : List String) (g : G) (c : Content) : G × Content :=
  let targets := (names c).filter fun n => m g.pat n && !g.applied.contains n
  ({ g with applied := g.applied ++ targets },
   targets.foldl (fun c n => if lazy then lazySet prim c n g else applyOp c (.set n g.key g.val)) c)

/-- the lazy pass: all active globs, in order -/
def lazyRun (m : String → String → Bool) (prim : List String) : List G → Content → List G × Content
  | [], c => ([], c)
  | g :: rest, c =>
    let (g', c') := applyG m true prim g c
    let (rest', c'') := lazyRun m prim rest c'
    (g' :: rest', c'')

/-- a glob declaration that is textually identical to an active one is the *same* glob for the compiler
    (`RefContext.Equal` compares the keys structurally): its context — applied set included — is re-used -/
def reuse (m : String → String → Bool) (prim : List String) (p k v : String) : List G → Content → Option (List G × Content)
  | [], _ => none
  | g :: rest, c =>
    if g.pat == p && g.key == k && g.val == v then
      let (g', c') := applyG m false prim g c
      some (g' :: rest, c')
    else match reuse m prim p k v rest c with
      | some (r, c') => some (g :: r, c')
      | none => none

def step (m : String → String → Bool) (st : St) : GStmt → St
  | .decl n =>
    if st.c.has n then st
    else
      let (gs, c) := lazyRun m (n :: st.prim) st.gs (applyOp st.c (.decl n))
      { c := c, gs := gs, prim := n :: st.prim }
  | .set n k v =>
    if st.c.has n then { st with c := applyOp st.c (.set n k v) }
    else
      let prim := if k == "Label" then n :: st.prim else st.prim
      let (gs, c) := lazyRun m prim st.gs (applyOp st.c (.decl n))
      { c := applyOp c (.set n k v), gs := gs, prim := prim }
  | .glob p k v =>
    match reuse m st.prim p k v st.gs st.c with
    | some (gs, c) => { st with c := c, gs := gs }
    | none =>
      let (g, c) := applyG m false st.prim { pat := p, key := k, val := v, applied := [] } st.c
      { st with c := c, gs := st.gs ++ [g] }
  | .del n =>
    -- `n: null` first resolves the key like any declaration (creating the object, which runs the lazy pass and
    -- records the globs as applied), then removes the field; the applied sets are left alone
    if st.c.has n then { st with c := applyOp st.c (.del n), prim := st.prim.filter (· != n) }
    else
      let (gs, c) := lazyRun m (n :: st.prim) st.gs (applyOp st.c (.decl n))
      { c := applyOp c (.del n), gs := gs, prim := st.prim.filter (· != n) }

def run (m : String → String → Bool) (p : List GStmt) : St := p.foldl (step m) {}

/-! ### the reference expansion -/

structure XSt where
  ns : List String := []                          -- existing objects, in creation order
  gs : List (String × String × String) := []      -- active globs (pattern, key, value)

def lazyOps (m : String → String → Bool) (gs : List (String × String × String)) (n : String) : List Op :=
  (gs.filter fun g => m g.1 n).map fun g => Op.set n g.2.1 g.2.2

def xstep (m : String → String → Bool) (x : XSt) : GStmt → List Op × XSt
  | .decl n =>
    if x.ns.contains n then ([], x)
    else (.decl n :: lazyOps m x.gs n, { x with ns := x.ns ++ [n] })
  | .set n k v =>
    if x.ns.contains n then ([.set n k v], x)
    else (.decl n :: lazyOps m x.gs n ++ [.set n k v], { x with ns := x.ns ++ [n] })
  | .glob p k v =>
    (((x.ns.filter fun n => m p n).map fun n => Op.set n k v), { x with gs := x.gs ++ [(p, k, v)] })
  | .del n => ([.del n], { x with ns := x.ns.filter (· != n) })

def expand (m : String → String → Bool) : XSt → List GStmt → List Op
  | _, [] => []
  | x, s :: rest => (xstep m x s).1 ++ expand m (xstep m x s).2 rest

def noDel : List GStmt → Bool
  | [] => true
  | .del _ :: _ => false
  | _ :: r => noDel r

/-- every glob declaration differs from the active ones and from the earlier ones -/
def freshGlobs (seen : List (String × String × String)) : List GStmt → Bool
  | [] => true
  | .glob p k v :: r => !seen.contains (p, k, v) && freshGlobs (seen ++ [(p, k, v)]) r
  | _ :: r => freshGlobs seen r

/-- no glob assigns the primary value (label) -/
def noLabelGlob : List GStmt → Bool
  | [] => true
  | .glob _ k _ :: r => k != "Label" && noLabelGlob r
  | _ :: r => noLabelGlob r

end D2V.GlobSem
