/-
  Model of `d2renderers/d2animate/d2animate.go: makeKeyframe` and of `Wrap`'s schedule
  (`delay = i·T`, `duration = T`, `total = n·T`), over exact rationals.
  A keyframe block is four percentages; in the "last board" branch the third one is printed as
  `ceil(percentageEnd)` (= 100) and there is no closing `opacity: 0` pair.

  CSS reading of a block (what a browser does with it):
    opacity 0 on [0, before] (an `opacity: 1` selector at the same percentage wins: later rule overrides),
    opacity 1 on [start, end], opacity 0 on [after, 100]; linear in between (the 1 ms transitions).
-/
namespace D2V.Anim

structure KF where
  before : Rat
  start : Rat
  end_ : Rat
  after : Option Rat
deriving Repr, BEq, DecidableEq

def transitionMS : Int := 1

def pct (x total : Int) : Rat := (x : Rat) / (total : Rat) * 100

/-- `makeKeyframe(delayMS, durationMS, totalMS, …)` — the branch test is the one in the code:
    `int(math.Ceil(percentageEnd)) == 100` and, since the fix, `delayMS+durationMS >= totalMS`. -/
def makeKeyframe (delay dur total : Int) : KF :=
  let pB := pct (max 0 (delay - transitionMS)) total
  let pS := pct delay total
  let pE := pct (delay + dur - transitionMS) total
  if pE.ceil = 100 ∧ delay + dur ≥ total then
    { before := pB, start := pS, end_ := (pE.ceil : Rat), after := none }
  else
    { before := pB, start := pS, end_ := pE, after := some (pct (delay + dur) total) }

/-- the pre-fix branch test, kept to state the counterexample that motivated the fix -/
def makeKeyframeOld (delay dur total : Int) : KF :=
  let pB := pct (max 0 (delay - transitionMS)) total
  let pS := pct delay total
  let pE := pct (delay + dur - transitionMS) total
  if pE.ceil = 100 then
    { before := pB, start := pS, end_ := (pE.ceil : Rat), after := none }
  else
    { before := pB, start := pS, end_ := pE, after := some (pct (delay + dur) total) }

/-- keyframe block of board `i` of `n` with interval `T` (as `Wrap` calls it) -/
def boardKF (n T i : Int) : KF := makeKeyframe (i * T) T (n * T)
def boardKFOld (n T i : Int) : KF := makeKeyframeOld (i * T) T (n * T)

/-- opacity is exactly 1 at cycle percentage `p` -/
def KF.visible (k : KF) (p : Rat) : Prop := k.start ≤ p ∧ p ≤ k.end_
/-- opacity is exactly 0 at cycle percentage `p` -/
def KF.hidden (k : KF) (p : Rat) : Prop :=
  (p ≤ k.before ∧ p < k.start) ∨ (match k.after with | some a => a ≤ p | none => False)

instance (k : KF) (p : Rat) : Decidable (k.visible p) := by unfold KF.visible; infer_instance
instance (k : KF) (p : Rat) : Decidable (k.hidden p) := by
  unfold KF.hidden; cases k.after <;> infer_instance

/-- the percentages of a block in printed order -/
def KF.points (k : KF) : List Rat :=
  [0, k.before, k.start, k.end_] ++ (match k.after with | some a => [a, 100] | none => [])

def sortedLE : List Rat → Bool
  | a :: b :: r => decide (a ≤ b) && sortedLE (b :: r)
  | _ => true

/-- Spec on one block: every percentage in [0,100], in (non-strictly) increasing order -/
def KF.wellFormed (k : KF) : Bool :=
  sortedLE k.points && k.points.all (fun p => decide (0 ≤ p ∧ p ≤ 100))

end D2V.Anim
