/-
  Model of the graph-construction layer of `d2graph` used by `d2compiler` (C09, C11):

    Object.newObject      — append to the arena, to the parent's ChildrenArray / Children map and to Graph.Objects
    Object.EnsureChild    — one path element at a time: look the child up under its lower-cased ID, create it when absent
    Object.Connect        — resolve both endpoints (creating them), `Edge.initIndex` = number of earlier edges with the
                            same endpoints and arrow flags, append to Graph.Edges
    Graph.SortObjectsByAST / SortEdgesByAST — stable order by the position of the first reference

  The graph is an arena (`nodes`, node 0 is the root object, which is not listed in `objects`); a node refers to
  its parent and children by arena index.  All operations are total: an operation that names a node outside the
  arena leaves the graph unchanged.  Attributes (label, shape, style) ride along but play no role in the structure.
-/
namespace D2V.SemG

def lowerC (c : Char) : Char :=
  if 'A' ≤ c ∧ c ≤ 'Z' then Char.ofNat (c.toNat + 32) else c

/-- `strings.ToLower` on ASCII, as a character list (comparisons are done on these lists) -/
def fold (s : String) : List Char := s.toList.map lowerC

structure Node where
  id : String
  parent : Nat
  children : List Nat := []
  cmap : List (List Char × Nat) := []
  label : String := ""
  shape : String := ""
  style : List (String × String) := []
  pos : Option Nat := none
deriving Repr, Inhabited

structure GEdge where
  src : Nat
  dst : Nat
  sa : Bool
  da : Bool
  index : Nat
  label : String := ""
  style : List (String × String) := []
  pos : Nat := 0
deriving Repr, Inhabited

structure Graph where
  nodes : List Node
  objects : List Nat
  edges : List GEdge
deriving Repr, Inhabited

/-- `d2graph.NewGraph`: only the root object -/
def init : Graph := { nodes := [{ id := "", parent := 0 }], objects := [], edges := [] }

def lookup (m : List (List Char × Nat)) (k : List Char) : Option Nat :=
  match m with
  | [] => none
  | (k', v) :: r => if k' = k then some v else lookup r k

/-- replace the node at index `i` -/
def setNode (ns : List Node) (i : Nat) (f : Node → Node) : List Node :=
  match ns, i with
  | [], _ => []
  | n :: r, 0 => f n :: r
  | n :: r, i + 1 => n :: setNode r i f

/-- `IDVal`: the value of an ID written in d2 syntax — here only the double-quoted form `"…"` of a plain name occurs -/
def idVal (id : String) : String :=
  match id.toList with
  | '"' :: r => if r.getLast? = some '"' then String.ofList r.dropLast else id
  | _ => id

/-- `newObject`: the new node gets index `nodes.length`; its label defaults to the ID's value -/
def newObject (g : Graph) (p : Nat) (id : String) : Graph :=
  let i := g.nodes.length
  { nodes := setNode g.nodes p (fun n => { n with children := n.children ++ [i], cmap := n.cmap ++ [(fold id, i)] })
              ++ [{ id := id, parent := p, label := idVal id }],
    objects := g.objects ++ [i],
    edges := g.edges }

/-- one step of `EnsureChild`: the child of `p` called `id` (case-insensitively), created when absent -/
def ensureChild (g : Graph) (p : Nat) (id : String) : Graph × Nat :=
  match g.nodes[p]? with
  | none => (g, p)
  | some n =>
    match lookup n.cmap (fold id) with
    | some c => (g, c)
    | none => (newObject g p id, g.nodes.length)

/-- `EnsureChild` along a path below node `p` -/
def ensurePath (g : Graph) (p : Nat) : List String → Graph × Nat
  | [] => (g, p)
  | id :: rest =>
    let (g', c) := ensureChild g p id
    ensurePath g' c rest

/-- `initIndex` -/
def countSame (es : List GEdge) (s d : Nat) (sa da : Bool) : Nat :=
  (es.filter fun e => e.src = s ∧ e.dst = d ∧ e.sa = sa ∧ e.da = da).length

/-- `Connect` once both endpoints are resolved -/
def addEdge (g : Graph) (s d : Nat) (sa da : Bool) (label : String) (style : List (String × String)) (pos : Nat) : Graph :=
  { g with edges := g.edges ++ [{ src := s, dst := d, sa := sa, da := da, index := countSame g.edges s d sa da,
                                  label := label, style := style, pos := pos }] }

inductive Op where
  /-- `Root.EnsureChild(path)` -/
  | ensure (path : List String)
  /-- attributes of the object at `path` (which is ensured first); `pos` = position of its first reference, kept when already set -/
  | attrs (path : List String) (label : Option String) (shape : Option String) (style : List (String × String)) (pos : Option Nat)
  /-- `obj.Connect(src, dst, …)` for the object at `base` -/
  | connect (base src dst : List String) (sa da : Bool) (label : String) (style : List (String × String)) (pos : Nat)
deriving Repr

def setStyle (st : List (String × String)) (k v : String) : List (String × String) :=
  (st.filter fun kv => kv.1 != k) ++ [(k, v)]

def apply (g : Graph) : Op → Graph
  | .ensure path => (ensurePath g 0 path).1
  | .attrs path label shape style pos =>
    let (g', i) := ensurePath g 0 path
    { g' with nodes := setNode g'.nodes i fun n =>
        { n with label := label.getD n.label, shape := shape.getD n.shape,
                 style := style.foldl (fun st kv => setStyle st kv.1 kv.2) n.style,
                 pos := match n.pos with | some p => some p | none => pos } }
  | .connect base src dst sa da label style pos =>
    let (g0, b) := ensurePath g 0 base
    let (g1, s) := ensurePath g0 b src
    let (g2, d) := ensurePath g1 b dst
    addEdge g2 s d sa da label style pos

def build (ops : List Op) : Graph := ops.foldl apply init

/-! ### canonical view (what the harness dumps from the real graph) -/

def absIDAux (ns : List Node) : Nat → Nat → List String
  | 0, _ => []
  | fuel + 1, i =>
    if i = 0 then [] else
    match ns[i]? with
    | none => []
    | some n => absIDAux ns fuel n.parent ++ [n.id]

/-- `AbsIDArray` -/
def absIDA (g : Graph) (i : Nat) : List String := absIDAux g.nodes g.nodes.length i

def absID (g : Graph) (i : Nat) : String := ".".intercalate (absIDA g i)

/-- stable insertion by key -/
def insertBy {α} (key : α → Nat) (x : α) : List α → List α
  | [] => [x]
  | y :: r => if key x < key y then x :: y :: r else y :: insertBy key x r

def sortBy {α} (key : α → Nat) (xs : List α) : List α := xs.foldl (fun acc x => insertBy key x acc) []

end D2V.SemG
