/-
  C18 — the structural part of nested layout (`d2layouts/d2layouts.go`) on an arena graph.

  Go's graph is a web of pointers with redundant links (`g.Objects`, `obj.Parent`, `obj.ChildrenArray`,
  `obj.Children`, `obj.Graph`, `g.Edges` with `Src`/`Dst` pointers).  The arena keeps what the property is
  about: objects are records `(key, parent, kids)` in `g.Objects` order, identified by a key that stands for the
  *pointer* (the harness uses the AbsID the object had after compilation; AbsIDs themselves change while an
  object sits in an extracted graph).  `parent = ""` means "the root of the graph the object currently lives in".

  Modelled, with the order of effects of the source:
    * `ExtractSubgraph(container, includeSelf)`   — `isNestedObject`, edge tri-partition (nested / external /
      remaining), object partition, re-rooting of the children (`includeSelf = false`) or of the container itself
      (`includeSelf = true`: `RemoveChild` from its parent, new root has the single child `container`)
    * `InjectNested(container, nested, _)`        — children of the nested root re-parented to `container` and
      appended to its `ChildrenArray`; objects and edges appended to the graph
    * `SaveOrder` / `SaveChildrenOrder` restore   — `sort.SliceStable` by saved index keyed by AbsID; edges unknown
      to the saved map sort last, objects unknown to it get index 0 (Go's zero value)
  The core layout (dagre / ELK) is not modelled: its contract "structure unchanged" is checked on every call by
  the harness.
-/
namespace D2V.Nest

structure NObj where
  key : String
  parent : String        -- key of the parent object, "" = root of the current graph
  kids : List String     -- ChildrenArray
deriving Repr, BEq, DecidableEq

structure NEdge where
  key : String
  src : String
  dst : String
deriving Repr, BEq, DecidableEq

structure NGraph where
  objs : List NObj
  edges : List NEdge
  rootKids : List String
deriving Repr, BEq, DecidableEq

def NGraph.find (g : NGraph) (k : String) : Option NObj := g.objs.find? (·.key == k)

/-- `obj.IsDescendantOf(anc)` (reflexive), walking parent links; `fuel` bounds the walk by the number of objects -/
def isDescFuel (objs : List NObj) : Nat → String → String → Bool
  | 0, k, anc => k == anc
  | fuel + 1, k, anc =>
    if k == anc then true
    else match objs.find? (·.key == k) with
      | none => false
      | some o => if o.parent == "" then false else isDescFuel objs fuel o.parent anc

def isDesc (g : NGraph) (k anc : String) : Bool := isDescFuel g.objs (g.objs.length + 1) k anc

/-- `isNestedObject` of `ExtractSubgraph` -/
def isNested (g : NGraph) (c : String) (includeSelf : Bool) (k : String) : Bool :=
  if includeSelf then isDesc g k c
  else match g.find k with
    | none => false
    | some o => if o.parent == "" then false else isDesc g o.parent c

def setParent (ks : List String) (p : String) (l : List NObj) : List NObj :=
  l.map fun o => if ks.contains o.key then { o with parent := p } else o

def setKids (k : String) (ks : List String) (l : List NObj) : List NObj :=
  l.map fun o => if o.key == k then { o with kids := ks } else o

def kidsOf (l : List NObj) (k : String) : List String :=
  match l.find? (·.key == k) with
  | some o => o.kids
  | none => []

def parentOf (l : List NObj) (k : String) : String :=
  match l.find? (·.key == k) with
  | some o => o.parent
  | none => ""

structure Extracted where
  rest : NGraph             -- the graph after extraction
  nested : NGraph
  external : List NEdge
deriving Repr, BEq

/-- `ExtractSubgraph(container, includeSelf)` -/
def extract (g : NGraph) (c : String) (includeSelf : Bool) : Extracted :=
  let p := isNested g c includeSelf
  let nestedEdges := g.edges.filter fun e => p e.src && p e.dst
  let external := g.edges.filter fun e => (p e.src || p e.dst) && !(p e.src && p e.dst)
  let remaining := g.edges.filter fun e => !(p e.src || p e.dst)
  let nObjs := g.objs.filter fun o => p o.key
  let rObjs := g.objs.filter fun o => !p o.key
  if includeSelf then
    let par := parentOf g.objs c
    -- container.Parent.RemoveChild(container); container.Parent = nestedGraph.Root
    let rObjs' := if par == "" then rObjs else setKids par ((kidsOf g.objs par).erase c) rObjs
    let rootKids' := if par == "" then g.rootKids.erase c else g.rootKids
    { rest := { objs := rObjs', edges := remaining, rootKids := rootKids' },
      nested := { objs := setParent [c] "" nObjs, edges := nestedEdges, rootKids := [c] },
      external := external }
  else
    let ks := kidsOf g.objs c
    { rest := { objs := setKids c [] rObjs, edges := remaining, rootKids := g.rootKids },
      nested := { objs := setParent ks "" nObjs, edges := nestedEdges, rootKids := ks },
      external := external }

/-- `InjectNested(container, nested, _)`; `container = ""` injects under the root (as the grid-cell path and
    `d2near.Layout` do) -/
def inject (g : NGraph) (c : String) (n : NGraph) : NGraph :=
  let nObjs := setParent n.rootKids c n.objs
  if c == "" then
    { objs := g.objs ++ nObjs, edges := g.edges ++ n.edges, rootKids := g.rootKids ++ n.rootKids }
  else
    { objs := setKids c (kidsOf g.objs c ++ n.rootKids) g.objs ++ nObjs, edges := g.edges ++ n.edges,
      rootKids := g.rootKids }

/-! ### order restore -/

def indexOf (saved : List String) (k : String) : Option Nat :=
  let i := saved.idxOf k
  if i < saved.length then some i else none

/-- stable sort (what `sort.SliceStable` computes, whatever its algorithm): core Lean's stable merge sort -/
def stableSort {α} (le : α → α → Bool) (l : List α) : List α := l.mergeSort le

/-- object order: `objectOrder[id]` of a Go map — a missing key reads as 0 -/
def objIdx (saved : List String) (k : String) : Nat := (indexOf saved k).getD 0

def restoreObjs (saved : List String) (l : List NObj) : List NObj :=
  stableSort (fun a b => decide (objIdx saved a.key ≤ objIdx saved b.key)) l

def restoreKeys (saved : List String) (l : List String) : List String :=
  stableSort (fun a b => decide (objIdx saved a ≤ objIdx saved b)) l

/-- edge order: both known → by index; otherwise known edges first (`return iHas`).
    `le a b = ¬ less b a` with `less` the Go comparator. -/
def edgeLess (saved : List String) (a b : String) : Bool :=
  match indexOf saved a, indexOf saved b with
  | some i, some j => decide (i < j)
  | some _, none => true
  | none, _ => false

def restoreEdges (saved : List String) (l : List NEdge) : List NEdge :=
  stableSort (fun a b => !edgeLess saved b.key a.key) l

structure Saved where
  objs : List String
  edges : List String
  rootKids : List String

def saveOrder (g : NGraph) : Saved :=
  { objs := g.objs.map (·.key), edges := g.edges.map (·.key), rootKids := g.rootKids }

def restoreOrder (s : Saved) (g : NGraph) : NGraph :=
  { objs := restoreObjs s.objs g.objs, edges := restoreEdges s.edges g.edges,
    rootKids := restoreKeys s.rootKids g.rootKids }

/-- the round trip `LayoutNested` performs around one nested diagram, without the layout in between:
    save order, extract, inject back (under the container, or under the container's parent when the container
    itself was extracted), re-append the external edges, restore order -/
def extractInject (g : NGraph) (c : String) (includeSelf : Bool) : NGraph :=
  let s := saveOrder g
  let ex := extract g c includeSelf
  let target := if includeSelf then parentOf g.objs c else c
  let g' := inject ex.rest target ex.nested
  restoreOrder s { g' with edges := g'.edges ++ ex.external }

/-! ### Spec: the structure snapshot the property compares -/

/-- "exactly the objects, parent relations, connection endpoints and element order" -/
def sameStructure (a b : NGraph) : Bool := a == b

end D2V.Nest
