/-
  C13 — variable substitution.  Model of the resolution performed by
  `d2ir/compile.go: compiler.compileSubstitutions / resolveSubstitutions / resolveSubstitution`:

  * every map pushes its `vars` block on a scope stack (innermost first);
  * a substitution `${a.b}` is looked up block by block from the innermost one; the first block that defines
    the whole path wins (`resolveSubstitution` returns nil when a path element is missing → next block);
  * a definition directly inside a `vars` block never resolves its own name in its own block
    (the "self-reference skip": `vars: {x: ${x}-b}` looks `x` up further out);
  * the value found replaces the substitution: alone in an unquoted scalar it replaces the whole scalar
    (keeping the definition's quoting), inside unquoted or double-quoted text its string content is spliced in;
    single-quoted text is never touched; a path no block defines is an error.

  Definitions may themselves contain substitutions; the reference semantics is *lexical*: they are resolved
  in the scope stack of the block that holds the definition.  (The Go code resolves in place, in field
  order; the two agree whenever a definition has been resolved before it is used — `Drv/C13` reports the
  programs where they do not.)

  `substText` is the property's reference transformation over the small AST: the program with every scalar
  `${x}` replaced by the value's source text.
-/
import D2V.Model.SemAst
namespace D2V.Vars
open D2V.SemAst

abbrev Path := List String

/-- a `vars` block, flattened: nested maps `y: {z: 5}` become the path `[y, z]`; one entry per path
    (a later definition of the same path replaces the earlier one, as the IR field does) -/
abbrev Block := List (Path × Scal)
/-- innermost block first -/
abbrev Stack := List Block

inductive Err
  | undefined (p : Path)
  | cyclic (p : Path)
deriving Repr, BEq, DecidableEq

deriving instance DecidableEq for Except

/-- `Map.GetField` compares names with `strings.EqualFold`; names in this model are ASCII -/
def pathEq (a b : Path) : Bool := a.map lowerAscii == b.map lowerAscii

/-- the entry (definition name as written, value) for a path -/
def Block.entry (b : Block) (p : Path) : Option (Path × Scal) :=
  List.find? (fun (e : Path × Scal) => pathEq e.1 p) b

def Block.lookup (b : Block) (p : Path) : Option Scal :=
  match Block.entry b p with
  | some e => some e.2
  | none => none

def Block.put (b : Block) (p : Path) (v : Scal) : Block :=
  if b.any (fun e => pathEq e.1 p) then b.map (fun e => if pathEq e.1 p then (e.1, v) else e)
  else b ++ [(p, v)]

/-- the self-reference skip: the definition being resolved is the top-level variable `self` of the innermost
    block and the substitution starts with that very name (`fieldNode.Name.ScalarString() == p.ScalarString()`,
    exact comparison) -/
def selfSkips (self : Option String) (p : Path) : Bool :=
  match self, p with
  | some x, h :: _ => x == h
  | _, _ => false

/-- search the stack innermost-first; returns the definition and the stack *as seen from the block that holds it*
    together with the name to skip when resolving the definition's own substitutions (the definition's name
    as written in the block, when it is a top-level variable of the block) -/
def findDef : Stack → Option String → Path → Option (Scal × Stack × Option String)
  | [], _, _ => none
  | b :: rest, self, p =>
    if selfSkips self p then findDef rest none p
    else match Block.entry b p with
      | some (name, d) => some (d, b :: rest, match name with | [x] => some x | _ => none)
      | none => findDef rest none p

/-- string content of a scalar (what `ScalarString()` returns once it holds no live substitution); inside single
    quotes `${…}` is ordinary text -/
def contentOf (v : Scal) : String :=
  String.join (v.parts.map fun x => match x with
    | .lit s => s
    | .sub p => if v.q = 2 then "${" ++ ".".intercalate p ++ "}" else "")

/-- text contributed by one part of a mixed string -/
def partText (r : Path → Except Err Scal) : Part → Except Err String
  | .lit s => .ok s
  | .sub p => match r p with
    | .ok v => .ok (contentOf v)
    | .error e => .error e

def spliceAll (r : Path → Except Err Scal) : List Part → Except Err String
  | [] => .ok ""
  | x :: xs => match partText r x with
    | .error e => .error e
    | .ok s => match spliceAll r xs with
      | .error e => .error e
      | .ok t => .ok (s ++ t)

/-- replace the substitutions of one scalar, given the resolver for paths -/
def substWith (r : Path → Except Err Scal) (host : Scal) : Except Err Scal :=
  if host.q = 2 then .ok host
  else if host.hasSub = false then .ok host
  else match host.q, host.parts with
    | 0, [.sub p] => r p                      -- the whole value: the definition's own scalar, quoting included
    | _, parts =>
      -- content spliced into text; printed double-quoted so that the content is taken literally
      match spliceAll r parts with
      | .ok t => .ok { q := 1, parts := [.lit t] }
      | .error e => .error e

def mapE {α β} (f : α → β) : Except Err α → Except Err β
  | .ok a => .ok (f a)
  | .error e => .error e

/-- the string `resolveSubstitutions` leaves in a node: `${p}` alone in unquoted text takes the definition's value
    node (`node.Primary().Value = resolvedField.Primary().Value`); otherwise every substitution box gets the resolved
    `ScalarString()` and the boxes are coalesced -/
def evalNode (r : Path → Except Err Scal) (host : Scal) : Except Err String :=
  if host.q = 2 then .ok (contentOf host)
  else if host.hasSub = false then .ok (contentOf host)
  else match host.q, host.parts with
    | 0, [.sub p] => mapE contentOf (r p)
    | _, parts => spliceAll r parts

/-- value of `${p}` seen from `stk`; fuel bounds the chain of definitions that refer to definitions -/
def resolve : Nat → Stack → Option String → Path → Except Err Scal
  | 0, _, _, p => .error (.cyclic p)
  | n + 1, stk, self, p =>
    match findDef stk self p with
    | none => .error (.undefined p)
    | some (d, stk', self') => substWith (fun q => resolve n stk' self' q) d

def Stack.fuel (stk : Stack) : Nat := 1 + (stk.map List.length).sum

def substScal (stk : Stack) (self : Option String) (v : Scal) : Except Err Scal :=
  substWith (resolve stk.fuel stk self) v

/-! ### the reference transformation over the small AST -/

/-- definitions of one `vars: {…}` body, flattened -/
partial def flattenDefs (pre : Path) (acc : Block) : Body → Block
  | [] => acc
  | .field 0 [k] _ (.scal v) :: r => flattenDefs pre (Block.put acc (pre ++ [k.s]) v) r
  | .field 0 [k] (some v) .none :: r => flattenDefs pre (Block.put acc (pre ++ [k.s]) v) r
  | .field 0 [k] _ (.map b) :: r => flattenDefs pre (flattenDefs (pre ++ [k.s]) acc b) r
  | _ :: r => flattenDefs pre acc r

def isVarsKey (k : Key) : Bool := k == [useg "vars"]

/-- the merged `vars` block of a map body (`none` when the map declares no vars) -/
def blockOf (body : Body) : Option Block :=
  let bs := body.filterMap fun s => match s with
    | .field 0 k _ (.map b) => if isVarsKey k then some b else none
    | _ => none
  if bs.isEmpty then none else some (bs.foldl (fun acc b => flattenDefs [] acc b) [])

def pushScope (stk : Stack) (body : Body) : Stack :=
  match blockOf body with
  | some b => b :: stk
  | none => stk

def optScal (stk : Stack) (self : Option String) : Option Scal → Except Err (Option Scal)
  | none => pure none
  | some v => some <$> substScal stk self v

mutual
/-- `inVars`: 0 ordinary map, 1 directly inside a `vars` map (definitions get the self skip), 2 deeper inside -/
def substVal (stk : Stack) (inVars : Nat) (self : Option String) : Val → Except Err Val
  | .scal v => .scal <$> substScal stk self v
  | .map b =>
    if inVars == 0 then .map <$> substBody (pushScope stk b) 0 b
    else .map <$> substBody stk 2 b
  | .arr vs => .arr <$> vs.mapM (substScal stk none)
  | v => pure v
def substStmt (stk : Stack) (inVars : Nat) : Stmt → Except Err Stmt
  | .field a k p v =>
    if inVars == 0 && isVarsKey k then do
      pure (.field a k p (← match v with
        | .map b => .map <$> substBody stk 1 b
        | v => pure v))
    else
      let self := if inVars == 1 then (match k with | [x] => some x.s | _ => none) else none
      do pure (.field a k (← optScal stk self p) (← substVal stk inVars self v))
  | .edge c s ar d i ek p v => do
    pure (.edge c s ar d i ek (← optScal stk none p) (← substVal stk inVars none v))
  | s => pure s
def substBody (stk : Stack) (inVars : Nat) : Body → Except Err Body
  | [] => pure []
  | s :: r => do
    let s' ← substStmt stk inVars s
    let r' ← substBody stk inVars r
    pure (s' :: r')
end

/-- C13's reference transformation: every scalar substitution replaced by the value's source text
    (single file programs; the root map is a scope like any other) -/
def substText (body : Body) : Except Err Body := substBody (pushScope [] body) 0 body

/-! ### classification of programs for which the in-place, in-order resolution of the Go code is known to
    differ from the lexical reference (used for signatures of known findings only) -/


/-- unquoted text whose literal prefix alone reads as a number / boolean / null and is followed by a substitution -/
def keywordPrefix (v : Scal) : Bool :=
  v.q == 0 && (match v.parts with
    | .lit s :: .sub _ :: _ =>
      let t := lowerAscii s
      t == "null" || t == "true" || t == "false" || t == "suspend" || t == "unsuspend" ||
        (!t.isEmpty && t.toList.all fun c => c.isDigit || c == '.' || c == '-' || c == '+' || c == 'e' || c == '_')
    | _ => false)

end D2V.Vars
