/-
  Model of `d2exporter/export.go` (C28): the style pipeline of `toShape`

      BaseShape → Text() fields → sequence-diagram stroke widths → applyStyles → applyTheme (default fill/stroke,
      theme special rules incl. the four C4 blocks) → Color = text.GetColor(italic) → C4 font colour → applyStyles
      → class/table font-size correction → animated

  and of `toConnection` (style part), as record transformers; `Object.AbsID` / `Edge.AbsID`; `Export`'s shape and
  connection lists.

  Inputs that d2graph computes from the graph structure (`GetFill`, `GetStroke(0)`, `GetStroke(≠0)`, `Text().IsBold`,
  `Text().IsItalic`, the font size `Text()` picks when `style.font-size` is unset) are fields of `Obj`; the harness
  reads them off the real graph. The theme enters only through its `SpecialRules` (regenerated catalog,
  `D2V.Gen.Themes`), `none` = `g.Theme == nil`.

  Go's `x, _ = strconv.ParseBool/Atoi(v)` leaves the zero value on a syntax error: `goBool` / `goInt` do the same
  (the compiler validates the strings before they get here, so the error arm is unreachable on compiled graphs).
-/
import D2V.Model.ThemeCode
import D2V.Model.ExportSteps
import D2V.Gen.Export

namespace D2V.Export
open D2V.Themes (Rules)

/-! ### strconv -/

def parseBool (s : String) : Option Bool :=
  if s == "1" || s == "t" || s == "T" || s == "TRUE" || s == "true" || s == "True" then some true
  else if s == "0" || s == "f" || s == "F" || s == "FALSE" || s == "false" || s == "False" then some false
  else none

def goBool (s : String) : Bool := match parseBool s with | some b => b | none => false

def digitsVal : List Char → Option Nat
  | [] => none
  | cs => cs.foldl (fun acc c => match acc with
      | some n => if c.isDigit then some (n * 10 + (c.toNat - '0'.toNat)) else none
      | none => none) (some 0)

/-- `strconv.Atoi` on values inside the int range: optional sign, at least one digit, nothing else -/
def atoi (s : String) : Option Int :=
  match s.toList with
  | '-' :: r => (digitsVal r).map fun n => - (Int.ofNat n)
  | '+' :: r => (digitsVal r).map Int.ofNat
  | r => (digitsVal r).map Int.ofNat

def goInt (s : String) : Int := match atoi s with | some n => n | none => 0

/-- decimal floating point syntax `[+-]d*[.d*][(e|E)[+-]d+]` (at least one mantissa digit) as an exact rational;
    `none` for anything else `strconv.ParseFloat` may accept (hex floats, underscores, inf/nan) -/
def parseDecimal (s : String) : Option Rat :=
  let cs := s.toList
  let (neg, cs) := match cs with
    | '-' :: r => (true, r)
    | '+' :: r => (false, r)
    | r => (false, r)
  let ip := cs.takeWhile Char.isDigit
  let cs := cs.dropWhile Char.isDigit
  let (fp, cs) := match cs with
    | '.' :: r => (r.takeWhile Char.isDigit, r.dropWhile Char.isDigit)
    | r => ([], r)
  if ip.isEmpty && fp.isEmpty then none else
  let mant : Nat := (ip ++ fp).foldl (fun n c => n * 10 + (c.toNat - '0'.toNat)) 0
  let base : Rat := (mant : Rat) / ((10 ^ fp.length : Nat) : Rat)
  let r : Option Rat := match cs with
    | [] => some base
    | e :: r =>
      if e == 'e' || e == 'E' then
        let (eneg, r) := match r with
          | '-' :: t => (true, t)
          | '+' :: t => (false, t)
          | t => (false, t)
        match digitsVal r with
        | some k => if eneg then some (base / ((10 ^ k : Nat) : Rat)) else some (base * ((10 ^ k : Nat) : Rat))
        | none => none
      else none
  r.map fun x => if neg then -x else x

def lower (s : String) : String := String.ofList (s.toList.map Char.toLower)

/-! ### inputs -/

/-- raw strings of `d2graph.Style` (a `nil` pointer is `none`) -/
structure Style where
  opacity : Option String := none
  strokeDash : Option String := none
  fill : Option String := none
  fillPattern : Option String := none
  stroke : Option String := none
  strokeWidth : Option String := none
  shadow : Option String := none
  threeDee : Option String := none
  multiple : Option String := none
  borderRadius : Option String := none
  fontColor : Option String := none
  italic : Option String := none
  bold : Option String := none
  underline : Option String := none
  font : Option String := none
  doubleBorder : Option String := none
  fontSize : Option String := none
  animated : Option String := none
deriving Repr, Inhabited

structure Obj where
  id : String := ""                 -- obj.ID
  parent : Option Nat := none       -- index of the parent in g.Objects (`none`: child of the root)
  shape : String := ""              -- obj.Shape.Value
  level : Nat := 1
  nChildren : Nat := 0
  isSeqDiagram : Bool := false
  isSeqGroup : Bool := false
  hasClass : Bool := false          -- obj.Class != nil
  hasTable : Bool := false          -- obj.SQLTable != nil
  style : Style := {}
  iconBorderRadius : Option String := none
  fillDefault : String := ""        -- obj.GetFill()
  strokeSolid : String := ""        -- obj.GetStroke(0.0)
  strokeDashed : String := ""       -- obj.GetStroke(x), x ≠ 0
  textBold : Bool := false          -- obj.Text().IsBold
  textItalic : Bool := false        -- obj.Text().IsItalic
  fontSizeDefault : Int := 16       -- the size Text() picks when style.font-size is unset, before the header add
deriving Repr, Inhabited

/-- style-carrying part of `d2target.Shape` -/
structure ShapeStyle where
  opacity : Option Rat := some 1
  strokeDash : Option Rat := some 0
  strokeWidth : Int := 2
  fill : String := ""
  stroke : String := ""
  fillPattern : String := ""
  shadow : Bool := false
  threeDee : Bool := false
  multiple : Bool := false
  doubleBorder : Bool := false
  borderRadius : Int := 0
  color : String := ""
  italic : Bool := false
  bold : Bool := true
  underline : Bool := false
  fontFamily : String := "DEFAULT"
  fontSize : Int := 0
  animated : Bool := false
  iconBorderRadius : Int := 0
  blend : Bool := false
deriving Repr, BEq, Inhabited

/-- `d2target.BaseShape()` -/
def baseShape : ShapeStyle := {}

def headerFontAdd : Int := 4

/-- `Text().FontSize` -/
def textFontSize (o : Obj) : Int :=
  (match o.style.fontSize with | some v => goInt v | none => o.fontSizeDefault)
    + (if o.hasClass || o.hasTable then headerFontAdd else 0)

def isDashed : Option Rat → Bool
  | some r => r != 0
  | none => true

/-- `applyStyles(shape, obj)`: every assignment is guarded by its own `!= nil`, so the function is a field-wise update -/
def applyStyles (o : Obj) (s : ShapeStyle) : ShapeStyle :=
  { s with
    opacity := match o.style.opacity with | some v => parseDecimal v | none => s.opacity
    strokeDash := match o.style.strokeDash with | some v => parseDecimal v | none => s.strokeDash
    fill := match o.style.fill with
      | some v => v
      | none => if o.shape == "text" then "transparent" else s.fill
    fillPattern := match o.style.fillPattern with | some v => v | none => s.fillPattern
    stroke := match o.style.stroke with | some v => v | none => s.stroke
    strokeWidth := match o.style.strokeWidth with | some v => goInt v | none => s.strokeWidth
    shadow := match o.style.shadow with | some v => goBool v | none => s.shadow
    threeDee := match o.style.threeDee with | some v => goBool v | none => s.threeDee
    multiple := match o.style.multiple with | some v => goBool v | none => s.multiple
    borderRadius := match o.style.borderRadius with | some v => goInt v | none => s.borderRadius
    color := match o.style.fontColor with | some v => v | none => s.color
    italic := match o.style.italic with | some v => goBool v | none => s.italic
    bold := match o.style.bold with | some v => goBool v | none => s.bold
    underline := match o.style.underline with | some v => goBool v | none => s.underline
    fontFamily := match o.style.font with | some v => v | none => s.fontFamily
    doubleBorder := match o.style.doubleBorder with | some v => goBool v | none => s.doubleBorder
    iconBorderRadius := match o.iconBorderRadius with | some v => goInt v | none => s.iconBorderRadius }

def isPerson (o : Obj) : Bool := o.shape == "person" || o.shape == "c4-person"

/-- the four C4 blocks of `applyTheme`, in order -/
def c4Rules (o : Obj) (s : ShapeStyle) : ShapeStyle :=
  let s := if o.nChildren > 0 then
      { s with
        fill := if o.style.fill.isNone then "transparent" else s.fill
        stroke := if o.style.stroke.isNone then "AA2" else s.stroke
        strokeDash := if o.style.strokeDash.isNone then some 5 else s.strokeDash
        color := if o.style.fontColor.isNone then "N1" else s.color }
    else s
  let s := if o.level == 1 && o.nChildren == 0 && !isPerson o then
      { s with
        fill := if o.style.fill.isNone then "B6" else s.fill
        stroke := if o.style.stroke.isNone then "B5" else s.stroke }
    else s
  let s := if isPerson o then
      { s with
        fill := if o.style.fill.isNone then "B2" else s.fill
        stroke := if o.style.stroke.isNone then "B1" else s.stroke }
    else s
  if o.level > 1 && o.nChildren == 0 && !isPerson o then
      { s with
        fill := if o.style.fill.isNone then "B4" else s.fill
        stroke := if o.style.stroke.isNone then "B3" else s.stroke }
    else s

/-- `applyTheme(shape, obj, theme)` (accent colours of tables/classes are not style values and are left out) -/
def applyTheme (rules : Option Rules) (o : Obj) (s : ShapeStyle) : ShapeStyle :=
  let s := { s with stroke := if isDashed s.strokeDash then o.strokeDashed else o.strokeSolid, fill := o.fillDefault }
  let s := if o.shape == "text" then { s with color := "N1" } else s
  match rules with
  | none => s
  | some r =>
    let s := if r.outerContainerDoubleBorder && o.level == 1 && o.nChildren > 0 then { s with doubleBorder := true } else s
    let s := if r.containerDots then (if o.nChildren > 0 then { s with fillPattern := "dots" } else s)
      else if r.allPaper then { s with fillPattern := "paper" } else s
    let s := if r.mono then { s with fontFamily := "mono" } else s
    if r.c4 then c4Rules o s else s

/-- the shape before the style pipeline: `BaseShape()`, the `Text()` fields, the sequence-diagram stroke widths -/
def initShape (o : Obj) : ShapeStyle :=
  let s := { baseShape with bold := o.textBold, italic := o.textItalic, fontSize := textFontSize o }
  let s := if o.isSeqDiagram then { s with strokeWidth := 0 } else s
  if o.isSeqGroup then { s with strokeWidth := 0, blend := true } else s

/-- one style-relevant statement of `toShape` -/
def runStep (rules : Option Rules) (o : Obj) (st : Step) (s : ShapeStyle) : ShapeStyle :=
  match st with
  | .applyStyles => applyStyles o s
  | .applyTheme => applyTheme rules o s
  | .textColor => { s with color := if s.italic then "N2" else "N1" }
  | .c4FontColor =>
    match rules with
    | some r => if r.c4 && o.style.fontColor.isNone then { s with color := if o.nChildren > 0 then "N1" else "N7" } else s
    | none => s

/-- the statements `steps`, in order -/
def runSteps (rules : Option Rules) (o : Obj) (steps : List Step) (s : ShapeStyle) : ShapeStyle :=
  steps.foldl (fun s st => runStep rules o st s) s

/-- the part of `toShape` up to and including the last pipeline statement — the statement list is the one the
    translator reads off the current `toShape` (`D2V.Gen.Export.toShapeSteps`) -/
def styled (rules : Option Rules) (o : Obj) : ShapeStyle :=
  runSteps rules o D2V.Gen.Export.toShapeSteps (initShape o)

/-- the pipeline up to (not including) its last statement -/
def preStyled (rules : Option Rules) (o : Obj) : ShapeStyle :=
  runSteps rules o D2V.Gen.Export.toShapeSteps.dropLast (initShape o)

/-- the pipeline **without** a second `applyStyles` (the mutation DESIGN §5.8 lists) — used to show the second call
    is what makes the property true -/
def styledOnce (rules : Option Rules) (o : Obj) : ShapeStyle :=
  runSteps rules o [.applyStyles, .applyTheme, .textColor, .c4FontColor] (initShape o)

/-- style fields of `toShape(obj, g)` -/
def toShapeStyle (rules : Option Rules) (o : Obj) : ShapeStyle :=
  let s := styled rules o
  let s := if lower o.shape == "class" || lower o.shape == "sql_table" then { s with fontSize := s.fontSize - headerFontAdd } else s
  match o.style.animated with
  | some v => { s with animated := goBool v }
  | none => s

/-- objects whose class/table payload agrees with their shape keyword (what the compiler produces) -/
def Obj.headerConsistent (o : Obj) : Bool :=
  (o.hasClass || o.hasTable) == (lower o.shape == "class" || lower o.shape == "sql_table")

/-! ### IDs -/

/-- `obj.AbsID()` by walking the parent indices (fuel = number of objects; parents precede children in g.Objects is
    not assumed) -/
def absID (objs : Array Obj) : Nat → Nat → Option String
  | 0, _ => none
  | fuel + 1, i =>
    match objs[i]? with
    | none => none
    | some o =>
      match o.parent with
      | none => some o.id
      | some p => (absID objs fuel p).map fun a => a ++ "." ++ o.id

def absIDArray (objs : Array Obj) : Nat → Nat → Option (List String)
  | 0, _ => none
  | fuel + 1, i =>
    match objs[i]? with
    | none => none
    | some o =>
      match o.parent with
      | none => some [o.id]
      | some p => (absIDArray objs fuel p).map fun a => a ++ [o.id]

/-- `strings.Join(ids, ".")` -/
def joinDots : List String → String
  | [] => ""
  | [a] => a
  | a :: b :: r => a ++ "." ++ joinDots (b :: r)

def stripCommon : List String → List String → List String → List String × List String × List String
  | acc, a :: (a2 :: ar), b :: (b2 :: br) =>
    if lower a == lower b then stripCommon (acc ++ [a]) (a2 :: ar) (b2 :: br) else (acc, a :: a2 :: ar, b :: b2 :: br)
  | acc, a, b => (acc, a, b)

/-- `edge.AbsID()` -/
def edgeAbsID (src dst : List String) (srcArrow dstArrow : Bool) (index : Nat) : String :=
  let (common, s, d) := stripCommon [] src dst
  let commonKey := if common.isEmpty then "" else joinDots common ++ "."
  let arrow := if srcArrow && dstArrow then "<->" else if srcArrow then "<-" else if dstArrow then "->" else "--"
  s!"{commonKey}({joinDots s} {arrow} {joinDots d})[{index}]"

/-! ### connections -/

structure EdgeIn where
  src : Option Nat := none          -- index of edge.Src in g.Objects (`none`: a synthetic end point such as a
  dst : Option Nat := none          --   sequence-diagram lifeline end, which is not an object of the graph)
  srcPath : List String := []       -- IDs on the parent chain of edge.Src, outermost first (`AbsIDArray`: an object
  dstPath : List String := []       --   without parent contributes nothing)
  srcTop : String := ""             -- ID of the parentless object the chain ends in when that is not the board root
  dstTop : String := ""             --   (`AbsID` of a parentless object is its own ID, its `AbsIDArray` is empty)
  srcArrow : Bool := false
  dstArrow : Bool := false
  index : Nat := 0
  style : Style := {}
  textFontSize : Int := 16          -- edge.Text().FontSize
deriving Repr, Inhabited

structure ConnStyle where
  opacity : Option Rat := some 1
  strokeDash : Option Rat := some 0
  strokeWidth : Int := 2
  borderRadius : Option Rat := some 10
  stroke : String := ""
  fill : String := ""
  fontSize : Int := 0
  animated : Bool := false
  italic : Bool := true
  bold : Bool := false
  underline : Bool := false
  color : String := ""
  fontFamily : String := "DEFAULT"
deriving Repr, BEq, Inhabited

/-- style fields of `toConnection(edge, theme)`. The Go function is a straight line of guarded assignments; each field
    below is the value that line leaves in it (`theme == nil` behaves as a theme without rules, since every use is
    `theme != nil && theme.SpecialRules.X`). The default stroke is chosen from the dash value *before* the C4 block
    (`GetStroke(connection.StrokeDash)` runs first), and C4 replaces stroke / dash / font colour only when unset. -/
def toConnStyle (rules : Option Rules) (e : EdgeIn) : ConnStyle :=
  let r : Rules := match rules with | some r => r | none => {}
  let sd0 : Option Rat := match e.style.strokeDash with | some v => parseDecimal v | none => some 0
  let italic : Bool := match e.style.italic with | some v => goBool v | none => true
  { opacity := match e.style.opacity with | some v => parseDecimal v | none => some 1
    strokeDash := match e.style.strokeDash with | some v => parseDecimal v | none => if r.c4 then some 5 else some 0
    strokeWidth := match e.style.strokeWidth with | some v => goInt v | none => 2
    borderRadius := match e.style.borderRadius with
      | some v => parseDecimal v
      | none => if r.noCornerRadius then some 0 else some 10
    stroke := match e.style.stroke with
      | some v => v
      | none => if r.c4 then "AA4" else if isDashed sd0 then "B2" else "B1"
    fill := match e.style.fill with | some v => v | none => ""
    fontSize := match e.style.fontSize with | some v => goInt v | none => e.textFontSize
    animated := match e.style.animated with | some v => goBool v | none => false
    italic := italic
    bold := match e.style.bold with | some v => goBool v | none => false
    underline := match e.style.underline with | some v => goBool v | none => false
    color := match e.style.fontColor with
      | some v => v
      | none => if r.c4 then "N2" else if italic then "N2" else "N1"
    fontFamily := match e.style.font with | some v => v | none => if r.mono then "mono" else "DEFAULT" }

/-! ### Export -/

structure Graph where
  objects : Array Obj
  edges : Array EdgeIn
deriving Repr, Inhabited

structure ShapeOut where
  id : Option String
  style : ShapeStyle
deriving Repr, Inhabited

structure ConnOut where
  id : Option String
  src : Option String
  dst : Option String
  style : ConnStyle
deriving Repr, Inhabited

def Graph.absID (g : Graph) (i : Nat) : Option String := D2V.Export.absID g.objects (g.objects.size + 1) i

def toShape (rules : Option Rules) (g : Graph) (i : Nat) (o : Obj) : ShapeOut :=
  { id := g.absID i, style := toShapeStyle rules o }

/-- ID chain of an edge end point: an end point that is an object of the graph is addressed through the object tree,
    a synthetic one (sequence-diagram lifeline end) by its own chain -/
def Graph.endpointPath (g : Graph) (i : Option Nat) (own : List String) : Option (List String) :=
  match i with
  | some i => absIDArray g.objects (g.objects.size + 1) i
  | none => some own

/-- `AbsID()` of an edge end point: the shape ID for an object of the graph; for a synthetic end point the dotted
    chain, headed by the parentless top's own ID when there is one -/
def Graph.endpointID (g : Graph) (i : Option Nat) (own : List String) (top : String) : Option String :=
  match i with
  | some _ => (g.endpointPath i own).map joinDots
  | none => some (joinDots ((if top == "" then [] else [top]) ++ own))

def toConnection (rules : Option Rules) (g : Graph) (e : EdgeIn) : ConnOut :=
  let sp := g.endpointPath e.src e.srcPath
  let dp := g.endpointPath e.dst e.dstPath
  { id := match sp, dp with
      | some s, some d => some (edgeAbsID s d e.srcArrow e.dstArrow e.index)
      | _, _ => none
    src := g.endpointID e.src e.srcPath e.srcTop
    dst := g.endpointID e.dst e.dstPath e.dstTop
    style := toConnStyle rules e }

/-- `Export`: `diagram.Shapes[i] = toShape(g.Objects[i])`, `diagram.Connections[i] = toConnection(g.Edges[i])` -/
def exportShapes (rules : Option Rules) (g : Graph) : List ShapeOut :=
  (g.objects.toList.zipIdx).map fun (o, i) => toShape rules g i o

def exportConns (rules : Option Rules) (g : Graph) : List ConnOut :=
  g.edges.toList.map (toConnection rules g)

end D2V.Export
