/-
  Model of the watch server `d2cli/watch.go` (C44, C45) as one transition system.  Core Lean only.

  Goroutines and the Go statements behind every step
    harness / user          `change`      the input file gets its next version (fsnotify will report it: `dirty`)
    watchLoop, handleRoot   `request`     requestCompile() entered (trace point before the select)
                            `sendReq`  τ  the non-blocking send on compileCh (capacity 1: a Bool)
    compileLoop             `recv`     τ  <-w.compileCh
                            `compileStart`  trace point after the receive
                            `fileRead` τ  compile() reads the input file (ms.ReadPath)
                            `compileEnd v`  compile() returned the result for version v
    broadcast               `setRes v`      w.res = res                       (under resMu)
                            `bcastLock` τ   wsclientsMu.Lock(); the clients to wake are those in the map now
                            `wake c` / `wakeCoalesced c`   select { case cl.resultsCh <- : default: }
                            `bcastDone`     wsclientsMu.Unlock()
    handleWatch             `admitC` / `refuse` the `closing` test and wsclientsWG.Add(1) (under wsclientsMu)
                            `acceptFail c`      websocket.Accept failed: wsclientsWG.Done()
    handler goroutine       `register c`        w.wsclients[cl] = {}       (under wsclientsMu)
      writeLoop             `readRes c` τ       cl.w.getRes()
                            `readLog c r`       trace point after getRes
                            `write c v ok`      cl.write returned
                            `recvWake c` τ      <-cl.resultsCh
                            `woken c`           trace point after the receive
                            `ctxDone c` τ       <-ctx.Done() in the select (peer gone, or the watcher's ctx cancelled)
                            `unregister c`      delete(w.wsclients, cl)   (under wsclientsMu)
                            `exit c`            trace point of the deferred exit, before wsclientsWG.Done()
                            `done c` τ          wsclientsWG.Done()
    peer                    `drop c`            the browser closes its connection
    close()                 `closeBegin` / `closeNoop`   the `closing` test-and-set (under wsclientsMu)
                            `cancel` τ          w.cancel()
                            `closeWait`         trace point before wsclientsWG.Wait()
                            `closeReturn`       Wait() returned
    signal                  `shutdown`          the parent context is cancelled

  Abstractions: fsnotify, the 16 ms burst timer, the 10 s poll and handleRoot are the nondeterministic `request`
  (obligatory while `dirty`); websocket writes succeed or fail nondeterministically once the peer is gone or the
  context is cancelled; timeouts (30 s write, 1 h connection), the heartbeat goroutine and compile errors are not
  modelled.  Versions are natural numbers; a compile result is identified with the version of the file it read.
  wsclientsMu is modelled by `lockFree`: while broadcast holds it (`Comp.waking`) no other step that takes it is enabled.
-/
namespace D2V.Watch

abbrev Ver := Nat

inductive CPc where
  | admitted | loopHead | haveRes (r : Option Ver) | writing (v : Ver) | waiting | wokenUp
  | leaving | unregistered | exited | gone | refused
  deriving DecidableEq, Hashable, Repr

structure Client where
  pc : CPc
  ch : Bool            -- resultsCh (capacity 1)
  sent : List Ver      -- versions written to the peer, oldest first
  dropped : Bool       -- the peer closed the connection
  deriving DecidableEq, Hashable, Repr

inductive Comp where
  | idle | recvd | started | compiling (v : Ver) | ended (v : Ver) | published (v : Ver)
  | waking (v : Ver) (todo : List Nat)
  deriving DecidableEq, Hashable, Repr

inductive ClosePc where
  | idle | begun | waiting | returned
  deriving DecidableEq, Hashable, Repr

structure State where
  file : Ver
  dirty : Bool
  reqPending : Nat
  compileCh : Bool
  comp : Comp
  res : Option Ver
  clients : List Client
  closing : Bool
  cancelled : Bool
  wg : Nat
  close : ClosePc
  deriving DecidableEq, Hashable, Repr

inductive Step where
  | change | request | sendReq | recv | compileStart | fileRead | compileEnd (v : Ver) | setRes (v : Ver) | bcastLock
  | wake (c : Nat) | wakeCoalesced (c : Nat) | bcastDone
  | admitC | refuse | acceptFail (c : Nat) | register (c : Nat) | readRes (c : Nat) | readLog (c : Nat) (r : Option Ver)
  | write (c : Nat) (v : Ver) (ok : Bool) | recvWake (c : Nat) | woken (c : Nat) | ctxDone (c : Nat)
  | unregister (c : Nat) | exit (c : Nat) | done (c : Nat) | drop (c : Nat)
  | closeBegin | closeNoop | cancel | closeWait | closeReturn | shutdown
  deriving DecidableEq, Repr

def init : State :=
  { file := 0, dirty := true, reqPending := 0, compileCh := false, comp := .idle, res := none, clients := [],
    closing := false, cancelled := false, wg := 0, close := .idle }

/-- the client is in `w.wsclients` -/
def CPc.inMap : CPc → Bool
  | .loopHead | .haveRes _ | .writing _ | .waiting | .wokenUp | .leaving => true
  | _ => false

/-- the handler still holds its WaitGroup count -/
def CPc.active : CPc → Bool
  | .gone | .refused => false
  | _ => true

def lockFree (s : State) : Bool :=
  match s.comp with
  | .waking _ _ => false
  | _ => true

/-- update the client at index `i` -/
def upd (i : Nat) (f : Client → Client) : List Client → List Client
  | [] => []
  | c :: r => match i with
    | 0 => f c :: r
    | i + 1 => c :: upd i f r

/-- indices of the clients in the map -/
def inMapIdx : Nat → List Client → List Nat
  | _, [] => []
  | k, c :: r => if c.pc.inMap then k :: inMapIdx (k + 1) r else inMapIdx (k + 1) r

def newClient (pc : CPc) : Client := { pc := pc, ch := false, sent := [], dropped := false }

/-- step of client `i` that needs `pc = frm` -/
def cstep (s : State) (i : Nat) (guard : Client → Bool) (f : Client → Client) : Option State :=
  match s.clients[i]? with
  | some c => if guard c then some { s with clients := upd i f s.clients } else none
  | none => none

def step (s : State) : Step → Option State
  | .change => some { s with file := s.file + 1, dirty := true }
  | .request => some { s with dirty := false, reqPending := s.reqPending + 1 }
  | .sendReq =>
    match s.reqPending with
    | 0 => none
    | p + 1 => some { s with reqPending := p, compileCh := true }
  | .recv =>
    match s.comp with
    | .idle => if s.compileCh then some { s with compileCh := false, comp := .recvd } else none
    | _ => none
  | .compileStart =>
    match s.comp with
    | .recvd => some { s with comp := .started }
    | _ => none
  | .fileRead =>
    match s.comp with
    | .started => some { s with comp := .compiling s.file }
    | _ => none
  | .compileEnd v =>
    match s.comp with
    | .compiling w => if v = w then some { s with comp := .ended v } else none
    | _ => none
  | .setRes v =>
    match s.comp with
    | .ended w => if v = w then some { s with comp := .published v, res := some v } else none
    | _ => none
  | .bcastLock =>
    match s.comp with
    | .published v => some { s with comp := .waking v (inMapIdx 0 s.clients) }
    | _ => none
  | .wake c =>
    match s.comp with
    | .waking v todo =>
      if todo.contains c then
        match s.clients[c]? with
        | some cl => if !cl.ch then
            some { s with comp := .waking v (todo.erase c), clients := upd c (fun x => { x with ch := true }) s.clients }
          else none
        | none => none
      else none
    | _ => none
  | .wakeCoalesced c =>
    match s.comp with
    | .waking v todo =>
      if todo.contains c then
        match s.clients[c]? with
        | some cl => if cl.ch then some { s with comp := .waking v (todo.erase c) } else none
        | none => none
      else none
    | _ => none
  | .bcastDone =>
    match s.comp with
    | .waking _ [] => some { s with comp := .idle }
    | _ => none
  | .admitC =>
    if !s.closing && lockFree s then
      some { s with clients := s.clients ++ [newClient .admitted], wg := s.wg + 1 }
    else none
  | .refuse =>
    if s.closing && lockFree s then some { s with clients := s.clients ++ [newClient .refused] } else none
  | .acceptFail c =>
    match s.clients[c]? with
    | some cl => if cl.pc = .admitted then
        some { s with clients := upd c (fun x => { x with pc := .gone }) s.clients, wg := s.wg - 1 }
      else none
    | none => none
  | .register c => if lockFree s then cstep s c (fun x => x.pc = .admitted) (fun x => { x with pc := .loopHead }) else none
  | .readRes c => cstep s c (fun x => x.pc = .loopHead) (fun x => { x with pc := .haveRes s.res })
  | .readLog c r =>
    cstep s c (fun x => x.pc = .haveRes r)
      (fun x => { x with pc := match r with | some v => .writing v | none => .waiting })
  | .write c v ok =>
    match s.clients[c]? with
    | some cl =>
      if cl.pc = .writing v then
        if ok then some { s with clients := upd c (fun x => { x with pc := .waiting, sent := x.sent ++ [v] }) s.clients }
        else if cl.dropped || s.cancelled then some { s with clients := upd c (fun x => { x with pc := .leaving }) s.clients }
        else none
      else none
    | none => none
  | .recvWake c => cstep s c (fun x => x.pc = .waiting && x.ch) (fun x => { x with pc := .wokenUp, ch := false })
  | .woken c => cstep s c (fun x => x.pc = .wokenUp) (fun x => { x with pc := .loopHead })
  | .ctxDone c =>
    cstep s c (fun x => x.pc = .waiting && (x.dropped || s.cancelled)) (fun x => { x with pc := .leaving })
  | .unregister c => if lockFree s then cstep s c (fun x => x.pc = .leaving) (fun x => { x with pc := .unregistered }) else none
  | .exit c => cstep s c (fun x => x.pc = .unregistered) (fun x => { x with pc := .exited })
  | .done c =>
    match s.clients[c]? with
    | some cl => if cl.pc = .exited then
        some { s with clients := upd c (fun x => { x with pc := .gone }) s.clients, wg := s.wg - 1 }
      else none
    | none => none
  | .drop c => cstep s c (fun _ => true) (fun x => { x with dropped := true })
  | .closeBegin =>
    if !s.closing && lockFree s then some { s with closing := true, close := .begun } else none
  | .closeNoop => if s.closing && lockFree s then some s else none
  | .cancel =>
    match s.close with
    | .begun => if !s.cancelled then some { s with cancelled := true } else none
    | _ => none
  | .closeWait =>
    match s.close with
    | .begun => if s.cancelled then some { s with close := .waiting } else none
    | _ => none
  | .closeReturn =>
    match s.close with
    | .waiting => if s.wg = 0 then some { s with close := .returned } else none
    | _ => none
  | .shutdown => some { s with cancelled := true }

def run : State → List Step → Option State
  | s, [] => some s
  | s, st :: r => match step s st with
    | some s' => run s' r
    | none => none

/-- steps the environment decides: edits, browsers connecting and leaving, requests that answer no pending change
    (poll ticker, handleRoot), the calls of close() and the shutdown signal.  Everything else is the program's own
    progress. -/
def external (s : State) : Step → Bool
  | .change | .admitC | .refuse | .drop _ | .closeBegin | .closeNoop | .shutdown => true
  | .request => !s.dirty
  | _ => false

/-- candidate internal steps of a state (for `quiescent`; every internal step is an instance of one of these) -/
def internalCandidates (s : State) : List Step :=
  let n := s.clients.length
  let idx := List.range n
  [.request, .sendReq, .recv, .compileStart, .fileRead, .bcastLock, .bcastDone, .cancel, .closeWait, .closeReturn]
  ++ (match s.comp with
      | .compiling v => [.compileEnd v]
      | .ended v => [.setRes v]
      | _ => [])
  ++ idx.flatMap fun c =>
      [.wake c, .wakeCoalesced c, .acceptFail c, .register c, .readRes c, .recvWake c, .woken c, .ctxDone c,
       .unregister c, .exit c, .done c]
      ++ (match s.clients[c]? with
          | some cl => match cl.pc with
            | .haveRes r => [.readLog c r]
            | .writing v => [.write c v true, .write c v false]
            | _ => []
          | none => [])

/-- no internal step is enabled -/
def quiescent (s : State) : Bool :=
  (internalCandidates s).all fun st => external s st || (step s st).isNone

/-! ### progress measure -/

def CPc.weight : CPc → Nat
  | .admitted => 10 | .wokenUp => 10 | .loopHead => 9 | .haveRes _ => 8 | .writing _ => 7 | .waiting => 5
  | .leaving => 4 | .unregistered => 3 | .exited => 2 | .gone => 0 | .refused => 0

def Client.weight (c : Client) : Nat := c.pc.weight + (if c.ch then 6 else 0)

def clientsWeight : List Client → Nat
  | [] => 0
  | c :: r => c.weight + clientsWeight r

def Comp.weight (n : Nat) : Comp → Nat
  | .idle => 0
  | .recvd => 7 * n + 6
  | .started => 7 * n + 5
  | .compiling _ => 7 * n + 4
  | .ended _ => 7 * n + 3
  | .published _ => 7 * n + 2
  | .waking _ todo => 7 * todo.length + 1

def ClosePc.weight (cancelled : Bool) : ClosePc → Nat
  | .idle => 0
  | .begun => if cancelled then 2 else 3
  | .waiting => 1
  | .returned => 0

/-- strictly decreases on every internal step (`mu_decreases`), so internal activity terminates: a quiescent state
    is reached once the environment stops -/
def mu (s : State) : Nat :=
  let n := s.clients.length
  (if s.dirty then 7 * n + 9 else 0) + s.reqPending * (7 * n + 8) + (if s.compileCh then 7 * n + 7 else 0)
    + s.comp.weight n + clientsWeight s.clients + s.close.weight s.cancelled

end D2V.Watch
