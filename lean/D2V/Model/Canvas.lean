/-
  Model of `d2renderers/d2ascii/asciicanvas` (C32): the character grid and its bounds discipline.

    New(width, height)        → `Canvas.new`
    IsInBounds(x, y)          → `Canvas.isInBounds`   (y is tested before `len(c.grid[y])` is taken)
    Set / Get                 → `Canvas.set` / `Canvas.get`: the raw slice accesses `c.grid[y][x]` are modelled in
                                `Except Crash` (`rawSet`, `rawGet`) and are only reached behind `IsInBounds`
    DrawLabel(x, y, label)    → `Canvas.drawLabel`: Go's `for i, ch := range line` yields the *byte* offset `i` of
                                every rune; the column used is `x + i`. `byteOffsets` reproduces that.

  Cells hold strings (one glyph each), as in the Go code.
-/
import D2V.Gen.AsciiCharset

namespace D2V.Canvas

inductive Crash where
  | indexOutOfRange
deriving Repr, DecidableEq

structure Canvas where
  grid : Array (Array String)
deriving Repr, Inhabited

def Canvas.new (width height : Nat) : Canvas := ⟨Array.replicate height (Array.replicate width " ")⟩

def Canvas.height (c : Canvas) : Nat := c.grid.size

def Canvas.isInBounds (c : Canvas) (x y : Int) : Bool :=
  decide (0 ≤ y) && decide (y < c.grid.size) &&
    (match c.grid[y.toNat]? with
     | some row => decide (0 ≤ x) && decide (x < row.size)
     | none => false)

/-- `c.grid[y][x] = ch` as Go executes it: a panic when an index is out of range -/
def Canvas.rawSet (c : Canvas) (x y : Int) (ch : String) : Except Crash Canvas :=
  if y < 0 then .error .indexOutOfRange else
  match c.grid[y.toNat]? with
  | none => .error .indexOutOfRange
  | some row =>
    if x < 0 then .error .indexOutOfRange else
    if x.toNat < row.size then .ok ⟨c.grid.setIfInBounds y.toNat (row.setIfInBounds x.toNat ch)⟩
    else .error .indexOutOfRange

def Canvas.rawGet (c : Canvas) (x y : Int) : Except Crash String :=
  if y < 0 then .error .indexOutOfRange else
  match c.grid[y.toNat]? with
  | none => .error .indexOutOfRange
  | some row =>
    if x < 0 then .error .indexOutOfRange else
    match row[x.toNat]? with
    | some s => .ok s
    | none => .error .indexOutOfRange

/-- `Set`: `if c.IsInBounds(x, y) { c.grid[y][x] = char }` -/
def Canvas.set (c : Canvas) (x y : Int) (ch : String) : Except Crash Canvas :=
  if c.isInBounds x y then c.rawSet x y ch else .ok c

/-- `Get`: `if c.IsInBounds(x, y) { return c.grid[y][x] }; return ""` -/
def Canvas.get (c : Canvas) (x y : Int) : Except Crash String :=
  if c.isInBounds x y then c.rawGet x y else .ok ""

/-- (byte offset, rune) pairs of `for i, ch := range line` -/
def byteOffsets : List Char → Nat → List (Nat × Char)
  | [], _ => []
  | ch :: r, off => (off, ch) :: byteOffsets r (off + ch.utf8Size)

def splitLines (s : List Char) : List (List Char) :=
  let rec go : List Char → List Char → List (List Char)
    | [], cur => [cur.reverse]
    | ch :: r, cur => if ch = '\n' then cur.reverse :: go r [] else go r (ch :: cur)
  go s []

def Canvas.drawLine (c : Canvas) (x y : Int) (cells : List (Nat × Char)) : Except Crash Canvas :=
  cells.foldlM (fun c cell => c.set (x + cell.1) y (String.singleton cell.2)) c

/-- (rune index, rune) pairs: one column per rune -/
def runeOffsets : List Char → Nat → List (Nat × Char)
  | [], _ => []
  | ch :: r, off => (off, ch) :: runeOffsets r (off + 1)

/-- column offsets of a line's runes: Go's byte offsets (the tree as found) or one per rune -/
def lineCells (byteOff : Bool) (line : List Char) : List (Nat × Char) :=
  if byteOff then byteOffsets line 0 else runeOffsets line 0

/-- `DrawLabel`; `byteOff` says which variant the current source implements (regenerated flag) -/
def Canvas.drawLabel (c : Canvas) (x y : Int) (label : List Char)
    (byteOff : Bool := D2V.Gen.AsciiCharset.drawLabelByteOffsets) : Except Crash Canvas :=
  if !c.isInBounds x y then .ok c else
  (splitLines label).zipIdx.foldlM (fun c (line, idx) => c.drawLine x (y + idx) (lineCells byteOff line)) c

/-- the text of row `y` -/
def Canvas.rowText (c : Canvas) (y : Nat) : String :=
  match c.grid[y]? with
  | some row => String.join row.toList
  | none => ""

/-! ### Spec helpers for the driver (on the renderer's output bytes) -/

/-- `s` occurs in `t` as a contiguous run of characters -/
def isInfix (s t : List Char) : Bool :=
  match t with
  | [] => s.isEmpty
  | _ :: r => s.isPrefixOf t || isInfix s r

end D2V.Canvas
