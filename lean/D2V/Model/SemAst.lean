/-
  Small D2 abstract syntax shared by the C12–C15 checks (agent semext) and its printer.

  The harness generates programs directly in this syntax; the texts the real compiler is run on are
  produced by `render` below (the harness asks the Lean driver for them), so every source-to-source
  reference transformation of these properties (`expand` for globs, `substText` for variables,
  `inline` for imports, `flatten` for boards) is a Lean function over this datatype and nothing else.

  Quote kinds: 0 unquoted, 1 double-quoted, 2 single-quoted.
-/
namespace D2V.SemAst

/-- one segment of a key path -/
structure KSeg where
  q : Nat
  s : String
deriving Repr, BEq, DecidableEq, Inhabited

abbrev Key := List KSeg

/-- piece of a scalar: literal text or a substitution `${a.b}` -/
inductive Part
  | lit (s : String)
  | sub (path : List String)
deriving Repr, BEq, DecidableEq, Inhabited

structure Scal where
  q : Nat
  parts : List Part
deriving Repr, BEq, DecidableEq, Inhabited

/-- edge index of an edge key: `(a -> b)[*]` or `(a -> b)[n]` -/
inductive Idx
  | star
  | n (i : Nat)
deriving Repr, BEq, DecidableEq, Inhabited

mutual
inductive Val
  | none
  | scal (v : Scal)
  | null
  | map (body : List Stmt)
  | imp (path : String)
  | arr (vs : List Scal)
inductive Stmt
  /-- `amp`: 0 plain declaration, 1 `&key: v` filter, 2 `!&key: v` -/
  | field (amp : Nat) (key : Key) (prim : Option Scal) (val : Val)
  /-- `common.(src arrow dst)[idx].ekey: prim {val}`; `idx = none` declares (creates) a connection -/
  | edge (common src : Key) (arrow : String) (dst : Key) (idx : Option Idx) (ekey : Key)
      (prim : Option Scal) (val : Val)
  | spreadImp (path : String)
  | spreadSub (path : List String)
end

instance : Inhabited Val := ⟨.none⟩
instance : Inhabited Stmt := ⟨.spreadImp ""⟩

abbrev Body := List Stmt

structure File where
  name : String
  body : Body

/-- a program is a file set; the first file is the entry -/
abbrev Prog := List File

/-! ### structural equality (the derive handler does not cover the nested mutual pair) -/
mutual
def Val.beq : Val → Val → Bool
  | .none, .none => true
  | .scal a, .scal b => a == b
  | .null, .null => true
  | .map a, .map b => beqL a b
  | .imp a, .imp b => a == b
  | .arr a, .arr b => a == b
  | _, _ => false
def Stmt.beq : Stmt → Stmt → Bool
  | .field a k p v, .field a' k' p' v' => a == a' && k == k' && p == p' && v.beq v'
  | .edge c s ar d i ek p v, .edge c' s' ar' d' i' ek' p' v' =>
      c == c' && s == s' && ar == ar' && d == d' && i == i' && ek == ek' && p == p' && v.beq v'
  | .spreadImp a, .spreadImp b => a == b
  | .spreadSub a, .spreadSub b => a == b
  | _, _ => false
def beqL : List Stmt → List Stmt → Bool
  | [], [] => true
  | a :: r, b :: r' => a.beq b && beqL r r'
  | _, _ => false
end
instance : BEq Val := ⟨Val.beq⟩
instance : BEq Stmt := ⟨Stmt.beq⟩

/-! ### printer -/

def escDQ (s : String) : String :=
  String.join (s.toList.map fun c =>
    if c == '"' then "\\\"" else if c == '\\' then "\\\\" else if c == '\n' then "\\n"
    else if c == '$' then "\\$" else c.toString)

def escSQ (s : String) : String :=
  String.join (s.toList.map fun c => if c == '\'' then "''" else c.toString)

def KSeg.render (k : KSeg) : String :=
  match k.q with
  | 0 => k.s
  | 1 => "\"" ++ escDQ k.s ++ "\""
  | _ => "'" ++ escSQ k.s ++ "'"

def renderKey (k : Key) : String := ".".intercalate (k.map KSeg.render)

def Part.render (q : Nat) : Part → String
  | .lit s => if q == 1 then escDQ s else if q == 2 then escSQ s else s
  | .sub p => "${" ++ ".".intercalate p ++ "}"

def Scal.render (v : Scal) : String :=
  let inner := String.join (v.parts.map (Part.render v.q))
  match v.q with
  | 0 => inner
  | 1 => "\"" ++ inner ++ "\""
  | _ => "'" ++ inner ++ "'"

def Idx.render : Idx → String
  | .star => "[*]"
  | .n i => "[" ++ toString i ++ "]"

def indent (n : Nat) : String := String.ofList (List.replicate (2 * n) ' ')

def ampStr (a : Nat) : String := if a == 1 then "&" else if a == 2 then "!&" else ""

def edgeKeyStr (common src : Key) (arrow : String) (dst : Key) (idx : Option Idx) (ekey : Key) : String :=
  let core := renderKey src ++ " " ++ arrow ++ " " ++ renderKey dst
  match idx with
  | none => if common.isEmpty then core else renderKey common ++ ".(" ++ core ++ ")"
  | some i =>
    (if common.isEmpty then "" else renderKey common ++ ".") ++ "(" ++ core ++ ")" ++ i.render ++
      (if ekey.isEmpty then "" else "." ++ renderKey ekey)

mutual
/-- text after the key of a declaration (`: value`, ` {`…`}`) at nesting depth `d` -/
def Val.render (d : Nat) (prim : Option Scal) : Val → String
  | .none => match prim with
      | some p => ": " ++ p.render
      | none => ""
  | .scal v => ": " ++ v.render
  | .null => ": null"
  | .map body =>
      ": " ++ (match prim with | some p => p.render ++ " " | none => "") ++ "{\n" ++
        renderBody (d + 1) body ++ indent d ++ "}"
  | .imp p => ": @" ++ p
  | .arr vs => ": [" ++ "; ".intercalate (vs.map Scal.render) ++ "]"
def Stmt.render (d : Nat) : Stmt → String
  | .field a k p v => indent d ++ ampStr a ++ renderKey k ++ v.render d p ++ "\n"
  | .edge c s ar ds i ek p v => indent d ++ edgeKeyStr c s ar ds i ek ++ v.render d p ++ "\n"
  | .spreadImp p => indent d ++ "...@" ++ p ++ "\n"
  | .spreadSub p => indent d ++ "...${" ++ ".".intercalate p ++ "}\n"
def renderBody (d : Nat) : List Stmt → String
  | [] => ""
  | s :: r => s.render d ++ renderBody d r
end

def File.render (f : File) : String := renderBody 0 f.body

/-- file name ↦ text, in file order -/
def renderProg (p : Prog) : List (String × String) := p.map fun f => (f.name, f.render)

/-! ### small helpers used by the transformations -/

def lowerAscii (s : String) : String := String.ofList (s.toList.map Char.toLower)

/-- unquoted key segment -/
def useg (s : String) : KSeg := { q := 0, s := s }

/-- the literal text of a scalar without substitutions (`none` when it has one) -/
def Scal.text? (v : Scal) : Option String :=
  v.parts.foldr (fun p acc => match p, acc with
    | .lit s, some r => some (s ++ r)
    | _, _ => none) (some "")

def Scal.hasSub (v : Scal) : Bool := v.parts.any fun p => match p with | .sub _ => true | .lit _ => false

def litScal (q : Nat) (s : String) : Scal := { q := q, parts := [.lit s] }

end D2V.SemAst
