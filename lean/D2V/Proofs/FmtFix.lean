/-
  Helper development for C03 (agent `format`): on the region `stable`, printing the re-parsed tree reproduces the
  printed text — `fmtV ind (normL ind n) = fmtV ind n` — by mutual structural induction over the nested tree type.
-/
import D2V.Model.Fmt

set_option linter.unusedSimpArgs false
set_option linter.unusedVariables false

namespace D2V.Fmt
open D2V.Gen

/-! ### keywords -/

theorem reserved_lower_fixed : ∀ k ∈ FmtKw.reservedKeywords, lower k = k := by decide

theorem reserved_noNL : ∀ k ∈ FmtKw.reservedKeywords, hasNL k = false := by decide

theorem boardLabels_reserved : ∀ k ∈ FmtKw.isBoardNodeLabels, isReserved k = true := by decide

theorem mem_of_isReserved {s : Text} (h : isReserved s = true) : s ∈ FmtKw.reservedKeywords := by
  simpa [isReserved, List.contains_iff_mem] using h

theorem isReserved_lower_fixed {s : Text} (h : isReserved s = true) : lower s = s :=
  reserved_lower_fixed s (mem_of_isReserved h)

theorem lowerKw_idem (s : Text) : lowerKw (lowerKw s) = lowerKw s := by
  unfold lowerKw
  by_cases h : isReserved (lower s) = true
  · simp [h, isReserved_lower_fixed h]
  · simp [h]

/-! ### strings, paths, scalars, heads: printing is invariant under `norm…` -/

theorem fmtStr_normStr (k : Bool) (s : Str) : fmtStr k (normStr k s) = fmtStr k s := by
  obtain ⟨q, raw, val⟩ := s
  cases q <;> simp only [normStr, fmtStr]
  cases hl : lowersHere k
  · simp
  · by_cases h : isReserved (lower raw) = true
    · simp [h, hl, lowerKw, isReserved_lower_fixed h]
    · simp [h, hl]

theorem fmtPath_map_normStr (k : Bool) : ∀ p : Path, fmtPath k (p.map (normStr k)) = fmtPath k p
  | [] => rfl
  | [s] => by simp [fmtPath, fmtStr_normStr]
  | s :: t :: r => by
    have ih := fmtPath_map_normStr k (t :: r)
    simp only [List.map_cons] at ih
    simp only [List.map_cons, fmtPath, fmtStr_normStr, ih]

theorem fmtPath_normPath (k : Bool) (p : Path) : fmtPath k (normPath k p) = fmtPath k p := fmtPath_map_normStr k p

theorem fmtScalar_normScalar (s : Scalar) : fmtScalar (normScalar s) = fmtScalar s := by
  cases s <;> simp [normScalar, fmtScalar, fmtStr_normStr]

theorem fmtSub_norm (sp : Bool) (p : Path) : fmtSub sp (normPath false p) = fmtSub sp p := by
  simp [fmtSub, fmtPath_normPath]

theorem impHead_normStr_impHead (s : Str) : impHead (normStr false (impHead s)) = normStr false (impHead s) := by
  unfold impHead
  by_cases hq : (FmtKw.rawStringQuotesKeywordCase && lower s.val != s.val && isReserved (lower s.val)) = true
  · simp [hq, normStr]
  · simp only [hq, Bool.false_eq_true, if_false, normStr]
    by_cases hr : (lowersHere false && isReserved (lower s.val)) = true
    · have hres : isReserved (lower s.val) = true := by
        simp only [Bool.and_eq_true] at hr; exact hr.2
      have hfix := isReserved_lower_fixed hres
      simp [hr, hfix]
    · simp only [hr, Bool.false_eq_true, if_false]
      simp only [hq, Bool.false_eq_true, if_false]

theorem impPath_normPath_impPath (p : Path) : impPath (normPath false (impPath p)) = normPath false (impPath p) := by
  cases p with
  | nil => rfl
  | cons s rest =>
    simp only [impPath, normPath, List.map_cons]
    rw [impHead_normStr_impHead]

theorem fmtImp_norm (sp : Bool) (p : Path) : fmtImp sp (normPath false (impPath p)) = fmtImp sp p := by
  simp [fmtImp, impPath_normPath_impPath, fmtPath_normPath]

theorem fmtArrowDst_norm (h : Hop) : fmtArrowDst (normHop h) = fmtArrowDst h := by
  obtain ⟨sa, da, dst⟩ := h
  simp only [fmtArrowDst, normHop, fmtPath_normPath]
  rfl

theorem fmtHops_norm : ∀ l : List Hop, fmtHops (l.map normHop) = fmtHops l
  | [] => rfl
  | [h] => by simp [fmtHops, fmtArrowDst_norm]
  | h :: t :: r => by
    have ih := fmtHops_norm (t :: r)
    simp only [List.map_cons] at ih
    simp only [List.map_cons, fmtHops, fmtArrowDst_norm, ih]

theorem fmtHead_norm (h : KeyHead) : fmtHead (normHead h) = fmtHead h := by
  obtain ⟨amp, key, src, hops, eidx, ekey⟩ := h
  cases key <;> cases src <;> cases ekey <;>
    simp [fmtHead, normHead, optPath, fmtPath_normPath, fmtHops_norm] <;> rfl

end D2V.Fmt

namespace D2V.Fmt

/-! ### wrappers and board tests -/

theorem fmtV_setBlank (b : Bool) (ind : Nat) (n : N) : fmtV ind (setBlank b n) = fmtV ind n := by
  cases n <;> simp [setBlank, fmtV]

theorem isBoard_mnode (b l : Bool) (v : N) :
    isBoard (.mnode b l v) = (match v with | .key h _ _ => headIsBoard h | _ => false) := by
  cases v <;> rfl

theorem isKeptBoard_mnode (b l : Bool) (v : N) :
    isKeptBoard (.mnode b l v) = (match v with | .key h _ (.map _ (_ :: _)) => headIsBoard h | _ => false) := by
  cases v with
  | key h p val =>
    cases val with
    | map o ns => cases ns <;> rfl
    | _ => rfl
  | _ => rfl

theorem isBoard_setBlank (b : Bool) (n : N) : isBoard (setBlank b n) = isBoard n := by
  cases n with
  | mnode bl l v => simp only [setBlank, isBoard_mnode]
  | _ => rfl

theorem isKeptBoard_setBlank (b : Bool) (n : N) : isKeptBoard (setBlank b n) = isKeptBoard n := by
  cases n with
  | mnode bl l v => simp only [setBlank, isKeptBoard_mnode]
  | _ => rfl

theorem l0Of_setBlank (b : Bool) (n : N) : l0Of (setBlank b n) = l0Of n := by
  cases n <;> simp [setBlank, l0Of]

theorem blankOf_setBlank (c : Bool) (n : N) : blankOf (setBlank (c && blankOf n) n) = (c && blankOf n) := by
  cases n <;> simp [setBlank, blankOf]

theorem isKeptBoard_isBoard {n : N} (h : isKeptBoard n = true) : isBoard n = true := by
  unfold isKeptBoard at h
  split at h
  · simpa [isBoard] using h
  · simp at h

/-- the value of a key is not printed: absent or an empty map -/
def dropsVal : N → Bool
  | .absent => true
  | .map _ [] => true
  | _ => false

def primTxt : Option Scalar → Text
  | some s => ':' :: ' ' :: fmtScalar s
  | none => []

theorem fmtV_key (ind : Nat) (h : KeyHead) (p : Option Scalar) (v : N) :
    fmtV ind (.key h p v) =
      fmtHead h ++ primTxt p ++ (if dropsVal v then [] else (if p.isSome then [' '] else [':', ' ']) ++ fmtV ind v) := by
  cases v with
  | map one nodes => cases nodes <;> cases p <;> simp [fmtV, dropsVal, primTxt]
  | _ => cases p <;> simp [fmtV, dropsVal, primTxt]

theorem normL_key (ind : Nat) (h : KeyHead) (p : Option Scalar) (v : N) :
    normL ind (.key h p v) =
      mkKey (normHead h) (p.map normScalar) (if dropsVal v then .absent else normL ind v) := by
  cases v with
  | map one nodes => cases nodes <;> simp [normL, dropsVal]
  | _ => simp [normL, dropsVal]

theorem normL_absent_iff (ind : Nat) (v : N) : normL ind v = .absent ↔ v = .absent := by
  cases v <;> simp [normL]
  case key h p v => simp [normL_key, mkKey]; split <;> simp

theorem lowerKw_noNL {s : Text} (h : hasNL s = false) : hasNL (lowerKw s) = false := by
  unfold lowerKw
  by_cases hr : isReserved (lower s) = true
  · simp [hr, reserved_noNL _ (mem_of_isReserved hr)]
  · simp [hr, h]

end D2V.Fmt

namespace D2V.Fmt
open D2V.Gen

/-! ### how re-parsing acts on the board tests -/

theorem normL_mnode (ind : Nat) (b l : Bool) (v : N) : normL ind (.mnode b l v) = .mnode b l (normL ind v) := by
  simp [normL]

theorem isBoard_mkKey (b l : Bool) (h : KeyHead) (p : Option Scalar) (v : N) :
    isBoard (.mnode b l (mkKey h p v)) = headIsBoard h := by
  unfold mkKey
  split <;> simp [isBoard_mnode]

theorem isBoard_normL (ind : Nat) (x : N) : isBoard (normL ind x) = isBoardAfter x := by
  cases x with
  | mnode b l v =>
    cases v with
    | key h p val => simp [normL_mnode, normL_key, isBoard_mkKey, isBoardAfter]
    | arr one items => simp [normL, isBoard_mnode, isBoardAfter]
    | map one nodes => simp [normL, isBoard_mnode, isBoardAfter]
    | _ => simp [normL, isBoard_mnode, isBoardAfter]
  | key h p val => simp [normL_key, mkKey, isBoardAfter]; split <;> simp [isBoard]
  | _ => simp [normL, isBoard, isBoardAfter]

/-- on a well-formed key a board keyword survives re-parsing as the same board keyword -/
theorem normStr_val_of_board {s : Str} (hs : strOk s = true) (hb : boardName s.val = true) : (normStr true s).val = s.val := by
  obtain ⟨q, raw, val⟩ := s
  cases q <;> simp only [normStr]
  by_cases hr : isReserved (lower raw) = true
  · simp only [hr, lowersHere, Bool.true_or, Bool.and_self, if_true]
    have hv : val = raw := by
      simp [strOk, hr] at hs
      exact hs.2
    subst hv
    have : isReserved val = true := boardLabels_reserved val (by simpa [boardName, List.contains_iff_mem] using hb)
    -- a reserved keyword is its own lower-casing
    exact isReserved_lower_fixed this
  · simp [hr]

theorem headIsBoard_normHead {h : KeyHead} (hok : headOk h = true) (hb : headIsBoard h = true) :
    headIsBoard (normHead h) = true := by
  obtain ⟨amp, key, src, hops, eidx, ekey⟩ := h
  cases key with
  | none => simp [headIsBoard] at hb
  | some p =>
    match p, hb with
    | [s], hb =>
      simp only [headIsBoard] at hb
      simp only [headOk, pathOk, List.all_cons, List.all_nil, Bool.and_true, Bool.and_eq_true] at hok
      simp only [normHead, headIsBoard, Option.map_some, normPath, List.map_cons, List.map_nil]
      rw [normStr_val_of_board hok.1.1.1.1 hb]; exact hb
    | [], hb => simp [headIsBoard] at hb
    | _ :: _ :: _, hb => simp [headIsBoard] at hb

end D2V.Fmt

namespace D2V.Fmt
open D2V.Gen

/-! ### no line break in the text of a flat (one-line) node -/

@[simp] theorem hasNL_nil : hasNL [] = false := rfl
@[simp] theorem hasNL_append (a b : Text) : hasNL (a ++ b) = (hasNL a || hasNL b) := by simp [hasNL, List.any_append]
@[simp] theorem hasNL_cons (c : Char) (t : Text) : hasNL (c :: t) = (c == '\n' || hasNL t) := by simp [hasNL]

theorem escSq_noNL : ∀ t : Text, hasNL t = false → hasNL (escSq t) = false
  | [], _ => rfl
  | c :: cs, h => by
    simp only [hasNL_cons, Bool.or_eq_false_iff] at h
    have ih := escSq_noNL cs h.2
    unfold escSq
    split <;> simp [ih, h.1]

theorem fmtStr_noNL (k : Bool) {s : Str} (h : strOk s = true) : hasNL (fmtStr k s) = false := by
  obtain ⟨q, raw, val⟩ := s
  simp only [strOk, Bool.and_eq_true, Bool.not_eq_true'] at h
  cases q <;> simp only [fmtStr]
  · split
    · exact lowerKw_noNL h.1.1
    · exact h.1.1
  · simp [h.1.1]
  · simp [escSq_noNL _ h.1.2]

theorem fmtPath_noNL (k : Bool) : ∀ p : Path, pathOk p = true → hasNL (fmtPath k p) = false
  | [], _ => rfl
  | [s], h => by
    simp only [pathOk, List.all_cons, List.all_nil, Bool.and_true] at h
    simpa [fmtPath] using fmtStr_noNL k h
  | s :: t :: r, h => by
    simp only [pathOk, List.all_cons, Bool.and_eq_true] at h
    have ih := fmtPath_noNL k (t :: r) (by simp [pathOk, h.2])
    simp [fmtPath, fmtStr_noNL k h.1, ih]

theorem fmtScalar_noNL {s : Scalar} (h : scalarOk s = true) : hasNL (fmtScalar s) = false := by
  cases s with
  | null => decide
  | susp b => cases b <;> decide
  | bool b => cases b <;> decide
  | num raw => simpa [scalarOk, fmtScalar] using h
  | str s => exact fmtStr_noNL false h

theorem spreadDots_noNL (sp : Bool) : hasNL (spreadDots sp) = false := by cases sp <;> decide

theorem fmtSub_noNL {sp : Bool} {p : Path} (h : pathOk p = true) : hasNL (fmtSub sp p) = false := by
  simp [fmtSub, spreadDots_noNL, fmtPath_noNL false p h]

theorem fmtImp_noNL {sp : Bool} {p : Path} (h : pathOk (impPath p) = true) : hasNL (fmtImp sp p) = false := by
  simp [fmtImp, spreadDots_noNL, fmtPath_noNL false _ h]

theorem fmtArrowDst_noNL {x : Hop} (h : (!hasNL x.sa && !hasNL x.da && pathOk x.dst) = true) :
    hasNL (fmtArrowDst x) = false := by
  obtain ⟨sa, da, dst⟩ := x
  simp only [Bool.and_eq_true, Bool.not_eq_true'] at h
  simp only [fmtArrowDst, hasNL_append, hasNL_cons, fmtPath_noNL true dst h.2]
  split <;> split <;> simp [h.1.1, h.1.2] <;> (split <;> simp [h.1.2])

theorem fmtHops_noNL : ∀ l : List Hop, l.all (fun x => !hasNL x.sa && !hasNL x.da && pathOk x.dst) = true →
    hasNL (fmtHops l) = false
  | [], _ => rfl
  | [x], h => by
    simp only [List.all_cons, List.all_nil, Bool.and_true] at h
    simpa [fmtHops] using fmtArrowDst_noNL h
  | x :: y :: r, h => by
    simp only [List.all_cons, Bool.and_eq_true] at h
    have ih := fmtHops_noNL (y :: r) (by simp [List.all_cons, h.2])
    have hx := fmtArrowDst_noNL (x := x) (by simpa using h.1)
    simp [fmtHops, hx, ih]

theorem fmtEIdx_noNL {e : EIdx} (h : (match e with | .int ds => !hasNL ds | _ => true) = true) : hasNL (fmtEIdx e) = false := by
  cases e with
  | none => rfl
  | glob => decide
  | int ds => simpa [fmtEIdx] using h

theorem amp_noNL (amp : Nat) : hasNL (if amp = 1 then ['&'] else if amp = 2 then ['!', '&'] else []) = false := by
  split
  · decide
  · split <;> decide

theorem fmtHead_noNL {h : KeyHead} (hok : headOk h = true) : hasNL (fmtHead h) = false := by
  obtain ⟨amp, key, src, hops, eidx, ekey⟩ := h
  simp only [headOk, Bool.and_eq_true] at hok
  obtain ⟨⟨⟨⟨hk, hs⟩, hh⟩, hi⟩, he⟩ := hok
  have h3 := fmtEIdx_noNL hi
  have h5 := fmtHops_noNL hops hh
  have h0 := amp_noNL amp
  cases key <;> cases src <;> cases ekey <;>
    simp only [fmtHead, optPath, hasNL_append, hasNL_nil, hasNL_cons, h0, h3, h5, Bool.false_or, Bool.or_false] <;>
    (split <;> try rfl) <;>
    simp_all [fmtPath_noNL] <;> (repeat' split) <;> simp

end D2V.Fmt

namespace D2V.Fmt

theorem primTxt_noNL {p : Option Scalar} (h : (match p with | some s => scalarOk s | none => true) = true) :
    hasNL (primTxt p) = false := by
  cases p with
  | none => rfl
  | some s => simp [primTxt, fmtScalar_noNL h]

theorem fmtBoards_noBoards : ∀ (l : List N) (ind : Nat) (more first : Bool),
    l.all (fun n => !isBoard n) = true → fmtBoards ind more first l = []
  | [], _, _, _, _ => by simp [fmtBoards]
  | x :: xs, ind, more, first, h => by
    simp only [List.all_cons, Bool.and_eq_true, Bool.not_eq_true'] at h
    have hk : isKeptBoard x = false := by
      cases hx : isKeptBoard x
      · rfl
      · have := isKeptBoard_isBoard hx; simp [h.1] at this
    simp [fmtBoards, hk, fmtBoards_noBoards xs ind more first (by simpa using h.2)]

mutual
  theorem flat_noNL : ∀ (n : N) (ind : Nat), stable n = true → flat n = true → hasNL (fmtV ind n) = false
    | .absent, _, _, _ => by simp [fmtV]
    | .scalar s, ind, hs, _ => by
      simp only [stable] at hs
      simpa [fmtV] using fmtScalar_noNL hs
    | .sub sp p, ind, hs, _ => by
      simp only [stable] at hs
      simpa [fmtV] using fmtSub_noNL hs
    | .imp sp p, ind, hs, _ => by
      simp only [stable, Bool.and_eq_true] at hs
      simpa [fmtV] using fmtImp_noNL hs.2
    | .arr one items, ind, hs, hf => by
      simp only [stable, flat, Bool.and_eq_true] at hs hf
      have := flatItems_noNL items ind true hs.2 hf.2
      simp [fmtV, hf.1, this]
    | .map one nodes, ind, hs, hf => by
      simp only [stable, flat, Bool.and_eq_true] at hs hf
      have h1 := flatNodes_noNL nodes ind 0 true hs.2 hf.2 hf.1.2
      have h2 := fun more => fmtBoards_noBoards nodes ind more true hf.1.2
      simp [fmtV, hf.1.1, h1, h2]
    | .item b v, ind, hs, hf => by
      simp only [stable, flat] at hs hf
      simpa [fmtV] using flat_noNL v ind hs hf
    | .mnode b l v, ind, hs, hf => by
      simp only [stable, flat] at hs hf
      simpa [fmtV] using flat_noNL v ind hs hf
    | .key h p v, ind, hs, hf => by
      simp only [stable, flat, Bool.and_eq_true] at hs hf
      have ih := flat_noNL v ind hs.2 hf
      rw [fmtV_key]
      simp only [hasNL_append, fmtHead_noNL hs.1.1, primTxt_noNL hs.1.2, Bool.false_or]
      split
      · rfl
      · cases p <;> simp [ih]

  theorem flatItems_noNL : ∀ (l : List N) (ind : Nat) (first : Bool), stableL l = true → flatL l = true →
      hasNL (fmtItemsOne ind first l) = false
    | [], _, _, _, _ => by simp [fmtItemsOne]
    | x :: xs, ind, first, hs, hf => by
      simp only [stableL, flatL, Bool.and_eq_true] at hs hf
      have h1 := flat_noNL x ind hs.1 hf.1
      have h2 := flatItems_noNL xs ind false hs.2 hf.2
      cases first <;> simp [fmtItemsOne, h1, h2]

  theorem flatNodes_noNL : ∀ (l : List N) (ind i : Nat) (prev : Bool), stableL l = true → flatL l = true →
      l.all (fun n => !isBoard n) = true → hasNL (fmtNodes false true ind i prev l) = false
    | [], _, _, _, _, _, _ => by simp [fmtNodes]
    | x :: xs, ind, i, prev, hs, hf, hb => by
      simp only [stableL, flatL, Bool.and_eq_true, List.all_cons, Bool.not_eq_true'] at hs hf hb
      have h1 := flat_noNL x ind hs.1 hf.1
      have h2 := flatNodes_noNL xs ind (i + 1) false hs.2 hf.2 (by simpa using hb.2)
      simp only [fmtNodes, hb.1, Bool.false_eq_true, if_false, if_true, hasNL_append, h1, h2, Bool.or_false]
      split <;> simp
end

end D2V.Fmt

namespace D2V.Fmt

/-! ### kept boards stay kept boards, non-boards stay non-boards -/

theorem stable_mnode_key {b l : Bool} {h : KeyHead} {p : Option Scalar} {v : N}
    (hs : stable (.mnode b l (.key h p v)) = true) : headOk h = true ∧ stable v = true := by
  simp only [stable, Bool.and_eq_true] at hs
  exact ⟨hs.1.1, hs.2⟩

theorem isBoardAfter_of_isBoard {x : N} (hs : stable x = true) (hb : isBoard x = true) : isBoardAfter x = true := by
  cases x with
  | mnode b l v =>
    cases v with
    | key h p val =>
      simp only [isBoard_mnode] at hb
      exact headIsBoard_normHead (stable_mnode_key hs).1 hb
    | _ => simp [isBoard_mnode] at hb
  | _ => simp [isBoard] at hb

theorem normNodes_cons_nonboard {one : Bool} {ind : Nat} {first : Bool} {x : N} {xs : List N} (h : isBoard x = false) :
    normNodes one ind first (x :: xs) = setBlank (!one && !first && blankOf x) (normL ind x) :: normNodes one ind false xs := by
  simp [normNodes, h]

theorem normNodes_cons_board {one : Bool} {ind : Nat} {first : Bool} {x : N} {xs : List N} (h : isBoard x = true) :
    normNodes one ind first (x :: xs) = normNodes one ind first xs := by
  simp [normNodes, h]

theorem normBoards_cons_kept {ind : Nat} {more first printed : Bool} {x : N} {xs : List N} (h : isKeptBoard x = true) :
    normBoards ind more first printed (x :: xs) =
      setBlank (!l0Of x && (!first || more) && printed) (normL ind x) :: normBoards ind more false true xs := by
  simp [normBoards, h]

theorem normBoards_cons_skip {ind : Nat} {more first printed : Bool} {x : N} {xs : List N} (h : isKeptBoard x = false) :
    normBoards ind more first printed (x :: xs) = normBoards ind more first printed xs := by
  simp [normBoards, h]

theorem normL_map (ind : Nat) (one : Bool) (nodes : List N) :
    normL ind (.map one nodes) =
      .map (!hasNL (fmtV ind (.map one nodes)))
        (normNodes one (if one then ind else ind + 1) true nodes ++
          normBoards (if one then ind else ind + 1) (decide (nodes.length > (nodes.filter isKeptBoard).length)) true
            (!(nodes.filter (fun n => !isBoard n)).isEmpty) nodes) := by
  simp only [normL]

theorem cons_of_append_right {α} (a : List α) {b : List α} {z : α} {zs : List α} (h : b = z :: zs) :
    ∃ z' zs', a ++ b = z' :: zs' := by
  cases a with
  | nil => exact ⟨z, zs, by simpa using h⟩
  | cons x xs => exact ⟨x, xs ++ b, rfl⟩

/-- the node list of a re-parsed non-empty stable map is non-empty -/
theorem normL_map_cons {one : Bool} {y : N} {ys : List N} (ind : Nat)
    (hk : (y :: ys).all (fun n => !isBoard n || isKeptBoard n) = true) :
    ∃ o z zs, normL ind (.map one (y :: ys)) = .map o (z :: zs) := by
  simp only [List.all_cons, Bool.and_eq_true, Bool.or_eq_true, Bool.not_eq_true'] at hk
  rw [normL_map]
  cases hb : isBoard y
  · rw [normNodes_cons_nonboard hb, List.cons_append]
    exact ⟨_, _, _, rfl⟩
  · have hkept : isKeptBoard y = true := by
      rcases hk.1 with h | h
      · simp [hb] at h
      · exact h
    rw [normBoards_cons_kept hkept]
    obtain ⟨z, zs, hz⟩ := cons_of_append_right (normNodes one (if one then ind else ind + 1) true (y :: ys)) rfl
    rw [hz]
    exact ⟨_, _, _, rfl⟩

theorem stable_map_kept {one : Bool} {nodes : List N} (hs : stable (.map one nodes) = true) :
    nodes.all (fun n => !isBoard n || isKeptBoard n) = true := by
  simp only [stable, Bool.and_eq_true] at hs
  exact hs.1.1.1.2

theorem dropsVal_normL (ind : Nat) {v : N} (hs : stable v = true) : dropsVal (normL ind v) = dropsVal v := by
  cases v with
  | map one nodes =>
    cases nodes with
    | nil => simp [normL_map, normNodes, normBoards, dropsVal]
    | cons y ys =>
      obtain ⟨o, z, zs, h⟩ := normL_map_cons (one := one) ind (stable_map_kept hs)
      rw [h]; rfl
  | key h p val => simp only [normL_key, mkKey]; split <;> rfl
  | _ => simp [normL, dropsVal]

theorem isKeptBoard_normL (ind : Nat) {x : N} (hs : stable x = true) (hk : isKeptBoard x = true) :
    isKeptBoard (normL ind x) = true := by
  cases x with
  | mnode b l v =>
    cases v with
    | key h p val =>
      cases val with
      | map one nodes =>
        cases nodes with
        | nil => simp [isKeptBoard_mnode] at hk
        | cons y ys =>
          simp only [isKeptBoard_mnode] at hk
          have hsk := stable_mnode_key hs
          obtain ⟨o, z, zs, hz⟩ := normL_map_cons (one := one) ind (stable_map_kept hsk.2)
          have hb := headIsBoard_normHead hsk.1 hk
          simp only [normL_mnode, normL_key, dropsVal, Bool.false_eq_true, if_false, hz]
          cases p <;> simp [mkKey, isKeptBoard_mnode, hb]
      | _ => simp [isKeptBoard_mnode] at hk
    | _ => simp [isKeptBoard_mnode] at hk
  | _ => simp [isKeptBoard] at hk

end D2V.Fmt

namespace D2V.Fmt

/-! ### the re-parsed node list of a stable map has the same shape -/

theorem stableL_cons {x : N} {xs : List N} (h : stableL (x :: xs) = true) : stable x = true ∧ stableL xs = true := by
  simpa [stableL] using h

theorem isBoard_norm_nonboard (ind : Nat) (b : Bool) {x : N} (hb : isBoard x = false)
    (hc : (!isBoardAfter x || isBoard x) = true) : isBoard (setBlank b (normL ind x)) = false := by
  rw [isBoard_setBlank, isBoard_normL]
  simpa [hb] using hc

theorem isKept_norm_nonboard (ind : Nat) (b : Bool) {x : N} (hb : isBoard x = false)
    (hc : (!isBoardAfter x || isBoard x) = true) : isKeptBoard (setBlank b (normL ind x)) = false := by
  cases h : isKeptBoard (setBlank b (normL ind x))
  · rfl
  · have := isKeptBoard_isBoard h
    rw [isBoard_norm_nonboard ind b hb hc] at this
    exact absurd this (by simp)

theorem normNodes_length : ∀ (l : List N) (one : Bool) (ind : Nat) (first : Bool),
    (normNodes one ind first l).length = (l.filter (fun n => !isBoard n)).length
  | [], _, _, _ => by simp [normNodes]
  | x :: xs, one, ind, first => by
    cases hb : isBoard x
    · simp [normNodes_cons_nonboard hb, hb, normNodes_length xs one ind false]
    · simp [normNodes_cons_board hb, hb, normNodes_length xs one ind first]

theorem normBoards_length : ∀ (l : List N) (ind : Nat) (more first printed : Bool),
    (normBoards ind more first printed l).length = (l.filter isKeptBoard).length
  | [], _, _, _, _ => by simp [normBoards]
  | x :: xs, ind, more, first, printed => by
    cases hk : isKeptBoard x
    · simp [normBoards_cons_skip hk, hk, normBoards_length xs ind more first printed]
    · simp [normBoards_cons_kept hk, hk, normBoards_length xs ind more false true]

theorem normNodes_noKept : ∀ (l : List N) (one : Bool) (ind : Nat) (first : Bool),
    l.all (fun n => !isBoardAfter n || isBoard n) = true →
    (normNodes one ind first l).filter isKeptBoard = []
  | [], _, _, _, _ => by simp [normNodes]
  | x :: xs, one, ind, first, hc => by
    simp only [List.all_cons, Bool.and_eq_true] at hc
    cases hb : isBoard x
    · simp [normNodes_cons_nonboard hb, isKept_norm_nonboard ind _ hb hc.1, normNodes_noKept xs one ind false hc.2]
    · simp [normNodes_cons_board hb, normNodes_noKept xs one ind first hc.2]

theorem normBoards_allKept : ∀ (l : List N) (ind : Nat) (more first printed : Bool), stableL l = true →
    (normBoards ind more first printed l).filter isKeptBoard = normBoards ind more first printed l
  | [], _, _, _, _, _ => by simp [normBoards]
  | x :: xs, ind, more, first, printed, hs => by
    have hs' := stableL_cons hs
    cases hk : isKeptBoard x
    · simp [normBoards_cons_skip hk, normBoards_allKept xs ind more first printed hs'.2]
    · have := isKeptBoard_normL ind hs'.1 hk
      simp [normBoards_cons_kept hk, isKeptBoard_setBlank, this, normBoards_allKept xs ind more false true hs'.2]

theorem normBoards_allBoard (l : List N) (ind : Nat) (more first printed : Bool) (hs : stableL l = true) :
    (normBoards ind more first printed l).all isBoard = true := by
  rw [← normBoards_allKept l ind more first printed hs]
  simp only [List.all_eq_true, List.mem_filter]
  intro b hb
  exact isKeptBoard_isBoard hb.2

theorem split_length : ∀ (l : List N), l.all (fun n => !isBoard n || isKeptBoard n) = true →
    (l.filter (fun n => !isBoard n)).length + (l.filter isKeptBoard).length = l.length
  | [], _ => rfl
  | x :: xs, hk => by
    simp only [List.all_cons, Bool.and_eq_true, Bool.or_eq_true, Bool.not_eq_true'] at hk
    have ih := split_length xs (by simpa using hk.2)
    cases hb : isBoard x
    · have : isKeptBoard x = false := by
        cases h : isKeptBoard x
        · rfl
        · have := isKeptBoard_isBoard h; simp [hb] at this
      simp [hb, this]; omega
    · have : isKeptBoard x = true := by
        rcases hk.1 with h | h
        · simp [hb] at h
        · exact h
      simp [hb, this]; omega

/-- `len(m.Nodes) > len(boardNodes)` is the same for the re-parsed map -/
theorem more_preserved (l : List N) (one : Bool) (ind : Nat) (more p : Bool)
    (hk : l.all (fun n => !isBoard n || isKeptBoard n) = true)
    (hc : l.all (fun n => !isBoardAfter n || isBoard n) = true) (hs : stableL l = true) :
    let l' := normNodes one ind true l ++ normBoards ind more true p l
    decide (l'.length > (l'.filter isKeptBoard).length) = decide (l.length > (l.filter isKeptBoard).length) := by
  intro l'
  have h1 : l'.length = l.length := by
    simp only [l', List.length_append, normNodes_length, normBoards_length]
    exact split_length l hk
  have h2 : (l'.filter isKeptBoard).length = (l.filter isKeptBoard).length := by
    simp only [l', List.filter_append, normNodes_noKept l one ind true hc, List.nil_append,
      normBoards_allKept l ind more true p hs, normBoards_length]
  rw [h1, h2]

end D2V.Fmt

namespace D2V.Fmt

/-! ### the fixpoint theorem -/

theorem fmtNodes_allBoards : ∀ (l : List N) (file one : Bool) (ind i : Nat) (prev : Bool),
    l.all isBoard = true → fmtNodes file one ind i prev l = []
  | [], _, _, _, _, _, _ => by simp [fmtNodes]
  | x :: xs, file, one, ind, i, prev, h => by
    simp only [List.all_cons, Bool.and_eq_true] at h
    simp [fmtNodes, h.1, fmtNodes_allBoards xs file one ind (i + 1) false h.2]

theorem normNodes_allBoards : ∀ (l : List N) (one : Bool) (ind : Nat) (first : Bool),
    l.all isBoard = true → normNodes one ind first l = []
  | [], _, _, _, _ => by simp [normNodes]
  | x :: xs, one, ind, first, h => by
    simp only [List.all_cons, Bool.and_eq_true] at h
    simp [normNodes_cons_board h.1, normNodes_allBoards xs one ind first h.2]

theorem fmtBoards_skip_prefix : ∀ (a b : List N) (ind : Nat) (more first : Bool),
    a.filter isKeptBoard = [] → fmtBoards ind more first (a ++ b) = fmtBoards ind more first b
  | [], _, _, _, _, _ => by simp
  | x :: xs, b, ind, more, first, h => by
    have hx : isKeptBoard x = false := by
      cases hk : isKeptBoard x
      · rfl
      · simp [List.filter_cons, hk] at h
    have hxs : xs.filter isKeptBoard = [] := by simpa [List.filter_cons, hx] using h
    simp [fmtBoards, hx, fmtBoards_skip_prefix xs b ind more first hxs]

theorem l0Of_normL (ind : Nat) (x : N) : l0Of (normL ind x) = l0Of x := by
  cases x with
  | key h p v => simp only [normL_key, mkKey]; split <;> rfl
  | map one nodes => simp [normL_map, l0Of]
  | _ => simp [normL, l0Of]

theorem blankOf_norm (ind : Nat) (c : Bool) (x : N) :
    blankOf (setBlank (c && blankOf x) (normL ind x)) = (c && blankOf x) := by
  cases x with
  | key h p v => simp only [normL_key, mkKey]; split <;> simp [setBlank, blankOf]
  | map one nodes => simp [normL_map, setBlank, blankOf]
  | _ => simp [normL, setBlank, blankOf]

theorem primTxt_norm (p : Option Scalar) : primTxt (p.map normScalar) = primTxt p := by
  cases p <;> simp [primTxt, fmtScalar_normScalar]

theorem normL_arr (ind : Nat) (one : Bool) (items : List N) :
    normL ind (.arr one items) =
      .arr (!hasNL (fmtV ind (.arr one items))) (normItems (if one then ind else ind + 1) one true items) := by
  simp only [normL]

theorem hasNL_nl (ind : Nat) : hasNL (nl ind) = true := by simp [nl]

mutual
  theorem fix_V : ∀ (n : N) (ind : Nat), stable n = true → fmtV ind (normL ind n) = fmtV ind n
    | .absent, _, _ => by simp [normL]
    | .scalar s, _, _ => by simp [normL, fmtV, fmtScalar_normScalar]
    | .sub sp p, _, _ => by simp [normL, fmtV, fmtSub_norm]
    | .imp sp p, _, _ => by simp [normL, fmtV, fmtImp_norm]
    | .arr one items, ind, hs => by
      have hs0 := hs
      simp only [stable, Bool.and_eq_true, Bool.or_eq_true, Bool.not_eq_true'] at hs
      cases one with
      | true =>
        have hf : flatL items = true := by simpa using hs.1
        have hnl := flat_noNL (.arr true items) ind hs0 (by simp [flat, hf])
        rw [normL_arr, hnl]
        simp only [Bool.not_false, if_true, fmtV]
        rw [fix_itemsOne items ind true hs.2]
      | false =>
        have hnl : hasNL (fmtV ind (.arr false items)) = true := by simp [fmtV, hasNL_nl]
        rw [normL_arr, hnl]
        simp only [Bool.not_true, Bool.false_eq_true, if_false, fmtV]
        rw [fix_itemsMulti items (ind + 1) true hs.2]
    | .map one nodes, ind, hs => by
      have hs0 := hs
      simp only [stable, Bool.and_eq_true] at hs
      obtain ⟨⟨⟨⟨h1, hk⟩, hc⟩, hsuf⟩, hsl⟩ := hs
      have hbs := normBoards_allBoard nodes (if one then ind else ind + 1)
        (decide (nodes.length > (nodes.filter isKeptBoard).length)) true
        (!(nodes.filter (fun n => !isBoard n)).isEmpty) hsl
      have hmore := more_preserved nodes one (if one then ind else ind + 1)
        (decide (nodes.length > (nodes.filter isKeptBoard).length))
        (!(nodes.filter (fun n => !isBoard n)).isEmpty) hk hc hsl
      cases one with
      | true =>
        have h1' : nodes.all (fun n => !isBoard n) = true ∧ flatL nodes = true := by simpa using h1
        have hnl := flat_noNL (.map true nodes) ind hs0 (by simp [flat, h1'.1, h1'.2])
        simp only [normL_map, hnl, Bool.not_false, if_true] at hbs hmore ⊢
        simp only [fmtV, if_true]
        rw [hmore, fix_nodes nodes false true ind 0 true _ hsl hk hc hsuf hbs,
          fmtBoards_skip_prefix _ _ _ _ _ (normNodes_noKept nodes true ind true hc),
          fix_boards nodes ind _ true _ hsl]
      | false =>
        have hnl : hasNL (fmtV ind (.map false nodes)) = true := by simp [fmtV, hasNL_nl]
        simp only [normL_map, hnl, Bool.not_true, Bool.false_eq_true, if_false] at hbs hmore ⊢
        simp only [fmtV, Bool.false_eq_true, if_false]
        rw [hmore, fix_nodes nodes false false (ind + 1) 0 true _ hsl hk hc hsuf hbs,
          fmtBoards_skip_prefix _ _ _ _ _ (normNodes_noKept nodes false (ind + 1) true hc),
          fix_boards nodes (ind + 1) _ true _ hsl]
    | .item b v, ind, hs => by
      simp only [stable] at hs
      simp [normL, fmtV, fix_V v ind hs]
    | .mnode b l v, ind, hs => by
      simp only [stable] at hs
      simp [normL, fmtV, fix_V v ind hs]
    | .key h p v, ind, hs => by
      simp only [stable, Bool.and_eq_true] at hs
      have ih := fix_V v ind hs.2
      rw [normL_key, fmtV_key]
      cases hd : dropsVal v
      · have hd' : dropsVal (normL ind v) = false := by rw [dropsVal_normL ind hs.2]; exact hd
        have hne : normL ind v ≠ .absent := by
          intro h; rw [h] at hd'; simp [dropsVal] at hd'
        have hmk : mkKey (normHead h) (p.map normScalar) (normL ind v) = .key (normHead h) (p.map normScalar) (normL ind v) := by
          unfold mkKey
          split
          · next heq => exact absurd heq (by simpa using hne)
          · rfl
        simp only [Bool.false_eq_true, if_false, hmk, fmtV_key, hd', fmtHead_norm, primTxt_norm, ih, Option.isSome_map]
      · simp only [if_true]
        cases p with
        | none => simp [mkKey, fmtV_key, dropsVal, fmtHead_norm, primTxt]
        | some s => simp [mkKey, fmtV_key, dropsVal, fmtHead_norm, primTxt, fmtV, fmtScalar_normScalar]

  theorem fix_itemsOne : ∀ (l : List N) (ind : Nat) (first : Bool), stableL l = true →
      fmtItemsOne ind first (normItems ind true first l) = fmtItemsOne ind first l
    | [], _, _, _ => by simp [normItems]
    | x :: xs, ind, first, hs => by
      have hs' := stableL_cons hs
      simp [normItems, fmtItemsOne, fmtV_setBlank, fix_V x ind hs'.1, fix_itemsOne xs ind false hs'.2]

  theorem fix_itemsMulti : ∀ (l : List N) (ind : Nat) (first : Bool), stableL l = true →
      fmtItemsMulti ind first (normItems ind false first l) = fmtItemsMulti ind first l
    | [], _, _, _ => by simp [normItems]
    | x :: xs, ind, first, hs => by
      have hs' := stableL_cons hs
      have hb := blankOf_norm ind (!first) x
      simp only [normItems, Bool.not_false, Bool.true_and, fmtItemsMulti, fmtV_setBlank, fix_V x ind hs'.1,
        fix_itemsMulti xs ind false hs'.2, hb]
      cases first <;> simp

  theorem fix_nodes : ∀ (l : List N) (file one : Bool) (ind i : Nat) (first : Bool) (bs : List N),
      stableL l = true → l.all (fun n => !isBoard n || isKeptBoard n) = true →
      l.all (fun n => !isBoardAfter n || isBoard n) = true → boardsSuffix l = true → bs.all isBoard = true →
      fmtNodes file one ind i first (normNodes one ind first l ++ bs) = fmtNodes file one ind i first l
    | [], file, one, ind, i, first, bs, _, _, _, _, hbs => by
      simp [normNodes, fmtNodes, fmtNodes_allBoards bs file one ind i first hbs]
    | x :: xs, file, one, ind, i, first, bs, hs, hk, hc, hsuf, hbs => by
      have hs' := stableL_cons hs
      simp only [List.all_cons, Bool.and_eq_true] at hk hc
      cases hb : isBoard x
      · have hsuf' : boardsSuffix xs = true := by simpa [boardsSuffix, hb] using hsuf
        have hx' := isBoard_norm_nonboard ind (!one && !first && blankOf x) hb hc.1
        have hbl := blankOf_norm ind (!one && !first) x
        rw [normNodes_cons_nonboard hb, List.cons_append]
        simp only [fmtNodes, hx', hb, Bool.false_eq_true, if_false, fmtV_setBlank, fix_V x ind hs'.1,
          fix_nodes xs file one ind (i + 1) false bs hs'.2 hk.2 hc.2 hsuf' hbs, hbl]
        cases one <;> cases first <;> simp
      · have hall : xs.all isBoard = true := by simpa [boardsSuffix, hb] using hsuf
        rw [normNodes_cons_board hb, normNodes_allBoards xs one ind first hall, List.nil_append,
          fmtNodes_allBoards bs file one ind i first hbs,
          fmtNodes_allBoards (x :: xs) file one ind i first (by simp [hb, hall])]

  theorem fix_boards : ∀ (l : List N) (ind : Nat) (more first printed : Bool), stableL l = true →
      fmtBoards ind more first (normBoards ind more first printed l) = fmtBoards ind more first l
    | [], _, _, _, _, _ => by simp [normBoards]
    | x :: xs, ind, more, first, printed, hs => by
      have hs' := stableL_cons hs
      cases hk : isKeptBoard x
      · rw [normBoards_cons_skip hk]
        simp [fmtBoards, hk, fix_boards xs ind more first printed hs'.2]
      · have hk' : isKeptBoard (setBlank (!l0Of x && (!first || more) && printed) (normL ind x)) = true := by
          rw [isKeptBoard_setBlank]; exact isKeptBoard_normL ind hs'.1 hk
        rw [normBoards_cons_kept hk]
        simp only [fmtBoards, hk', hk, if_true, l0Of_setBlank, l0Of_normL, fmtV_setBlank, fix_V x ind hs'.1,
          fix_boards xs ind more false true hs'.2]
end

end D2V.Fmt

namespace D2V.Fmt

theorem normFile_map (one : Bool) (nodes : List N) :
    normFile (.map one nodes) =
      .map (!hasNL (fmtFile (.map one nodes)))
        (normNodes one 0 true nodes ++
          normBoards 0 (decide (nodes.length > (nodes.filter isKeptBoard).length)) true
            (!(nodes.filter (fun n => !isBoard n)).isEmpty) nodes) := by
  simp only [normFile]

theorem fmtFile_map (one : Bool) (nodes : List N) :
    fmtFile (.map one nodes) =
      fmtNodes true one 0 0 true nodes
        ++ fmtBoards 0 (decide (nodes.length > (nodes.filter isKeptBoard).length)) true nodes
        ++ (if nodes.isEmpty then [] else ['\n']) := by
  simp only [fmtFile]

/-- Printing the re-parsed file reproduces the printed text, on the region `stableFile`. -/
theorem fix_file (a : N) (hs : stableFile a = true) : fmtFile (normFile a) = fmtFile a := by
  cases a with
  | map one nodes =>
    simp only [stableFile, Bool.and_eq_true] at hs
    obtain ⟨⟨hst, hone⟩, _⟩ := hs
    have hst0 := hst
    simp only [stable, Bool.and_eq_true] at hst
    obtain ⟨⟨⟨⟨_, hk⟩, hc⟩, hsuf⟩, hsl⟩ := hst
    cases nodes with
    | nil => simp [normFile_map, fmtFile_map, normNodes, normBoards, fmtNodes, fmtBoards]
    | cons y ys =>
      have hnl : hasNL (fmtFile (.map one (y :: ys))) = true := by simp [fmtFile_map]
      have hbs := normBoards_allBoard (y :: ys) 0
        (decide ((y :: ys).length > ((y :: ys).filter isKeptBoard).length)) true
        (!((y :: ys).filter (fun n => !isBoard n)).isEmpty) hsl
      have hmore := more_preserved (y :: ys) one 0
        (decide ((y :: ys).length > ((y :: ys).filter isKeptBoard).length))
        (!((y :: ys).filter (fun n => !isBoard n)).isEmpty) hk hc hsl
      have hlen : ∀ l' : List N, l'.length = (y :: ys).length → l'.isEmpty = false := by
        intro l' h; cases l' with
        | nil => simp at h
        | cons _ _ => rfl
      have hlen' : (normNodes one 0 true (y :: ys) ++ normBoards 0
          (decide ((y :: ys).length > ((y :: ys).filter isKeptBoard).length)) true
          (!((y :: ys).filter (fun n => !isBoard n)).isEmpty) (y :: ys)).isEmpty = false := by
        apply hlen
        simp only [List.length_append, normNodes_length, normBoards_length]
        exact split_length (y :: ys) hk
      rw [normFile_map, hnl]
      simp only [Bool.not_true]
      rw [fmtFile_map, fmtFile_map, hmore, hlen']
      simp only [List.isEmpty_cons]
      cases one with
      | false =>
        rw [fix_nodes (y :: ys) true false 0 0 true _ hsl hk hc hsuf hbs,
          fmtBoards_skip_prefix _ _ _ _ _ (normNodes_noKept (y :: ys) false 0 true hc),
          fix_boards (y :: ys) 0 _ true _ hsl]
      | true =>
        -- a one-line file holds a single non-board node: both layouts print it bare
        have h1 : ((y :: ys).length ≤ 1 ∧ flatL (y :: ys) = true) ∧ (y :: ys).all (fun n => !isBoard n) = true := by
          simpa using hone
        have hys : ys = [] := by
          cases ys with
          | nil => rfl
          | cons _ _ => simp at h1
        subst hys
        have hb : isBoard y = false := by simpa using h1.2
        have hkb : isKeptBoard y = false := by
          cases h : isKeptBoard y
          · rfl
          · have := isKeptBoard_isBoard h; simp [hb] at this
        have hsy := (stableL_cons hsl).1
        have hc1 : (!isBoardAfter y || isBoard y) = true := by simpa using hc
        have hx' := isBoard_norm_nonboard 0 false hb hc1
        have hk' := isKept_norm_nonboard 0 false hb hc1
        simp [normNodes_cons_nonboard hb, normNodes, normBoards_cons_skip hkb, normBoards, fmtNodes, fmtBoards,
          hx', hk', hb, hkb, fmtV_setBlank, fix_V y 0 hsy]
  | _ => simp [stableFile] at hs

end D2V.Fmt
