import D2V.Proofs.QuoteRound
import D2V.Model.Ids
/-!
  Helper lemmas, part 5 (C06): `parseKey` reads a dot-joined chain of formatted names back, segment by segment.
-/
set_option linter.unusedSimpArgs false
namespace D2V.Quote
open D2V.Gen.Quote

/-- a name survives as a key segment: at most 518 bytes, and the two case-folding spots are harmless for it
    (either the name is not a case variant of null / a reserved keyword, or the code under test handles it) -/
def NameOk (s : Str) : Prop :=
  utf8LenStr s ≤ maxKeyLen ∧
  (equalFold s "null" = true → s = "null".toList ∨ uqFoldLiteral = none) ∧
  (rawString s true = .unq → kwCase s = false)

theorem keyLook_go' {text : Str} (h : GoodHead text) : keyLook text = .go := by
  obtain ⟨c, X, rfl, h1, h2, h3⟩ := h
  simp [keyLook, h1, h2, h3]

theorem goodHead_append {t : Str} (h : GoodHead t) (r : Str) : GoodHead (t ++ r) := by
  obtain ⟨c, X, rfl, h1, h2, h3⟩ := h
  exact ⟨c, X ++ r, rfl, h1, h2, h3⟩

theorem goodHead_length {t : Str} (h : GoodHead t) : 1 ≤ t.length := by
  obtain ⟨c, X, rfl, _⟩ := h
  simp

theorem afterSeg_dot (r : Str) : afterSeg ('.' :: r) = some r := by
  have : isSpace '.' = false := by decide
  simp [afterSeg, this]

/-- one iteration of the `for` loop of `parseKey` -/
theorem parseKeyLoop_step {e : Bool} {inp rest v : Str} {k : Quoting} (n : Nat) (acc : List Seg)
    (hgo : keyLook inp = .go) (hps : parseString true e inp = .seg k v rest)
    (hat : k = .unq → v.head? ≠ some '@') :
    parseKeyLoop e (n + 1) inp acc =
      match afterSeg rest with
      | none => finishKey (acc ++ [⟨k, v⟩]) rest
      | some rest' => parseKeyLoop e n rest' (acc ++ [⟨k, v⟩]) := by
  have hno : (k == .unq && v.head? == some '@') = false := by
    cases hk : (k == Quoting.unq) with
    | false => simp
    | true =>
      have := hat (by simpa using hk)
      simp [this]
  rw [parseKeyLoop]
  simp only [hgo, hps, hno, Bool.false_eq_true, if_false]
  rfl

theorem finishKey_ok {path : List Seg} (hne : path ≠ []) (hlen : ∀ g ∈ path, utf8LenStr g.val ≤ maxKeyLen) :
    finishKey path [] = .ok path [] := by
  unfold finishKey
  have h1 : path.isEmpty = false := by
    cases path with
    | nil => exact absurd rfl hne
    | cons _ _ => rfl
  have h2 : path.any (fun g => decide (utf8LenStr g.val > maxKeyLen)) = false := by
    apply List.any_eq_false.mpr
    intro g hg
    have := hlen g hg
    simp; omega
  simp [h1, h2]

/-- the chain of formatted names, read back by the loop of `parseKey` with enough fuel -/
theorem parseKeyLoop_join : ∀ (names : List Str), names ≠ [] → (∀ n ∈ names, NameOk n) →
    ∀ (fuel : Nat), names.length ≤ fuel → ∀ (acc : List Seg), (∀ g ∈ acc, utf8LenStr g.val ≤ maxKeyLen) →
    ∃ segs : List Seg, segs.map (·.val) = names ∧
      parseKeyLoop false fuel (joinDot (names.map objID)) acc = .ok (acc ++ segs) []
  | [], hne, _, _, _, _, _ => absurd rfl hne
  | [a], _, hok, fuel, hf, acc, hacc => by
    obtain ⟨hlen, hnull, hkw⟩ := hok a (by simp)
    obtain ⟨k, hps, hat, hgood⟩ := parseString_fmtKey (e := false) (rest := []) (Or.inl rfl) hnull hkw
    rw [List.append_nil] at hps
    cases fuel with
    | zero => simp at hf
    | succ n =>
      refine ⟨[⟨k, a⟩], rfl, ?_⟩
      simp only [List.map, joinDot, objID]
      rw [parseKeyLoop_step n acc (keyLook_go' hgood) hps hat]
      simp only [afterSeg]
      apply finishKey_ok (by simp)
      intro g hg
      rcases List.mem_append.mp hg with h | h
      · exact hacc g h
      · simp at h; subst h; exact hlen
  | a :: b :: rest, _, hok, fuel, hf, acc, hacc => by
    obtain ⟨hlen, hnull, hkw⟩ := hok a (by simp)
    cases fuel with
    | zero => simp at hf
    | succ n =>
      have hf' : (b :: rest).length ≤ n := by simp at hf ⊢; omega
      let R := joinDot ((b :: rest).map objID)
      obtain ⟨k, hps, hat, hgood⟩ := parseString_fmtKey (e := false) (rest := '.' :: R) (Or.inr ⟨R, rfl⟩) hnull hkw
      have hacc' : ∀ g ∈ acc ++ [⟨k, a⟩], utf8LenStr g.val ≤ maxKeyLen := by
        intro g hg
        rcases List.mem_append.mp hg with h | h
        · exact hacc g h
        · simp at h; subst h; exact hlen
      obtain ⟨segs, hsv, hpl⟩ := parseKeyLoop_join (b :: rest) (by simp) (fun x hx => hok x (by simp [hx])) n hf'
        (acc ++ [⟨k, a⟩]) hacc'
      refine ⟨⟨k, a⟩ :: segs, by simp [hsv], ?_⟩
      have htext : joinDot ((a :: b :: rest).map objID) = fmtKey a ++ '.' :: R := by
        simp [joinDot, objID, R]
      rw [htext, parseKeyLoop_step n acc (keyLook_go' (goodHead_append hgood _)) hps hat, afterSeg_dot]
      simp only
      rw [hpl]
      simp

theorem joinDot_length : ∀ (ts : List Str), (∀ t ∈ ts, 1 ≤ t.length) → ts.length ≤ (joinDot ts).length + 1
  | [], _ => by simp
  | [a], h => by have := h a (by simp); simp [joinDot]
  | a :: b :: rest, h => by
    have ih := joinDot_length (b :: rest) (fun t ht => h t (by simp [ht]))
    simp [joinDot] at ih ⊢
    omega

theorem objID_length {s : Str} (h : NameOk s) : 1 ≤ (objID s).length := by
  obtain ⟨_, hnull, hkw⟩ := h
  obtain ⟨_, _, _, hgood⟩ := parseString_fmtKey (e := false) (rest := []) (Or.inl rfl) hnull hkw
  exact goodHead_length hgood

end D2V.Quote
