/-
  C04 helper development (agent `format`): moving the board blocks of a declaration list last preserves the
  evaluation (`FmtSem.evalDecls`) on the region `okL`.
-/
import D2V.Model.FmtSem

set_option linter.unusedSimpArgs false
set_option linter.unusedVariables false

namespace D2V.FmtSem

/-! ### inside objects board blocks are ignored, so any rearrangement of them is harmless -/

theorem isKept_isBoards {d : Decl} (h : isKept d = true) : isBoards d = true := by
  cases d with
  | boards k bs => rfl
  | _ => simp [isKept] at h

theorem objsDecl_boards (pre : OPath) (o : List OPath) {d : Decl} (h : isBoards d = true) : objsDecl pre o d = o := by
  cases d with
  | boards k bs => simp [objsDecl]
  | _ => simp [isBoards] at h

theorem blDecl_isBoards (d : Decl) : isBoards (blDecl d) = isBoards d := by
  cases d <;> simp [blDecl, isBoards]

theorem objsDecls_append (pre : OPath) : ∀ (a b : List Decl) (o : List OPath),
    objsDecls pre o (a ++ b) = objsDecls pre (objsDecls pre o a) b
  | [], _, _ => by simp [objsDecls]
  | x :: xs, b, o => by simp [objsDecls, objsDecls_append pre xs b]

theorem objsDecls_allBoards (pre : OPath) : ∀ (l : List Decl) (o : List OPath),
    l.all isBoards = true → objsDecls pre o l = o
  | [], _, _ => by simp [objsDecls]
  | x :: xs, o, h => by
    simp only [List.all_cons, Bool.and_eq_true] at h
    simp [objsDecls, objsDecl_boards pre o h.1, objsDecls_allBoards pre xs o h.2]

theorem blKept_allBoards : ∀ l : List Decl, (blKept l).all isBoards = true
  | [] => by simp [blKept]
  | x :: xs => by
    cases h : isKept x
    · simp [blKept, h, blKept_allBoards xs]
    · simp [blKept, h, blDecl_isBoards, isKept_isBoards h, blKept_allBoards xs]

mutual
  theorem objsDecl_bl : ∀ (d : Decl) (pre : OPath) (o : List OPath), objsDecl pre o (blDecl d) = objsDecl pre o d
    | .obj p body, pre, o => by
      simp only [blDecl, objsDecl]
      rw [objsDecls_append, objsDecls_allBoards _ _ _ (blKept_allBoards body), objsDecls_blNon body]
    | .boards k bs, _, _ => by simp [blDecl, objsDecl]
    | .board n body, _, _ => by simp [blDecl, objsDecl]
  theorem objsDecls_blNon : ∀ (l : List Decl) (pre : OPath) (o : List OPath),
      objsDecls pre o (blNon l) = objsDecls pre o l
    | [], _, _ => by simp [blNon]
    | x :: xs, pre, o => by
      cases hb : isBoards x
      · simp [blNon, hb, objsDecls, objsDecl_bl x, objsDecls_blNon xs]
      · simp [blNon, hb, objsDecls, objsDecl_boards pre o hb, objsDecls_blNon xs]
end

/-! ### board roots -/

theorem evalDecls_append : ∀ (a b : List Decl) (s : St), evalDecls s (a ++ b) = evalDecls (evalDecls s a) b
  | [], _, _ => by simp [evalDecls]
  | x :: xs, b, s => by simp [evalDecls, evalDecls_append xs b]

/-- an empty board block changes nothing -/
theorem evalDecl_emptyBoards (s : St) {d : Decl} (hb : isBoards d = true) (hk : isKept d = false) : evalDecl s d = s := by
  cases d with
  | boards k bs =>
    cases bs with
    | nil => cases k <;> simp [evalDecl, evalLayers, evalScenarios, evalSteps]
    | cons _ _ => simp [isKept] at hk
  | _ => simp [isBoards] at hb

def isLayers : Decl → Bool
  | .boards .layers _ => true
  | _ => false

/-- a layers block commutes with any declaration that is not a board block -/
theorem layers_comm (s : St) {x d : Decl} (hx : isBoards x = false) (hd : isLayers d = true) :
    evalDecl (evalDecl s x) d = evalDecl (evalDecl s d) x := by
  cases d with
  | boards k bs =>
    cases k with
    | layers =>
      cases x with
      | obj p body => simp [evalDecl]
      | boards k' bs' => simp [isBoards] at hx
      | board n body => simp [evalDecl]
    | _ => simp [isLayers] at hd
  | _ => simp [isLayers] at hd

theorem layers_move : ∀ (xs ys : List Decl) (s : St) {d : Decl}, xs.all (fun x => !isBoards x) = true → isLayers d = true →
    evalDecls s (xs ++ d :: ys) = evalDecls (evalDecl s d) (xs ++ ys)
  | [], ys, s, d, _, _ => by simp [evalDecls]
  | x :: xs, ys, s, d, hx, hd => by
    simp only [List.all_cons, Bool.and_eq_true, Bool.not_eq_true'] at hx
    simp only [List.cons_append, evalDecls]
    rw [layers_move xs ys (evalDecl s x) (by simpa using hx.2) hd, layers_comm s hx.1 hd]

theorem blNon_nonBoards : ∀ l : List Decl, (blNon l).all (fun x => !isBoards x) = true
  | [] => by simp [blNon]
  | x :: xs => by
    cases h : isBoards x
    · simp [blNon, h, blDecl_isBoards, blNon_nonBoards xs]
    · simp [blNon, h, blNon_nonBoards xs]

theorem blNon_allBoards : ∀ l : List Decl, l.all isBoards = true → blNon l = []
  | [], _ => by simp [blNon]
  | x :: xs, h => by
    simp only [List.all_cons, Bool.and_eq_true] at h
    simp [blNon, h.1, blNon_allBoards xs h.2]

theorem blDecl_isLayers (d : Decl) : isLayers (blDecl d) = isLayers d := by
  cases d with
  | boards k bs => cases k <;> simp [blDecl, isLayers]
  | _ => simp [blDecl, isLayers]

theorem okL_of_allBoards_tail {d : Decl} {ds : List Decl} (h : okL (d :: ds) = true) : okD d = true ∧ okL ds = true := by
  simp only [okL, Bool.and_eq_true] at h
  exact ⟨h.1.1, h.2⟩

mutual
  theorem evalDecl_bl : ∀ (d : Decl) (s : St), okD d = true → evalDecl s (blDecl d) = evalDecl s d
    | .obj p body, s, _ => by
      simp only [blDecl, evalDecl]
      rw [objsDecls_append, objsDecls_allBoards _ _ _ (blKept_allBoards body), objsDecls_blNon body]
    | .boards k bs, s, h => by
      simp only [okD] at h
      cases k <;> simp [blDecl, evalDecl, evalLayers_bl bs h, evalScenarios_bl bs _ h, evalSteps_bl bs _ h]
    | .board n body, s, _ => by simp [blDecl, evalDecl]

  theorem evalLayers_bl : ∀ (bs : List Decl), okAll bs = true → evalLayers (blAll bs) = evalLayers bs
    | [], _ => by simp [blAll]
    | .board n body :: rest, h => by
      simp only [okAll, okD, Bool.and_eq_true] at h
      simp [blAll, blDecl, evalLayers, evalDecls_bl body _ h.1, evalLayers_bl rest h.2]
    | .obj p body :: rest, h => by
      simp only [okAll, okD, Bool.and_eq_true] at h
      simp [blAll, blDecl, evalLayers, evalLayers_bl rest h.2]
    | .boards k bs :: rest, h => by
      simp only [okAll, Bool.and_eq_true] at h
      simp [blAll, blDecl, evalLayers, evalLayers_bl rest h.2]

  theorem evalScenarios_bl : ∀ (bs : List Decl) (base : List OPath), okAll bs = true →
      evalScenarios base (blAll bs) = evalScenarios base bs
    | [], _, _ => by simp [blAll]
    | .board n body :: rest, base, h => by
      simp only [okAll, okD, Bool.and_eq_true] at h
      simp [blAll, blDecl, evalScenarios, evalDecls_bl body _ h.1, evalScenarios_bl rest base h.2]
    | .obj p body :: rest, base, h => by
      simp only [okAll, okD, Bool.and_eq_true] at h
      simp [blAll, blDecl, evalScenarios, evalScenarios_bl rest base h.2]
    | .boards k bs :: rest, base, h => by
      simp only [okAll, Bool.and_eq_true] at h
      simp [blAll, blDecl, evalScenarios, evalScenarios_bl rest base h.2]

  theorem evalSteps_bl : ∀ (bs : List Decl) (base : List OPath), okAll bs = true →
      evalSteps base (blAll bs) = evalSteps base bs
    | [], _, _ => by simp [blAll]
    | .board n body :: rest, base, h => by
      simp only [okAll, okD, Bool.and_eq_true] at h
      simp [blAll, blDecl, evalSteps, evalDecls_bl body _ h.1, evalSteps_bl rest _ h.2]
    | .obj p body :: rest, base, h => by
      simp only [okAll, okD, Bool.and_eq_true] at h
      simp [blAll, blDecl, evalSteps, evalSteps_bl rest base h.2]
    | .boards k bs :: rest, base, h => by
      simp only [okAll, Bool.and_eq_true] at h
      simp [blAll, blDecl, evalSteps, evalSteps_bl rest base h.2]

  /-- moving the board blocks of a board root last (and dropping the empty ones) preserves the evaluation -/
  theorem evalDecls_bl : ∀ (l : List Decl) (s : St), okL l = true →
      evalDecls s (blNon l ++ blKept l) = evalDecls s l
    | [], s, _ => by simp [blNon, blKept]
    | d :: ds, s, h => by
      have hd := okL_of_allBoards_tail h
      cases hb : isBoards d
      · -- not a board block: stays in place
        have hk : isKept d = false := by
          cases hk : isKept d
          · rfl
          · have := isKept_isBoards hk; simp [hb] at this
        simp only [blNon, blKept, hb, hk, Bool.false_eq_true, if_false, List.cons_append, evalDecls]
        rw [evalDecl_bl d s hd.1, evalDecls_bl ds _ hd.2]
      · cases hk : isKept d
        · -- empty board block: dropped, and it changed nothing
          simp only [blNon, blKept, hb, hk, if_true, Bool.false_eq_true, if_false, evalDecls]
          rw [evalDecl_emptyBoards s hb hk, evalDecls_bl ds s hd.2]
        · simp only [blNon, blKept, hb, hk, if_true, evalDecls]
          cases hl : isLayers d
          · -- a non-empty scenarios / steps block: by `okL` only board blocks follow, nothing moves past it
            have hinh : inherits d = true := by
              cases d with
              | boards k bs =>
                cases bs with
                | nil => simp [isKept] at hk
                | cons _ _ => cases k <;> simp_all [inherits, isLayers]
              | _ => simp [isBoards] at hb
            have hall : ds.all isBoards = true := by
              simp only [okL, Bool.and_eq_true, Bool.or_eq_true, Bool.not_eq_true'] at h
              rcases h.1.2 with h' | h'
              · simp [hinh] at h'
              · exact h'
            have ih := evalDecls_bl ds (evalDecl s d) hd.2
            rw [blNon_allBoards ds hall, List.nil_append] at ih ⊢
            simp only [evalDecls]
            rw [evalDecl_bl d s hd.1, ih]
          · -- a non-empty layers block: commutes with the non-board declarations it is moved past
            rw [layers_move (blNon ds) (blKept ds) s (blNon_nonBoards ds) (by rw [blDecl_isLayers]; exact hl),
              evalDecl_bl d s hd.1, evalDecls_bl ds _ hd.2]
end

end D2V.FmtSem
